import AsynqModel.Lib.Batching
/-!
  Extension of the model of asynq/batching.py (`AsynqModel.Lib.Batching`) from ONE service with one history to
  SEVERAL services whose histories are interleaved, plus two things a client can do between two operations:

  * several services ("batch kinds with an active-batch slot") live side by side: harness subclasses of BatchBase, each
    with its own slot, and built-in DebugBatches under different names - the slot of a DebugBatch is the entry
    `_debug_batch_state.batches[name]` of a thread-local dictionary (batching.py:239-241, 254-258, 279-285), the name
    being ANY dictionary key (a str, None, an int, a tuple, a member of a `(str, Enum)` class, an object with its own
    `__eq__`/`__hash__`), and a service may live on a thread of its own.  The model gives every service its own `St`;
    an operation on service v is `step` on component v and touches no other component (that is how the code is
    written: the slot is looked up under `self.name` only, batching.py:255);
  * `newBatch v`: the client constructs a batch object of service v directly (`MyBatch()`; the public class
    `DebugBatch(name, index)`, batching.py:249-252): a pending, empty batch that does NOT hold the slot.  Items can be
    put on it (`addTo`), it can be flushed / cancelled / asked for its value like any batch, and finishing it must not
    replace the active batch (`_try_switch_active_batch` compares identities, batching.py:255);
  * `setKeep k`: the debug option KEEP_DEPENDENCIES is switched while batches are pending (mid-flight).  `flush()`
    reads it when it runs (`_debug.options.KEEP_DEPENDENCIES`, batching.py:90), not when the batch or the item was
    made; it is one global option, so it changes for every service at once.

  The observer `watchM` judges an interleaved history with the single-service observer `specStep` of
  `AsynqModel.Lib.Batching`: every observation of service v against the snapshot that the PREVIOUS observation of
  service v left behind - so an operation on one service that changes anything in another one is rejected at the
  other service's next observation (the harness ends every history with one query per service).
-/
namespace AsynqModel.Batching

/-- `MyBatch()` / `DebugBatch(name, index)` constructed by the client: one more pending, empty batch; the slot is
    left alone -/
def St.addBatch (s : St) : St := { s.pushBatch with active := s.active }

/-- the debug option KEEP_DEPENDENCIES as it is now -/
def St.withKeep (s : St) (k : Bool) : St := { s with keep := k }

inductive MOp where
  | op (v : Nat) (o : Op)        -- operation o on service v
  | newBatch (v : Nat)           -- a free-standing batch of service v
  | setKeep (k : Bool)           -- `asynq.debug.options.KEEP_DEPENDENCIES = k`
  deriving Repr, DecidableEq, Inhabited

inductive MObs where
  | op (v : Nat) (ob : Obs)
  | newBatch (v : Nat) (evs : List Ev) (post : St)   -- events logged while the object was constructed; snapshot after
  | setKeep (k : Bool)
  | invalid                       -- the operation names a service that does not exist (the harness does nothing)
  deriving Repr, DecidableEq, Inhabited

def MObs.toMOp : MObs → MOp
  | .op v ob => .op v ob.op
  | .newBatch v _ _ => .newBatch v
  | .setKeep k => .setKeep k
  | .invalid => .op 1000000 (.isFlushed 0)

/-- one step of an interleaved history; `scriptss[v]` = the flush scripts of service v -/
def stepM (scriptss : List (List Script)) (sts : List St) : MOp → List St × MObs
  | .op v o =>
    match sts[v]? with
    | none => (sts, .invalid)
    | some s =>
      let r := observe (scriptss.getD v []) s o
      (sts.set v r.1, .op v r.2)
  | .newBatch v =>
    match sts[v]? with
    | none => (sts, .invalid)
    | some s => (sts.set v s.addBatch, .newBatch v [] s.addBatch)
  | .setKeep k => (sts.map (·.withKeep k), .setKeep k)

def runM (scriptss : List (List Script)) (sts : List St) : List MOp → List MObs
  | [] => []
  | m :: ms => let r := stepM scriptss sts m; r.2 :: runM scriptss r.1 ms

def finalM (scriptss : List (List Script)) (sts : List St) : List MOp → List St
  | [] => sts
  | m :: ms => finalM scriptss (stepM scriptss sts m).1 ms

/-- the observer for interleaved histories: `sts[v]` = the snapshot the previous observation of service v left -/
def watchM (sts : List St) : List MObs → Option String
  | [] => none
  | .op v ob :: rest =>
    match sts[v]? with
    | none => some "invalid-service"
    | some pre =>
      match specStep false pre ob with
      | some c => some (c ++ "@" ++ ob.op.name)
      | none => watchM (sts.set v ob.post) rest
  | .newBatch v evs post :: rest =>
    match sts[v]? with
    | none => some "invalid-service"
    | some pre =>
      -- constructing a batch object completes nothing, announces nothing, and does not take the slot
      if evs ≠ [] then some "new-batch-quiet@newBatch"
      else if post ≠ pre.addBatch then some "new-batch-keeps-slot@newBatch"
      else watchM (sts.set v post) rest
  | .setKeep k :: rest => watchM (sts.map (·.withKeep k)) rest
  | .invalid :: rest => watchM sts rest

def initM (kinds : List Kind) (keep : Bool) : List St := kinds.map fun k => init k keep

/-- `Spec.C11` for several services: the whole interleaved history is accepted -/
def specM (kinds : List Kind) (keep : Bool) (obs : List MObs) : Bool := (watchM (initM kinds keep) obs).isNone

def specMClause (kinds : List Kind) (keep : Bool) (obs : List MObs) : String :=
  match watchM (initM kinds keep) obs with
  | none => "ok"
  | some c => c

end AsynqModel.Batching
