import AsynqModel.Proofs.P7Final
import AsynqModel.Proofs.P7Bridge
import AsynqModel.Proofs.P7Cold
import AsynqModel.Theorems.Acyclic
/-!
# C07 / C06, second part: "after the computation ends, normally or with an error, every overridden value is back to
# what it was before", and "ending with a pause on exit"

Hypotheses of all theorems: the state is reachable, the MAX_TASK_STACK_SIZE guard has not fired (`guardFired = false`:
the guard throws the whole task stack away, suspended tasks keep their contexts resumed) and no NonAsyncContext
exists (`Inv.noNonAsync`: a task failed by `NonAsyncContext.pause()` may keep running and leave contexts behind).

UNCONDITIONAL (all reachable states):
* `C07_all_paused_at_top` - when no top-level computation is in progress (`ctl = []`) every context is paused;
* `C06_paused_at_ret`     - below every `.ret` event of the trace the last resume/pause event of every context is a
                            pause (every `ret`-time snapshot has no active context).

RELATIVE to `NoRevisit` (`P7.ReachNR`: every step of the run satisfies `P7.noRevisit` - the step pushes no task with
resumed contexts onto the task stack; this follows from acyclicity of the await graph, proved separately):
* `C07_lifo_of_norevisit`       - the global resume/pause word of the trace is well bracketed: every pause pauses the
                                  most recently resumed, still resumed context, no context is resumed twice; the contexts
                                  resumed at the end are `P7.rstack s`, read off the task stack;
* `C07_values_of_norevisit`     - at any time every scoped value is the value of the innermost resumed override;
* `C07_restored_of_norevisit`   - with `ctl = []` every scoped value is back to its default 0;
* `C07_svals_zero_of_norevisit` - every `.svals` event of the trace reports only zeros.

`C07_norevisit_of_cold` reduces `NoRevisit` to two local conditions on the states that push onto the task stack.

UNCONDITIONAL FOR WELL-SCOPED PROGRAMS (`P10.WSReach s`: reachable when every top-level computation is
`P10.WellScoped` - every `Ref` names a future that exists; an ill-scoped program CAN build an await cycle, see
`Theorems/Acyclic.lean`, `exBad`): `C07_noRevisit` (`WSReach s → ReachNR s`, from the acyclicity of the await graph,
P10), and with it `C07_lifo`, `C07_values`, `C07_restored_at_top`, `C07_svals_zero`.
-/
namespace AsynqModel.Core
open P5 P7

/-- **C07_all_paused_at_top**: between top-level computations every context object is paused. -/
theorem C07_all_paused_at_top (s : State) (h : Reach s) (hg : s.guardFired = false)
    (hna : Inv.noNonAsync s = true) (hctl : s.ctl = []) :
    ∀ (c : Nat) (x : CtxSt), s.ctxs[c]? = some x → x.resumed = false :=
  (all_paused h hg (na_of_noNonAsync hna) hctl).2

/-- **C06_paused_at_ret** ("ending with a pause on exit"): at the moment a top-level computation returns (`.ret o`,
    normally or with an error) the newest resume/pause event of every context, if any, is a pause. -/
theorem C06_paused_at_ret (s : State) (h : Reach s) (hg : s.guardFired = false) (hna : Inv.noNonAsync s = true)
    (post pre : List Event) (o : Outcome) (htr : s.trace = post ++ .ret o :: pre) (c : Nat) :
    (ctxWord pre c).getLast? ≠ some true := by
  unfold ctxWord
  rw [List.getLast?_reverse]
  exact ret_paused h hg (na_of_noNonAsync hna) post o pre htr c

/-- **C07_lifo_of_norevisit**: the resume/pause events of ALL contexts form one well-bracketed word. -/
theorem C07_lifo_of_norevisit (s : State) (h : ReachNR s) (hg : s.guardFired = false)
    (hna : Inv.noNonAsync s = true) :
    lifo s.trace = some (rstack s) ∧
    (∀ post pre c, s.trace = post ++ .ctx false c :: pre → ∃ R, lifo pre = some (c :: R)) ∧
    (∀ post pre c, s.trace = post ++ .ctx true c :: pre → ∃ R, lifo pre = some R ∧ c ∉ R) := by
  have m := M_reach h hg (na_of_noNonAsync hna)
  refine ⟨m.lifo, ?_, ?_⟩
  · intro post pre c htr
    have := m.lifo
    rw [htr] at this
    obtain ⟨R', hR'⟩ := lifo_suffix this
    exact ⟨R', lifo_pause_top hR'⟩
  · intro post pre c htr
    have := m.lifo
    rw [htr] at this
    obtain ⟨R', hR'⟩ := lifo_suffix this
    obtain ⟨R, h1, h2, _⟩ := lifo_resume_fresh hR'
    exact ⟨R, h1, h2⟩

/-- **C07_values_of_norevisit**: every scoped value is the value of the innermost override among the resumed contexts
    (default 0), and every resumed override context has saved the value the contexts below it give. -/
theorem C07_values_of_norevisit (s : State) (h : ReachNR s) (hg : s.guardFired = false)
    (hna : Inv.noNonAsync s = true) :
    (∀ var, s.svGet var = expect s (rstack s) var) ∧ svChain s (rstack s) ∧ (rstack s).Nodup := by
  have m := M_reach h hg (na_of_noNonAsync hna)
  exact ⟨m.top, m.chain, m.nodup⟩

/-- **C07_restored_of_norevisit**: after the computation every scoped value is back to its default. -/
theorem C07_restored_of_norevisit (s : State) (h : ReachNR s) (hg : s.guardFired = false)
    (hna : Inv.noNonAsync s = true) (hctl : s.ctl = []) : ∀ var, s.svGet var = 0 :=
  (restored h hg (na_of_noNonAsync hna) hctl).1

/-- **C07_svals_zero_of_norevisit**: the scoped values reported at the end of every top-level computation are zero. -/
theorem C07_svals_zero_of_norevisit (s : State) (h : ReachNR s) (hg : s.guardFired = false)
    (hna : Inv.noNonAsync s = true) (l : List (Nat × Val)) (hl : Event.svals l ∈ s.trace) :
    ∀ p ∈ l, p.2 = Val.a 0 :=
  svals_zero h hg (na_of_noNonAsync hna) l hl

/-- **C07_norevisit_of_cold**: how to discharge `NoRevisit`.  If in every reachable state (guard not fired, no
    NonAsyncContext) the two kinds of pushes are "cold" (`P7.Cold`: the root of a `wait_for` entering `_execute` has no
    resumed contexts; the uncomputed dependencies of a task visited for the first time are not the task itself and have
    no resumed contexts), then every such state is reachable by a `noRevisit` run, and the four theorems above hold
    for all reachable states. -/
theorem C07_norevisit_of_cold
    (hc : ∀ s, Reach s → s.guardFired = false → Inv.noNonAsync s = true → Cold s)
    (s : State) (h : Reach s) (hg : s.guardFired = false) (hna : Inv.noNonAsync s = true) : ReachNR s :=
  reachNR_of_cold (fun s h hg hna => hc s h hg (noNonAsync_of_na hna)) h hg (na_of_noNonAsync hna)

/-! ### well-scoped programs: `NoRevisit` holds -/

/-- **C07_noRevisit**: in a well-scoped program no step pushes a task with resumed contexts onto the task stack
    (a task whose contexts are resumed is on the stack below entries that all precede it in the creation order, while
    everything pushed - a dependency of the top task, the root of a nested `wait_for` - precedes the top task). -/
theorem C07_noRevisit (s : State) (h : P10.WSReach s) (hg : s.guardFired = false) (hna : Inv.noNonAsync s = true) :
    ReachNR s :=
  reachNR_of_ws h hg (na_of_noNonAsync hna)

/-- **C07_lifo**: the resume/pause events of ALL contexts form one well-bracketed word. -/
theorem C07_lifo (s : State) (h : P10.WSReach s) (hg : s.guardFired = false) (hna : Inv.noNonAsync s = true) :
    lifo s.trace = some (rstack s) ∧
    (∀ post pre c, s.trace = post ++ .ctx false c :: pre → ∃ R, lifo pre = some (c :: R)) ∧
    (∀ post pre c, s.trace = post ++ .ctx true c :: pre → ∃ R, lifo pre = some R ∧ c ∉ R) :=
  C07_lifo_of_norevisit s (C07_noRevisit s h hg hna) hg hna

/-- **C07_values**: every scoped value is the value of the innermost resumed override. -/
theorem C07_values (s : State) (h : P10.WSReach s) (hg : s.guardFired = false) (hna : Inv.noNonAsync s = true) :
    (∀ var, s.svGet var = expect s (rstack s) var) ∧ svChain s (rstack s) ∧ (rstack s).Nodup :=
  C07_values_of_norevisit s (C07_noRevisit s h hg hna) hg hna

/-- **C07_restored_at_top**: after the computation ends, normally or with an error, every overridden value is back to
    what it was before (its default). -/
theorem C07_restored_at_top (s : State) (h : P10.WSReach s) (hg : s.guardFired = false)
    (hna : Inv.noNonAsync s = true) (hctl : s.ctl = []) : ∀ var, s.svGet var = 0 :=
  C07_restored_of_norevisit s (C07_noRevisit s h hg hna) hg hna hctl

/-- **C07_svals_zero**: every `.svals` event of the trace reports only zeros. -/
theorem C07_svals_zero (s : State) (h : P10.WSReach s) (hg : s.guardFired = false) (hna : Inv.noNonAsync s = true)
    (l : List (Nat × Val)) (hl : Event.svals l ∈ s.trace) : ∀ p ∈ l, p.2 = Val.a 0 :=
  C07_svals_zero_of_norevisit s (C07_noRevisit s h hg hna) hg hna l hl

/-! ### non-vacuity -/

/-- two nested overrides (both of variable 1), blocks on a batch item -/
def C07b_childA : Body :=
  .withCtx (.override 1 10)
    (.withCtx (.override 1 11)
      (.item 0 1 .ok (.yld (.f (.own 0)) (.read 1 .endwith) (.raise 0)))
      (.read 1 .endwith))
    (.ret 1)

/-- two nested overrides (variables 1 and 2), blocks on a batch item of the same batch -/
def C07b_childB : Body :=
  .withCtx (.override 1 20)
    (.withCtx (.override 2 21)
      (.item 0 2 .ok (.yld (.f (.own 0)) (.read 1 (.read 2 .endwith)) (.raise 0)))
      .endwith)
    (.ret 2)

/-- the parent awaits both siblings inside an override of variable 3 -/
def C07b_prog : Body :=
  .withCtx (.override 3 30)
    (.spawn C07b_childA [] (.spawn C07b_childB []
      (.yld (.tup [.f (.own 0), .f (.own 1)]) (.read 1 (.read 3 .endwith)) (.raise 1))))
    (.read 3 (.ret 0))

def C07b_init : State := initState {} [(.value, C07b_prog)] []
def C07b_final : State := runFuel 100 C07b_init

/-- the run satisfies `noRevisit` at every step, so its end state is `ReachNR` -/
theorem C07b_final_reachNR : ReachNR C07b_final := by
  have h : (runFuelNR 100 C07b_init).isSome = true := by decide
  exact reachNR_of_checked 100 _ (ReachNR.init _ _ _) h

/-- the program is well-scoped, so its run is `WSReach` and the unconditional theorems apply to it -/
example : P10.WellScoped C07b_prog 0 0 = true := by decide

theorem C07b_final_ws : P10.WSReach C07b_final :=
  wsreach_runFuel {} _ [] (by intro p hp; simp at hp; subst hp; decide) 100

example : ∀ var, C07b_final.svGet var = 0 :=
  C07_restored_at_top _ C07b_final_ws (by decide) (by decide) (by decide)

/-- the hypotheses of all theorems hold for the end state, and it has contexts -/
example : C07b_final.isDone = true ∧ C07b_final.stuck = none ∧ C07b_final.guardFired = false ∧
    Inv.noNonAsync C07b_final = true ∧ C07b_final.ctl = [] ∧ C07b_final.ctxs.length = 5 := by decide

/-- the global resume/pause word (R = true): contexts 1,2 of sibling A and 3,4 of sibling B nest inside context 0 of
    the parent, first until both siblings block on their items, then again when they are continued -/
example : (C07b_final.trace.reverse.filterMap fun e => match e with | .ctx b c => some (b, c) | _ => none) =
    [(true, 0), (true, 1), (true, 2), (false, 2), (false, 1), (true, 3), (true, 4), (false, 4), (false, 3), (false, 0),
     (true, 0), (true, 1), (true, 2), (false, 2), (false, 1), (true, 3), (true, 4), (false, 4), (false, 3), (false, 0)] := by
  decide

/-- it is well bracketed, nothing is left resumed, all scoped values are 0 and there is a `.svals` event reporting them
    (its payload is `sv` sorted by `mergeSort`, which `decide` cannot unfold); the reads inside the with-blocks saw the
    innermost overrides -/
example : lifo C07b_final.trace = some [] ∧ rstack C07b_final = [] ∧
    C07b_final.sv = [(3, 0), (1, 0), (2, 0)] ∧
    (C07b_final.trace.filterMap fun e => match e with | .svals _ => some () | _ => none) = [()] ∧
    (C07b_final.trace.reverse.filterMap fun e => match e with | .read t v x => some (t, v, x) | _ => none) =
      [(1, 1, .a 11), (1, 1, .a 10), (2, 1, .a 20), (2, 2, .a 21), (0, 1, .a 0), (0, 3, .a 30), (0, 3, .a 0)] := by
  decide

/-- in the middle of the run (sibling A is inside both of its with-blocks, the parent is between its two visits):
    the resumed contexts of two tasks form one stack, innermost first, and the scoped values are those of that stack -/
example : let s := runFuel 14 C07b_init
    s.stack = [1, 2, 0] ∧ rstack s = [2, 1, 0] ∧ lifo s.trace = some [2, 1, 0] ∧
    s.svGet 1 = 11 ∧ s.svGet 3 = 30 ∧ expect s [2, 1, 0] 1 = 11 ∧ oldOf s 2 = 10 ∧ oldOf s 1 = 0 := by decide

/-- `lifo` is not trivially `some`: a pause of a context that is not the most recently resumed one, and a second
    resume of a resumed context, are rejected (trace newest first) -/
example : lifo [.ctx false 0, .ctx true 1, .ctx true 0] = none ∧ lifo [.ctx true 0, .ctx true 0] = none ∧
    lifo [.ctx false 0] = none ∧ lifo [.ctx false 0, .ctx false 1, .ctx true 1, .ctx true 0] = some [] := by decide

/-- `noRevisit` is not trivially true: `wait_for` of a task whose contexts are resumed violates it -/
example : noRevisit { ctl := [.waitEnter 0], futs := [{ kind := .task, ts := { ctxActive := true, ctxs := [0] } }],
                      ctxs := [{ resumed := true, owner := some 0 }] } = false := by decide

end AsynqModel.Core
