import AsynqModel.Lib.Futures
import AsynqModel.Proofs.Futures
/-!
# C10  A future is completed at most once and reports one consistent outcome

Theorems about the model `AsynqModel.Futures` for every future kind and every history of operations.
-/
namespace AsynqModel.Futures

/-- set at most once: nothing but `reset_unsafe` changes the outcome of a computed future -/
theorem C10_single_assignment (f : Fut) (o : Outc) (op : Op) (h : f.out = some o) (hr : op ≠ .reset) :
    (step f op).1.out = some o := by
  cases op <;> simp_all [step] <;> (try split) <;> simp_all

/-- a second `set_value` / `set_error` raises FutureIsAlreadyComputed, changes nothing and notifies nobody -/
theorem C10_failed_set_noop (f : Fut) (o : Outc) (h : f.out = some o) (x : Nat) :
    step f (.setValue x) = (f, .raised .alreadyComputed, []) ∧
    step f (.setError x) = (f, .raised .alreadyComputed, []) := by
  simp [step, h]

/-- once computed, `value()`, `error()`, calling the future and `is_computed()` report that outcome and
    change nothing (in particular the provider does not run again) -/
theorem C10_reads_stable (f : Fut) (o : Outc) (h : f.out = some o) :
    step f .value = (f, readValue o, []) ∧ step f .call = (f, readValue o, []) ∧
    step f .error = (f, readError o, []) ∧ step f .isComputed = (f, .bool true, []) := by
  simp [step, h]

/-- a completion (uncomputed → computed, by any operation) notifies every subscriber exactly once, in
    subscription order, and each sees the new outcome (raising subscribers do not stop the others) -/
theorem C10_notify_once_after_visible (f : Fut) (op : Op) (o : Outc)
    (h0 : f.out = none) (h1 : (step f op).1.out = some o) :
    (step f op).2.2 = f.subs.map (fun s => { sub := s.1, seen := some o }) := by
  cases op <;> simp only [step, h0] at h1 ⊢
  case isComputed => simp_all
  case reset => simp_all
  case subscribe => split at h1 <;> simp_all
  all_goals (cases hk : f.kind <;> cases ha : f.alive <;> simp_all [compute, complete])

/-- the provider / task body runs at most once per `reset_unsafe()` (plus once) over any history -/
theorem C10_provider_once (k : Kind) (ops : List Op) :
    (finalState (init k) ops).runs ≤ 1 + ops.count .reset := by
  have := runs_bound k ops (watchInit k) (init k) (rel_init k)
  have h0 : (watchInit k).resets = 0 := by cases k <;> rfl
  omega

/-- **C10 as a whole**: for every kind of future and every history of operations, the observations of the
    model are accepted by the observer `spec` - the same Boolean function the check evaluates on the
    observations of the real implementation. -/
theorem C10_spec_holds (k : Kind) (ops : List Op) : spec k (run (init k) ops) = true := by
  obtain ⟨w', h⟩ := watchRun_ok k ops (watchInit k) (init k) (rel_init k)
  simp [spec, h]

/-- ConstFuture and ErrorFuture are complete from construction -/
theorem C10_const_complete (v e : Nat) :
    (init (.const v)).out = some (.val v) ∧ (init (.error e)).out = some (.err e) := by
  simp [init]

/-! non-vacuity: a concrete history with a raising subscriber, a failed set, a reset and a recomputation -/
example : spec (.lazyErr 2)
    (run (init (.lazyErr 2)) [.subscribe 1 true, .subscribe 2 false, .error, .setValue 3, .value, .reset, .value]) = true := by
  decide
example : (run (init (.lazyErr 2)) [.subscribe 1 true, .subscribe 2 false, .error]).getLast?.map (·.cbs.length) = some 2 := by
  decide
/-- the observer is not trivially true: it rejects a history in which a computed future changes its value -/
example : spec (.const 1) [{ op := .value, res := .ok 2, cbs := [], after := some (.val 2), runs := 0 }] = false := by
  decide

end AsynqModel.Futures
