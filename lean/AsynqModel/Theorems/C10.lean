import AsynqModel.Lib.Futures
import AsynqModel.Proofs.Futures
/-!
# C10  A future is completed at most once and reports one consistent outcome

Theorems about the model `AsynqModel.Futures` for every future kind and every history of operations.
-/
namespace AsynqModel.Futures

/-- set at most once: nothing but `reset_unsafe` changes the outcome of a computed future -/
theorem C10_single_assignment (f : Fut) (o : Outc) (op : Op) (h : f.out = some o) (hr : op ≠ .reset) :
    (step f op).1.out = some o := by
  cases op <;> simp_all [step] <;> (repeat' split) <;> simp_all

/-- a second `set_value` / `set_error` raises FutureIsAlreadyComputed, changes nothing and notifies nobody -/
theorem C10_failed_set_noop (f : Fut) (o : Outc) (h : f.out = some o) (x : Nat) :
    step f (.setValue x) = (f, .raised .alreadyComputed, []) ∧
    step f (.setError x) = (f, .raised .alreadyComputed, []) := by
  simp [step, h]

/-- once computed, `value()`, `error()`, calling the future and `is_computed()` report that outcome and
    change nothing (in particular the provider does not run again) -/
theorem C10_reads_stable (f : Fut) (o : Outc) (h : f.out = some o) :
    step f .value = (f, readValue o, []) ∧ step f .call = (f, readValue o, []) ∧
    step f .error = (f, readError o, []) ∧ step f .isComputed = (f, .bool true, []) := by
  simp [step, h]

/-- a completion (uncomputed → computed, by any operation) notifies every subscriber exactly once, in
    subscription order, and each sees the new outcome - WHATEVER the subscribers do while they are notified (raise,
    unsubscribe themselves or another handler, subscribe a new handler, try to complete the future again) -/
theorem C10_notify_once_after_visible (f : Fut) (op : Op) (o : Outc)
    (h0 : f.out = none) (h1 : (step f op).1.out = some o) :
    (step f op).2.2 = f.subs.map (notif o) := by
  cases op <;> simp only [step, h0] at h1 ⊢
  case isComputed => simp_all
  case reset => simp_all
  case subscribe => split at h1 <;> simp_all
  case unsubscribe => (repeat' split at h1) <;> simp_all
  all_goals (cases hk : f.kind <;> cases ha : f.alive <;> simp_all [compute, complete])

/-- counting form: handler `j` is notified exactly as often as it is subscribed (once, for the harness' distinct ids),
    for every list of subscriber behaviours -/
theorem C10_notify_count (f : Fut) (op : Op) (o : Outc) (j : Nat)
    (h0 : f.out = none) (h1 : (step f op).1.out = some o) :
    (((step f op).2.2).map (·.sub)).count j = (f.subs.map (·.1)).count j := by
  rw [C10_notify_once_after_visible f op o h0 h1]
  simp [List.map_map, Function.comp_def, notif]

/-- the handler list a completion leaves behind is the snapshot edited by the notified handlers, in order
    (so the next completion after `reset_unsafe` notifies exactly those) -/
theorem C10_subs_after_completion (f : Fut) (op : Op) (o : Outc)
    (h0 : f.out = none) (h1 : (step f op).1.out = some o) :
    (step f op).1.subs = afterNotify f.subs := by
  cases op <;> simp only [step, h0] at h1 ⊢
  case isComputed => simp_all
  case reset => simp_all
  case subscribe => split at h1 <;> simp_all
  case unsubscribe => (repeat' split at h1) <;> simp_all
  all_goals (cases hk : f.kind <;> cases ha : f.alive <;> simp_all [compute, complete])

/-- handlers that do not touch the handler list (well-behaved, raising, re-entrant) all stay subscribed -/
theorem C10_passive_subs_stay (subs : List Sub)
    (h : ∀ s ∈ subs, s.2 = .good ∨ s.2 = .raising ∨ ∃ o, s.2 = .reenter o) : afterNotify subs = subs := by
  have key : ∀ (l acc : List Sub), (∀ s ∈ l, s.2 = .good ∨ s.2 = .raising ∨ ∃ o, s.2 = .reenter o) →
      l.foldl applyBeh acc = acc := by
    intro l
    induction l with
    | nil => intros; rfl
    | cons s ss ih =>
      intro acc hl
      have hs := hl s (by simp)
      have : applyBeh acc s = acc := by
        rcases hs with h | h | ⟨o, h⟩ <;> simp [applyBeh, h]
      simp only [List.foldl_cons, this]
      exact ih acc (fun t ht => hl t (by simp [ht]))
  exact key subs subs h

/-- `unsubscribe` forgets the handler (first subscription of that identity) and nothing else; unsubscribing a handler
    that is not subscribed raises and changes nothing; neither notifies anybody nor touches the outcome -/
theorem C10_unsubscribe (f : Fut) (j : Nat) (hk : f.kind.sinking = false) :
    step f (.unsubscribe j) =
      if hasSub f.subs j then ({ f with subs := eraseSub f.subs j }, .unit, [])
      else (f, .raised .notSubscribed, []) := by
  simp [step, hk]

/-- the provider / task body runs at most once per `reset_unsafe()` (plus once) over any history -/
theorem C10_provider_once (k : Kind) (ops : List Op) :
    (finalState (init k) ops).runs ≤ 1 + ops.count .reset := by
  have := runs_bound k ops (watchInit k) (init k) (rel_init k)
  have h0 : (watchInit k).resets = 0 := by cases k <;> rfl
  omega

/-- **C10 as a whole**: for every kind of future and every history of operations, the observations of the
    model are accepted by the observer `spec` - the same Boolean function the check evaluates on the
    observations of the real implementation. -/
theorem C10_spec_holds (k : Kind) (ops : List Op) : spec k (run (init k) ops) = true := by
  obtain ⟨w', h⟩ := watchRun_ok k ops (watchInit k) (init k) (rel_init k)
  simp [spec, h]

/-- ConstFuture and ErrorFuture are complete from construction -/
theorem C10_const_complete (v e : Nat) :
    (init (.const v)).out = some (.val v) ∧ (init (.error e)).out = some (.err e) := by
  simp [init]

/-! non-vacuity: a concrete history with a raising subscriber, a failed set, a reset and a recomputation -/
example : spec (.lazyErr 2)
    (run (init (.lazyErr 2)) [.subscribe 1 .raising, .subscribe 2 .good, .error, .setValue 3, .value, .reset, .value]) = true := by
  decide
example : (run (init (.lazyErr 2)) [.subscribe 1 .raising, .subscribe 2 .good, .error]).getLast?.map (·.cbs.length) = some 2 := by
  decide
/-- a one-shot subscriber does not hide the subscriber registered after it (all four are notified), and it is gone
    for the second completion -/
example : (run (init (.lazyOk 1)) [.subscribe 1 .good, .subscribe 2 .oneShot, .subscribe 3 .good, .subscribe 4 .good,
    .value, .reset, .value]).map (·.cbs.map (·.sub)) = [[], [], [], [], [1, 2, 3, 4], [], [1, 3, 4]] := by
  decide
/-- the observer rejects the history in which the subscriber after the one-shot one is skipped -/
example : spec (.lazyOk 1)
    [{ op := .subscribe 1 .oneShot, res := .unit, cbs := [], after := none, runs := 0 },
     { op := .subscribe 2 .good, res := .unit, cbs := [], after := none, runs := 0 },
     { op := .value, res := .ok 1, cbs := [{ sub := 1, seen := some (.val 1) }], after := some (.val 1), runs := 1 }] = false := by
  decide
/-- ... and a re-entrant subscriber whose second `set_value` is NOT refused -/
example : spec (.lazyOk 1)
    [{ op := .subscribe 1 (.reenter (.val 2)), res := .unit, cbs := [], after := none, runs := 0 },
     { op := .value, res := .ok 1, cbs := [{ sub := 1, seen := some (.val 1), inner := some .unit }],
       after := some (.val 1), runs := 1 }] = false := by
  decide
/-- the observer is not trivially true: it rejects a history in which a computed future changes its value -/
example : spec (.const 1) [{ op := .value, res := .ok 2, cbs := [], after := some (.val 2), runs := 0 }] = false := by
  decide

end AsynqModel.Futures
