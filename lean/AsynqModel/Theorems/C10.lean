import AsynqModel.Lib.Futures
import AsynqModel.Proofs.Futures
/-!
# C10  A future is completed at most once and reports one consistent outcome

Theorems about the model `AsynqModel.Futures` for every future kind of the model (Future with a returning / raising /
self-completing provider, ConstFuture, ErrorFuture, AsyncTask with a non-blocking body) and every history of operations.
Batches, batch items and blocking tasks are not kinds of this model.

The hypothesis of `C10_spec_holds` (`hstats`, `statsOk`: collect_perf_stats() can run for the task) is a fact the harness
probes on the tree under test (true on the current tree); `C10_statsOk_needed` shows that it cannot be dropped.
There is no hypothesis about subscribers: fix 591bc3e made `FutureBase._computed` print `safe_repr(e)` instead of `repr(e)`,
fix 9f49616 guards `safe_repr` itself (it raises when FORMATTING what `repr(e)` raised raises: helpers.py:229-234), so no
subscriber Exception leaves `_computed` (`subEscapes = false`).  `C10_subscriber_repr_error_repaired` replays the history of
the former finding `subscriber-repr-error-escapes`; the observer keeps the clause of that name for a regression.
-/
namespace AsynqModel.Futures

/-- set at most once: nothing but `reset_unsafe` changes the outcome of a computed future.  (The one-operation instance
    of `C10_stable_until_reset`; listed under BY_CONSTRUCTION.) -/
theorem C10_single_assignment (f : Fut) (o : Outc) (op : Op) (h : f.out = some o) (hr : op ≠ .reset) :
    (step f op).1.out = some o := by
  cases op <;> simp_all [step] <;> (repeat' split) <;> simp_all

def Op.isSet : Op → Bool
  | .setValue _ | .setError _ | .setErrorNone => true
  | _ => false

/-- **from then on**: once a future holds `o` (ANY state `f`, reachable or not), every observation of every history
    without `reset_unsafe()` shows the same outcome, notifies nobody and does not run the computation; `value()` / call /
    `error()` / `is_computed()` report `o`, every `set_value` / `set_error` raises FutureIsAlreadyComputed.
    (The one-step facts - `computed_step` in Proofs/Futures.lean - are immediate from the definition of `step`; the content
    here is the induction over the history, in which subscriptions come and go.) -/
theorem C10_stable_until_reset (ops : List Op) (f : Fut) (o : Outc) (h : f.out = some o) (hr : .reset ∉ ops) :
    (finalState f ops).out = some o ∧ (finalState f ops).runs = f.runs ∧
    ∀ ob ∈ run f ops, ob.after = some o ∧ ob.cbs = [] ∧ ob.runs = f.runs ∧
      ((ob.op = .value ∨ ob.op = .call) → ob.res = readValue o) ∧ (ob.op = .error → ob.res = readError o) ∧
      (ob.op = .isComputed → ob.res = .bool true) ∧ (ob.op.isSet = true → ob.res = .raised .alreadyComputed) := by
  induction ops generalizing f with
  | nil => simp [finalState, run, h]
  | cons op ops ih =>
    have hop : op ≠ .reset := fun e => hr (by simp [e])
    have hrest : .reset ∉ ops := fun e => hr (by simp [e])
    obtain ⟨h1, h2, _, h4, h5⟩ := computed_step f o op h hop
    obtain ⟨i1, i2, i3⟩ := ih (observe f op).1 (by simpa [observe_fst] using h1) hrest
    simp only [observe_fst] at i1 i2 i3
    refine ⟨by simpa [finalState, observe_fst] using i1, by simp [finalState, observe_fst, i2, h2], ?_⟩
    intro ob hob
    simp only [run, List.mem_cons] at hob
    rcases hob with rfl | hob
    · simp only [observe, h1, h2, h4, h5, true_and]
      cases op <;> simp_all [stableRes, Op.isSet]
    · have := i3 ob (by simpa [observe_fst] using hob)
      simpa [h2] using this

/-- ConstFuture and ErrorFuture are complete from construction and, without `reset_unsafe()`, stay exactly so through
    every history: each observation shows the constructor's outcome, no notification (their `on_computed` is the sinking
    hook) and no computation.  `ErrorFuture(None)` is complete with the VALUE None (see `C10_set_error_none`). -/
theorem C10_const_complete (k : Kind) (c : Cfg) (hk : k.sinking = true) (ops : List Op) (hr : .reset ∉ ops) :
    (init k c).out = some (match k with | .const v => .val v | .error e => .err e | _ => .val 0) ∧
    ∀ ob ∈ run (init k c) ops, ob.after = (init k c).out ∧ ob.cbs = [] ∧ ob.runs = 0 := by
  cases k <;> simp [Kind.sinking] at hk <;> refine ⟨rfl, ?_⟩ <;> intro ob hob
  all_goals
    have h := (C10_stable_until_reset ops (init _ c) _ rfl hr).2.2 ob hob
    exact ⟨h.1, h.2.1, h.2.2.1⟩

/-- `set_error(None)` (and `ErrorFuture(None)`) complete the future with the VALUE None: on an uncomputed future it is
    `set_value(None)`, on a computed one it is refused like every other set.  Holds by construction of the model (`step`);
    it is stated to make the modelling decision visible - the correspondence run ties it to futures.py. -/
theorem C10_set_error_none (f : Fut) :
    step f .setErrorNone = step f (.setValue 0) ∧ (init .errorNone).out = some (.val 0) := by
  constructor
  · cases h : f.out <;> simp [step, h]
  · rfl

/-- a completion (uncomputed → computed, by any operation) notifies every subscriber exactly once, in
    subscription order, and each sees the new outcome and finds its own re-entrant set refused (`notif o`) - WHATEVER the
    subscribers do while they are notified (raise an Exception - printable or not: the exception channel `firstRaise` /
    `subEscapes` decides what the COMPLETER gets, see `C10_completer_result`, never who is notified -, unsubscribe
    themselves or another handler, subscribe a new handler, try to complete the future again).  What a subscriber sees is READ from the state of the future at the moment it is called
    (`notifyOne`); that it is `some o` follows from `complete` storing before it notifies (lemma `complete_cbs`; a
    subscriber called with the earlier state records `none`, see the examples).  That the real `set_value` / `set_error`
    store before they call `_computed` is tied to the model by the correspondence run only. -/
theorem C10_notify_once_after_visible (f : Fut) (op : Op) (o : Outc)
    (h0 : f.out = none) (h1 : (step f op).1.out = some o) :
    (step f op).2.2 = f.subs.map (notif o) := by
  cases op <;> simp only [step, h0] at h1 ⊢
  case isComputed => simp_all
  case reset => simp_all
  case subscribe => split at h1 <;> simp_all
  case unsubscribe => (repeat' split at h1) <;> simp_all
  case option d on => cases d <;> simp_all
  case raiseIfError => simp_all
  case inspect => simp_all
  all_goals (cases hk : f.kind <;> cases ha : f.alive <;> cases hx : computedExc f <;> cases he : subEscapes f.subs <;>
    simp_all [compute, complete_eq])

/-- counting form: handler `j` is notified exactly as often as it is subscribed (once, for the harness' distinct ids),
    for every list of subscriber behaviours -/
theorem C10_notify_count (f : Fut) (op : Op) (o : Outc) (j : Nat)
    (h0 : f.out = none) (h1 : (step f op).1.out = some o) :
    (((step f op).2.2).map (·.sub)).count j = (f.subs.map (·.1)).count j := by
  rw [C10_notify_once_after_visible f op o h0 h1]
  simp [List.map_map, Function.comp_def, notif]

/-- the handler list a completion leaves behind is the snapshot edited by the notified handlers, in order
    (so the next completion after `reset_unsafe` notifies exactly those) -/
theorem C10_subs_after_completion (f : Fut) (op : Op) (o : Outc)
    (h0 : f.out = none) (h1 : (step f op).1.out = some o) :
    (step f op).1.subs = afterNotify f.subs := by
  cases op <;> simp only [step, h0] at h1 ⊢
  case isComputed => simp_all
  case reset => simp_all
  case subscribe => split at h1 <;> simp_all
  case unsubscribe => (repeat' split at h1) <;> simp_all
  case option d on => cases d <;> simp_all
  case raiseIfError => simp_all
  case inspect => simp_all
  all_goals (cases hk : f.kind <;> cases ha : f.alive <;> cases hx : computedExc f <;> cases he : subEscapes f.subs <;>
    simp_all [compute, complete_eq])

/-- handlers that do not touch the handler list (well-behaved, raising, re-entrant) all stay subscribed
    (the hypothesis is needed: a one-shot handler is gone afterwards, example below) -/
theorem C10_passive_subs_stay (subs : List Sub)
    (h : ∀ s ∈ subs, s.2 = .good ∨ s.2 = .raising ∨ s.2 = .raisingBad ∨ s.2 = .raisingWorse ∨ ∃ o, s.2 = .reenter o) :
    afterNotify subs = subs := by
  have key : ∀ (l acc : List Sub),
      (∀ s ∈ l, s.2 = .good ∨ s.2 = .raising ∨ s.2 = .raisingBad ∨ s.2 = .raisingWorse ∨ ∃ o, s.2 = .reenter o) →
      l.foldl applyBeh acc = acc := by
    intro l
    induction l with
    | nil => intros; rfl
    | cons s ss ih =>
      intro acc hl
      have hs := hl s (by simp)
      have : applyBeh acc s = acc := by
        rcases hs with h | h | h | h | ⟨o, h⟩ <;> simp [applyBeh, h]
      simp only [List.foldl_cons, this]
      exact ih acc (fun t ht => hl t (by simp [ht]))
  exact key subs subs h

/-- `unsubscribe` forgets the handler (first subscription of that identity) and nothing else; unsubscribing a handler
    that is not subscribed raises and changes nothing; neither notifies anybody nor touches the outcome.
    (One unfolding of `step`: kept as a lemma, the claim with content is `C10_unsubscribed_not_notified`.) -/
theorem C10_unsubscribe (f : Fut) (j : Nat) (hk : f.kind.sinking = false) :
    step f (.unsubscribe j) =
      if hasSub f.subs j then ({ f with subs := eraseSub f.subs j }, .unit, [])
      else (f, .raised .notSubscribed, []) := by
  simp [step, hk]

theorem not_mem_eraseSub (subs : List Sub) (j : Nat) (hnd : (subs.map (·.1)).Nodup) :
    j ∉ (eraseSub subs j).map (·.1) := by
  induction subs with
  | nil => simp [eraseSub]
  | cons s ss ih =>
    simp only [List.map_cons, List.nodup_cons] at hnd
    by_cases h : s.1 = j
    · subst h; simpa [eraseSub] using hnd.1
    · have := ih hnd.2
      simp only [eraseSub, beq_iff_eq, h, if_false, List.map_cons, List.mem_cons, not_or]
      exact ⟨fun e => h e.symm, this⟩

theorem not_mem_of_hasSub_false (subs : List Sub) (j : Nat) (h : hasSub subs j = false) : j ∉ subs.map (·.1) := by
  induction subs with
  | nil => simp
  | cons s ss ih =>
    simp only [hasSub, List.any_cons, Bool.or_eq_false_iff, beq_eq_false_iff_ne] at h
    simp only [List.map_cons, List.mem_cons, not_or]
    exact ⟨fun e => h.1 e.symm, ih (by simpa [hasSub] using h.2)⟩

/-- an unsubscribed handler is not notified by the next completion, whichever operation completes the future
    (handlers subscribed once: `Nodup`; with a handler subscribed twice `list.remove` drops only the first subscription -
    see the example below, which shows that the hypothesis is needed) -/
theorem C10_unsubscribed_not_notified (f : Fut) (j : Nat) (hk : f.kind.sinking = false)
    (hnd : (f.subs.map (·.1)).Nodup) (op : Op) (o : Outc)
    (h0 : (step f (.unsubscribe j)).1.out = none) (h1 : (step (step f (.unsubscribe j)).1 op).1.out = some o) :
    j ∉ ((step (step f (.unsubscribe j)).1 op).2.2).map (·.sub) := by
  rw [C10_notify_once_after_visible _ op o h0 h1]
  simp only [List.map_map, Function.comp_def, notif, C10_unsubscribe f j hk]
  cases hh : hasSub f.subs j <;> simp only [if_true, if_false, Bool.false_eq_true]
  · exact not_mem_of_hasSub_false _ _ hh
  · exact not_mem_eraseSub _ _ hnd

example : afterNotify [(1, .oneShot), (2, .good)] ≠ [(1, .oneShot), (2, .good)] := by decide
/-- necessity of `hk` (only on states no history reaches: a sinking kind that has a subscriber) -/
example : 1 ∈ ((step (step { (init (.const 1)) with out := none, subs := [(1, .good)] } (.unsubscribe 1)).1
    (.setValue 2)).2.2).map (·.sub) := by decide
/-- necessity of `Nodup`: a handler subscribed twice and unsubscribed once is still notified (list.remove semantics) -/
example : 1 ∈ ((step (step { (init (.lazyOk 1)) with subs := [(1, .good), (1, .good)] } (.unsubscribe 1)).1 .value).2.2).map
    (·.sub) := by decide

/-! ### how often the computation runs -/

/-- per operation: the provider / task body runs at most once more, NEVER when the future is computed, and only in a
    read (`value()`, call, `error()`) that finds the future uncomputed (any state `f`) -/
theorem C10_runs_step (f : Fut) (op : Op) :
    (step f op).1.runs ≤ f.runs + 1 ∧ (f.out.isSome → (step f op).1.runs = f.runs) ∧
    ((step f op).1.runs = f.runs + 1 → f.out = none ∧ (op = .value ∨ op = .call ∨ op = .error)) :=
  runs_step f op

/-- **at most once until an explicit `reset_unsafe()`**: over any history without reset, from ANY state, the
    computation runs at most once - and not at all if the future was computed at the start -/
theorem C10_provider_once_epoch (f : Fut) (ops : List Op) (hr : .reset ∉ ops) :
    (finalState f ops).runs ≤ f.runs + (if f.out.isSome then 0 else 1) := by
  have h := runs_effResets ops f
  have h0 : effResets f ops = 0 := by
    have := effResets_le_count ops f
    have hc : ops.count .reset = 0 := List.count_eq_zero.mpr hr
    omega
  have := used_le (finalState f ops)
  have hu : used f = if f.out.isSome then 1 else 0 := rfl
  split <;> simp_all <;> omega

/-- over any history from construction: runs ≤ 1 + the number of resets THAT FOUND THE FUTURE COMPUTED (a
    `reset_unsafe()` of an uncomputed future buys no further run) -/
theorem C10_provider_once (k : Kind) (c : Cfg) (ops : List Op) :
    (finalState (init k c) ops).runs ≤ 1 + effResets (init k c) ops := by
  have h := runs_effResets ops (init k c)
  have := used_le (finalState (init k c) ops)
  have h0 : (init k c).runs = 0 := by cases k <;> rfl
  omega

/-- corollary in terms of the history alone -/
theorem C10_provider_once_count (k : Kind) (c : Cfg) (ops : List Op) :
    (finalState (init k c) ops).runs ≤ 1 + ops.count .reset := by
  have := C10_provider_once k c ops
  have := effResets_le_count ops (init k c)
  omega

/-- the bound of `C10_provider_once` is attained ... -/
example : (finalState (init (.lazyOk 1)) [.value, .reset, .value, .reset, .error]).runs = 3
    ∧ effResets (init (.lazyOk 1)) [.value, .reset, .value, .reset, .error] = 2 := by decide
/-- ... resets of an uncomputed future buy nothing ... -/
example : (finalState (init (.lazyOk 1)) [.reset, .reset, .reset, .value, .value]).runs = 1
    ∧ effResets (init (.lazyOk 1)) [.reset, .reset, .reset, .value, .value] = 0 := by decide
/-- ... and the hypothesis "no reset" of the epoch theorem is needed -/
example : ¬ (finalState (init (.lazyOk 1)) [.value, .reset, .value]).runs ≤ 0 + 1 := by decide

/-! ### the observer -/

/-- **C10 as a whole**: for every kind of future, every creation-time configuration in which the perf-stats step of a
    task can run (`hstats`; a fact of the tree under test, probed by the harness, true today) and every history of
    operations - whatever the subscribers raise -, the observations of the model are accepted by the observer `spec` - the
    same Boolean function the check evaluates on the observations of the real implementation.  `hstats` cannot be
    dropped: `C10_statsOk_needed`. -/
theorem C10_spec_holds (k : Kind) (c : Cfg) (ops : List Op)
    (hstats : k.isTask = true → c.statsOk = true) : spec k (run (init k c) ops) = true := by
  obtain ⟨w', h⟩ := watchRun_ok k ops (watchInit k) (init k c) (rel_init k c hstats)
  simp [spec, h]

/-- the former finding `subscriber-repr-error-escapes` (repaired by /repo 9f49616): a subscriber raises an Exception whose
    `repr()` raises an Exception whose `str()` raises.  In the model of the repaired code `set_value(2)` RETURNS, both
    subscribers were notified and read the outcome, the computing `value()` of `Future(lambda: 1)` returns 1, and the
    histories are accepted (lazyOk, taskErr, raisingWorse first or behind a printable raiser).  The observations of the tree
    BEFORE the fix (the set raising what `str()` raised / the read raising FutureIsAlreadyComputed, everything else right)
    are still rejected, with the clause of the finding: a regression is reported under that name. -/
theorem C10_subscriber_repr_error_repaired :
    (run (init (.lazyOk 1)) [.subscribe 1 .raisingWorse, .subscribe 2 .good, .setValue 2]).map
        (fun ob => (ob.res, ob.cbs.map (fun c => (c.sub, c.seen)), ob.after))
      = [(.unit, [], none), (.unit, [], none),
         (.unit, [(1, some (.val 2)), (2, some (.val 2))], some (.val 2))] ∧
    spec (.lazyOk 1) (run (init (.lazyOk 1)) [.subscribe 1 .raisingWorse, .subscribe 2 .good, .setValue 2]) = true ∧
    ((run (init (.lazyOk 1)) [.subscribe 1 .raisingWorse, .value]).map (fun ob => (ob.res, ob.after)))
      = [(.unit, none), (.ok 1, some (.val 1))] ∧
    spec (.lazyOk 1) (run (init (.lazyOk 1)) [.subscribe 1 .raisingWorse, .value]) = true ∧
    spec (.taskErr 1) (run (init (.taskErr 1)) [.subscribe 1 .raisingWorse, .error]) = true ∧
    spec (.lazyOk 1) (run (init (.lazyOk 1)) [.subscribe 1 .raising, .subscribe 2 .raisingWorse, .setValue 2]) = true ∧
    specClause (.lazyOk 1)
      [{ op := .subscribe 1 .raisingWorse, res := .unit, cbs := [], after := none, runs := 0 },
       { op := .subscribe 2 .good, res := .unit, cbs := [], after := none, runs := 0 },
       { op := .setValue 2, res := .raised .subRepr,
         cbs := [{ sub := 1, seen := some (.val 2) }, { sub := 2, seen := some (.val 2) }], after := some (.val 2), runs := 0 }]
      = "subscriber-repr-error-escapes@setValue" ∧
    specClause (.lazyOk 1)
      [{ op := .subscribe 1 .raisingWorse, res := .unit, cbs := [], after := none, runs := 0 },
       { op := .value, res := .raised .alreadyComputed, cbs := [{ sub := 1, seen := some (.val 1) }],
         after := some (.val 1), runs := 1 }]
      = "subscriber-repr-error-escapes@value" ∧
    specClause (.lazyOk 1)
      [{ op := .subscribe 1 .raisingBad, res := .unit, cbs := [], after := none, runs := 0 },
       { op := .setValue 2, res := .raised .subRepr, cbs := [{ sub := 1, seen := some (.val 2) }],
         after := some (.val 2), runs := 0 }]
      = "set@setValue" := by
  decide

/-- the hypothesis `hstats` of `C10_spec_holds` cannot be dropped: a task whose perf-stats step cannot run,
    completed under COLLECT_PERF_STATS, hands the exception of that step to the completing `value()` (the model of the
    trees before 9ee915e / f0f10a3); the observer rejects that answer -/
theorem C10_statsOk_needed :
    specClause (.taskOk 1) (run (init (.taskOk 1) { statsOk := false }) [.option .perfStats true, .value]) = "compute-read@value" ∧
    specClause (.taskOk 1) (run (init (.taskOk 1) { statsOk := false }) [.option .perfStats true, .setValue 2]) = "set@setValue" ∧
    True := by decide

/-- what the observer ENFORCES about the computation, for arbitrary observations (not only the model's): an accepted
    observation shows at most one more run, none if the observer knows the future computed, and one more only for a
    read of an uncomputed future that leaves it computed with the outcome of the future's own computation -/
theorem C10_spec_enforces_runs (k : Kind) (w w' : Watch) (ob : Obs) (h : watchStep k w ob = .ok w') :
    ob.runs ≤ w.runs + 1 ∧ (w.known.isSome → ob.runs = w.runs) ∧
    (ob.runs = w.runs + 1 → w.known = none ∧ (ob.op = .value ∨ ob.op = .call ∨ ob.op = .error) ∧
      ob.after = k.natural ∧ ob.after.isSome) := by
  unfold watchStep at h
  cases hkn : w.known <;> cases hop : ob.op <;> simp only [hkn, hop, setStep, readStep] at h <;>
    (repeat' split at h) <;> simp_all [computeOk] <;> (try omega) <;>
    (by_cases hr : ob.runs = w.runs <;> by_cases ht : (k.isTask = true ∧ w.done = true) <;> simp_all <;> (try omega))

/-- what the observer ENFORCES about a computing read, for arbitrary observations: a read that finds the future
    uncomputed and leaves it computed with `o` is accepted only if the computation ran exactly once and `o` is ITS outcome
    (kinds other than an AsyncTask that was completed before: such a task has no generator left, see `computeOk`; the
    example after the theorem shows that `ht` is needed) -/
theorem C10_spec_enforces_outcome (k : Kind) (w w' : Watch) (ob : Obs) (o : Outc) (h : watchStep k w ob = .ok w')
    (hkn : w.known = none) (hop : ob.op = .value ∨ ob.op = .call ∨ ob.op = .error) (ha : ob.after = some o)
    (ht : k.isTask = false ∨ w.done = false) : ob.runs = w.runs + 1 ∧ k.natural = some o := by
  unfold watchStep at h
  rcases hop with hop | hop | hop <;> simp only [hkn, hop, ha, readStep] at h <;>
    (repeat' split at h) <;> simp_all [computeOk] <;>
    (by_cases hr : ob.runs = w.runs <;> rcases ht with ht | ht <;> simp_all)

/-- necessity of `ht`: a task that was completed and reset answers None without running its body, and is accepted -/
example : (watchStep (.taskOk 1) { known := none, subs := [], runs := 1, done := true }
    { op := .value, res := .ok 0, cbs := [], after := some (.val 0), runs := 1 }).toOption
    = some { known := some (.val 0), subs := [], runs := 1, done := true } ∧ (Kind.taskOk 1).natural ≠ some (.val 0) := by decide

/-- an accepted computing read reports the stored outcome, except for the two kind-specific answers of `freshReadOk`
    (both hypotheses are needed: the examples "open answer" below) -/
theorem C10_spec_enforces_read (k : Kind) (w w' : Watch) (ob : Obs) (o : Outc) (h : watchStep k w ob = .ok w')
    (hop : ob.op = .value ∨ ob.op = .call ∨ ob.op = .error) (ha : ob.after = some o)
    (hk : ∀ e, k ≠ .lazyErr e) (hk' : ∀ v v', k ≠ .lazySelfSet v v') :
    ob.res = (if ob.op = .error then readError o else readValue o) := by
  unfold watchStep at h
  cases hkn : w.known <;> rcases hop with hop | hop | hop <;> simp only [hkn, hop, ha, readStep] at h <;>
    (repeat' split at h) <;> cases k <;> simp_all [freshReadOk, readOk]

/-- what the observer ENFORCES about notifications, for arbitrary observations: an accepted observation that shows an
    uncomputed future computed with `o` carries exactly the notifications the property asks for (`notifiedAll`), and the
    observer goes on with outcome `o` and the handler list the round leaves behind -/
theorem C10_spec_enforces_notify (k : Kind) (w w' : Watch) (ob : Obs) (o : Outc) (h : watchStep k w ob = .ok w')
    (hkn : w.known = none) (ha : ob.after = some o) :
    notifiedAll w.subs ob.cbs o = true ∧ w'.known = some o ∧ w'.subs = afterNotify w.subs := by
  unfold watchStep at h
  cases hop : ob.op <;> simp only [hkn, hop, ha, setStep, readStep] at h <;> (repeat' split at h) <;> simp_all <;>
    (subst h; simp_all)

/-- an accepted `set_value` / `set_error` on a future known uncomputed RETURNED (no creation-time fact and no debug
    option lets the observer accept an exception from it) -/
theorem C10_spec_enforces_set (k : Kind) (w w' : Watch) (ob : Obs) (h : watchStep k w ob = .ok w')
    (hkn : w.known = none) (hop : ob.op.isSet = true) : ob.res = .unit := by
  unfold watchStep at h
  cases hop' : ob.op <;> simp only [hkn, hop', Op.isSet, setStep] at h hop <;> (try contradiction) <;>
    (repeat' split at h) <;> simp_all

/-- what the observer ENFORCES once it knows the future computed with `o`, for arbitrary observations: every accepted
    observation other than `reset_unsafe()` shows the same outcome, no notification, no run; reads report `o`,
    `is_computed()` is True, every `set_value` / `set_error` raised FutureIsAlreadyComputed ("a second set raises and
    changes nothing"), and the observer still knows `o`.  (Second audit, R7.) -/
theorem C10_spec_enforces_stable (k : Kind) (w w' : Watch) (ob : Obs) (o : Outc) (h : watchStep k w ob = .ok w')
    (hkn : w.known = some o) (hr : ob.op ≠ .reset) :
    ob.after = some o ∧ ob.cbs = [] ∧ ob.runs = w.runs ∧ w'.known = some o ∧
    ((ob.op = .value ∨ ob.op = .call) → ob.res = readValue o) ∧ (ob.op = .error → ob.res = readError o) ∧
    (ob.op = .isComputed → ob.res = .bool true) ∧ (ob.op.isSet = true → ob.res = .raised .alreadyComputed) := by
  unfold watchStep at h
  cases hop : ob.op <;> simp only [hkn, hop] at h hr <;> (try contradiction) <;>
    (repeat' split at h) <;> simp_all [readOk, Op.isSet, unsubStep] <;> (try (repeat' split at h)) <;> (try (subst h)) <;> (try simp_all) <;> (try (subst w'; simp_all))

/-- necessity of `hr`: `reset_unsafe()` is accepted and leaves the future uncomputed -/
example : (watchStep (.lazyOk 1) { known := some (.val 1), subs := [], runs := 1, done := true }
    { op := .reset, res := .unit, cbs := [], after := none, runs := 1 }).toOption
    = some { known := none, subs := [], runs := 1, done := true } := by decide

/-! ### the exception channels of a completion: subscribers, perf-stats step -/

/-- in which rounds the guard of 9f49616 is exercised at all: if no subscriber raises an exception that defeats
    `safe_repr` (`noWorse`), `safe_repr` returns for the exception `safe_trigger` re-raises - however many subscribers
    raise (printable exceptions or ones whose `repr()` merely raises), fail to unsubscribe, edit the handler list ...
    A statement about the INPUT (induction over the walk `firstRaise` of the snapshot with the changing live list); since
    9f49616 nothing escapes either way (`subEscapes _ = false` by definition), so this is listed under BY_CONSTRUCTION. -/
theorem C10_printable_exceptions_swallowed (subs : List Sub) (h : noWorse subs = true) :
    safeReprRaises subs = false ∧ subEscapes subs = false :=
  ⟨safeReprRaises_noWorse subs h, rfl⟩

/-- what decides whether `safe_repr` raises in `_computed` is the FIRST exception of the round only (`safe_trigger` drops
    the later ones): if the first subscriber that raises at all raises an exception that defeats `safe_repr`, it does,
    whatever the others do; if it raises a printable one (or one whose `repr()` merely raises), it does not, whatever the
    later ones raise.  (About the input, like the previous statement: which rounds the observer's regression clause
    `subscriber-repr-error-escapes` can name.) -/
theorem C10_first_exception_decides (pre post : List Sub) (s : Sub)
    (hpre : ∀ t ∈ pre, t.2 = .good ∨ ∃ o, t.2 = .reenter o) :
    (s.2 = .raisingWorse → safeReprRaises (pre ++ s :: post) = true) ∧
    ((s.2 = .raising ∨ s.2 = .raisingBad) → safeReprRaises (pre ++ s :: post) = false) := by
  have key : ∀ (l live : List Sub), (∀ t ∈ l, t.2 = .good ∨ ∃ o, t.2 = .reenter o) →
      firstRaise live (l ++ s :: post) = firstRaise live (s :: post) := by
    intro l
    induction l with
    | nil => intros; rfl
    | cons t ts ih =>
      intro live hl
      have ht := hl t (by simp)
      have hts : ∀ u ∈ ts, u.2 = .good ∨ ∃ o, u.2 = .reenter o := fun u hu => hl u (by simp [hu])
      rcases ht with ht | ⟨o, ht⟩ <;> simp [firstRaise, behRaises, applyBeh, ht, ih _ hts]
  constructor
  · intro hs
    simp [safeReprRaises, key pre _ hpre, firstRaise, behRaises, hs]
  · intro hs
    rcases hs with hs | hs <;> simp [safeReprRaises, key pre _ hpre, firstRaise, behRaises, hs]

/-- the plain answer of the operation that completes a future of kind `k` with `o` -/
def plainRes (k : Kind) (op : Op) (o : Outc) : Res :=
  if op.isSet then .unit else
  match k with
  | .lazyErr e => .raised (.user e)                 -- Future._compute re-raises the provider's exception (also into error())
  | .lazySelfSet _ _ => .raised .alreadyComputed    -- the provider's own result is refused
  | _ => if op = .error then readError o else readValue o

/-- what the operation that completes the future answers, in terms of the two exception channels -/
def completerRes (f : Fut) (op : Op) (o : Outc) : Res :=
  if subEscapes f.subs then .raised (if op.isSet then .subRepr else f.kind.escRead)
  else if hookFails f then .raised .hook
  else plainRes f.kind op o

/-- **the completer's answer**, from ANY uncomputed state and for whichever operation completes the future: the
    exception that leaves `_computed` for the first exception `e` a subscriber raised, if there is one (`subEscapes`: none since 9f49616; a
    `Future` with a returning provider turns it into FutureIsAlreadyComputed); otherwise the exception of the perf-stats
    step if that cannot run (`hookFails`); otherwise the plain answer.  In ALL three cases the outcome is stored and every
    subscriber of the snapshot is notified once, reading it. -/
theorem C10_completer_result (f : Fut) (op : Op) (o : Outc)
    (h0 : f.out = none) (h1 : (step f op).1.out = some o) :
    (step f op).2.1 = completerRes f op o ∧ (step f op).2.2 = f.subs.map (notif o) := by
  refine ⟨?_, C10_notify_once_after_visible f op o h0 h1⟩
  cases op <;> simp only [step, h0] at h1 ⊢
  case isComputed => simp_all
  case reset => simp_all
  case subscribe => split at h1 <;> simp_all
  case unsubscribe => (repeat' split at h1) <;> simp_all
  case option d on => cases d <;> simp_all
  case raiseIfError => simp_all
  case inspect => simp_all
  all_goals (cases hk : f.kind <;> cases ha : f.alive <;> cases he : subEscapes f.subs <;> cases hf : hookFails f <;>
    simp_all [compute, complete_eq, setRes, computedExc, hookExc, completerRes, plainRes, Op.isSet, Kind.escRead,
      readValue, readError] <;>
    (try (cases o <;> simp_all [hookFails, Kind.isTask])))

/-- **"even if another subscriber raises an Exception"**: whatever the subscribers of the round raise (printable or
    not), if the perf-stats step can run the completer gets the plain answer and everybody is notified once, reading the
    outcome (`hh` is needed: the first example of the section "non-vacuity and rejection examples"; the former hypothesis
    `noWorse` went away with /repo 9f49616) -/
theorem C10_raising_subscribers_swallowed (f : Fut) (op : Op) (o : Outc)
    (h0 : f.out = none) (h1 : (step f op).1.out = some o) (hh : hookFails f = false) :
    (step f op).2.1 = plainRes f.kind op o ∧ (step f op).2.2 = f.subs.map (notif o) := by
  have h := C10_completer_result f op o h0 h1
  have hesc : subEscapes f.subs = false := rfl
  simp only [completerRes, hesc, hh] at h
  simpa using h

/-! ### debug options switched while the future is in flight -/

def Op.quiet : Op → Bool
  | .option _ _ | .raiseIfError | .inspect => true
  | _ => false

/-- switching a debug option, `raise_if_error()` and `repr()` / `str()` are quiet from ANY state: outcome, handler list,
    run counter and generator stay as they are and nobody is notified - in particular none of them computes the future -/
theorem C10_quiet_ops (f : Fut) (op : Op) (h : op.quiet = true) :
    (step f op).1.out = f.out ∧ (step f op).1.subs = f.subs ∧ (step f op).1.runs = f.runs ∧
    (step f op).1.alive = f.alive ∧ (step f op).1.kind = f.kind ∧ (step f op).2.2 = [] := by
  cases op <;> simp [Op.quiet] at h
  case option d on => cases d <;> simp [step]
  case raiseIfError => cases ho : f.out <;> simp [step, ho]
  case inspect => simp [step]

/-- **a failing perf-stats step does not cost a notification** (model of a tree on which `collect_perf_stats()` cannot run
    for some task, `statsOk = false`; not the current tree): whichever operation completes an uncomputed future, the
    exception of the step reaches the completer exactly when the future is such an AsyncTask and COLLECT_PERF_STATS is on
    at that moment (`hookFails`) - and in BOTH cases the outcome is stored and every subscriber of the snapshot is
    notified once, reading it.  (AsyncTask._computed runs the step inside `try: ... finally: FutureBase._computed(self)`.)
    (No subscriber exception escapes from the finally clause since 9f49616, so the former hypothesis `hesc` is gone.) -/
theorem C10_hook_failure_after_notification (f : Fut) (op : Op) (o : Outc)
    (h0 : f.out = none) (h1 : (step f op).1.out = some o) :
    ((step f op).2.1 = .raised .hook ↔ hookFails f = true) ∧ (step f op).2.2 = f.subs.map (notif o) := by
  have h := C10_completer_result f op o h0 h1
  have hesc : subEscapes f.subs = false := rfl
  refine ⟨?_, h.2⟩
  rw [h.1]
  cases hf : hookFails f <;> simp [completerRes, hesc, hf, plainRes]
  (repeat' split) <;> simp_all [readValue, readError] <;> (repeat' split) <;> simp_all

/-- only `option COLLECT_PERF_STATS` changes whether the step will fail; whether it CAN run is fixed at creation -/
theorem C10_hook_state (f : Fut) (op : Op) :
    (step f op).1.statsOk = f.statsOk ∧ ((∀ on, op ≠ .option .perfStats on) → (step f op).1.perf = f.perf) := by
  cases op <;> cases ho : f.out <;> cases hk : f.kind <;> cases ha : f.alive <;>
    simp_all [step, compute, complete_eq] <;> (repeat' split) <;> simp_all

/-! ## non-vacuity and rejection examples -/

/-- a tree on which the perf-stats step cannot run for the task (`statsOk := false`), profiling switched on while the task
    is in flight: the completing read gets the exception of the step, both subscribers (one of them raising) were
    notified and read the outcome, later reads report it -/
example : (run (init (.taskOk 1) { statsOk := false })
      [.subscribe 1 .raising, .subscribe 2 .good, .option .perfStats true, .value, .value, .setValue 2]).map
      (fun ob => (ob.res, ob.cbs.map (fun c => (c.sub, c.seen)), ob.after))
    = [(.unit, [], none), (.unit, [], none), (.unit, [], none),
       (.raised .hook, [(1, some (.val 1)), (2, some (.val 1))], some (.val 1)),
       (.ok 1, [], some (.val 1)), (.raised .alreadyComputed, [], some (.val 1))] := by decide
/-- the same task when the step can run (the current tree): no exception -/
example : ((run (init (.taskOk 1) { statsOk := true, perf := true }) [.subscribe 1 .good, .value]).map (·.res))
    = [.unit, .ok 1] := by decide
/-- the observer rejects the lost notification under a failing perf-stats step (seeded change C10-9: the step moved out
    of the try/finally): outcome stored, completer got the exception, nobody notified -/
example : specClause (.taskOk 1)
    [{ op := .subscribe 1 .good, res := .unit, cbs := [], after := none, runs := 0 },
     { op := .option .perfStats true, res := .unit, cbs := [], after := none, runs := 0 },
     { op := .value, res := .raised .hook, cbs := [], after := some (.val 1), runs := 1 }]
     = "notify-once@value" := by decide
/-- ... and the exception of the perf-stats step as the answer of the completer, notifications or not -/
example : specClause (.taskOk 1)
    [{ op := .option .perfStats true, res := .unit, cbs := [], after := none, runs := 0 },
     { op := .value, res := .raised .hook, cbs := [], after := some (.val 1), runs := 1 }] = "compute-read@value" := by decide
example : specClause (.taskOk 1)
    [{ op := .setValue 3, res := .raised .hook, cbs := [], after := some (.val 3), runs := 0 }]
     = "set@setValue" := by decide
/-- the wrong observations of the second audit (AUDIT2-lib N3, reports2/C10.md R1, R3, R4), accepted by the previous observer
    or unreachable for it, all rejected now: (R1) `value()` of a task raising the exception of the perf-stats step with
    everybody notified - whatever `Cfg` says -/
example : specClause (.taskOk 1)
    [{ op := .subscribe 1 .good, res := .unit, cbs := [], after := none, runs := 0 },
     { op := .option .perfStats true, res := .unit, cbs := [], after := none, runs := 0 },
     { op := .value, res := .raised .hook, cbs := [{ sub := 1, seen := some (.val 1) }], after := some (.val 1), runs := 1 },
     { op := .value, res := .ok 1, cbs := [], after := some (.val 1), runs := 1 }] = "compute-read@value" := by decide
/-- (R4) the subscriber after a raising one is dropped -/
example : specClause (.lazyOk 1)
    [{ op := .subscribe 1 .raising, res := .unit, cbs := [], after := none, runs := 0 },
     { op := .subscribe 2 .good, res := .unit, cbs := [], after := none, runs := 0 },
     { op := .value, res := .ok 1, cbs := [{ sub := 1, seen := some (.val 1) }], after := some (.val 1), runs := 1 }]
     = "notify-once@value" := by decide
/-- `C10_stable_until_reset` / `C10_const_complete` need "no reset"; `C10_const_complete` needs a sinking kind;
    `C10_notify_once_after_visible` needs an uncomputed future -/
example : (run (finalState (init (.lazyOk 1)) [.value]) [.reset, .isComputed]).map (·.after) = [none, none] ∧
    (init (.lazyOk 1)).out = none ∧
    (step (finalState (init (.lazyOk 1)) [.subscribe 1 .good, .value]) .value).2.2 = [] := by decide
/-- `raise_if_error()` and `repr()` of an uncomputed future must not compute it -/
example : specClause (.lazyOk 1)
    [{ op := .inspect, res := .unit, cbs := [], after := some (.val 1), runs := 1 }] = "provider-once@inspect" := by decide
example : (run (init (.lazyErr 2)) [.raiseIfError, .inspect, .error, .raiseIfError]).map (fun ob => (ob.res, ob.runs))
    = [(.unit, 0), (.unit, 0), (.raised (.user 2), 1), (.raised (.user 2), 1)] := by decide


/-- a concrete history with a raising subscriber, a failed set, a reset and a recomputation -/
example : spec (.lazyErr 2)
    (run (init (.lazyErr 2)) [.subscribe 1 .raising, .subscribe 2 .good, .error, .setValue 3, .value, .reset, .value]) = true := by
  decide
example : (run (init (.lazyErr 2)) [.subscribe 1 .raising, .subscribe 2 .good, .error]).getLast?.map (·.cbs.length) = some 2 := by
  decide
/-- a one-shot subscriber does not hide the subscriber registered after it (all four are notified), and it is gone
    for the second completion -/
example : (run (init (.lazyOk 1)) [.subscribe 1 .good, .subscribe 2 .oneShot, .subscribe 3 .good, .subscribe 4 .good,
    .value, .reset, .value]).map (·.cbs.map (·.sub)) = [[], [], [], [], [1, 2, 3, 4], [], [1, 3, 4]] := by
  decide
/-- `C10_stable_until_reset` is not vacuous: a computed state, a history with reads, sets, subscriptions -/
example : (finalState (init (.lazyErr 2)) [.error]).out = some (.err 2) ∧
    (run (finalState (init (.lazyErr 2)) [.error]) [.subscribe 1 .good, .setErrorNone, .value, .unsubscribe 1, .error]).map (·.res)
      = [.unit, .raised .alreadyComputed, .raised (.user 2), .unit, .errIs (some 2)] := by decide
/-- `C10_unsubscribed_not_notified` is not vacuous -/
example : ((step (step (finalState (init (.lazyOk 1)) [.subscribe 1 .good, .subscribe 2 .good]) (.unsubscribe 1)).1 .value).2.2).map
    (·.sub) = [2] := by decide
/-- `set_error(None)`: one consistent outcome, the value None -/
example : (run (init (.lazyOk 1)) [.setErrorNone, .error, .value, .isComputed, .setError 1]).map (·.res)
    = [.unit, .errIs none, .ok 0, .bool true, .raised .alreadyComputed] := by decide
example : (run (init .errorNone) [.error, .value]).map (·.res) = [.errIs none, .ok 0] := by decide
/-- the subscribers see the outcome BECAUSE `complete` stores before it notifies: a subscriber called with the
    state before the store records `none`, and the observer rejects that notification -/
example : notifiedAll [(1, .good)] [notifyOne (init (.lazyOk 1)) (1, .good)] (.val 1) = false := by decide
example : notifiedAll [(1, .reenter (.val 2))] [notifyOne (init (.lazyOk 1)) (1, .reenter (.val 2))] (.val 1) = false := by decide

/-- the observer rejects the history in which the subscriber after the one-shot one is skipped -/
example : spec (.lazyOk 1)
    [{ op := .subscribe 1 .oneShot, res := .unit, cbs := [], after := none, runs := 0 },
     { op := .subscribe 2 .good, res := .unit, cbs := [], after := none, runs := 0 },
     { op := .value, res := .ok 1, cbs := [{ sub := 1, seen := some (.val 1) }], after := some (.val 1), runs := 1 }] = false := by
  decide
/-- ... and a re-entrant subscriber whose second `set_value` is NOT refused -/
example : spec (.lazyOk 1)
    [{ op := .subscribe 1 (.reenter (.val 2)), res := .unit, cbs := [], after := none, runs := 0 },
     { op := .value, res := .ok 1, cbs := [{ sub := 1, seen := some (.val 1), inner := some .unit }],
       after := some (.val 1), runs := 1 }] = false := by
  decide
/-- the observer is not trivially true: it rejects a history in which a computed future changes its value -/
example : spec (.const 1) [{ op := .value, res := .ok 2, cbs := [], after := some (.val 2), runs := 0 }] = false := by
  decide

/-! the wrong observations of the audit (AUDIT-lib B5, /tmp/audit-lib/tests/C10_spec.lean), all accepted by the previous
    observer (`runs ≤ 1 + resets`, fresh-relaxations for every kind), all rejected now -/

/-- (a) ONE `value()` runs the provider three times after two resets of a never-computed future -/
example : specClause (.lazyOk 1)
    [{ op := .reset, res := .unit, cbs := [], after := none, runs := 0 },
     { op := .reset, res := .unit, cbs := [], after := none, runs := 0 },
     { op := .value, res := .ok 1, cbs := [], after := some (.val 1), runs := 3 }] = "provider-once@value" := by decide
/-- (a2) the provider runs during `is_computed()` -/
example : specClause (.lazyOk 1)
    [{ op := .reset, res := .unit, cbs := [], after := none, runs := 0 },
     { op := .isComputed, res := .bool false, cbs := [], after := none, runs := 1 }] = "provider-once@isComputed" := by decide
/-- (a3) the provider runs in a `value()` that found the future computed -/
example : specClause (.lazyOk 1)
    [{ op := .reset, res := .unit, cbs := [], after := none, runs := 0 },
     { op := .setValue 4, res := .unit, cbs := [], after := some (.val 4), runs := 0 },
     { op := .value, res := .ok 4, cbs := [], after := some (.val 4), runs := 1 }] = "provider-once@value" := by decide
/-- (f) a fresh `Future(lambda: 1)`: `value()` raises FutureIsAlreadyComputed, the provider never ran, the future holds 5 -/
example : specClause (.lazyOk 1)
    [{ op := .value, res := .raised .alreadyComputed, cbs := [], after := some (.val 5), runs := 0 }]
      = "compute-outcome@value" := by decide
/-- (f') ... the same with the provider run and the right outcome: the FutureIsAlreadyComputed answer is open for a
    self-completing provider only -/
example : specClause (.lazyOk 1)
    [{ op := .value, res := .raised .alreadyComputed, cbs := [], after := some (.val 1), runs := 1 }]
      = "compute-read@value" := by decide
example : specClause (.lazySelfSet 1 2)
    [{ op := .value, res := .raised .alreadyComputed, cbs := [], after := some (.val 1), runs := 1 }] = "ok" := by decide
/-- (f2) the same for a task and `error()` -/
example : specClause (.taskOk 1)
    [{ op := .error, res := .raised .alreadyComputed, cbs := [], after := some (.err 5), runs := 0 }]
      = "compute-outcome@error" := by decide
/-- (g) `value()` returns a value the provider never returns -/
example : specClause (.lazyOk 1)
    [{ op := .value, res := .ok 7, cbs := [], after := some (.val 7), runs := 1 }] = "compute-outcome@value" := by decide
/-- (g2) the provider raises, `value()` returns normally -/
example : specClause (.lazyErr 1)
    [{ op := .value, res := .ok 7, cbs := [], after := some (.val 7), runs := 1 }] = "compute-outcome@value" := by decide
/-- `error()` raising the error it should report is an open answer for a raising PROVIDER only, not for a task -/
example : specClause (.taskErr 1)
    [{ op := .error, res := .raised (.user 1), cbs := [], after := some (.err 1), runs := 1 }] = "compute-read@error" := by decide
example : specClause (.lazyErr 1)
    [{ op := .error, res := .raised (.user 1), cbs := [], after := some (.err 1), runs := 1 }] = "ok" := by decide
/-- (o) a recomputation after `reset_unsafe()` that produces the outcome without running the provider -/
example : specClause (.lazyOk 1)
    [{ op := .value, res := .ok 1, cbs := [], after := some (.val 1), runs := 1 },
     { op := .reset, res := .unit, cbs := [], after := none, runs := 1 },
     { op := .value, res := .ok 1, cbs := [], after := some (.val 1), runs := 1 }] = "compute-outcome@value" := by decide
/-- `set_error(None)` must leave the future computed with the value None and refuse later sets -/
example : specClause (.lazyOk 1)
    [{ op := .setErrorNone, res := .unit, cbs := [], after := none, runs := 0 }] = "set@setErrorNone" := by decide

end AsynqModel.Futures
