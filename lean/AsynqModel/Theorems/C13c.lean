import AsynqModel.Lib.CacheKw
import AsynqModel.Proofs.CacheKw
/-!
# C13, open signatures: functions that collect further keyword arguments (`**opts`), tuple-valued positional arguments

`def f(a, b=0, *rest, k=0, **opts)` / `def h(a, b=0, *, k=0, **opts)` under alru_cache (default key) and
acached_per_instance.  A positional value may be the 2-tuple `(name, value)` - exactly what `get_args_tuple` appends for a
keyword it does not know - so "calls whose arguments differ in any parameter never receive each other's values" now
depends on the default key being a PAIR (named parameters + `**opts` items, `*rest`), `_args_cache_key` of tools.py.

* `C13_open_key_normal`, `C13_open_refkey_injective`, `C13_open_key_injective`: for every such signature and any two valid
  calls, however spelled, the keys as written are equal exactly when the calls bind the same normalised arguments;
* `C13_alru_open_signature_refines`, `C13_per_instance_open_signature_refines_partial`: refinement to the reference cache
  (the observers `Alru.spec` / `PerInst.spec` of Lib/Cache.lean) for every history;
* `C13_open_flat_key_counterexample`: the flat concatenation is NOT such a key; `C13_open_callOK_needed`.
-/
namespace AsynqModel.Cache

/-- for EVERY signature with `**opts` (with or without `*rest`, `pos` = the named positional parameters) and EVERY valid
    spelling of a call - positional values that are `(name, value)` tuples included - the default key as written in
    tools.py is the reference key of the call's normalised arguments -/
theorem C13_open_key_normal (s : Sig) (pos : List Name) (c : Call) (n : Norm)
    (h : openNorm s.varargs pos s.kwonly (kwargsDefaults s) c = some n) :
    openKey s pos c = some (normKey s.varargs n) :=
  openKey_of_norm s pos c n h

/-- the reference key is an injective image of the normalised arguments: two valid calls of one function have the same
    reference key only if they bind every named parameter, `*rest` and `**opts` to the same values -/
theorem C13_open_refkey_injective (s : Sig) (pos : List Name) (c1 c2 : Call) (n1 n2 : Norm)
    (h1 : openNorm s.varargs pos s.kwonly (kwargsDefaults s) c1 = some n1)
    (h2 : openNorm s.varargs pos s.kwonly (kwargsDefaults s) c2 = some n2) :
    normKey s.varargs n1 = normKey s.varargs n2 ↔ n1 = n2 := by
  constructor
  · intro h
    apply normKey_inj s.varargs n1 n2 _ _ h
    · rw [openNorm_named_length _ _ _ _ _ _ h1, openNorm_named_length _ _ _ _ _ _ h2]
    · intro hv
      -- without `*rest` a valid call has no overflow
      have rest_nil : ∀ (c : Call) (n : Norm), openNorm s.varargs pos s.kwonly (kwargsDefaults s) c = some n → n.rest = [] := by
        intro c n hn
        unfold openNorm at hn
        rw [hv] at hn
        split at hn
        · contradiction
        · rename_i hlt
          split at hn
          · contradiction
          · cases hb : bindRest c.kwargs (kwargsDefaults s) (pos.drop c.args.length ++ s.kwonly) with
            | none => simp [hb] at hn
            | some vs =>
              simp [hb] at hn
              subst hn
              simp only [Bool.not_false, Bool.true_and, decide_eq_true_eq] at hlt
              exact List.drop_of_length_le (by omega)
      rw [rest_nil c1 n1 h1, rest_nil c2 n2 h2]
  · intro h; rw [h]

/-- "calls whose arguments differ in any parameter never receive each other's values", open signatures: the keys AS
    WRITTEN of two valid calls are equal exactly when their normalised arguments are (injective and spelling-insensitive).
    `f(1, x=2)` and `f(1, ('x', 2))` differ (`**opts` vs `*rest`), so do `f(1, ('x', 2), x=2)` and both of them. -/
theorem C13_open_key_injective (s : Sig) (pos : List Name) (c1 c2 : Call) (n1 n2 : Norm)
    (h1 : openNorm s.varargs pos s.kwonly (kwargsDefaults s) c1 = some n1)
    (h2 : openNorm s.varargs pos s.kwonly (kwargsDefaults s) c2 = some n2) :
    openKey s pos c1 = openKey s pos c2 ↔ n1 = n2 := by
  rw [C13_open_key_normal s pos c1 n1 h1, C13_open_key_normal s pos c2 n2 h2]
  constructor
  · intro h; exact (C13_open_refkey_injective s pos c1 c2 n1 n2 h1 h2).mp (Option.some.inj h)
  · intro h; rw [h]

/-- alru_cache, default key, a function with `**opts`: for every signature, every maxsize ≥ 1 and EVERY history of calls
    each of which is valid (any spelling, tuple-valued positional arguments included) or fails in the key construction
    ("Missing argument"), the observations of the model are accepted by `Alru.spec` keyed on the normalised arguments -/
theorem C13_alru_open_signature_refines (s : Sig) (cap : Nat) (hcap : 1 ≤ cap) (ops : List Alru.Op)
    (h : ∀ op ∈ ops, openCallOK s s.args op.c = true) :
    Alru.spec (alruOpenRefKey s) (alruOpenBind s) cap ops
      (Alru.run (alruOpenKey s) (alruOpenBind s) (Alru.init cap) ops) = true := by
  obtain ⟨w', hw⟩ := Alru.watchRun_ok (alruOpenKey s) (alruOpenRefKey s) (alruOpenBind s) cap hcap ops _ _
    (Alru.rel_init cap) (fun op ho => open_agree s s.args op.c (h op ho))
  simp [Alru.spec, hw]

/-- acached_per_instance, a method with `**opts`: the same, for every history of calls and instance drops in which no
    body returns a value that refers to its instance (the open finding `C13_per_instance_leak_counterexample`) -/
theorem C13_per_instance_open_signature_refines_partial (s : Sig) (ops : List PerInst.Op)
    (h : ∀ i c r sr, PerInst.Op.call i c r sr ∈ ops → openCallOK s (s.args.drop 1) c = true)
    (hsr : PerInst.noSelfRef ops = true) :
    PerInst.spec (perInstOpenRefKey s) (perInstOpenBind s) ops
      (PerInst.run (perInstOpenKey s) (perInstOpenBind s) PerInst.init ops) = true := by
  obtain ⟨w', hw⟩ := PerInst.watchRun_ok_eq (perInstOpenKey s) (perInstOpenRefKey s) (perInstOpenBind s) ops _ _
    PerInst.rel_init (fun i c r sr ho => ⟨open_agree s (s.args.drop 1) c (h i c r sr ho), by
      have := List.all_eq_true.mp hsr _ ho
      simpa using this⟩)
  simp [PerInst.spec, hw]

/-! ## the pair is needed; the hypothesis is needed -/

/-- `def f(a, *rest, **opts)` (names: a = 1, x = 10; the token 2002 is the tuple `('x', 2)`) -/
def sgOpen : Sig := ⟨[1], [], [], [], true⟩

/-- the FLAT key (`get_args_tuple(named..) + tuple(rest)`, not the code) gives `f(1, x=2)` and `f(1, ('x', 2))` - two valid
    calls with different normalised arguments - the same key, the key as written does not; under the flat key the
    observer reports the second call as `foreign-value` -/
theorem C13_open_flat_key_counterexample :
    flatKey sgOpen [1] ⟨[1], [(10, 2)]⟩ = flatKey sgOpen [1] ⟨[1, 2002], []⟩ ∧
      openKey sgOpen [1] ⟨[1], [(10, 2)]⟩ ≠ openKey sgOpen [1] ⟨[1, 2002], []⟩ ∧
      openNorm true [1] [] [] ⟨[1], [(10, 2)]⟩ ≠ openNorm true [1] [] [] ⟨[1, 2002], []⟩ ∧
      Alru.specClause (alruOpenRefKey sgOpen) (alruOpenBind sgOpen) 4 [⟨⟨[1], [(10, 2)]⟩, false⟩, ⟨⟨[1, 2002], []⟩, false⟩]
        (Alru.run (flatKey sgOpen [1]) (alruOpenBind sgOpen) (Alru.init 4)
          [⟨⟨[1], [(10, 2)]⟩, false⟩, ⟨⟨[1, 2002], []⟩, false⟩]) = some .foreignValue := by decide

/-- `openCallOK` cannot be dropped: `f(1, a=2)` (a parameter passed twice, TypeError in Python) gets the key of `f(1)` and
    is answered from the cache once `f(1)` is cached -/
theorem C13_open_callOK_needed :
    openCallOK sgOpen [1] ⟨[1], [(1, 2)]⟩ = false ∧
      Alru.spec (alruOpenRefKey sgOpen) (alruOpenBind sgOpen) 4 [⟨⟨[1], []⟩, false⟩, ⟨⟨[1], [(1, 2)]⟩, false⟩]
        (Alru.run (alruOpenKey sgOpen) (alruOpenBind sgOpen) (Alru.init 4)
          [⟨⟨[1], []⟩, false⟩, ⟨⟨[1], [(1, 2)]⟩, false⟩]) = false := by decide

/-! ## non-vacuity -/

/-- `def f(a, *rest, k=0, **opts)`: `f(1, x=2)` miss, `f(1, ('x', 2))` miss, `f(x=2, a=1)` hit on the first,
    `f(1, ('x', 2), x=2)` a third key, `f(1, ('x', 2))` hit on the second; `f()` TypeError -/
example :
    (Alru.run (alruOpenKey ⟨[1], [], [4], [(4, 0)], true⟩) (alruOpenBind ⟨[1], [], [4], [(4, 0)], true⟩) (Alru.init 4)
      [⟨⟨[1], [(10, 2)]⟩, false⟩, ⟨⟨[1, 2002], []⟩, false⟩, ⟨⟨[], [(10, 2), (1, 1)]⟩, false⟩, ⟨⟨[1, 2002], [(10, 2)]⟩, false⟩,
       ⟨⟨[1, 2002], []⟩, false⟩, ⟨⟨[], []⟩, false⟩]).map (fun o => (o.res, o.runs)) =
      [(.ok ⟨1, [1, 0, 0, 10, 2]⟩, 1), (.ok ⟨2, [1, 0, 1, 2002]⟩, 2), (.ok ⟨1, [1, 0, 0, 10, 2]⟩, 2),
       (.ok ⟨3, [1, 0, 1, 2002, 10, 2]⟩, 3), (.ok ⟨2, [1, 0, 1, 2002]⟩, 3), (.raisedType, 3)] := by decide

/-- a method `def m(self, a, **opts)` (no `*rest`): `o.m(0, x=1)` / `o.m(0)` / `o.m(a=0, x=1)` / `o.m(0, z=1, x=1)` -/
example :
    (PerInst.run (perInstOpenKey ⟨[9, 1], [], [], [], false⟩) (perInstOpenBind ⟨[9, 1], [], [], [], false⟩) PerInst.init
      [.call 0 ⟨[0], [(10, 1)]⟩ false false, .call 0 ⟨[0], []⟩ false false, .call 0 ⟨[], [(10, 1), (1, 0)]⟩ false false,
       .call 0 ⟨[0], [(11, 1), (10, 1)]⟩ false false]).map (fun o => (o.res, o.runs)) =
      [(.ok ⟨1, [0, 0, 10, 1]⟩, 1), (.ok ⟨2, [0, 0]⟩, 2), (.ok ⟨1, [0, 0, 10, 1]⟩, 2), (.ok ⟨3, [0, 0, 10, 1, 11, 1]⟩, 3)] := by
  decide

end AsynqModel.Cache
