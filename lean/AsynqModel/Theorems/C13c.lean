import AsynqModel.Lib.CacheKw
import AsynqModel.Proofs.CacheKw
/-!
# C13, open signatures: functions that collect further keyword arguments (`**opts`), tuple-valued positional arguments,
# positional-only parameters

`def f(a, b=0, *rest, k=0, **opts)` / `def h(a, b=0, *, k=0, **opts)` / `def g(a, b=0, /, c=0, **opts)` under alru_cache
(default key) and acached_per_instance.  A positional value may be the 2-tuple `(name, value)` - exactly what
`get_args_tuple` appends for a keyword it does not know - so "calls whose arguments differ in any parameter never receive
each other's values" depends on the default key being a PAIR (named parameters + `**opts` items, `*rest`),
`_args_cache_key` of tools.py.  `po` = the number of positional-only parameters (0 = none).

* `C13_open_key_normal`, `C13_open_refkey_injective`, `C13_open_key_injective`: for every such signature and any two valid
  calls, however spelled, in which no keyword is named like a positional-only parameter (`poClean`), the keys as written
  are equal exactly when the calls bind the same normalised arguments;
* `C13_alru_open_signature_refines`, `C13_per_instance_open_signature_refines_partial`: refinement to the reference cache
  (the observers `Alru.spec` / `PerInst.spec` of Lib/Cache.lean) for every history of such calls;
* `C13_open_posonly_counterexample`: the property is FALSE of the code as it is for a valid call with a keyword named like
  a positional-only parameter (OPEN FINDING: `g(1, a=2)`, `g(1, a=3)`, `g(1)` share one entry for `def g(a, /, **opts)`);
  `C13_open_posonly_repaired_key`: the structured key of proposed-fixes/C13-posonly-cache-key.diff tells them apart;
* `C13_open_flat_key_counterexample`: the flat concatenation is NOT such a key; `C13_open_callOK_needed`.
-/
namespace AsynqModel.Cache

/-- for EVERY signature with `**opts` (with or without `*rest`, `pos` = the named positional parameters) and EVERY valid
    spelling of a call - positional values that are `(name, value)` tuples included - the default key as written in
    tools.py is the reference key of the call's normalised arguments - PROVIDED no keyword of the call is named like one of
    the `po` positional-only parameters (needed: `C13_open_posonly_counterexample`) -/
theorem C13_open_key_normal (s : Sig) (po : Nat) (pos : List Name) (c : Call) (n : Norm)
    (hc : poClean po pos c = true)
    (h : openNorm s.varargs po pos s.kwonly (kwargsDefaults s) c = some n) :
    openKey s pos c = some (normKey s.varargs n) := by
  rw [openNorm_of_clean _ _ _ _ _ _ hc] at h
  exact openKey_of_norm s pos c n h

/-- the reference key is an injective image of the normalised arguments: two valid calls of one function have the same
    reference key only if they bind every named parameter, `*rest` and `**opts` to the same values (for every number `po`
    of positional-only parameters, no `poClean` needed: this is a statement about the reference) -/
theorem C13_open_refkey_injective (s : Sig) (po : Nat) (pos : List Name) (c1 c2 : Call) (n1 n2 : Norm)
    (h1 : openNorm s.varargs po pos s.kwonly (kwargsDefaults s) c1 = some n1)
    (h2 : openNorm s.varargs po pos s.kwonly (kwargsDefaults s) c2 = some n2) :
    normKey s.varargs n1 = normKey s.varargs n2 ↔ n1 = n2 := by
  constructor
  · intro h
    apply normKey_inj s.varargs n1 n2 _ _ h
    · rw [openNorm_named_length _ _ _ _ _ _ _ h1, openNorm_named_length _ _ _ _ _ _ _ h2]
    · intro hv
      rw [hv] at h1 h2
      rw [openNorm_rest_nil _ _ _ _ _ _ h1, openNorm_rest_nil _ _ _ _ _ _ h2]
  · intro h; rw [h]

/-- "calls whose arguments differ in any parameter never receive each other's values", open signatures: the keys AS
    WRITTEN of two valid calls are equal exactly when their normalised arguments are (injective and spelling-insensitive).
    `f(1, x=2)` and `f(1, ('x', 2))` differ (`**opts` vs `*rest`), so do `f(1, ('x', 2), x=2)` and both of them.
    Hypothesis `poClean` for both calls: FALSE without it (`C13_open_posonly_counterexample`). -/
theorem C13_open_key_injective (s : Sig) (po : Nat) (pos : List Name) (c1 c2 : Call) (n1 n2 : Norm)
    (hc1 : poClean po pos c1 = true) (hc2 : poClean po pos c2 = true)
    (h1 : openNorm s.varargs po pos s.kwonly (kwargsDefaults s) c1 = some n1)
    (h2 : openNorm s.varargs po pos s.kwonly (kwargsDefaults s) c2 = some n2) :
    openKey s pos c1 = openKey s pos c2 ↔ n1 = n2 := by
  rw [C13_open_key_normal s po pos c1 n1 hc1 h1, C13_open_key_normal s po pos c2 n2 hc2 h2]
  constructor
  · intro h; exact (C13_open_refkey_injective s po pos c1 c2 n1 n2 h1 h2).mp (Option.some.inj h)
  · intro h; rw [h]

/-- alru_cache, default key, a function with `**opts`: for every signature, every maxsize ≥ 1 and EVERY history of calls
    each of which is valid (any spelling, tuple-valued positional arguments included) or fails in the key construction
    ("Missing argument"), the observations of the model are accepted by `Alru.spec` keyed on the normalised arguments.
    `po` positional-only parameters: `openCallOK` excludes the valid calls that carry a keyword named like one of them
    (the open finding, `C13_open_posonly_counterexample`); with `po = 0` nothing is excluded on that account -/
theorem C13_alru_open_signature_refines (s : Sig) (po : Nat) (cap : Nat) (hcap : 1 ≤ cap) (ops : List Alru.Op)
    (h : ∀ op ∈ ops, openCallOK s po s.args op.c = true) :
    Alru.spec (alruOpenRefKey s po) (alruOpenBind s po) cap ops
      (Alru.run (alruOpenKey s) (alruOpenBind s po) (Alru.init cap) ops) = true := by
  obtain ⟨w', hw⟩ := Alru.watchRun_ok (alruOpenKey s) (alruOpenRefKey s po) (alruOpenBind s po) cap hcap ops _ _
    (Alru.rel_init cap) (fun op ho => alru_open_agree s po op.c (h op ho))
  simp [Alru.spec, hw]

/-- acached_per_instance, a method with `**opts`: the same, for every history of calls and instance drops in which no
    body returns a value that refers to its instance (the open finding `C13_per_instance_leak_counterexample`) -/
theorem C13_per_instance_open_signature_refines_partial (s : Sig) (po : Nat) (ops : List PerInst.Op)
    (h : ∀ i c r sr, PerInst.Op.call i c r sr ∈ ops → openCallOK s po (s.args.drop 1) c = true)
    (hsr : PerInst.noSelfRef ops = true) :
    PerInst.spec (perInstOpenRefKey s po) (perInstOpenBind s po) ops
      (PerInst.run (perInstOpenKey s) (perInstOpenBind s po) PerInst.init ops) = true := by
  obtain ⟨w', hw⟩ := PerInst.watchRun_ok_eq (perInstOpenKey s) (perInstOpenRefKey s po) (perInstOpenBind s po) ops _ _
    PerInst.rel_init (fun i c r sr ho => ⟨perInst_open_agree s po c (h i c r sr ho), by
      have := List.all_eq_true.mp hsr _ ho
      simpa using this⟩)
  simp [PerInst.spec, hw]

/-! ## the pair is needed; the hypothesis is needed -/

/-- `def f(a, *rest, **opts)` (names: a = 1, x = 10; the token 2002 is the tuple `('x', 2)`) -/
def sgOpen : Sig := ⟨[1], [], [], [], true⟩

/-- the FLAT key (`get_args_tuple(named..) + tuple(rest)`, not the code) gives `f(1, x=2)` and `f(1, ('x', 2))` - two valid
    calls with different normalised arguments - the same key, the key as written does not; under the flat key the
    observer reports the second call as `foreign-value` -/
theorem C13_open_flat_key_counterexample :
    flatKey sgOpen [1] ⟨[1], [(10, 2)]⟩ = flatKey sgOpen [1] ⟨[1, 2002], []⟩ ∧
      openKey sgOpen [1] ⟨[1], [(10, 2)]⟩ ≠ openKey sgOpen [1] ⟨[1, 2002], []⟩ ∧
      openNorm true 0 [1] [] [] ⟨[1], [(10, 2)]⟩ ≠ openNorm true 0 [1] [] [] ⟨[1, 2002], []⟩ ∧
      Alru.specClause (alruOpenRefKey sgOpen 0) (alruOpenBind sgOpen 0) 4 [⟨⟨[1], [(10, 2)]⟩, false⟩, ⟨⟨[1, 2002], []⟩, false⟩]
        (Alru.run (flatKey sgOpen [1]) (alruOpenBind sgOpen 0) (Alru.init 4)
          [⟨⟨[1], [(10, 2)]⟩, false⟩, ⟨⟨[1, 2002], []⟩, false⟩]) = some .foreignValue := by decide

/-- `openCallOK` cannot be dropped: `f(1, a=2)` (a parameter passed twice, TypeError in Python) gets the key of `f(1)` and
    is answered from the cache once `f(1)` is cached -/
theorem C13_open_callOK_needed :
    openCallOK sgOpen 0 [1] ⟨[1], [(1, 2)]⟩ = false ∧ openOutside sgOpen 0 [1] ⟨[1], [(1, 2)]⟩ = true ∧
      Alru.spec (alruOpenRefKey sgOpen 0) (alruOpenBind sgOpen 0) 4 [⟨⟨[1], []⟩, false⟩, ⟨⟨[1], [(1, 2)]⟩, false⟩]
        (Alru.run (alruOpenKey sgOpen) (alruOpenBind sgOpen 0) (Alru.init 4)
          [⟨⟨[1], []⟩, false⟩, ⟨⟨[1], [(1, 2)]⟩, false⟩]) = false := by decide

/-! ## positional-only parameters: the property is FALSE of the code as it is (OPEN FINDING) -/

/-- `def g(a, /, **opts)` (a = 1), one positional-only parameter -/
def sgPo : Sig := ⟨[1], [], [], [], false⟩
/-- `def h(a, b=0, /, c=0, **opts)` (a = 1, b = 2, c = 3), two positional-only parameters -/
def sgPo2 : Sig := ⟨[1, 2, 3], [0, 0], [], [], false⟩
/-- a method `def m(self, a, /, **opts)` -/
def sgPoM : Sig := ⟨[9, 1], [], [], [], false⟩

/-- OPEN FINDING (alru_cache and acached_per_instance, default key).  `g(1, a=2)`, `g(1, a=3)` and `g(1)` are three VALID
    calls of `def g(a, /, **opts)` (PEP 570: the keyword lands in `**opts`) with three different normalised arguments, and
    the key as written is the same for all three (get_args_tuple drops a leftover keyword whose name is in arg_names): the
    second and the third call receive the first call's value and the observer rejects the model's own run with
    `foreign-value`.  `h(1, b=5)` gets the key of `h(1, 5)` (the keyword is taken for the parameter) and `h(1, 0, b=5)`, the
    same normalised arguments as `h(1, b=5)`, another key: the body runs again, `hit-ran-body`.  The same through
    acached_per_instance (`o.m(1, a=2)`, `o.m(1, a=3)`). -/
theorem C13_open_posonly_counterexample :
    -- three valid calls, pairwise different normalised arguments, one key
    (openNorm false 1 [1] [] [] ⟨[1], [(1, 2)]⟩ = some ⟨[1], [], [(1, 2)]⟩ ∧
     openNorm false 1 [1] [] [] ⟨[1], [(1, 3)]⟩ = some ⟨[1], [], [(1, 3)]⟩ ∧
     openNorm false 1 [1] [] [] ⟨[1], []⟩ = some ⟨[1], [], []⟩) ∧
    (openKey sgPo [1] ⟨[1], [(1, 2)]⟩ = openKey sgPo [1] ⟨[1], [(1, 3)]⟩ ∧
     openKey sgPo [1] ⟨[1], [(1, 2)]⟩ = openKey sgPo [1] ⟨[1], []⟩) ∧
    (Alru.run (alruOpenKey sgPo) (alruOpenBind sgPo 1) (Alru.init 4)
        [⟨⟨[1], [(1, 2)]⟩, false⟩, ⟨⟨[1], [(1, 3)]⟩, false⟩, ⟨⟨[1], []⟩, false⟩]).map (fun o => (o.res, o.runs)) =
      [(.ok ⟨1, [1, 0, 1, 2]⟩, 1), (.ok ⟨1, [1, 0, 1, 2]⟩, 1), (.ok ⟨1, [1, 0, 1, 2]⟩, 1)] ∧
    Alru.specClause (alruOpenRefKey sgPo 1) (alruOpenBind sgPo 1) 4 [⟨⟨[1], [(1, 2)]⟩, false⟩, ⟨⟨[1], [(1, 3)]⟩, false⟩]
      (Alru.run (alruOpenKey sgPo) (alruOpenBind sgPo 1) (Alru.init 4)
        [⟨⟨[1], [(1, 2)]⟩, false⟩, ⟨⟨[1], [(1, 3)]⟩, false⟩]) = some .foreignValue ∧
    -- h(1, b=5) then h(1, 5): the second call receives (1, 0, 0, {b: 5})
    Alru.specClause (alruOpenRefKey sgPo2 2) (alruOpenBind sgPo2 2) 4 [⟨⟨[1], [(2, 5)]⟩, false⟩, ⟨⟨[1, 5], []⟩, false⟩]
      (Alru.run (alruOpenKey sgPo2) (alruOpenBind sgPo2 2) (Alru.init 4)
        [⟨⟨[1], [(2, 5)]⟩, false⟩, ⟨⟨[1, 5], []⟩, false⟩]) = some .foreignValue ∧
    -- h(1, b=5) then h(1, 0, b=5): the same normalised arguments, two keys, the body runs twice
    (openNorm false 2 [1, 2, 3] [] [(2, 0), (3, 0)] ⟨[1], [(2, 5)]⟩ =
       openNorm false 2 [1, 2, 3] [] [(2, 0), (3, 0)] ⟨[1, 0], [(2, 5)]⟩ ∧
     openKey sgPo2 [1, 2, 3] ⟨[1], [(2, 5)]⟩ ≠ openKey sgPo2 [1, 2, 3] ⟨[1, 0], [(2, 5)]⟩) ∧
    Alru.specClause (alruOpenRefKey sgPo2 2) (alruOpenBind sgPo2 2) 4 [⟨⟨[1], [(2, 5)]⟩, false⟩, ⟨⟨[1, 0], [(2, 5)]⟩, false⟩]
      (Alru.run (alruOpenKey sgPo2) (alruOpenBind sgPo2 2) (Alru.init 4)
        [⟨⟨[1], [(2, 5)]⟩, false⟩, ⟨⟨[1, 0], [(2, 5)]⟩, false⟩]) = some .hitRanBody ∧
    -- acached_per_instance: o.m(1, a=2) then o.m(1, a=3)
    PerInst.specClause (perInstOpenRefKey sgPoM 1) (perInstOpenBind sgPoM 1)
      [.call 0 ⟨[1], [(1, 2)]⟩ false false, .call 0 ⟨[1], [(1, 3)]⟩ false false]
      (PerInst.run (perInstOpenKey sgPoM) (perInstOpenBind sgPoM 1) PerInst.init
        [.call 0 ⟨[1], [(1, 2)]⟩ false false, .call 0 ⟨[1], [(1, 3)]⟩ false false]) = some .foreignValue ∧
    -- all of these calls are outside `openCallOK` (and inside the property: Python binds them)
    openCallOK sgPo 1 [1] ⟨[1], [(1, 2)]⟩ = false ∧ openOutside sgPo 1 [1] ⟨[1], [(1, 2)]⟩ = false := by decide

/-- NOT the code: the key of proposed-fixes/C13-posonly-cache-key.diff for a function with positional-only parameters
    and `**opts` - `get_args_tuple` sees only the keywords that can bind a parameter (`kwBinding`), the others (unknown
    names and names of positional-only parameters) form a third component -/
def repairedKey (s : Sig) (po : Nat) (pos : List Name) (c : Call) : Option Key :=
  (getArgsTupleE (c.args.take pos.length) (kwBinding po pos c.kwargs) (pos ++ s.kwonly) (kwargsDefaults s)).map
    fun t1 => pairKey t1 (pairKey ((c.args.drop pos.length).map argElem)
      ((optsOf (pos.drop po ++ s.kwonly) c.kwargs).map pairElem))

/-- the repaired key tells the witnesses of `C13_open_posonly_counterexample` apart and identifies the two spellings of
    one call (a test on the witnesses, not a theorem about all calls) -/
theorem C13_open_posonly_repaired_key :
    repairedKey sgPo 1 [1] ⟨[1], [(1, 2)]⟩ ≠ repairedKey sgPo 1 [1] ⟨[1], [(1, 3)]⟩ ∧
    repairedKey sgPo 1 [1] ⟨[1], [(1, 2)]⟩ ≠ repairedKey sgPo 1 [1] ⟨[1], []⟩ ∧
    repairedKey sgPo2 2 [1, 2, 3] ⟨[1], [(2, 5)]⟩ ≠ repairedKey sgPo2 2 [1, 2, 3] ⟨[1, 5], []⟩ ∧
    repairedKey sgPo2 2 [1, 2, 3] ⟨[1], [(2, 5)]⟩ = repairedKey sgPo2 2 [1, 2, 3] ⟨[1, 0], [(2, 5)]⟩ ∧
    Alru.spec (alruOpenRefKey sgPo 1) (alruOpenBind sgPo 1) 4
      [⟨⟨[1], [(1, 2)]⟩, false⟩, ⟨⟨[1], [(1, 3)]⟩, false⟩, ⟨⟨[1], []⟩, false⟩, ⟨⟨[1], [(1, 2)]⟩, false⟩]
      (Alru.run (repairedKey sgPo 1 [1]) (alruOpenBind sgPo 1) (Alru.init 4)
        [⟨⟨[1], [(1, 2)]⟩, false⟩, ⟨⟨[1], [(1, 3)]⟩, false⟩, ⟨⟨[1], []⟩, false⟩, ⟨⟨[1], [(1, 2)]⟩, false⟩]) = true := by decide

/-- a keyword named `self` never reaches the wrapper (asynq's own callables take it for their first parameter): TypeError,
    nothing runs - model and reference agree, `def f(a, **opts)`, `f(1, self=3)` -/
example :
    Alru.run (alruOpenKey ⟨[1], [], [], [], false⟩) (alruOpenBind ⟨[1], [], [], [], false⟩ 0) (Alru.init 4)
      [⟨⟨[1], [(9, 3)]⟩, false⟩] = [⟨.raisedType, 0, 0⟩] ∧
    alruOpenRefKey ⟨[1], [], [], [], false⟩ 0 ⟨[1], [(9, 3)]⟩ = none := by decide

/-! ## non-vacuity -/

/-- `def f(a, *rest, k=0, **opts)`: `f(1, x=2)` miss, `f(1, ('x', 2))` miss, `f(x=2, a=1)` hit on the first,
    `f(1, ('x', 2), x=2)` a third key, `f(1, ('x', 2))` hit on the second; `f()` TypeError -/
example :
    (Alru.run (alruOpenKey ⟨[1], [], [4], [(4, 0)], true⟩) (alruOpenBind ⟨[1], [], [4], [(4, 0)], true⟩ 0) (Alru.init 4)
      [⟨⟨[1], [(10, 2)]⟩, false⟩, ⟨⟨[1, 2002], []⟩, false⟩, ⟨⟨[], [(10, 2), (1, 1)]⟩, false⟩, ⟨⟨[1, 2002], [(10, 2)]⟩, false⟩,
       ⟨⟨[1, 2002], []⟩, false⟩, ⟨⟨[], []⟩, false⟩]).map (fun o => (o.res, o.runs)) =
      [(.ok ⟨1, [1, 0, 0, 10, 2]⟩, 1), (.ok ⟨2, [1, 0, 1, 2002]⟩, 2), (.ok ⟨1, [1, 0, 0, 10, 2]⟩, 2),
       (.ok ⟨3, [1, 0, 1, 2002, 10, 2]⟩, 3), (.ok ⟨2, [1, 0, 1, 2002]⟩, 3), (.raisedType, 3)] := by decide

/-- a method `def m(self, a, **opts)` (no `*rest`): `o.m(0, x=1)` / `o.m(0)` / `o.m(a=0, x=1)` / `o.m(0, z=1, x=1)` -/
example :
    (PerInst.run (perInstOpenKey ⟨[9, 1], [], [], [], false⟩) (perInstOpenBind ⟨[9, 1], [], [], [], false⟩ 0) PerInst.init
      [.call 0 ⟨[0], [(10, 1)]⟩ false false, .call 0 ⟨[0], []⟩ false false, .call 0 ⟨[], [(10, 1), (1, 0)]⟩ false false,
       .call 0 ⟨[0], [(11, 1), (10, 1)]⟩ false false]).map (fun o => (o.res, o.runs)) =
      [(.ok ⟨1, [0, 0, 10, 1]⟩, 1), (.ok ⟨2, [0, 0]⟩, 2), (.ok ⟨1, [0, 0, 10, 1]⟩, 2), (.ok ⟨3, [0, 0, 10, 1, 11, 1]⟩, 3)] := by
  decide

end AsynqModel.Cache
