import AsynqModel.Lib.Decorators
import AsynqModel.Proofs.Decorators
import AsynqModel.Proofs.DecoratorsSib
import AsynqModel.Proofs.DecoratorsFn
/-!
# C09  All ways of calling an async function agree, for every kind of callable

Theorems about the model `AsynqModel.Decorators`: for EVERY cell of the finite table
decorator kind x function type x access path x body kind (restricted by `supported` to the bindings each decorator
is written for) and for ARBITRARY argument lists `a : Args` (any positional list, any keyword list).
`Env.idle keyOf` = no deduplicated task in flight, for an arbitrary key function.
`Env.quiet keyOf hashOf raises` = nothing in flight, nothing cached; arbitrary key function, arbitrary hashes of the
argument values, returning or raising bodies.  The conventions that make a SECOND call of the same attribute
(`sibling`, `siblingCall`, `prior`) have their own theorems (`C09_second_call*`, `C09_other_keys_irrelevant`,
`C09_own_entries`, `C09_dict_hash_irrelevant`); `available` is false for them, so the one-call theorems do not speak
about them.

What the statements do NOT say (it rests on the differential run against the real code only):
* the 13 conventions the harness drives are 10 distinct computations in the model: `sync`/`nestedSync`,
  `asynqValue`/`yieldAsynq`, `asyncCall`/`asyncCallSync` are the same clause of `runCv` BY DEFINITION (a `yield` from a
  task, `.value()` and a nested synchronous call deliver the same outcome: that is C01/C02, assumed here).  For two
  conventions of one pair `C09_agree` is `x = x` (`C09_convention_pairs_by_definition`);
* the truth value of a receiver and the history of attribute look-ups are not inputs of any function of the model
  (`Case.falsy`, `Case.pre` are read by nothing: `C09_truthiness_history_by_construction`).  What the model does say is
  that it treats receivers parametrically: `C09_any_receiver` holds for ARBITRARY instance and class tokens;
* the class of a raised exception, a user task class, a user key function are not inputs either.

GENUINE DEFECT modelled as it is (`asyncCall`): `def async_call(fn, *args, **kwargs)` binds the callable to a
positional-or-keyword parameter, so `async_call(f, fn=1)` raises TypeError although `f(fn=1)` and `f.asynq(fn=1)` run the
body.  Every theorem that speaks about an async_call convention therefore carries the decidable hypothesis
`a.fnFree = true` (no keyword argument is called `fn`) and is named `..._partial`; `C09_async_call_kw_fn` states what
happens otherwise (for every cell), `C09_async_call_fn_counterexample` is the concrete witness (the model's own report
is rejected by `spec`), and `modelCvF` / `modelReportF` are the repaired tree (`fn` positional-only), for which the
unconditional statements hold (`C09_spec_holds_repaired`).  The theorems about conventions that do not go through
async_call (`C09_sync`, `C09_direct`, `C09_classify`, `C09_any_receiver`, ...) need no such hypothesis.

History: the check found that `@async_proxy(pure=True)` returned the function unmarked, so the helpers did not
recognise it; that was repaired in the library (the decorator now sets `is_pure_async_fn` on the function, as
`lazy` does), the model follows the repaired code and `C09_proxy_pure` states the repaired behaviour.
-/
namespace AsynqModel.Decorators

/-- **every available asynchronous convention runs the same body with the same arguments**: `.asynq(...).value()`,
    `async_call`, `get_async_fn` (with and without wrap_if_none), `get_async_or_sync_fn` and `.asynq(...)` next to a
    same-named twin in flight all produce literally the same result term.  (Seven distinct computations; inside the
    pairs `asynqValue`/`yieldAsynq` and `asyncCall`/`asyncCallSync` the equation holds by definition, see the header.) -/
theorem C09_agree_partial (c : Cell) (a : Args) (keyOf : Args → Args) (cv₁ cv₂ : Cv)
    (h : supported c.kind c.ft c.acc = true)
    (h₁ : available c.kind cv₁ = true) (h₂ : available c.kind cv₂ = true) (hfn : a.fnFree = true) :
    (modelCv (Env.idle keyOf) c cv₁ a).res = (modelCv (Env.idle keyOf) c cv₂ a).res := by
  rw [modelCv_eq_F _ _ _ _ _ hfn, modelCv_eq_F _ _ _ _ _ hfn]
  obtain ⟨k, ft, acc, bk⟩ := c
  show (modelCvF (Env.idle keyOf) ⟨k, ft, acc, bk⟩ cv₁ a).res = (modelCvF (Env.idle keyOf) ⟨k, ft, acc, bk⟩ cv₂ a).res
  rw [modelCv_eq_ref k ft acc bk cv₁ a keyOf h (available_not_sib _ _ h₁),
      modelCv_eq_ref k ft acc bk cv₂ a keyOf h (available_not_sib _ _ h₂)]
  cases k <;> cases cv₁ <;> cases cv₂ <;> first | rfl | (simp [available, Kind.hasAsynq] at h₁ h₂)

/-- **exactly one, correct receiver; the caller's arguments unchanged**: each available asynchronous convention
    ends in the result of running the async body (identity 1; through the user's wrapper_fn iff the decorator was built
    with make_async_decorator) with positional arguments `receiver ++ a.pos` and keywords `a.kw`, where the
    receiver is what Python itself binds for an undecorated function of that type through that access path (the
    instance, the class the attribute was fetched through, or nothing) or the instance the caller passed explicitly
    to an unbound method - never both, never twice.  (`Cell.refVal`: for an UNDECORATED generator function the
    conventions end in the generator object built with exactly these arguments; nothing runs it - `C09_raw_generator`.) -/
theorem C09_receiver_partial (c : Cell) (a : Args) (keyOf : Args → Args) (cv : Cv)
    (h : supported c.kind c.ft c.acc = true) (hv : available c.kind cv = true) (hfn : a.fnFree = true) :
    (modelCv (Env.idle keyOf) c cv a).res =
        c.refVal ⟨1, { pos := refPrefix c.ft c.acc 0 ++ (explicitSelf c.ft c.acc 0 ++ a.pos), kw := a.kw },
                  c.kind.userWrapped⟩ ∧
      (refPrefix c.ft c.acc 0 ++ explicitSelf c.ft c.acc 0).length = (if hasRecvParam c.ft c.acc then 1 else 0) := by
  rw [modelCv_eq_F _ _ _ _ _ hfn]
  obtain ⟨k, ft, acc, bk⟩ := c
  show (modelCvF (Env.idle keyOf) ⟨k, ft, acc, bk⟩ cv a).res = _ ∧ _
  rw [modelCv_eq_ref k ft acc bk cv a keyOf h (available_not_sib _ _ hv)]
  constructor
  · cases k <;> cases cv <;> first | rfl | (simp [available, Kind.hasAsynq] at hv)
  · cases ft <;> cases acc <;> rfl

/-- **the synchronous call** (at top level or inside a task) receives the same receiver and arguments; it runs the
    async body - EXCEPT, exactly, when a sync_fn was supplied (`@asynq(sync_fn=...)`, `@async_proxy(sync_fn=...)`):
    then it runs sync_fn (identity 2) instead.  For a pure function the call hands back a future of the async body. -/
theorem C09_sync (c : Cell) (a : Args) (keyOf : Args → Args) (cv : Cv)
    (h : supported c.kind c.ft c.acc = true) (hv : cv = .sync ∨ cv = .nestedSync) :
    modelCv (Env.idle keyOf) c cv a =
      ⟨[], c.refVal ⟨if c.kind.hasSyncFn then 2 else 1, refArgs c.ft c.acc 0 a, c.kind.userWrapped⟩, c.kind.pureLike⟩ := by
  rw [modelCv_eq_F_other _ _ _ _ _ (by rcases hv with rfl | rfl <;> rfl)]
  obtain ⟨k, ft, acc, bk⟩ := c
  show modelCvF (Env.idle keyOf) ⟨k, ft, acc, bk⟩ cv a = _
  rw [modelCv_eq_ref k ft acc bk cv a keyOf h (by rcases hv with rfl | rfl <;> rfl)]
  rcases hv with rfl | rfl <;> cases k <;> rfl

/-- **the conventions that do not go through a helper** (`.asynq(...).value()`, yielding it, with a twin in flight)
    reach the async body with the right receiver for every kind that has `.asynq`, and fail with a missing
    attribute for the others -/
theorem C09_direct (c : Cell) (a : Args) (keyOf : Args → Args) (cv : Cv)
    (h : supported c.kind c.ft c.acc = true) (hv : cv = .asynqValue ∨ cv = .yieldAsynq ∨ cv = .twin) :
    (modelCv (Env.idle keyOf) c cv a).res =
      (if c.kind.hasAsynq then .val ⟨1, refArgs c.ft c.acc 0 a, c.kind.userWrapped⟩ else .err .noAsynq) := by
  rw [modelCv_eq_F_other _ _ _ _ _ (by rcases hv with rfl | rfl | rfl <;> rfl)]
  obtain ⟨k, ft, acc, bk⟩ := c
  show (modelCvF (Env.idle keyOf) ⟨k, ft, acc, bk⟩ cv a).res = _
  rw [modelCv_eq_ref k ft acc bk cv a keyOf h (by rcases hv with rfl | rfl | rfl <;> rfl)]
  rcases hv with rfl | rfl | rfl <;> cases k <;> rfl

/-- **the outcome an observer sees** (corollary of `C09_receiver`, stated at the level of observations): whatever the
    body's parameter list `s` (ANY signature) and whether it returns or raises, every available asynchronous
    convention observes: TypeError, and no body entered, exactly when CPython cannot bind `receiver ++ arguments` to
    the parameters; otherwise the object the async body returned (wrapped iff make_async_decorator) or the exception it
    raised, and - the twin convention aside, which also logs the twin - exactly ONE entry of body 1 that saw the bound
    parameters.  (Cells other than undecorated generator functions; those are `C09_raw_generator`.) -/
theorem C09_outcome_partial (c : Cell) (a : Args) (keyOf : Args → Args) (s : Sig) (raises : Bool) (cv : Cv)
    (h : supported c.kind c.ft c.acc = true) (hv : available c.kind cv = true) (hr : c.rawGen = false)
    (hfn : a.fnFree = true) :
    (obsOf s raises cv (modelCv (Env.idle keyOf) c cv a)).out =
        (match bind s (refArgs c.ft c.acc 0 a) with
         | some _ => bodyOutcome raises 1 c.kind.userWrapped
         | none => .raised .typeError) ∧
      (cv ≠ .twin →
        (obsOf s raises cv (modelCv (Env.idle keyOf) c cv a)).log =
          (match bind s (refArgs c.ft c.acc 0 a) with
           | some seen => [⟨1, seen, true⟩]
           | none => [])) := by
  rw [modelCv_eq_F _ _ _ _ _ hfn]
  obtain ⟨k, ft, acc, bk⟩ := c
  show (obsOf s raises cv (modelCvF (Env.idle keyOf) ⟨k, ft, acc, bk⟩ cv a)).out = _ ∧
    (cv ≠ .twin → (obsOf s raises cv (modelCvF (Env.idle keyOf) ⟨k, ft, acc, bk⟩ cv a)).log = _)
  rw [modelCv_eq_ref k ft acc bk cv a keyOf h (available_not_sib _ _ hv)]
  have hr' : Cell.rawGen ⟨k, ft, acc, bk⟩ = false := hr
  cases k <;> cases cv <;>
    first
    | (simp [available, Kind.hasAsynq] at hv; done)
    | (constructor <;>
        simp [obsOf, refCv, refCvRun, Cv.isSib, Kind.hasAsynq, Cell.refVal, hr', execRes, Kind.userWrapped] <;>
        cases bind s (refArgs ft acc 0 a) <;> simp)

/-- **an UNDECORATED generator function is ordinary Python** (the one place where the body kind shows): through every
    convention that does not fail with a missing attribute the caller ends up with the generator OBJECT built from
    `receiver ++ arguments`; nothing runs it: no body is entered, the outcome is "a generator object" - or TypeError
    when the arguments do not bind.  `sync`, `async_call`, `get_async_or_sync_fn`, `get_async_fn(wrap_if_none=True)`
    agree on that; `.asynq`, `get_async_fn` are absent.  (Outside the statement of C09, which speaks about decorated
    callables; modelled because the helpers accept such functions.) -/
theorem C09_raw_generator_partial (ft : FnType) (acc : Access) (bk : BodyKind) (a : Args) (keyOf : Args → Args) (s : Sig)
    (raises : Bool) (cv : Cv) (h : supported .raw ft acc = true) (hb : bk ≠ .plain)
    (hv : available .raw cv = true ∨ cv = .sync ∨ cv = .nestedSync) (hfn : a.fnFree = true) :
    (modelCv (Env.idle keyOf) ⟨.raw, ft, acc, bk⟩ cv a).res = .gen (.val ⟨1, refArgs ft acc 0 a, false⟩) ∧
    (obsOf s raises cv (modelCv (Env.idle keyOf) ⟨.raw, ft, acc, bk⟩ cv a)).log = [] ∧
    (obsOf s raises cv (modelCv (Env.idle keyOf) ⟨.raw, ft, acc, bk⟩ cv a)).out =
      (if (bind s (refArgs ft acc 0 a)).isNone then .raised .typeError else .gotGenerator) := by
  have hsib : cv.isSib = false := by
    rcases hv with hv | rfl | rfl
    · exact available_not_sib _ _ hv
    · rfl
    · rfl
  rw [modelCv_eq_F _ _ _ _ _ hfn]
  show (modelCvF (Env.idle keyOf) ⟨.raw, ft, acc, bk⟩ cv a).res = _ ∧
    (obsOf s raises cv (modelCvF (Env.idle keyOf) ⟨.raw, ft, acc, bk⟩ cv a)).log = [] ∧
    (obsOf s raises cv (modelCvF (Env.idle keyOf) ⟨.raw, ft, acc, bk⟩ cv a)).out = _
  rw [modelCv_eq_ref .raw ft acc bk cv a keyOf h hsib]
  cases bk <;> first | exact absurd rfl hb | skip
  all_goals
    cases cv <;>
      first
      | (simp [available, Kind.hasAsynq] at hv; done)
      | (refine ⟨rfl, ?_, ?_⟩ <;>
          simp [obsOf, refCv, refCvRun, Cv.isSib, Cell.refVal, Cell.rawGen, execRes, Res.bindFails, Kind.userWrapped,
                Kind.hasSyncFn] <;>
          cases bind s (refArgs ft acc 0 a) <;> simp)

/-- **the body kind of a DECORATED callable never shows** - plain function, generator function, generator blocking on
    a batch: `_call_pure` hands a generator object to the task (needs_wrapper) and wraps a plain function in
    `_fn_wrapper`; the tools wrappers and a wrapper_fn are generator functions around `.asynq`.  All these paths end in
    the same result, for every convention (the two-call ones included), ARBITRARY arguments (a keyword called `fn`
    included), ARBITRARY key function and hashes, returning or raising bodies.  (The hypothesis on the key function the
    statement used to carry was unnecessary - second audit, item F.  In the model `gen` and `batch` are even the same
    term: `build k ft .batch tw = build k ft .gen tw`; what a body yields is C01-C08's subject.) -/
theorem C09_body_kind_irrelevant (k : Kind) (ft : FnType) (acc : Access) (bk bk' : BodyKind) (cv : Cv) (a : Args)
    (keyOf : Args → Args) (hf : Nat → Nat) (rs : Bool) (rel : Rel)
    (h : supported k ft acc = true) (hk : k ≠ .raw) :
    modelCv (Env.quiet keyOf hf rs) ⟨k, ft, acc, bk⟩ cv a rel = modelCv (Env.quiet keyOf hf rs) ⟨k, ft, acc, bk'⟩ cv a rel :=
  bk_irrelevant_nokey k ft acc bk bk' cv a keyOf hf rs rel h hk

/-- `k ≠ .raw` is needed in `C09_body_kind_irrelevant`: an undecorated generator function is not its plain twin -/
theorem C09_body_kind_matters_raw :
    modelCv (Env.quiet id id false) ⟨.raw, .plain, .direct, .gen⟩ .sync ⟨[30], []⟩ ≠
      modelCv (Env.quiet id id false) ⟨.raw, .plain, .direct, .plain⟩ .sync ⟨[30], []⟩ := by decide

/-- **what `__get__` returns**: a decorated staticmethod (and a module-level function) is the decorator itself; any
    other decorated attribute is a binder holding exactly the receiver Python would bind (the instance, the class
    for a classmethod - the subclass when fetched through it -, None for an unbound method); an undecorated
    function follows Python -/
theorem C09_get_binder (c : Cell) (h : supported c.kind c.ft c.acc = true) :
    modelGot c =
      (if c.kind == .raw || c.kind == .proxyPure then
         (if (refPrefix c.ft c.acc 0).headD 0 == 0 then ⟨.function, 0⟩ else ⟨.method, (refPrefix c.ft c.acc 0).headD 0⟩)
       else if c.acc == .direct || c.ft == .static then ⟨.decorator, 0⟩
       else ⟨.binder, (refPrefix c.ft c.acc 0).headD 0⟩) := by
  obtain ⟨k, ft, acc, bk⟩ := c
  rw [modelGot_eq_ref k ft acc bk h]; rfl

/-- **receivers are treated parametrically**: for ARBITRARY tokens - any instance `i` (`owner = some i`) or none (access
    through the class), any class `cls` - `.asynq(...)` of the attribute fetched with `__get__(owner, cls)` is a future
    of the async body run with exactly what Python prepends for an undecorated function of that type (`pyPrefix`:
    the instance, the class for a classmethod, nothing for a staticmethod) followed by the caller's arguments, and
    the plain call runs the async body - or sync_fn - with the same.  The model performs no test on a receiver
    other than `is None` (`Option`): there is no truth value, hash or equality of a receiver it could consult.
    (`hself`: an `acached_per_instance` method needs its `self` from somewhere.) -/
theorem C09_any_receiver (k : Kind) (ft : FnType) (bk : BodyKind) (owner : Option Nat) (cls : Nat) (a : Args)
    (keyOf : Args → Args) (hs : supported k ft .inst = true)
    (hself : k = .acpi → pyPrefix ft owner cls ++ a.pos ≠ []) :
    (k.hasAsynq = true →
      app (Env.idle keyOf) .asynq (descrGet (build k ft bk false) owner cls) a =
        .fut ⟨1, { a with pos := pyPrefix ft owner cls ++ a.pos }, k.userWrapped⟩) ∧
    app (Env.idle keyOf) .call (descrGet (build k ft bk false) owner cls) a =
      (if k.pureLike then .fut ⟨1, { a with pos := pyPrefix ft owner cls ++ a.pos }, false⟩
       else Cell.refVal ⟨k, ft, .inst, bk⟩
              ⟨if k.hasSyncFn then 2 else 1, { a with pos := pyPrefix ft owner cls ++ a.pos }, k.userWrapped⟩) :=
  ⟨fun hk => any_receiver_asynq k ft bk owner cls a keyOf hs hk hself,
   any_receiver_call k ft bk owner cls a keyOf hs hself⟩

/-- **the classification helpers answer according to how the callable can actually be called**:
    `has_async_fn` is true iff `.asynq(...)` does not fail with a missing attribute; `is_pure_async_fn` is true iff
    the plain call hands back a future; `is_async_fn` is their disjunction and is false exactly for an undecorated
    function (on which `.asynq` is missing and the plain call is ordinary Python: the value - the generator object of
    a generator function) -/
theorem C09_classify (c : Cell) (a : Args) (keyOf : Args → Args)
    (h : supported c.kind c.ft c.acc = true) :
    let b := c.callable
    let a' := callerArgs c.ft c.acc 0 a
    (hasAsyncFn b = true ↔ app (Env.idle keyOf) .asynq b a' ≠ .err .noAsynq) ∧
    (isPureAsyncFn b = true ↔ ∃ r, app (Env.idle keyOf) .call b a' = .fut r) ∧
    (isAsyncFn b = (hasAsyncFn b || isPureAsyncFn b)) ∧
    (isAsyncFn b = false ↔ c.kind = .raw) ∧
    (isAsyncFn b = false → ∃ r, app (Env.idle keyOf) .call b a' = c.refVal r) := by
  obtain ⟨k, ft, acc, bk⟩ := c
  have hc := modelCls_eq_ref k ft acc bk h
  simp only [modelCls, refCls, Cls.mk.injEq] at hc
  obtain ⟨h1, h2, h3, -, -⟩ := hc
  dsimp only
  rw [call_eq k ft acc bk a keyOf h, asynq_eq k ft acc bk a keyOf h, h1, h2, h3]
  cases k <;> cases bk <;>
    simp [Kind.hasAsynq, Kind.hasSyncFn, Kind.userWrapped, Kind.pureLike, Cell.refVal, Cell.rawGen, Res.fut]

/-- **the conversion helpers hand back something that, called with the same arguments, is a future of the async
    body with the right receiver**: `get_async_fn` gives None exactly for an undecorated function;
    `get_async_or_sync_fn` then gives the function itself (whose call is its value); `async_call` wraps that value
    in a future - so `async_call` works for every callable -/
theorem C09_convert_partial (c : Cell) (a : Args) (keyOf : Args → Args)
    (h : supported c.kind c.ft c.acc = true) :
    let b := c.callable
    let a' := callerArgs c.ft c.acc 0 a
    let own : Reach := ⟨1, refArgs c.ft c.acc 0 a, c.kind.userWrapped⟩
    (getAsyncFn b = .absent ↔ c.kind = .raw) ∧
    appConv (Env.idle keyOf) (getAsyncFn b) b a' = (if c.kind = .raw then .err .noAsynq else .fut own) ∧
    appConv (Env.idle keyOf) (getAsyncOrSyncFn b) b a' = (if c.kind = .raw then c.refVal own else .fut own) ∧
    (a.fnFree = true → asyncCall (Env.idle keyOf) b a' = .futOf (c.refVal own)) := by
  obtain ⟨k, ft, acc, bk⟩ := c
  suffices hs :
      (getAsyncFn (Cell.callable ⟨k, ft, acc, bk⟩) = .absent ↔ k = .raw) ∧
      appConv (Env.idle keyOf) (getAsyncFn (Cell.callable ⟨k, ft, acc, bk⟩)) (Cell.callable ⟨k, ft, acc, bk⟩) (callerArgs ft acc 0 a) =
        (if k = .raw then .err .noAsynq else .fut ⟨1, refArgs ft acc 0 a, k.userWrapped⟩) ∧
      appConv (Env.idle keyOf) (getAsyncOrSyncFn (Cell.callable ⟨k, ft, acc, bk⟩)) (Cell.callable ⟨k, ft, acc, bk⟩) (callerArgs ft acc 0 a) =
        (if k = .raw then Cell.refVal ⟨k, ft, acc, bk⟩ ⟨1, refArgs ft acc 0 a, k.userWrapped⟩
         else .fut ⟨1, refArgs ft acc 0 a, k.userWrapped⟩) ∧
      asyncCallBody (Env.idle keyOf) (Cell.callable ⟨k, ft, acc, bk⟩) (callerArgs ft acc 0 a) =
        .futOf (Cell.refVal ⟨k, ft, acc, bk⟩ ⟨1, refArgs ft acc 0 a, k.userWrapped⟩) by
    obtain ⟨s1, s2, s3, s4⟩ := hs
    refine ⟨s1, s2, s3, fun hfn => ?_⟩
    rw [asyncCall_of_free _ _ _ (by rw [callerArgs_hasKw]; exact (fnFree_iff a).mp hfn)]
    exact s4
  have hc := modelCls_eq_ref k ft acc bk h
  simp only [modelCls, refCls, Cls.mk.injEq] at hc
  obtain ⟨-, h2, h3, h4, h5⟩ := hc
  simp only [hasAsyncFn] at h3
  rw [h4, h5]
  simp only [asyncCallBody, appConv, h2, h3]
  have hcall := call_eq k ft acc bk a keyOf h
  have hasynq := asynq_eq k ft acc bk a keyOf h
  cases k <;> cases bk <;>
    simp_all [Kind.hasAsynq, Kind.hasSyncFn, Kind.userWrapped, Kind.pureLike, Res.task, Cell.refVal, Cell.rawGen, Res.fut]

/-- **deduplicate hands out nobody else's task**: ARBITRARY in-flight table - tasks of OTHER deduplicated functions
    under any keys (a same-named twin called with equal arguments), and tasks of THIS function that earlier calls put
    there (`Table.ownConsistent`: each sits under the key of the arguments it runs with) - and a key function that
    does not put an own task with other arguments under this call's key (`Table.separates`: any injective key
    function, e.g. the library's default, the identity on the bound arguments - `C09_separates`; vacuous when no
    own task is in flight, which was the former hypothesis of this theorem): `.asynq(...)` of a deduplicated callable
    is a future of its own body with its own receiver and arguments.
    Both hypotheses are needed: `C09_key_injective_needed` (a key function that collapses arguments, e.g. their
    hash, hands out another call's task), `C09_consistent_needed`. -/
theorem C09_dedup_own_body (ft : FnType) (acc : Access) (bk : BodyKind) (a : Args) (env : Env)
    (h : supported .dedup ft acc = true)
    (hsep : Table.separates env.keyOf (refArgs ft acc 0 a) env.tasks)
    (ht : Table.ownConsistent env.keyOf env.tasks) :
    app env .asynq (Cell.callable ⟨.dedup, ft, acc, bk⟩) (callerArgs ft acc 0 a) = .fut ⟨1, refArgs ft acc 0 a, false⟩ := by
  rw [dedup_asynq_unfold ft acc bk a env h]
  unfold Env.lookup
  cases hl : dictFind env.hashOf env.tasks (1, env.keyOf (refArgs ft acc 0 a)) with
  | none => rfl
  | some r => rw [own_entry env.keyOf env.hashOf env.tasks _ r hsep ht hl]

/-- when the hypotheses of `C09_dedup_own_body` / `C09_own_entries` hold: for every table under an injective key
    function, and for every table without entries of the function under test whatever the key function -/
theorem C09_separates (keyOf : Args → Args) (x : Args) (t : Table) :
    ((∀ y, keyOf y = keyOf x → y = x) → Table.separates keyOf x t) ∧
    ((∀ e ∈ t, e.1.1 ≠ 1) → Table.separates keyOf x t ∧ Table.ownConsistent keyOf t) :=
  ⟨separates_of_injective keyOf x t, separates_of_foreign keyOf x t⟩

/-- **C09 as a whole**: for every case of a supported cell (returning or raising body, parameter signature,
    ARBITRARY argument lists, relation of the second call, kind of value objects) the observations of the model are
    accepted by `spec` - the same Boolean function the check evaluates on the observations of the real implementation -/
theorem C09_spec_holds_partial (c : Case) (h : supported c.cell.kind c.cell.ft c.cell.acc = true)
    (hfn : c.args.fnFree = true) : spec c (modelReport c) = true := by
  unfold spec
  rw [h, modelReport_eq_F c hfn, modelReport_eq_ref c h, reportClause_self]; rfl

/-- the same WITHOUT the hypothesis for the repaired tree (`async_call(fn, /, *args, **kwargs)`: `modelReportF`) -/
theorem C09_spec_holds_repaired (c : Case) (h : supported c.cell.kind c.cell.ft c.cell.acc = true) :
    spec c (modelReportF c) = true := by
  unfold spec
  rw [h, modelReport_eq_ref c h, reportClause_self]; rfl

/-- **the observer is exact**: `spec` accepts ONE report per case - the one of the reference table - and nothing at all
    for a cell outside the supported bindings.  Any other observation (a body entered with other arguments, a missing
    or additional entry, another outcome, a flag, a helper's answer, the bound receiver, a missing / additional /
    reordered convention) is rejected. -/
theorem C09_spec_exact (c : Case) (r : Report) :
    spec c r = true ↔ (supported c.cell.kind c.cell.ft c.cell.acc = true ∧ r = refReport c) := by
  unfold spec
  rw [Bool.and_eq_true, Option.isNone_iff_eq_none, reportClause_none_iff]
  constructor
  · rintro ⟨h1, h2⟩; exact ⟨h1, h2.symm⟩
  · rintro ⟨h1, h2⟩; exact ⟨h1, h2.symm⟩

/-! ## the genuine defect: a keyword argument called `fn` breaks async_call (and only async_call) -/

/-- **`async_call(f, ..., fn=v)` never reaches `f`** (the code as it is, decorators.py:398
    `def async_call(fn, *args, **kwargs)`): for EVERY cell, every argument list that passes a keyword called `fn`, every
    environment, signature and relation, each convention that goes through async_call (`async_call(b, ...)`,
    `yield async_call.asynq(b, ...)`, two of them in one yield) ends in TypeError and enters no body.  The other
    conventions are untouched by the keyword (`C09_direct`, `C09_sync` carry no hypothesis on the keywords): for a body
    that accepts the keyword (`**kwargs`, or a parameter called `fn`) the conventions DISAGREE - the property is false
    there: `C09_async_call_fn_counterexample`. -/
theorem C09_async_call_kw_fn (c : Cell) (a : Args) (rel : Rel) (env : Env) (s : Sig) (raises : Bool) (cv : Cv)
    (hfn : a.fnFree = false) (hcv : cv.viaAsyncCall = true) :
    (modelCv env c cv a rel).res = .err .typeError ∧
    (obsOf s raises cv (modelCv env c cv a rel)).log = [] ∧
    (obsOf s raises cv (modelCv env c cv a rel)).out = .raised .typeError := by
  have h' : a.hasKw nameFn = true := by simpa [Args.fnFree] using hfn
  rw [modelCv_of_fn env c cv a rel h' hcv]
  cases cv <;> first | (simp [Cv.viaAsyncCall] at hcv; done) | (refine ⟨rfl, ?_, ?_⟩ <;> simp [obsOf, execRes, Err.cls])

/-- **C09 is FALSE of the current code** (witness; also the necessity witness of the hypothesis `fnFree` of every
    `_partial` theorem): module-level `@asynq() def f(*args, **kwargs)` called as `f(x, fn=v)`.  The synchronous call,
    `.asynq(...).value()`, the yield, `get_async_fn`, `get_async_or_sync_fn`, `get_async_fn(wrap_if_none=True)` run the
    body with (x, fn=v) and return its value; `async_call(f, x, fn=v)` and `yield async_call.asynq(f, x, fn=v)` raise
    TypeError and enter nothing.  The model's own report is rejected by `spec` (clause body@asyncCall); the report of
    the repaired tree is accepted. -/
theorem C09_async_call_fn_counterexample :
    supported .asynq .plain .direct = true ∧
    (⟨[30], [(nameFn, 46)]⟩ : Args).fnFree = false ∧
    ((modelReport ⟨⟨.asynq, .plain, .direct, .plain⟩, false, .var, ⟨[30], [(nameFn, 46)]⟩, false, [], .args, .tok⟩).obs.map
        (fun o => (o.cv, o.log.map (·.seen), o.out))).take 6 =
      [(.sync, [[0, 30, 0, 0, 6, 46]], .ok 1 false), (.asynqValue, [[0, 30, 0, 0, 6, 46]], .ok 1 false),
       (.yieldAsynq, [[0, 30, 0, 0, 6, 46]], .ok 1 false), (.nestedSync, [[0, 30, 0, 0, 6, 46]], .ok 1 false),
       (.asyncCall, [], .raised .typeError), (.asyncCallSync, [], .raised .typeError)] ∧
    spec ⟨⟨.asynq, .plain, .direct, .plain⟩, false, .var, ⟨[30], [(nameFn, 46)]⟩, false, [], .args, .tok⟩
      (modelReport ⟨⟨.asynq, .plain, .direct, .plain⟩, false, .var, ⟨[30], [(nameFn, 46)]⟩, false, [], .args, .tok⟩) = false ∧
    specClause ⟨⟨.asynq, .plain, .direct, .plain⟩, false, .var, ⟨[30], [(nameFn, 46)]⟩, false, [], .args, .tok⟩
      (modelReport ⟨⟨.asynq, .plain, .direct, .plain⟩, false, .var, ⟨[30], [(nameFn, 46)]⟩, false, [], .args, .tok⟩) = "body@asyncCall" ∧
    spec ⟨⟨.asynq, .plain, .direct, .plain⟩, false, .var, ⟨[30], [(nameFn, 46)]⟩, false, [], .args, .tok⟩
      (modelReportF ⟨⟨.asynq, .plain, .direct, .plain⟩, false, .var, ⟨[30], [(nameFn, 46)]⟩, false, [], .args, .tok⟩) = true := by
  decide

/-- **`@async_proxy(pure=True)` is a pure async function for every helper** (the repaired defect): through every
    access path and for ARBITRARY arguments the plain call hands back a future of the body with the right receiver,
    `is_pure_async_fn` and `is_async_fn` answer True, `get_async_fn` and `get_async_or_sync_fn` hand back the callable
    itself, and `async_call` is that same future - not a future wrapped in another future -/
theorem C09_proxy_pure_partial (ft : FnType) (acc : Access) (bk : BodyKind) (a : Args) (keyOf : Args → Args)
    (h : supported .proxyPure ft acc = true) :
    let b := Cell.callable ⟨.proxyPure, ft, acc, bk⟩
    let a' := callerArgs ft acc 0 a
    let own : Reach := ⟨1, refArgs ft acc 0 a, false⟩
    app (Env.idle keyOf) .call b a' = .fut own ∧
    isPureAsyncFn b = true ∧ isAsyncFn b = true ∧ hasAsyncFn b = false ∧
    getAsyncFn b = .self ∧ getAsyncOrSyncFn b = .self ∧
    (a.fnFree = true →
      asyncCall (Env.idle keyOf) b a' = .fut own ∧
      (asyncCall (Env.idle keyOf) b a').value = (app (Env.idle keyOf) .call b a').value) := by
  have hb : ∀ b a', (callerArgs ft acc 0 a = a') → a.fnFree = true →
      asyncCall (Env.idle keyOf) b a' = asyncCallBody (Env.idle keyOf) b a' := by
    intro b a' ha hfn
    subst ha
    exact asyncCall_of_free _ _ _ (by rw [callerArgs_hasKw]; exact (fnFree_iff a).mp hfn)
  cases ft <;> cases acc <;> cases bk <;>
    first
    | (simp [supported] at h; done)
    | exact ⟨rfl, rfl, rfl, rfl, rfl, rfl, fun hfn => by rw [hb _ _ rfl hfn]; exact ⟨rfl, rfl⟩⟩

/-! ## a second call of the same attribute: other receiver, other argument objects, colliding hashes -/

/-- **a dict lookup never confuses two keys because their hashes collide**: what `DeduplicateDecorator.tasks[key]`
    and the caches find does not depend on the hash function at all - for ARBITRARY hash functions `h`, `h'`
    (in particular a constant one: every two keys collide) -/
theorem C09_dict_hash_irrelevant (h h' : Nat → Nat) (l : Table) (k : Nat × Args) :
    dictFind h l k = dictFind h' l k := by
  rw [dictFind_eq, dictFind_eq]

/-- **a second call of the same decorated attribute does not change what a call reaches**: with another call of
    the SAME attribute in flight in the same yield (`sibling`, through `async_call`: `siblingCall`) or completed /
    failed just before (`prior`) - made through another receiver (a second instance of the class, the other class of
    the hierarchy for a classmethod: `rel = .recv`) or with every argument replaced by another object
    (`rel = .args`) - each of the two calls runs the async body with ITS OWN receiver and ITS OWN arguments
    (`Cell.refVal`: two generator objects for an undecorated generator function under `async_call`).
    For every cell, ARBITRARY argument lists, ARBITRARY hashes of the values (`hf`: all of them may collide),
    returning or raising bodies, and every key function that separates the two calls. -/
theorem C09_second_call_partial (c : Cell) (a : Args) (rel : Rel) (cv : Cv) (keyOf : Args → Args) (hf : Nat → Nat) (rs : Bool)
    (h : supported c.kind c.ft c.acc = true) (hcv : cv.isSib = true)
    (hne : identicalSib c.ft c.acc rel a = false)
    (hkey : keyOf (refArgsSib c.ft c.acc rel a) ≠ keyOf (refArgs c.ft c.acc 0 a))
    (hfn : a.fnFree = true) :
    modelCv (Env.quiet keyOf hf rs) c cv a rel =
      (if availableSib c.kind cv then
         ⟨[c.refVal ⟨1, refArgsSib c.ft c.acc rel a, c.kind.userWrapped⟩],
          c.refVal ⟨1, refArgs c.ft c.acc 0 a, c.kind.userWrapped⟩, false⟩
       else ⟨[.err .noAsynq], .err .noAsynq, false⟩) := by
  rw [modelCv_eq_F _ _ _ _ _ hfn]
  obtain ⟨k, ft, acc, bk⟩ := c
  unfold modelCvF modelCvWith
  simp only [hcv, hne, Bool.and_false, Bool.false_eq_true, if_false]
  show modelCvRunF (Env.quiet keyOf hf rs) ⟨k, ft, acc, bk⟩ cv a rel = _
  rw [modelCvRun_sib_eq_ref k ft acc bk cv a keyOf hf rs rel h hcv hkey]
  cases cv <;> first | (simp [Cv.isSib] at hcv; done) | (cases k <;> rfl)

/-- the same for the library's own key function on same-spelled calls (the identity on the bound arguments):
    the two calls are separated as soon as the second is not literally the first (`identicalSib`) -/
theorem C09_second_call_default_key_partial (c : Cell) (a : Args) (rel : Rel) (cv : Cv) (hf : Nat → Nat) (rs : Bool)
    (h : supported c.kind c.ft c.acc = true) (hcv : cv.isSib = true)
    (hne : identicalSib c.ft c.acc rel a = false) (hfn : a.fnFree = true) :
    modelCv (Env.quiet id hf rs) c cv a rel =
      (if availableSib c.kind cv then
         ⟨[c.refVal ⟨1, refArgsSib c.ft c.acc rel a, c.kind.userWrapped⟩],
          c.refVal ⟨1, refArgs c.ft c.acc 0 a, c.kind.userWrapped⟩, false⟩
       else ⟨[.err .noAsynq], .err .noAsynq, false⟩) :=
  C09_second_call_partial c a rel cv id hf rs h hcv hne (refArgsSib_ne c.ft c.acc rel a hne) hfn

/-- the second call of relation `recv` really has ANOTHER receiver, the observed call keeps its own: the first
    argument the two bodies receive differs, the rest is the caller's argument list -/
theorem C09_second_call_receivers (ft : FnType) (acc : Access) (a : Args) (h : hasRecvParam ft acc = true) :
    ∃ r r', r ≠ r' ∧ (refArgs ft acc 0 a).pos = r :: a.pos ∧ (refArgsSib ft acc .recv a).pos = r' :: a.pos := by
  cases ft <;> cases acc <;> first
    | (simp [hasRecvParam] at h; done)
    | exact ⟨_, _, by decide, rfl, rfl⟩

/-- **whatever else is in flight or cached** - ARBITRARY in-flight table, ARBITRARY cache, ARBITRARY key function
    and hashes: as long as no entry sits under the key of this very call, `.asynq(...)` and `async_call` of every
    callable that has `.asynq` are a future of its own body with its own receiver and arguments.  No hypothesis on
    the key function and none on how the entries got there; `C09_own_entries` is the complement (an entry MAY sit under
    this call's key, the tables being consistent and the key function separating). -/
theorem C09_other_keys_irrelevant_partial (c : Cell) (a : Args) (env : Env)
    (h : supported c.kind c.ft c.acc = true) (hk : c.kind.hasAsynq = true)
    (ht : ∀ e ∈ env.tasks, e.1 ≠ (1, env.keyOf (refArgs c.ft c.acc 0 a)))
    (hc : ∀ e ∈ env.cache, e.1 ≠ (1, env.keyOf (refArgs c.ft c.acc 0 a))) :
    app env .asynq c.callable (callerArgs c.ft c.acc 0 a) = .fut ⟨1, refArgs c.ft c.acc 0 a, c.kind.userWrapped⟩ ∧
    (a.fnFree = true →
      asyncCall env c.callable (callerArgs c.ft c.acc 0 a) = .fut ⟨1, refArgs c.ft c.acc 0 a, c.kind.userWrapped⟩) := by
  obtain ⟨k, ft, acc, bk⟩ := c
  have h1 := asynq_other_keys k ft acc bk a env h hk ht hc
  refine ⟨h1, fun hfn => ?_⟩
  rw [asyncCall_of_free _ _ _ (by rw [callerArgs_hasKw]; exact (fnFree_iff a).mp hfn)]
  have hc := modelCls_eq_ref k ft acc bk h
  simp only [modelCls, refCls, Cls.mk.injEq] at hc
  obtain ⟨-, h2, h3, -, -⟩ := hc
  simp only [hasAsyncFn] at h3
  have hp : k.pureLike = false := by cases k <;> first | rfl | (simp [Kind.hasAsynq] at hk)
  simp only [asyncCallBody, h2, h3, hp, hk]
  exact h1

/-- **own entries too**: like `C09_other_keys_irrelevant`, but the tables may hold entries of THIS function under
    ANY key - this call's own included - as long as earlier calls of the function put them there
    (`Table.ownConsistent`) and none that runs with other arguments shares this call's key (`Table.separates`,
    see `C09_separates`): for deduplicate the in-flight task found IS the task of this body with these arguments, for
    alru_cache / acached_per_instance the cached value IS the value of this body with these arguments. -/
theorem C09_own_entries (c : Cell) (a : Args) (env : Env)
    (h : supported c.kind c.ft c.acc = true) (hk : c.kind.hasAsynq = true)
    (hst : Table.separates env.keyOf (refArgs c.ft c.acc 0 a) env.tasks)
    (hsc : Table.separates env.keyOf (refArgs c.ft c.acc 0 a) env.cache)
    (ht : Table.ownConsistent env.keyOf env.tasks) (hc : Table.ownConsistent env.keyOf env.cache) :
    app env .asynq c.callable (callerArgs c.ft c.acc 0 a) = .fut ⟨1, refArgs c.ft c.acc 0 a, c.kind.userWrapped⟩ := by
  obtain ⟨k, ft, acc, bk⟩ := c
  exact asynq_own_entries k ft acc bk a env h hk hst hsc ht hc

/-! ## predecessors: objects that died before the object under test was created (`id()` reuse)

  The library identifies a function / an instance in its tables by `id()`: `DeduplicateDecorator.tasks` is ONE table
  for all deduplicated functions, keyed by `(id(self.fn), key)` (tools.py:363-371); `acached_per_instance` keys its
  per-instance dictionaries by `id(self)` (tools.py:216-221).  `id()` is unique among LIVE objects only.  The identity
  tokens of the model are addresses in this section: token 1 = the address of the function under test. -/

/-- every entry's owner (first component of its key) is alive: an entry PINS its owner (deduplicate: table -> task ->
    on_computed -> callback -> `self` -> `self.fn`) or is dropped when the owner dies (acached_per_instance: the
    callback of `weakref.ref(self, ...)`) -/
def Table.pinned (live : List Nat) (t : Table) : Prop := ∀ e ∈ t, e.1.1 ∈ live

/-- **predecessors cannot matter**: whatever earlier functions left in the in-flight table and the caches - ANY
    entries, under ANY keys, this call's included, for ANY key function and hashes - `.asynq(...)` of a function that was
    created afterwards is a future of its own body with its own receiver and arguments, provided the entries pin their
    owners (`Table.pinned`) and allocation gave the new function an address no live object has (`hfresh`).
    `pinned` is what the code has to maintain; it is needed: `C09_pinned_needed` (seeded changes C09-10, C09-11). -/
theorem C09_predecessors_irrelevant (c : Cell) (a : Args) (env : Env) (live : List Nat)
    (h : supported c.kind c.ft c.acc = true) (hk : c.kind.hasAsynq = true)
    (hfresh : 1 ∉ live)
    (ht : Table.pinned live env.tasks) (hc : Table.pinned live env.cache) :
    app env .asynq c.callable (callerArgs c.ft c.acc 0 a) = .fut ⟨1, refArgs c.ft c.acc 0 a, c.kind.userWrapped⟩ := by
  have nt : ∀ e ∈ env.tasks, e.1.1 ≠ 1 := fun e he h1 => hfresh (h1 ▸ ht e he)
  have nc : ∀ e ∈ env.cache, e.1.1 ≠ 1 := fun e he h1 => hfresh (h1 ▸ hc e he)
  have st := (C09_separates env.keyOf (refArgs c.ft c.acc 0 a) env.tasks).2 nt
  have sc := (C09_separates env.keyOf (refArgs c.ft c.acc 0 a) env.cache).2 nc
  exact C09_own_entries c a env h hk st.1 sc.1 st.2 sc.2

/-! ## the hypotheses are needed (machine-checked witnesses) -/

/-- `supported` is needed: `alru_cache` over a staticmethod fetched through an instance is outside the bindings the
    wrapper is written for, and the model does not follow the reference table there -/
theorem C09_supported_needed :
    supported .alru .static .inst = false ∧
    (modelCv (Env.idle id) ⟨.alru, .static, .inst, .plain⟩ .asynqValue ⟨[30], []⟩).res ≠
      (refCv ⟨.alru, .static, .inst, .plain⟩ .asynqValue ⟨[30], []⟩).res := by decide

/-- `available` is needed: a pure function has no `.asynq`, an undecorated one nothing for `get_async_fn` -/
theorem C09_available_needed :
    available .pure .asynqValue = false ∧
    (modelCv (Env.idle id) ⟨.pure, .plain, .inst, .plain⟩ .asynqValue ⟨[30], []⟩).res = .err .noAsynq ∧
    available .raw .getAsyncFn = false ∧
    (modelCv (Env.idle id) ⟨.raw, .plain, .inst, .plain⟩ .getAsyncFn ⟨[30], []⟩).res = .err .noAsynq := by decide

/-- `hkey` of `C09_second_call` is needed: under a key function that collapses all arguments (what keying the
    in-flight table by a colliding hash amounts to) the observed call of a deduplicated method is handed the task of
    the second call - the body runs with the OTHER call's arguments -/
theorem C09_second_call_key_needed :
    (modelCv (Env.quiet (fun _ => ⟨[], []⟩) id false) ⟨.dedup, .plain, .inst, .plain⟩ .sibling ⟨[30], []⟩ .args).res =
      .val ⟨1, ⟨[1, 130], []⟩, false⟩ ∧
    (refCv ⟨.dedup, .plain, .inst, .plain⟩ .sibling ⟨[30], []⟩ .args).res = .val ⟨1, ⟨[1, 30], []⟩, false⟩ := by decide

/-- `Table.separates` of `C09_dedup_own_body` / `C09_own_entries` is needed: a consistent own entry for OTHER arguments
    is handed out when the key function does not separate them (what seeded change C09-7, key = hash of the arguments,
    does for colliding hashes) -/
theorem C09_key_injective_needed :
    Table.ownConsistent (fun _ => (⟨[], []⟩ : Args)) [((1, ⟨[], []⟩), ⟨1, ⟨[1, 31], []⟩, false⟩)] ∧
    app ⟨fun _ => ⟨[], []⟩, [((1, ⟨[], []⟩), ⟨1, ⟨[1, 31], []⟩, false⟩)], [], id, false⟩ .asynq
        (Cell.callable ⟨.dedup, .plain, .inst, .plain⟩) (callerArgs .plain .inst 0 ⟨[30], []⟩) =
      .fut ⟨1, ⟨[1, 31], []⟩, false⟩ := by
  refine ⟨?_, by decide⟩
  intro e he _
  simp only [List.mem_singleton] at he
  subst he
  exact ⟨rfl, rfl, rfl⟩

/-- `ht` is needed: an entry under this call's key that no call of the function put there is handed out -/
theorem C09_consistent_needed :
    app ⟨id, [((1, ⟨[1, 30], []⟩), ⟨77, ⟨[99], []⟩, false⟩)], [], id, false⟩ .asynq
        (Cell.callable ⟨.dedup, .plain, .inst, .plain⟩) (callerArgs .plain .inst 0 ⟨[30], []⟩) =
      .fut ⟨77, ⟨[99], []⟩, false⟩ := by decide

/-- `Table.pinned` of `C09_predecessors_irrelevant` is needed.  (1) deduplicate: the never-awaited task of a DEAD
    function (body 7) still sits in the shared table under the address that was handed to the function under test -
    `.asynq(...)` returns it (seeded change C09-10: the clean-up callback no longer refers to the decorator, so the
    entry does not keep it alive), while the plain call runs the own body: the conventions disagree.
    (2) acached_per_instance: the value cached for a DEAD instance (token 11) under the address (1) that now belongs to
    the receiver is returned (seeded change C09-11: no weak reference, so nothing drops the entry). -/
theorem C09_pinned_needed :
    ¬ Table.pinned [] [((1, (⟨[30], []⟩ : Args)), (⟨7, ⟨[30], []⟩, false⟩ : Reach))] ∧
    app ⟨id, [((1, ⟨[30], []⟩), ⟨7, ⟨[30], []⟩, false⟩)], [], id, false⟩ .asynq
        (Cell.callable ⟨.dedup, .plain, .direct, .gen⟩) (callerArgs .plain .direct 0 ⟨[30], []⟩) =
      .fut ⟨7, ⟨[30], []⟩, false⟩ ∧
    (runCv ⟨id, [((1, ⟨[30], []⟩), ⟨7, ⟨[30], []⟩, false⟩)], [], id, false⟩ .sync
        (Cell.callable ⟨.dedup, .plain, .direct, .gen⟩) (callerArgs .plain .direct 0 ⟨[30], []⟩)
        .pyNone ⟨[], []⟩ .pyNone ⟨[], []⟩).res = .val ⟨1, ⟨[30], []⟩, false⟩ ∧
    app ⟨id, [], [((1, ⟨[1, 30], []⟩), ⟨1, ⟨[11, 30], []⟩, false⟩)], id, false⟩ .asynq
        (Cell.callable ⟨.acpi, .plain, .inst, .gen⟩) (callerArgs .plain .inst 0 ⟨[30], []⟩) =
      .fut ⟨1, ⟨[11, 30], []⟩, false⟩ := by
  refine ⟨fun h => ?_, by decide, by decide, by decide⟩
  cases h _ (List.mem_singleton.mpr rfl)

/-- `hself` of `C09_any_receiver` is needed: an `acached_per_instance` method fetched through the class and called
    without any argument has no `self` - the wrapper's own parameter list rejects the call -/
theorem C09_self_needed :
    app (Env.idle id) .asynq (descrGet (build .acpi .plain .plain false) none 2) ⟨[], []⟩ ≠ .fut ⟨1, ⟨[], []⟩, false⟩ := by
  decide

/-- `hr` (`rawGen = false`) of `C09_outcome_partial` is needed: an undecorated generator function enters no body -/
theorem C09_rawgen_needed :
    Cell.rawGen ⟨.raw, .plain, .direct, .gen⟩ = true ∧
    (obsOf (mkSig .var false) false .asyncCall (modelCv (Env.idle id) ⟨.raw, .plain, .direct, .gen⟩ .asyncCall ⟨[30], []⟩)).log = [] ∧
    (obsOf (mkSig .var false) false .asyncCall (modelCv (Env.idle id) ⟨.raw, .plain, .direct, .gen⟩ .asyncCall ⟨[30], []⟩)).out =
      .gotGenerator := by decide

/-- `hne` of `C09_second_call_partial` is needed: when the second call would BE the observed call (no receiver to
    vary, no argument to replace) the convention is not run at all -/
theorem C09_second_call_distinct_needed :
    identicalSib .plain .direct .args ⟨[], []⟩ = true ∧
    modelCv (Env.quiet id id false) ⟨.dedup, .plain, .direct, .plain⟩ .sibling ⟨[], []⟩ .args = CvRes.skipped := by decide

/-- `hasRecvParam` of `C09_second_call_receivers` is needed: a staticmethod has no receiver to vary - the second call
    falls back to other argument objects -/
theorem C09_recv_param_needed :
    hasRecvParam .static .inst = false ∧
    (refArgs .static .inst 0 ⟨[30], []⟩).pos = [30] ∧ (refArgsSib .static .inst .recv ⟨[30], []⟩).pos = [130] := by decide

/-- `hc` of `C09_other_keys_irrelevant_partial` / `Table.ownConsistent` of the CACHE in `C09_own_entries` is needed: a
    cache entry under this call's key that no call of the function put there is what alru_cache returns -/
theorem C09_cache_consistent_needed :
    app ⟨id, [], [((1, ⟨[1, 30], []⟩), ⟨77, ⟨[99], []⟩, false⟩)], id, false⟩ .asynq
        (Cell.callable ⟨.alru, .plain, .inst, .plain⟩) (callerArgs .plain .inst 0 ⟨[30], []⟩) =
      .fut ⟨77, ⟨[99], []⟩, false⟩ := by decide

/-- `hk` (`hasAsynq`) of `C09_other_keys_irrelevant_partial` / `C09_own_entries` is needed: a pure function has no `.asynq` -/
theorem C09_has_asynq_needed :
    Kind.hasAsynq .pure = false ∧
    app Env.empty .asynq (Cell.callable ⟨.pure, .plain, .inst, .plain⟩) (callerArgs .plain .inst 0 ⟨[30], []⟩) = .err .noAsynq := by
  decide

/-- **HOW sync_fn is supplied matters** (second audit, N5): each of the two pair decorators works with ONE spelling,
    the one `build` (and the harness) uses - `@asynq(sync_fn=...)` re-binds sync_fn through the descriptor protocol
    (AsyncAndSyncPairDecorator.__get__, decorators.py:263-280), so over a classmethod / staticmethod sync_fn must be
    wrapped LIKE fn; `@async_proxy(sync_fn=...)` has no such `__get__` and calls `sync_fn(receiver, ...)` itself
    (decorators.py:319), so sync_fn must be the BARE function.  With the other spelling:
    * `@async_proxy(sync_fn=<classmethod object>) @classmethod`: the plain call fails ('classmethod' object is not
      callable) while `.asynq` works;
    * `@asynq(sync_fn=<bare function>) @classmethod`: through an instance sync_fn runs with the INSTANCE where the async
      body gets the class; through the class it gets no receiver at all.
    Reproduced on the real code (probe in INTEGRATION.md).  The property's sentence "when sync_fn is supplied the
    synchronous call runs sync_fn instead [with the same bound instance/class]" holds for the working spelling only:
    that is the restriction built into `build` (ASSUMPTIONS of the check), and this theorem is its necessity witness. -/
theorem C09_sync_fn_spelling_needed :
    -- the spellings of `build`: both calls get the class
    app (Env.idle id) .call (descrGet (build .pair .classm .plain false) (some 1) 2) ⟨[30], []⟩ = .val ⟨2, ⟨[2, 30], []⟩, false⟩ ∧
    app (Env.idle id) .call (descrGet (build .pairProxy .classm .plain false) none 2) ⟨[30], []⟩ = .val ⟨2, ⟨[2, 30], []⟩, false⟩ ∧
    -- @async_proxy(sync_fn=classmethod(sf)) @classmethod
    app (Env.idle id) .call
        (descrGet (mkDec .pairProxy (.cmethod (.func ⟨1, false, true, false⟩)) (.cmethod (.func ⟨2, false, false, false⟩))) none 2)
        ⟨[30], []⟩ = .err .typeError ∧
    app (Env.idle id) .asynq
        (descrGet (mkDec .pairProxy (.cmethod (.func ⟨1, false, true, false⟩)) (.cmethod (.func ⟨2, false, false, false⟩))) none 2)
        ⟨[30], []⟩ = .fut ⟨1, ⟨[2, 30], []⟩, false⟩ ∧
    -- @asynq(sync_fn=sf) @classmethod
    app (Env.idle id) .call
        (descrGet (mkDec .pair (.cmethod (.func ⟨1, false, false, false⟩)) (.func ⟨2, false, false, false⟩)) (some 1) 2)
        ⟨[30], []⟩ = .val ⟨2, ⟨[1, 30], []⟩, false⟩ ∧
    app (Env.idle id) .call
        (descrGet (mkDec .pair (.cmethod (.func ⟨1, false, false, false⟩)) (.func ⟨2, false, false, false⟩)) none 2)
        ⟨[30], []⟩ = .val ⟨2, ⟨[30], []⟩, false⟩ ∧
    app (Env.idle id) .asynq
        (descrGet (mkDec .pair (.cmethod (.func ⟨1, false, false, false⟩)) (.func ⟨2, false, false, false⟩)) (some 1) 2)
        ⟨[30], []⟩ = .fut ⟨1, ⟨[2, 30], []⟩, false⟩ := by decide

/-! ## holding by construction of the model (NOT headline claims; the content is the correspondence run) -/

/-- `Case.falsy` (the generated instances / classes are falsy objects) and `Case.pre` (look-ups of the same attribute
    through other access paths before the observed one) are read by NO function of the model or of `spec`: this is
    `rfl`.  That a falsy receiver is bound like a truthy one, and that `__get__` keeps nothing between two accesses,
    is what the harness checks on the real code by running these variants; the model only says that it has no such
    dependency (see `C09_any_receiver` for what it does say about receivers). -/
theorem C09_truthiness_history_by_construction (c : Case) (falsy : Bool) (pre : List Access) (r : Report) :
    modelReport { c with falsy := falsy, pre := pre } = modelReport c ∧
    refReport { c with falsy := falsy, pre := pre } = refReport c ∧
    spec { c with falsy := falsy, pre := pre } r = spec c r :=
  ⟨rfl, rfl, rfl⟩

/-- the pairs of conventions that are ONE computation in the model, by definition of `runCv` (C01/C02 assumed) -/
theorem C09_convention_pairs_by_definition (env : Env) (b : Obj) (a : Args) (tb : Obj) (ta : Args) (sb : Obj) (sa : Args) :
    runCv env .sync b a tb ta sb sa = runCv env .nestedSync b a tb ta sb sa ∧
    runCv env .asynqValue b a tb ta sb sa = runCv env .yieldAsynq b a tb ta sb sa ∧
    runCv env .asyncCall b a tb ta sb sa = runCv env .asyncCallSync b a tb ta sb sa :=
  ⟨rfl, rfl, rfl⟩

/-! ## non-vacuity -/

/-- a classmethod fetched through an instance of the subclass, called with a positional, a keyword-only and an
    unknown keyword argument - the instance being falsy, after look-ups through the base class and one of its
    instances: the body sees the SUBCLASS once, then the arguments -/
example :
    (modelReport ⟨⟨.pair, .classm, .subInst, .gen⟩, false, .mixed, ⟨[30, 31, 32], [(3, 40), (5, 41)]⟩, true, [.cls, .inst], .args, .tok⟩).obs.head? =
      some ⟨.sync, [⟨2, [4, 30, 31, 0, 32, 0, 40, 0, 5, 41], true⟩], .ok 2 false, false⟩ := by decide

example :
    (((modelReport ⟨⟨.dedup, .plain, .cls, .batch⟩, true, .fixed, ⟨[30], [(2, 31)]⟩, false, [], .args, .tok⟩).obs.find?
        (fun o => o.cv == .twin)).map (·.log.map (·.body))) = some [3, 1] := by decide

/-- binding errors are outcomes too, the same for every convention -/
example :
    (modelReport ⟨⟨.mad, .static, .inst, .plain⟩, false, .fixed, ⟨[30, 31, 32], []⟩, false, [], .args, .tok⟩).obs.map (·.out) =
      List.replicate 13 (.raised .typeError) := by decide

/-- the predicate is not trivially true: it rejects the observations a pair decorator would produce if `__get__`
    forgot to re-wrap a staticmethod (the instance is prepended on the async side only) ... -/
example :
    spec ⟨⟨.pair, .static, .inst, .plain⟩, false, .var, ⟨[30], []⟩, false, [], .args, .tok⟩
      { modelReport ⟨⟨.pair, .static, .inst, .plain⟩, false, .var, ⟨[30], []⟩, false, [], .args, .tok⟩ with
        obs := (modelReport ⟨⟨.pair, .static, .inst, .plain⟩, false, .var, ⟨[30], []⟩, false, [], .args, .tok⟩).obs.map fun o =>
          if o.cv = .asynqValue then { o with log := [⟨1, [0, 1, 30, 0, 0], true⟩] } else o } = false := by decide

/-- the regression case of the repaired defect: a module-level `@async_proxy(pure=True)` function is accepted ... -/
example :
    spec ⟨⟨.proxyPure, .plain, .direct, .plain⟩, false, .fixed, ⟨[30], []⟩, false, [], .args, .tok⟩
      (modelReport ⟨⟨.proxyPure, .plain, .direct, .plain⟩, false, .fixed, ⟨[30], []⟩, false, [], .args, .tok⟩) = true := by decide

/-- ... and what the unrepaired code produced (a future object out of `async_call`) is rejected -/
example :
    spec ⟨⟨.proxyPure, .plain, .direct, .plain⟩, false, .fixed, ⟨[30], []⟩, false, [], .args, .tok⟩
      { modelReport ⟨⟨.proxyPure, .plain, .direct, .plain⟩, false, .fixed, ⟨[30], []⟩, false, [], .args, .tok⟩ with
        obs := (modelReport ⟨⟨.proxyPure, .plain, .direct, .plain⟩, false, .fixed, ⟨[30], []⟩, false, [], .args, .tok⟩).obs.map fun o =>
          if o.cv = .asyncCall then { o with out := .gotFuture } else o } = false := by decide

/-- ... and a helper that misclassifies -/
example :
    spec ⟨⟨.pure, .plain, .inst, .plain⟩, false, .var, ⟨[], []⟩, false, [], .args, .tok⟩
      { modelReport ⟨⟨.pure, .plain, .inst, .plain⟩, false, .var, ⟨[], []⟩, false, [], .args, .tok⟩ with
        cls := ⟨true, false, false, .self, .self⟩ } = false := by decide

/-- a deduplicated method with a second call in flight whose arguments are OTHER built-in ints with the SAME hashes:
    both bodies run, each with its own arguments (second call first: it was created first) ... -/
example :
    (((modelReport ⟨⟨.dedup, .plain, .inst, .gen⟩, false, .fixed, ⟨[30], [(3, 32)]⟩, false, [], .args, .bigint⟩).obs.find?
        (fun o => o.cv == .sibling)).map (·.log.map (·.seen))) =
      some [[1, 130, 20, 0, 0, 132, 0], [1, 30, 20, 0, 0, 32, 0]] := by decide

/-- ... and the observations of an implementation that keys the in-flight table by the HASH of the arguments (the
    observed call is handed the task of the second call: only that body runs) are rejected -/
example :
    spec ⟨⟨.dedup, .plain, .inst, .gen⟩, false, .fixed, ⟨[30], [(3, 32)]⟩, false, [], .args, .bigint⟩
      { modelReport ⟨⟨.dedup, .plain, .inst, .gen⟩, false, .fixed, ⟨[30], [(3, 32)]⟩, false, [], .args, .bigint⟩ with
        obs := (modelReport ⟨⟨.dedup, .plain, .inst, .gen⟩, false, .fixed, ⟨[30], [(3, 32)]⟩, false, [], .args, .bigint⟩).obs.map fun o =>
          if o.cv = .sibling then { o with log := o.log.take 1 } else o } = false := by decide

/-- an `acached_per_instance` method called through a SECOND instance first (all receivers hash alike): the cache of
    the first instance is still cold, both bodies run, each with its own instance -/
example :
    (((modelReport ⟨⟨.acpi, .plain, .inst, .plain⟩, false, .var, ⟨[30], []⟩, false, [], .recv, .chash⟩).obs.find?
        (fun o => o.cv == .prior)).map (·.log.map (·.seen))) =
      some [[9, 0, 30, 0, 0], [1, 0, 30, 0, 0]] := by decide

/-- the conventions with a second call are skipped exactly when that call would be the observed call itself -/
example :
    ((modelReport ⟨⟨.dedup, .plain, .direct, .plain⟩, false, .var, ⟨[], []⟩, false, [], .recv, .tok⟩).obs.filter
        (fun o => o.cv.isSib)).map (·.out) = List.replicate 3 (.raised .skipped) := by decide


/-- B5 of the audit: reports for cells OUTSIDE the supported bindings used to be accepted whatever they said; they are
    rejected now (and so is the model's own report there: such cells are never generated) -/
example : spec ⟨⟨.acpi, .plain, .direct, .plain⟩, false, .fixed, ⟨[30], []⟩, false, [], .args, .tok⟩
    ⟨[], ⟨false, true, false, .absent, .absent⟩, 999⟩ = false := by decide
example : spec ⟨⟨.alru, .classm, .inst, .plain⟩, false, .fixed, ⟨[30], []⟩, false, [], .args, .tok⟩
    ⟨[], ⟨false, true, false, .absent, .absent⟩, 999⟩ = false := by decide
example : spec ⟨⟨.asynq, .static, .direct, .plain⟩, false, .fixed, ⟨[30], []⟩, false, [], .args, .tok⟩
    ⟨[], ⟨false, true, false, .absent, .absent⟩, 999⟩ = false := by decide
example : spec ⟨⟨.alru, .static, .inst, .plain⟩, false, .fixed, ⟨[30], []⟩, false, [], .args, .tok⟩
    (modelReport ⟨⟨.alru, .static, .inst, .plain⟩, false, .fixed, ⟨[30], []⟩, false, [], .args, .tok⟩) = false := by decide
example : specClause ⟨⟨.asynq, .static, .direct, .plain⟩, false, .fixed, ⟨[30], []⟩, false, [], .args, .tok⟩
    ⟨[], ⟨false, true, false, .absent, .absent⟩, 999⟩ = "unsupported-cell" := by decide

/-- on a supported cell: reordered, truncated, receiver-changed, resume-flag-changed observations are rejected -/
example : spec ⟨⟨.asynq, .plain, .inst, .plain⟩, false, .fixed, ⟨[30], []⟩, false, [], .args, .tok⟩
    { modelReport ⟨⟨.asynq, .plain, .inst, .plain⟩, false, .fixed, ⟨[30], []⟩, false, [], .args, .tok⟩ with
      obs := (modelReport ⟨⟨.asynq, .plain, .inst, .plain⟩, false, .fixed, ⟨[30], []⟩, false, [], .args, .tok⟩).obs.reverse } = false := by
  decide
example : spec ⟨⟨.asynq, .plain, .inst, .plain⟩, false, .fixed, ⟨[30], []⟩, false, [], .args, .tok⟩
    { modelReport ⟨⟨.asynq, .plain, .inst, .plain⟩, false, .fixed, ⟨[30], []⟩, false, [], .args, .tok⟩ with
      obs := (modelReport ⟨⟨.asynq, .plain, .inst, .plain⟩, false, .fixed, ⟨[30], []⟩, false, [], .args, .tok⟩).obs.dropLast } = false := by
  decide
example : spec ⟨⟨.asynq, .plain, .inst, .plain⟩, false, .fixed, ⟨[30], []⟩, false, [], .args, .tok⟩
    { modelReport ⟨⟨.asynq, .plain, .inst, .plain⟩, false, .fixed, ⟨[30], []⟩, false, [], .args, .tok⟩ with got := 2 } = false := by
  decide

example : spec ⟨⟨.asynq, .plain, .inst, .gen⟩, false, .fixed, ⟨[30], []⟩, false, [], .args, .tok⟩
    { modelReport ⟨⟨.asynq, .plain, .inst, .gen⟩, false, .fixed, ⟨[30], []⟩, false, [], .args, .tok⟩ with
      obs := (modelReport ⟨⟨.asynq, .plain, .inst, .gen⟩, false, .fixed, ⟨[30], []⟩, false, [], .args, .tok⟩).obs.map fun o =>
        { o with log := o.log.map fun e => { e with got := false } } } = false := by
  decide

/-- an undecorated generator function: every convention that reaches it ends with the generator object, no body is
    entered (the cells the generator used to skip) ... -/
example :
    (modelReport ⟨⟨.raw, .plain, .inst, .gen⟩, false, .fixed, ⟨[30], []⟩, false, [], .args, .tok⟩).obs.map (fun o => (o.cv, o.log.length, o.out)) =
      [(.sync, 0, .gotGenerator), (.asynqValue, 0, .raised .noAsynq), (.yieldAsynq, 0, .raised .noAsynq),
       (.nestedSync, 0, .gotGenerator), (.asyncCall, 0, .gotGenerator), (.asyncCallSync, 0, .gotGenerator),
       (.getAsyncFn, 0, .raised .noAsynq), (.getAsyncOrSync, 0, .gotGenerator), (.getAsyncFnWrap, 0, .gotGenerator),
       (.twin, 0, .raised .noAsynq), (.sibling, 0, .raised .noAsynq), (.siblingCall, 0, .gotGenerator),
       (.prior, 0, .raised .noAsynq)] := by decide

/-- ... and the observations the model USED to predict there (the body runs and returns) are rejected -/
example :
    spec ⟨⟨.raw, .plain, .inst, .gen⟩, false, .fixed, ⟨[30], []⟩, false, [], .args, .tok⟩
      (modelReport ⟨⟨.raw, .plain, .inst, .plain⟩, false, .fixed, ⟨[30], []⟩, false, [], .args, .tok⟩) = false := by decide

/-- `C09_any_receiver` instantiated: receiver token 0 (the token the harness reserves for None) or a huge one are bound
    like any other -/
example : app (Env.idle id) .asynq (descrGet (build .pair .plain .gen false) (some 0) 12345) ⟨[30], []⟩ =
    .fut ⟨1, ⟨[0, 30], []⟩, false⟩ := by decide
example : app (Env.idle id) .asynq (descrGet (build .mad .classm .batch false) none 12345) ⟨[30], []⟩ =
    .fut ⟨1, ⟨[12345, 30], []⟩, true⟩ := by decide

/-- `C09_own_entries` instantiated non-vacuously: the observed call's own task is in flight under its key -/
example : app ⟨id, [((1, ⟨[1, 30], []⟩), ⟨1, ⟨[1, 30], []⟩, false⟩), ((3, ⟨[1, 30], []⟩), ⟨3, ⟨[5, 30], []⟩, false⟩)], [], id, false⟩
    .asynq (Cell.callable ⟨.dedup, .plain, .inst, .plain⟩) (callerArgs .plain .inst 0 ⟨[30], []⟩) =
      .fut ⟨1, ⟨[1, 30], []⟩, false⟩ := by decide

/-! ## history of the world, an overriding subclass (`XCase`)

  BY CONSTRUCTION (second audit, N12): `HState.step` is the identity on every state a history can reach - no
  constructor of `Ev` writes `shadowed` or `mode` (`aioCall s f = s` is `rfl`), and `modelReportH` does not feed the
  history into `Env` (the `use` events of the harness really fill the caches of alru_cache / acached_per_instance with
  entries for THIRD argument objects; the model's environment stays cold - that such entries do not matter is
  `C09_other_keys_irrelevant_partial`, but it is not derived here).  So the three `C09_history_*_by_construction`
  statements say only that THE MODEL has no state a history could change; that the CODE has none is established by the
  differential run of the history family alone.  What the steps WOULD do to a state that is not clean is shown by the two
  contrast witnesses `C09_aio_exit_needed` (a reset skipped on the failing exit) and `C09_use_shadow_needed` (a `__get__`
  that caches the binder in the instance `__dict__`, the shape of seeded change C09-9).  None of these is a headline
  claim. -/

/-- for EVERY list of events (uses of the attribute in this or another thread,
    helper calls, `copy` / `deepcopy` of the instances, `.asyncio()` calls that return or fail - of a helper or of the
    attribute itself -, gc, debug options, scoped values, mock patches) and EVERY starting state: the asyncio-mode flag
    is afterwards what it was before, and if no instance `__dict__` shadowed the attribute none does.  (Each step mirrors
    what the code does to these two pieces of state; that the code has no third one is the correspondence run's part.) -/
theorem C09_history_restores_by_construction (raises : Bool) (s : HState) (h : List Ev) :
    (runHistFrom raises s h).mode = s.mode ∧ (s.shadowed = [] → (runHistFrom raises s h).shadowed = []) := by
  unfold runHistFrom
  induction h generalizing s with
  | nil => exact ⟨rfl, id⟩
  | cons e es ih =>
    have hm : (HState.step raises s e).mode = s.mode := by cases e <;> rfl
    have hs : s.shadowed = [] → (HState.step raises s e).shadowed = [] := by
      intro h0
      cases e <;> simp [HState.step, aioCall, aioEnter, aioExit, h0]
    obtain ⟨i1, i2⟩ := ih (HState.step raises s e)
    exact ⟨by rw [List.foldl_cons, i1, hm], fun h0 => by rw [List.foldl_cons]; exact i2 (hs h0)⟩

/-- from the initial world (asyncio mode off, nothing shadowed) every history ends in the initial world -/
theorem C09_history_clean_by_construction (raises : Bool) (h : List Ev) : runHist raises h = HState.init := by
  obtain ⟨h1, h2⟩ := C09_history_restores_by_construction raises HState.init h
  have h2' := h2 rfl
  unfold runHist
  cases hr : runHistFrom raises HState.init h with
  | mk m sh =>
    rw [hr] at h1 h2'
    simp only [HState.init] at h1 h2' ⊢
    subst h1; subst h2'; rfl

/-- **the history of the world is irrelevant**: whatever happened before, the model's observations of a case are
    those of the case in a fresh world - so every theorem about `modelReport` / `spec` above holds after ANY history -/
theorem C09_history_irrelevant_by_construction (x : XCase) : modelReportH x = modelReport x.base := by
  unfold modelReportH
  rw [C09_history_clean_by_construction]; rfl

/-- the reset on the failing exit is needed (the shape of seeded change C09-8: a generator-based AsyncioMode without
    try/finally): with it skipped, one failed `.asyncio()` call leaves the caller's context in asyncio mode - and the
    model then has no report the observer would accept -/
theorem C09_aio_exit_needed :
    (aioCallLeaky HState.init true).mode = true ∧ (aioCallLeaky HState.init true).clean = false ∧
    (aioCall HState.init true).clean = true ∧
    specX ⟨⟨⟨.asynq, .plain, .inst, .gen⟩, false, .fixed, ⟨[30], []⟩, false, [], .args, .tok⟩, [.aioFail], false⟩
      Report.undefined = false := by decide

/-- **C09 as a whole, with history and override**: for every extended case of a supported cell (any history; the
    override family where it is defined) the observations of the model are accepted by `specX`, the observer the
    check evaluates on the observations of the real implementation -/
theorem C09_spec_holds_ext_partial (x : XCase) (h : supported x.base.cell.kind x.base.cell.ft x.base.cell.acc = true)
    (ho : x.ovrOk = true) (hfn : x.base.args.fnFree = true) : specX x (modelReportX x) = true := by
  unfold specX modelReportX refReportX
  rw [h, ho, C09_history_irrelevant_by_construction, modelReport_eq_F x.base hfn, modelReport_eq_ref x.base h]
  cases x.ovr <;> simp [reportClause_self]

/-- **the extended observer is exact** -/
theorem C09_spec_exact_ext (x : XCase) (r : Report) :
    specX x r = true ↔
      (supported x.base.cell.kind x.base.cell.ft x.base.cell.acc = true ∧ x.ovrOk = true ∧ r = refReportX x) := by
  unfold specX
  rw [Bool.and_eq_true, Bool.and_eq_true, Option.isNone_iff_eq_none, reportClause_none_iff]
  constructor
  · rintro ⟨⟨h1, h2⟩, h3⟩; exact ⟨h1, h2, h3.symm⟩
  · rintro ⟨h1, h2, h3⟩; exact ⟨⟨h1, h2⟩, h3.symm⟩

/-- **the extension is conservative**: without an override `specX` IS `spec` of the underlying case - for every
    history - so what `C09_spec_exact` and the theorems about the reference table say is what the check enforces -/
theorem C09_ext_conservative (x : XCase) (r : Report) (h : x.ovr = false) : specX x r = spec x.base r := by
  unfold specX spec refReportX XCase.ovrOk
  simp [h]

/-- BY CONSTRUCTION (second audit, N12 / G): `ovrLog` unfolded on `C09_outcome_partial` - the same conclusion holds for
    ANY observation with that log; no override is modelled, and for override cases CORR and SPEC are the SAME
    comparison against this one hand-written expectation.
    What the override family expects (an expectation on observations, not a model of `super()`): for every asynchronous convention that is run, the overriding body
    (identity 5) is entered with exactly the bound parameters the inherited body (identity 1) is then entered with,
    and the outcome is the inherited body's; nothing is entered when the arguments do not bind -/
theorem C09_override_log_by_construction (c : Cell) (a : Args) (keyOf : Args → Args) (s : Sig) (raises : Bool) (cv : Cv)
    (h : supported c.kind c.ft c.acc = true) (hv : available c.kind cv = true) (hr : c.rawGen = false)
    (hf : cv.inFlight = false) (hfn : a.fnFree = true) :
    (ovrObs (obsOf s raises cv (modelCv (Env.idle keyOf) c cv a))).log =
        (match bind s (refArgs c.ft c.acc 0 a) with
         | some seen => [⟨5, seen, true⟩, ⟨1, seen, true⟩]
         | none => []) ∧
    (ovrObs (obsOf s raises cv (modelCv (Env.idle keyOf) c cv a))).out =
        (match bind s (refArgs c.ft c.acc 0 a) with
         | some _ => bodyOutcome raises 1 c.kind.userWrapped
         | none => .raised .typeError) := by
  obtain ⟨ho, hl⟩ := C09_outcome_partial c a keyOf s raises cv h hv hr hfn
  have hne : cv ≠ .twin := by intro e; subst e; simp [Cv.inFlight] at hf
  have hcv : (obsOf s raises cv (modelCv (Env.idle keyOf) c cv a)).cv = cv := rfl
  unfold ovrObs
  rw [hcv, hf]
  simp only [Bool.false_eq_true, if_false]
  rw [hl hne, ho]
  cases bind s (refArgs c.ft c.acc 0 a) <;> simp [ovrLog]

/-- contrast model for `shadowed`: what a use of the attribute would leave behind if `__get__` cached the binder in the
    instance `__dict__` (a non-data descriptor is then shadowed for that instance: the shape of seeded change C09-9) -/
def useLeaky (s : HState) (inst : Nat) : HState := { s with shadowed := inst :: s.shadowed }

/-- ... then the state is not clean, `copy` really carries the entry over to the copy (`HState.step` is NOT the identity
    there), a later history cannot remove it, and the model has no report the observer would accept -/
theorem C09_use_shadow_needed :
    (useLeaky HState.init 3).clean = false ∧
    (HState.step false (useLeaky HState.init 3) .copy).shadowed = [3, 53] ∧
    (runHistFrom false (useLeaky HState.init 3) [.use, .copy, .aioFail, .gc]).clean = false ∧
    HState.step false HState.init .copy = HState.init := by decide

/-- the history and override dimensions at work: a pair method fetched through an instance of the subclass that
    overrides it, after a use, a copy and a failed `.asyncio()` call - the synchronous call enters the overriding
    sync_fn and then the inherited one, both with the instance -/
example :
    (modelReportX ⟨⟨⟨.pair, .plain, .subInst, .gen⟩, false, .fixed, ⟨[30], []⟩, false, [], .args, .tok⟩,
        [.use, .copy, .aioFail], true⟩).obs.head? =
      some ⟨.sync, [⟨6, [3, 30, 20, 0, 0, 21, 0], true⟩, ⟨2, [3, 30, 20, 0, 0, 21, 0], true⟩], .ok 2 false, false⟩ := by decide

/-- ... what seeded change C09-9 produces after a use (the cached binder of the INHERITED attribute answers: the
    overriding body is skipped) is rejected -/
example :
    specX ⟨⟨⟨.pair, .plain, .subInst, .gen⟩, false, .fixed, ⟨[30], []⟩, false, [], .args, .tok⟩, [.use], true⟩
      (modelReport ⟨⟨.pair, .plain, .subInst, .gen⟩, false, .fixed, ⟨[30], []⟩, false, [], .args, .tok⟩) = false := by decide

/-- `ho` (`ovrOk`) of `C09_spec_holds_ext_partial` is needed: an override case outside the family is rejected whatever
    was observed - the model's own report included -/
theorem C09_ovr_ok_needed :
    XCase.ovrOk ⟨⟨⟨.pair, .classm, .subCls, .gen⟩, false, .fixed, ⟨[30], []⟩, false, [], .recv, .tok⟩, [], true⟩ = false ∧
    specX ⟨⟨⟨.pair, .classm, .subCls, .gen⟩, false, .fixed, ⟨[30], []⟩, false, [], .recv, .tok⟩, [], true⟩
      (modelReportX ⟨⟨⟨.pair, .classm, .subCls, .gen⟩, false, .fixed, ⟨[30], []⟩, false, [], .recv, .tok⟩, [], true⟩) = false ∧
    specClauseX ⟨⟨⟨.pair, .classm, .subCls, .gen⟩, false, .fixed, ⟨[30], []⟩, false, [], .recv, .tok⟩, [], true⟩
      Report.undefined = "unsupported-override" := by decide

/-- `x.ovr = false` of `C09_ext_conservative` is needed: with an overriding subclass the observer expects the overriding
    body's entries, which `spec` of the underlying case rejects -/
theorem C09_ext_conservative_needed :
    specX ⟨⟨⟨.pair, .plain, .subInst, .gen⟩, false, .fixed, ⟨[30], []⟩, false, [], .args, .tok⟩, [], true⟩
      (modelReportX ⟨⟨⟨.pair, .plain, .subInst, .gen⟩, false, .fixed, ⟨[30], []⟩, false, [], .args, .tok⟩, [], true⟩) = true ∧
    spec ⟨⟨.pair, .plain, .subInst, .gen⟩, false, .fixed, ⟨[30], []⟩, false, [], .args, .tok⟩
      (modelReportX ⟨⟨⟨.pair, .plain, .subInst, .gen⟩, false, .fixed, ⟨[30], []⟩, false, [], .args, .tok⟩, [], true⟩) = false := by
  decide

end AsynqModel.Decorators
