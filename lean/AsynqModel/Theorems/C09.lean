import AsynqModel.Lib.Decorators
import AsynqModel.Proofs.Decorators
import AsynqModel.Proofs.DecoratorsSib
/-!
# C09  All ways of calling an async function agree, for every kind of callable

Theorems about the model `AsynqModel.Decorators`: for EVERY cell of the finite table
decorator kind x function type x access path x body kind (restricted by `supported` to the bindings each decorator
is written for) and for ARBITRARY argument lists `a : Args` (any positional list, any keyword list).
`Env.idle keyOf` = no deduplicated task in flight, for an arbitrary key function.
`Env.quiet keyOf hashOf raises` = nothing in flight, nothing cached; arbitrary key function, arbitrary hashes of the
argument values, returning or raising bodies.  The conventions that make a SECOND call of the same attribute
(`sibling`, `siblingCall`, `prior`) have their own theorems (`C09_second_call*`, `C09_other_keys_irrelevant`,
`C09_dict_hash_irrelevant`); `available` is false for them, so the one-call theorems do not speak about them.

History: the check found that `@async_proxy(pure=True)` returned the function unmarked, so the helpers did not
recognise it; that was repaired in the library (the decorator now sets `is_pure_async_fn` on the function, as
`lazy` does), the model follows the repaired code and `C09_proxy_pure` states the repaired behaviour.
-/
namespace AsynqModel.Decorators

/-- **every available asynchronous convention runs the same body with the same arguments**: `.asynq(...).value()`,
    yielding `.asynq(...)` from a task, `async_call` (both forms), `get_async_fn` (with and without wrap_if_none),
    `get_async_or_sync_fn` and `.asynq(...)` next to a same-named twin in flight all produce literally the same
    result term -/
theorem C09_agree (c : Cell) (a : Args) (keyOf : Args → Args) (cv₁ cv₂ : Cv)
    (h : supported c.kind c.ft c.acc = true)
    (h₁ : available c.kind cv₁ = true) (h₂ : available c.kind cv₂ = true) :
    (modelCv (Env.idle keyOf) c cv₁ a).res = (modelCv (Env.idle keyOf) c cv₂ a).res := by
  obtain ⟨k, ft, acc, bk⟩ := c
  rw [modelCv_eq_ref k ft acc bk cv₁ a keyOf h (available_not_sib _ _ h₁),
      modelCv_eq_ref k ft acc bk cv₂ a keyOf h (available_not_sib _ _ h₂)]
  cases k <;> cases cv₁ <;> cases cv₂ <;> first | rfl | (simp [available, Kind.hasAsynq] at h₁ h₂)

/-- **exactly one, correct receiver; the caller's arguments unchanged**: each available asynchronous convention
    runs the async body (identity 1; through the user's wrapper_fn iff the decorator was built with
    make_async_decorator) with positional arguments `receiver ++ a.pos` and keywords `a.kw`, where the
    receiver is what Python itself binds for an undecorated function of that type through that access path (the
    instance, the class the attribute was fetched through, or nothing) or the instance the caller passed explicitly
    to an unbound method - never both, never twice -/
theorem C09_receiver (c : Cell) (a : Args) (keyOf : Args → Args) (cv : Cv)
    (h : supported c.kind c.ft c.acc = true) (hv : available c.kind cv = true) :
    (modelCv (Env.idle keyOf) c cv a).res =
        .val ⟨1, { pos := refPrefix c.ft c.acc 0 ++ (explicitSelf c.ft c.acc 0 ++ a.pos), kw := a.kw },
              c.kind.userWrapped⟩ ∧
      (refPrefix c.ft c.acc 0 ++ explicitSelf c.ft c.acc 0).length = (if hasRecvParam c.ft c.acc then 1 else 0) := by
  obtain ⟨k, ft, acc, bk⟩ := c
  rw [modelCv_eq_ref k ft acc bk cv a keyOf h (available_not_sib _ _ hv)]
  constructor
  · cases k <;> cases cv <;> first | rfl | (simp [available, Kind.hasAsynq] at hv)
  · cases ft <;> cases acc <;> rfl

/-- **the synchronous call** (at top level or inside a task) receives the same receiver and arguments; it runs the
    async body - EXCEPT, exactly, when a sync_fn was supplied (`@asynq(sync_fn=...)`, `@async_proxy(sync_fn=...)`):
    then it runs sync_fn (identity 2) instead.  For a pure function the call hands back a future of the async body. -/
theorem C09_sync (c : Cell) (a : Args) (keyOf : Args → Args) (cv : Cv)
    (h : supported c.kind c.ft c.acc = true) (hv : cv = .sync ∨ cv = .nestedSync) :
    modelCv (Env.idle keyOf) c cv a =
      ⟨[], .val ⟨if c.kind.hasSyncFn then 2 else 1, refArgs c.ft c.acc 0 a, c.kind.userWrapped⟩, c.kind.pureLike⟩ := by
  obtain ⟨k, ft, acc, bk⟩ := c
  rw [modelCv_eq_ref k ft acc bk cv a keyOf h (by rcases hv with rfl | rfl <;> rfl)]
  rcases hv with rfl | rfl <;> cases k <;> rfl

/-- **the conventions that do not go through a helper** (`.asynq(...).value()`, yielding it, with a twin in flight)
    reach the async body with the right receiver for every kind that has `.asynq`, and fail with a missing
    attribute for the others -/
theorem C09_direct (c : Cell) (a : Args) (keyOf : Args → Args) (cv : Cv)
    (h : supported c.kind c.ft c.acc = true) (hv : cv = .asynqValue ∨ cv = .yieldAsynq ∨ cv = .twin) :
    (modelCv (Env.idle keyOf) c cv a).res =
      (if c.kind.hasAsynq then .val ⟨1, refArgs c.ft c.acc 0 a, c.kind.userWrapped⟩ else .err .noAsynq) := by
  obtain ⟨k, ft, acc, bk⟩ := c
  rw [modelCv_eq_ref k ft acc bk cv a keyOf h (by rcases hv with rfl | rfl | rfl <;> rfl)]
  rcases hv with rfl | rfl | rfl <;> cases k <;> rfl

/-- **same outcome**: whatever the body's parameter list `s` (ANY signature) and whether it returns or raises, all
    available asynchronous conventions observe the same outcome (returned object, raised exception or TypeError
    from argument binding), and - the twin convention aside, which also logs the twin - the same body log -/
theorem C09_outcome_agree (c : Cell) (a : Args) (keyOf : Args → Args) (s : Sig) (raises : Bool) (cv₁ cv₂ : Cv)
    (h : supported c.kind c.ft c.acc = true)
    (h₁ : available c.kind cv₁ = true) (h₂ : available c.kind cv₂ = true) :
    (obsOf s raises cv₁ (modelCv (Env.idle keyOf) c cv₁ a)).out =
        (obsOf s raises cv₂ (modelCv (Env.idle keyOf) c cv₂ a)).out ∧
      (cv₁ ≠ .twin → cv₂ ≠ .twin →
        (obsOf s raises cv₁ (modelCv (Env.idle keyOf) c cv₁ a)).log =
          (obsOf s raises cv₂ (modelCv (Env.idle keyOf) c cv₂ a)).log) := by
  obtain ⟨k, ft, acc, bk⟩ := c
  rw [modelCv_eq_ref k ft acc bk cv₁ a keyOf h (available_not_sib _ _ h₁),
      modelCv_eq_ref k ft acc bk cv₂ a keyOf h (available_not_sib _ _ h₂)]
  cases k <;> cases cv₁ <;> cases cv₂ <;>
    first
    | (simp [available, Kind.hasAsynq] at h₁ h₂; done)
    | (constructor <;> simp [obsOf, refCv, refCvRun, Cv.isSib, Kind.hasAsynq])

/-- **what `__get__` returns**: a decorated staticmethod (and a module-level function) is the decorator itself; any
    other decorated attribute is a binder holding exactly the receiver Python would bind (the instance, the class
    for a classmethod - the subclass when fetched through it -, None for an unbound method); an undecorated
    function follows Python -/
theorem C09_get_binder (c : Cell) (h : supported c.kind c.ft c.acc = true) :
    modelGot c =
      (if c.kind == .raw || c.kind == .proxyPure then
         (if (refPrefix c.ft c.acc 0).headD 0 == 0 then ⟨.function, 0⟩ else ⟨.method, (refPrefix c.ft c.acc 0).headD 0⟩)
       else if c.acc == .direct || c.ft == .static then ⟨.decorator, 0⟩
       else ⟨.binder, (refPrefix c.ft c.acc 0).headD 0⟩) := by
  obtain ⟨k, ft, acc, bk⟩ := c
  rw [modelGot_eq_ref k ft acc bk h]; rfl

/-- **the classification helpers answer according to how the callable can actually be called**:
    `has_async_fn` is true iff `.asynq(...)` does not fail with a missing attribute; `is_pure_async_fn` is true iff
    the plain call hands back a future; `is_async_fn` is their disjunction and is false exactly for an undecorated
    function (on which `.asynq` is missing and the plain call returns a value) -/
theorem C09_classify (c : Cell) (a : Args) (keyOf : Args → Args)
    (h : supported c.kind c.ft c.acc = true) :
    let b := c.callable
    let a' := callerArgs c.ft c.acc 0 a
    (hasAsyncFn b = true ↔ app (Env.idle keyOf) .asynq b a' ≠ .err .noAsynq) ∧
    (isPureAsyncFn b = true ↔ ∃ r, app (Env.idle keyOf) .call b a' = .fut r) ∧
    (isAsyncFn b = (hasAsyncFn b || isPureAsyncFn b)) ∧
    (isAsyncFn b = false ↔ c.kind = .raw) ∧
    (isAsyncFn b = false → ∃ r, app (Env.idle keyOf) .call b a' = .val r) := by
  obtain ⟨k, ft, acc, bk⟩ := c
  have hc := modelCls_eq_ref k ft acc bk h
  simp only [modelCls, refCls, Cls.mk.injEq] at hc
  obtain ⟨h1, h2, h3, -, -⟩ := hc
  dsimp only
  rw [call_eq k ft acc bk a keyOf h, asynq_eq k ft acc bk a keyOf h, h1, h2, h3]
  cases k <;> simp [Kind.hasAsynq, Kind.hasSyncFn, Kind.userWrapped, Kind.pureLike]

/-- **the conversion helpers hand back something that, called with the same arguments, is a future of the async
    body with the right receiver**: `get_async_fn` gives None exactly for an undecorated function;
    `get_async_or_sync_fn` then gives the function itself (whose call is its value); `async_call` wraps that value
    in a future - so `async_call` works for every callable -/
theorem C09_convert (c : Cell) (a : Args) (keyOf : Args → Args)
    (h : supported c.kind c.ft c.acc = true) :
    let b := c.callable
    let a' := callerArgs c.ft c.acc 0 a
    let own : Reach := ⟨1, refArgs c.ft c.acc 0 a, c.kind.userWrapped⟩
    (getAsyncFn b = .absent ↔ c.kind = .raw) ∧
    appConv (Env.idle keyOf) (getAsyncFn b) b a' = (if c.kind = .raw then .err .noAsynq else .fut own) ∧
    appConv (Env.idle keyOf) (getAsyncOrSyncFn b) b a' = (if c.kind = .raw then .val own else .fut own) ∧
    asyncCall (Env.idle keyOf) b a' = .fut own := by
  obtain ⟨k, ft, acc, bk⟩ := c
  have hc := modelCls_eq_ref k ft acc bk h
  simp only [modelCls, refCls, Cls.mk.injEq] at hc
  obtain ⟨-, h2, h3, h4, h5⟩ := hc
  simp only [hasAsyncFn] at h3
  dsimp only
  rw [h4, h5]
  simp only [asyncCall, appConv, h2, h3]
  have hcall := call_eq k ft acc bk a keyOf h
  have hasynq := asynq_eq k ft acc bk a keyOf h
  cases k <;> simp_all [Kind.hasAsynq, Kind.hasSyncFn, Kind.userWrapped, Kind.pureLike, Res.task]

/-- **deduplicate never hands out another function's task**: whatever tasks of OTHER deduplicated functions are in
    flight (arbitrary table, arbitrary key function - in particular a same-named twin called with equal arguments),
    `.asynq(...)` of a deduplicated callable is a future of its own body with its own receiver and arguments -/
theorem C09_dedup_own_body (ft : FnType) (acc : Access) (bk : BodyKind) (a : Args) (env : Env)
    (h : supported .dedup ft acc = true) (hforeign : ∀ e ∈ env.tasks, e.1.1 ≠ 1) :
    app env .asynq (Cell.callable ⟨.dedup, ft, acc, bk⟩) (callerArgs ft acc 0 a) = .fut ⟨1, refArgs ft acc 0 a, false⟩ := by
  rw [dedup_asynq_unfold ft acc bk a env h, lookup_foreign env _ hforeign]

/-- **C09 as a whole**: for every case (cell, returning or raising body, parameter signature, ARBITRARY argument
    lists) the observations of the model are accepted by `spec` - the same Boolean
    function the check evaluates on the observations of the real implementation -/
theorem C09_spec_holds (c : Case) : spec c (modelReport c) = true := by
  unfold spec
  cases hs : supported c.cell.kind c.cell.ft c.cell.acc
  · rfl
  · rw [modelReport_eq_ref c hs, reportClause_self]; rfl

/-- **`@async_proxy(pure=True)` is a pure async function for every helper** (the repaired defect): through every
    access path and for ARBITRARY arguments the plain call hands back a future of the body with the right receiver,
    `is_pure_async_fn` and `is_async_fn` answer True, `get_async_fn` and `get_async_or_sync_fn` hand back the callable
    itself, and `async_call` is that same future - not a future wrapped in another future -/
theorem C09_proxy_pure (ft : FnType) (acc : Access) (bk : BodyKind) (a : Args) (keyOf : Args → Args)
    (h : supported .proxyPure ft acc = true) :
    let b := Cell.callable ⟨.proxyPure, ft, acc, bk⟩
    let a' := callerArgs ft acc 0 a
    let own : Reach := ⟨1, refArgs ft acc 0 a, false⟩
    app (Env.idle keyOf) .call b a' = .fut own ∧
    isPureAsyncFn b = true ∧ isAsyncFn b = true ∧ hasAsyncFn b = false ∧
    getAsyncFn b = .self ∧ getAsyncOrSyncFn b = .self ∧
    asyncCall (Env.idle keyOf) b a' = .fut own ∧
    (asyncCall (Env.idle keyOf) b a').value = (app (Env.idle keyOf) .call b a').value := by
  cases ft <;> cases acc <;> cases bk <;>
    first
    | (simp [supported] at h; done)
    | exact ⟨rfl, rfl, rfl, rfl, rfl, rfl, rfl, rfl⟩

/-- **truthiness of the receiver and the history of accesses are irrelevant**: whatever the truth value of the
    generated instances / classes (`falsy`) and whatever look-ups of the same attribute through other access paths
    came before (`pre`, an ARBITRARY list), the property demands the same observations (`spec` does not read them)
    and the model produces the same observations: the binders test `instance is None`, never its truth value, and
    `__get__` keeps no state between accesses.  Together with `C09_spec_holds` (which quantifies over every `Case`,
    hence over every `falsy` and `pre`): a falsy receiver is bound exactly like a truthy one, and a look-up through
    the subclass after one through the base class (or the other way round) binds its own class. -/
theorem C09_truthiness_history_irrelevant (c : Case) (falsy : Bool) (pre : List Access) (r : Report) :
    modelReport { c with falsy := falsy, pre := pre } = modelReport c ∧
    refReport { c with falsy := falsy, pre := pre } = refReport c ∧
    spec { c with falsy := falsy, pre := pre } r = spec c r :=
  ⟨rfl, rfl, rfl⟩

/-- per access in a sequence: the receiver a look-up binds is a function of THAT access path alone - base class
    then subclass, subclass then base class, instances in between: each gets exactly Python's receiver -/
theorem C09_receiver_per_access (k : Kind) (ft : FnType) (bk : BodyKind) (accs : List Access)
    (h : ∀ acc ∈ accs, supported k ft acc = true) :
    accs.map (fun acc => modelRecv ⟨k, ft, acc, bk⟩) = accs.map (fun acc => (refPrefix ft acc 0).headD 0) := by
  apply List.map_congr_left
  intro acc hacc
  exact modelRecv_eq_ref k ft acc bk (h acc hacc)

/-! ## a second call of the same attribute: other receiver, other argument objects, colliding hashes -/

/-- **a dict lookup never confuses two keys because their hashes collide**: what `DeduplicateDecorator.tasks[key]`
    and the caches find does not depend on the hash function at all - for ARBITRARY hash functions `h`, `h'`
    (in particular a constant one: every two keys collide) -/
theorem C09_dict_hash_irrelevant (h h' : Nat → Nat) (l : Table) (k : Nat × Args) :
    dictFind h l k = dictFind h' l k := by
  rw [dictFind_eq, dictFind_eq]

/-- **a second call of the same decorated attribute does not change what a call reaches**: with another call of
    the SAME attribute in flight in the same yield (`sibling`, through `async_call`: `siblingCall`) or completed /
    failed just before (`prior`) - made through another receiver (a second instance of the class, the other class of
    the hierarchy for a classmethod: `rel = .recv`) or with every argument replaced by another object
    (`rel = .args`) - each of the two calls runs the async body with ITS OWN receiver and ITS OWN arguments.
    For every cell, ARBITRARY argument lists, ARBITRARY hashes of the values (`hf`: all of them may collide),
    returning or raising bodies, and every key function that separates the two calls. -/
theorem C09_second_call (c : Cell) (a : Args) (rel : Rel) (cv : Cv) (keyOf : Args → Args) (hf : Nat → Nat) (rs : Bool)
    (h : supported c.kind c.ft c.acc = true) (hcv : cv.isSib = true)
    (hne : identicalSib c.ft c.acc rel a = false)
    (hkey : keyOf (refArgsSib c.ft c.acc rel a) ≠ keyOf (refArgs c.ft c.acc 0 a)) :
    modelCv (Env.quiet keyOf hf rs) c cv a rel =
      (if availableSib c.kind cv then
         ⟨[.val ⟨1, refArgsSib c.ft c.acc rel a, c.kind.userWrapped⟩],
          .val ⟨1, refArgs c.ft c.acc 0 a, c.kind.userWrapped⟩, false⟩
       else ⟨[.err .noAsynq], .err .noAsynq, false⟩) := by
  obtain ⟨k, ft, acc, bk⟩ := c
  unfold modelCv
  simp only [hcv, hne, Bool.and_false, Bool.false_eq_true, if_false]
  rw [modelCvRun_sib_eq_ref k ft acc bk cv a keyOf hf rs rel h hcv hkey]
  cases cv <;> first | (simp [Cv.isSib] at hcv; done) | (cases k <;> rfl)

/-- the same for the library's own key function on same-spelled calls (the identity on the bound arguments):
    the two calls are separated as soon as the second is not literally the first (`identicalSib`) -/
theorem C09_second_call_default_key (c : Cell) (a : Args) (rel : Rel) (cv : Cv) (hf : Nat → Nat) (rs : Bool)
    (h : supported c.kind c.ft c.acc = true) (hcv : cv.isSib = true)
    (hne : identicalSib c.ft c.acc rel a = false) :
    modelCv (Env.quiet id hf rs) c cv a rel =
      (if availableSib c.kind cv then
         ⟨[.val ⟨1, refArgsSib c.ft c.acc rel a, c.kind.userWrapped⟩],
          .val ⟨1, refArgs c.ft c.acc 0 a, c.kind.userWrapped⟩, false⟩
       else ⟨[.err .noAsynq], .err .noAsynq, false⟩) :=
  C09_second_call c a rel cv id hf rs h hcv hne (refArgsSib_ne c.ft c.acc rel a hne)

/-- the second call of relation `recv` really has ANOTHER receiver, the observed call keeps its own: the first
    argument the two bodies receive differs, the rest is the caller's argument list -/
theorem C09_second_call_receivers (ft : FnType) (acc : Access) (a : Args) (h : hasRecvParam ft acc = true) :
    ∃ r r', r ≠ r' ∧ (refArgs ft acc 0 a).pos = r :: a.pos ∧ (refArgsSib ft acc .recv a).pos = r' :: a.pos := by
  cases ft <;> cases acc <;> first
    | (simp [hasRecvParam] at h; done)
    | exact ⟨_, _, by decide, rfl, rfl⟩

/-- **whatever else is in flight or cached** - ARBITRARY in-flight table, ARBITRARY cache, ARBITRARY key function
    and hashes: as long as no entry sits under the key of this very call, `.asynq(...)` and `async_call` of every
    callable that has `.asynq` are a future of its own body with its own receiver and arguments (generalises
    `C09_dedup_own_body` to entries of the SAME function under other keys and to the caches of alru_cache /
    acached_per_instance) -/
theorem C09_other_keys_irrelevant (c : Cell) (a : Args) (env : Env)
    (h : supported c.kind c.ft c.acc = true) (hk : c.kind.hasAsynq = true)
    (ht : ∀ e ∈ env.tasks, e.1 ≠ (1, env.keyOf (refArgs c.ft c.acc 0 a)))
    (hc : ∀ e ∈ env.cache, e.1 ≠ (1, env.keyOf (refArgs c.ft c.acc 0 a))) :
    app env .asynq c.callable (callerArgs c.ft c.acc 0 a) = .fut ⟨1, refArgs c.ft c.acc 0 a, c.kind.userWrapped⟩ ∧
    asyncCall env c.callable (callerArgs c.ft c.acc 0 a) = .fut ⟨1, refArgs c.ft c.acc 0 a, c.kind.userWrapped⟩ := by
  obtain ⟨k, ft, acc, bk⟩ := c
  have h1 := asynq_other_keys k ft acc bk a env h hk ht hc
  refine ⟨h1, ?_⟩
  have hc := modelCls_eq_ref k ft acc bk h
  simp only [modelCls, refCls, Cls.mk.injEq] at hc
  obtain ⟨-, h2, h3, -, -⟩ := hc
  simp only [hasAsyncFn] at h3
  have hp : k.pureLike = false := by cases k <;> first | rfl | (simp [Kind.hasAsynq] at hk)
  simp only [asyncCall, h2, h3, hp, hk]
  exact h1

/-! ## non-vacuity -/

/-- a classmethod fetched through an instance of the subclass, called with a positional, a keyword-only and an
    unknown keyword argument - the instance being falsy, after look-ups through the base class and one of its
    instances: the body sees the SUBCLASS once, then the arguments -/
example :
    (modelReport ⟨⟨.pair, .classm, .subInst, .gen⟩, false, .mixed, ⟨[30, 31, 32], [(3, 40), (5, 41)]⟩, true, [.cls, .inst], .args, .tok⟩).obs.head? =
      some ⟨.sync, [⟨2, [4, 30, 31, 0, 32, 0, 40, 0, 5, 41], true⟩], .ok 2 false, false⟩ := by decide

example :
    (((modelReport ⟨⟨.dedup, .plain, .cls, .batch⟩, true, .fixed, ⟨[30], [(2, 31)]⟩, false, [], .args, .tok⟩).obs.find?
        (fun o => o.cv == .twin)).map (·.log.map (·.body))) = some [3, 1] := by decide

/-- binding errors are outcomes too, the same for every convention -/
example :
    (modelReport ⟨⟨.mad, .static, .inst, .plain⟩, false, .fixed, ⟨[30, 31, 32], []⟩, false, [], .args, .tok⟩).obs.map (·.out) =
      List.replicate 13 (.raised .typeError) := by decide

/-- the predicate is not trivially true: it rejects the observations a pair decorator would produce if `__get__`
    forgot to re-wrap a staticmethod (the instance is prepended on the async side only) ... -/
example :
    spec ⟨⟨.pair, .static, .inst, .plain⟩, false, .var, ⟨[30], []⟩, false, [], .args, .tok⟩
      { modelReport ⟨⟨.pair, .static, .inst, .plain⟩, false, .var, ⟨[30], []⟩, false, [], .args, .tok⟩ with
        obs := (modelReport ⟨⟨.pair, .static, .inst, .plain⟩, false, .var, ⟨[30], []⟩, false, [], .args, .tok⟩).obs.map fun o =>
          if o.cv = .asynqValue then { o with log := [⟨1, [0, 1, 30, 0, 0], true⟩] } else o } = false := by decide

/-- the regression case of the repaired defect: a module-level `@async_proxy(pure=True)` function is accepted ... -/
example :
    spec ⟨⟨.proxyPure, .plain, .direct, .plain⟩, false, .fixed, ⟨[30], []⟩, false, [], .args, .tok⟩
      (modelReport ⟨⟨.proxyPure, .plain, .direct, .plain⟩, false, .fixed, ⟨[30], []⟩, false, [], .args, .tok⟩) = true := by decide

/-- ... and what the unrepaired code produced (a future object out of `async_call`) is rejected -/
example :
    spec ⟨⟨.proxyPure, .plain, .direct, .plain⟩, false, .fixed, ⟨[30], []⟩, false, [], .args, .tok⟩
      { modelReport ⟨⟨.proxyPure, .plain, .direct, .plain⟩, false, .fixed, ⟨[30], []⟩, false, [], .args, .tok⟩ with
        obs := (modelReport ⟨⟨.proxyPure, .plain, .direct, .plain⟩, false, .fixed, ⟨[30], []⟩, false, [], .args, .tok⟩).obs.map fun o =>
          if o.cv = .asyncCall then { o with out := .gotFuture } else o } = false := by decide

/-- ... and a helper that misclassifies -/
example :
    spec ⟨⟨.pure, .plain, .inst, .plain⟩, false, .var, ⟨[], []⟩, false, [], .args, .tok⟩
      { modelReport ⟨⟨.pure, .plain, .inst, .plain⟩, false, .var, ⟨[], []⟩, false, [], .args, .tok⟩ with
        cls := ⟨true, false, false, .self, .self⟩ } = false := by decide

/-- a deduplicated method with a second call in flight whose arguments are OTHER built-in ints with the SAME hashes:
    both bodies run, each with its own arguments (second call first: it was created first) ... -/
example :
    (((modelReport ⟨⟨.dedup, .plain, .inst, .gen⟩, false, .fixed, ⟨[30], [(3, 32)]⟩, false, [], .args, .bigint⟩).obs.find?
        (fun o => o.cv == .sibling)).map (·.log.map (·.seen))) =
      some [[1, 130, 20, 0, 0, 132, 0], [1, 30, 20, 0, 0, 32, 0]] := by decide

/-- ... and the observations of an implementation that keys the in-flight table by the HASH of the arguments (the
    observed call is handed the task of the second call: only that body runs) are rejected -/
example :
    spec ⟨⟨.dedup, .plain, .inst, .gen⟩, false, .fixed, ⟨[30], [(3, 32)]⟩, false, [], .args, .bigint⟩
      { modelReport ⟨⟨.dedup, .plain, .inst, .gen⟩, false, .fixed, ⟨[30], [(3, 32)]⟩, false, [], .args, .bigint⟩ with
        obs := (modelReport ⟨⟨.dedup, .plain, .inst, .gen⟩, false, .fixed, ⟨[30], [(3, 32)]⟩, false, [], .args, .bigint⟩).obs.map fun o =>
          if o.cv = .sibling then { o with log := o.log.take 1 } else o } = false := by decide

/-- an `acached_per_instance` method called through a SECOND instance first (all receivers hash alike): the cache of
    the first instance is still cold, both bodies run, each with its own instance -/
example :
    (((modelReport ⟨⟨.acpi, .plain, .inst, .plain⟩, false, .var, ⟨[30], []⟩, false, [], .recv, .chash⟩).obs.find?
        (fun o => o.cv == .prior)).map (·.log.map (·.seen))) =
      some [[9, 0, 30, 0, 0], [1, 0, 30, 0, 0]] := by decide

/-- the conventions with a second call are skipped exactly when that call would be the observed call itself -/
example :
    ((modelReport ⟨⟨.dedup, .plain, .direct, .plain⟩, false, .var, ⟨[], []⟩, false, [], .recv, .tok⟩).obs.filter
        (fun o => o.cv.isSib)).map (·.out) = List.replicate 3 (.raised .skipped) := by decide

end AsynqModel.Decorators
