import AsynqModel.Proofs.P25LiveRun
import AsynqModel.Theorems.C03e
import AsynqModel.Theorems.SpecC03
/-!
# C03 (continued): termination without the two proof-technique hypotheses

`C03_terminates` / `C03_terminates_strong` / `C03_terminates_static` (Theorems/C03d.lean, C03e.lean) assume
(1) `Spec.bodyHasNonAsync = false` for every top-level computation and (2) that the MAX_TASK_STACK_SIZE guard never
fires (a run-level hypothesis, or the static bound `stackBound tops ≤ maxStack`).  The audit (AUDIT-core.md items 1, 2,
10) notes that no counterexample is known for (1) and that nothing is proved when the guard DOES fire, although the
property says "value() returns or raises" and C08 names the RuntimeError the guard raises.  Here both go.

**`C03_terminates_guard`.**  For every configuration (any `maxStack`, KEEP_DEPENDENCIES on or off), every list of
WELL-SCOPED top-level computations (NonAsyncContexts, synchronous calls: all allowed) and every flush oracle whose
choices are admissible when consumed (`P21.oracleOK`, the weakest condition under which the model is not stuck:
`no_stuck_wellscoped_iff`): the run ends in a state that is NOT stuck, with an empty Python stack, no top-level
computation running or left, and exactly one `ret` event per top-level computation (`P25.Finished`) - every
`value()` / `fn()` returns or raises, however often the guard fires.  `C03_terminates_guard_silent`: for the silent
oracle all hypotheses are decidable properties of the program text.

The measure (Proofs/P25Term.lean) is `(M1', M2, U, pc, SF, cfl', pf, PhiQ)`, lexicographically:
`M1'` remaining program weight, `M2` unflushed non-empty batches, `U` uncomputed futures (a task failed by
`NonAsyncContext.pause()/resume()` inside a scheduler step - the place where `P6.executeIter_desc` needed (1) - is a
decrease of `U`), `pc` the kind of the head of the Python stack, `SF` the number of flagged uncomputed tasks that are
not on the scheduler stack above the base of the innermost `_execute`, `cfl'` = 0 iff the current pass is a faithful
depth-first traversal, `pf`, and the potential `PhiQ` of a pass.
What P21 reported as the obstacle for (2) - "the reset empties stack and sbatches but keeps the depsSched flags, which
breaks `P10.CInv.pos`, `P3.Core` (`raising = none`) and the potential Phi" - is met as follows:
* the reset itself changes none of `M1'`, `M2`, `U` and pops a `wait_for` frame: `pc` decreases (under a `wait_for`
  frame sits a generator or nothing: `P13.Buried`, which holds for every reachable state);
* the stale flags are counted by `SF`: a pass that meets a stale-flagged task treats its first visit as the second
  one (pops it, clears the flag) and may end with nothing to flush, but `SF` has decreased when the task was pushed;
* the potential `PhiQ` weighs a flagged entry by `B^(rank+1)` only if every entry above it has a smaller rank; with
  that definition every pop / first visit decreases it with NO invariant about flags and stack (`P25.PhiQ_first`);
* `raising ≠ none` is handled where it occurs (the head of the Python stack is then the generator stopped at `syncret`,
  whose next instruction decreases `M1'`).
So the guard may fire any number of times (`C03f_two_firings`: twice in one top-level call, which then returns
normally); no bound on the number of firings is needed - each firing is one decreasing step.

**`C03_terminates_nonasync`**: the hypotheses of `C03_terminates_strong` minus (1).  The last clause of
`P21.FinishedOK`, "every task that has started is computed", is FALSE with NonAsyncContexts
(`Spec_C03_ret_needs_noNonAsync`, `C03f_started_left_nonasync`).  What remains true, exactly: at the end every task
that has started is computed or `P25.Orphaned` - it was named in the structure last yielded by a task whose outcome is
the AssertionError of `NonAsyncContext.pause()/resume()` (the scheduler failed that task while it was suspended,
awaiting this one), or it is awaited by an uncomputed task that is itself orphaned.  In particular
(`C03_terminates_nonasync_nofail`) if no future ends with that AssertionError, the run ends `P21.FinishedOK`.
The invariant behind it (`P25.InvL'`, Proofs/P25Live*.lean): a started uncomputed task is the root of a `wait_for` in
progress, or awaited by an uncomputed task, or orphaned; every dependency of a task is computed or named in the
structure the task yielded last.  It needs `guardFired = false` (the running task is on top of the scheduler stack);
when the guard fires started tasks are abandoned without any trace in the heap (`C03f_started_left_guard`).
-/
namespace AsynqModel.Core
open AsynqModel.Core.P21

/-- (b) TERMINATION WITH THE GUARD (and with NonAsyncContexts): no hypothesis beyond well-scopedness and the oracle
    condition. -/
theorem C03_terminates_guard (cfg : Cfg) (tops : List (Conv × Body)) (choices : List (Nat × Nat))
    (h : ∀ p ∈ tops, P10.WellScoped p.2 0 0 = true)
    (hor : ∀ n, oracleOK (runFuel n (initState cfg tops choices)) = true) :
    ∃ n, P25.Finished tops.length (runFuel n (initState cfg tops choices)) :=
  P25.terminates' cfg tops choices h hor

/-- (b) for the silent oracle: every hypothesis is a decidable property of `tops` -/
theorem C03_terminates_guard_silent (cfg : Cfg) (tops : List (Conv × Body))
    (h : ∀ p ∈ tops, P10.WellScoped p.2 0 0 = true) :
    ∃ n, P25.Finished tops.length (runFuel n (initState cfg tops [])) :=
  P25.terminates' cfg tops [] h (P25.oracleOK_silent cfg tops h)

/-- (b) in the shape of `C03_terminates`: the run finishes (`isDone`) and is not stuck then -/
theorem C03_terminates_any (cfg : Cfg) (tops : List (Conv × Body)) (choices : List (Nat × Nat))
    (h : ∀ p ∈ tops, P10.WellScoped p.2 0 0 = true)
    (hor : ∀ n, oracleOK (runFuel n (initState cfg tops choices)) = true) :
    ∃ n, (runFuel n (initState cfg tops choices)).isDone = true ∧
      (runFuel n (initState cfg tops choices)).stuck = none := by
  obtain ⟨n, hs, hctl, hcur, htops, _⟩ := C03_terminates_guard cfg tops choices h hor
  exact ⟨n, by simp [State.isDone, hctl, hcur, htops], hs⟩

/-- the measure behind the theorem decreases with every step of an unfinished run of a well-scoped program that is
    not stuck - no hypothesis about `guardFired`, `raising`, NonAsyncContexts (`p`, `p'`: addressings of the creation
    forest, as in `C03_sync_measure_decreases`) -/
theorem C03_measure_decreases_any (s : State) (h : P10.WSReach s) (hs : s.stuck = none) (hb : P6.InvB s)
    (p : Nat → List Nat) (hp : P10.PathOK s p) (hnd : s.isDone = false) (hst : (step s).stuck = none) :
    ∃ p', P10.PathOK (step s) p' ∧ P25.Lt8 (P25.mu' (step s) p') (P25.mu' s p) :=
  P25.mu'_step ⟨h, hs, hb⟩ hp hnd hst

/-! ## non-vacuity -/

/-- the DAG program with MAX_TASK_STACK_SIZE = 3: the guard fires (`C03e_guard_fires`); by the theorem the run ends -/
example : ∃ n, P25.Finished 1 (runFuel n (initState { maxStack := 3 } [(.value, exDag)] [])) :=
  C03_terminates_guard_silent _ _ (by decide)

/-- a top-level computation that calls synchronously twice and catches the RuntimeError both times -/
def C03f_C2 : Body := .item 0 1 .ok (.yld (.f (.own 0)) (.ret 2) .reraise)
def C03f_R2 : Body := .sync (.ret 1) [] (.ret 5) (.sync C03f_C2 [] (.ret 6) (.ret 7))
def C03f_run2 (n : Nat) : State := runFuel n (initState { maxStack := 1 } [(.value, C03f_R2)] [])

/-- SEVERAL FIRINGS IN ONE RUN: with MAX_TASK_STACK_SIZE = 1 the guard fires in the nested `wait_for` of the first
    synchronous call (step 6 -> 7: the RuntimeError leaves `wait_for`), the task catches it and calls again; the guard
    fires a second time when the callee pushes its batch item (step 15 -> 16); the task catches that too and returns:
    the top-level call returns `node 7`, the run is finished and not stuck -/
theorem C03f_two_firings :
    P10.WellScoped C03f_R2 0 0 = true ∧
    ((List.range 60).filter fun i => (C03f_run2 i).raising.isSome) = [7, 16] ∧
    (C03f_run2 6).guardFired = false ∧ (C03f_run2 7).guardFired = true ∧
    ((C03f_run2 60).trace.reverse.filter fun e => match e with | .syncX _ _ _ => true | .ret _ => true | _ => false) =
      [.syncX 0 1 (.err .stackguard), .syncX 0 2 (.err .stackguard), .ret (.ok (.node 7 []))] ∧
    (C03f_run2 60).isDone = true ∧ (C03f_run2 60).stuck = none := by decide

example : ∃ n, P25.Finished 1 (runFuel n (initState { maxStack := 1 } [(.value, C03f_R2)] [])) :=
  C03_terminates_guard_silent _ _ (by decide)

/-- the theorem's conclusion on this run, checked directly -/
example : P25.Finished 1 (C03f_run2 60) := by
  refine ⟨by decide, by decide, by decide, by decide, by decide⟩

/-- NonAsyncContext: the program of `Spec_C03_ret_needs_noNonAsync` (a task suspended inside a NonAsyncContext is
    failed by `pause()`); `C03_terminates_strong` does not apply (`Spec.bodyHasNonAsync = true`), this theorem does -/
example : Spec.bodyHasNonAsync C03s_naProg = true := by decide
example : ∃ n, P25.Finished 1 (runFuel n (initState {} [(.value, C03s_naProg)] [])) :=
  C03_terminates_guard_silent _ _ (by decide)

/-- ... both at once, with an explicit admissible oracle and KEEP_DEPENDENCIES -/
example : ∃ n, P25.Finished 2 (runFuel n (initState { maxStack := 3, keepDeps := true }
    [(.value, C03s_naProg), (.call, exDag)] [])) :=
  C03_terminates_guard_silent _ _ (by decide)


/-! ## (a) NonAsyncContexts, the guard not firing: termination, and what is left of "every started task is computed" -/

/-- (a) `C03_terminates_strong` WITHOUT `Spec.bodyHasNonAsync = false`: the run ends `P25.Finished`, and every task that
    has started is computed or orphaned by a NonAsync failure. -/
theorem C03_terminates_nonasync (cfg : Cfg) (tops : List (Conv × Body)) (choices : List (Nat × Nat))
    (h : ∀ p ∈ tops, P10.WellScoped p.2 0 0 = true)
    (hg : ∀ n, (runFuel n (initState cfg tops choices)).guardFired = false)
    (hor : ∀ n, oracleOK (runFuel n (initState cfg tops choices)) = true) :
    ∃ n, P25.Finished tops.length (runFuel n (initState cfg tops choices)) ∧
      ∀ t, ((runFuel n (initState cfg tops choices)).fut t).kind = .task →
        ((runFuel n (initState cfg tops choices)).task t).started = true →
        (runFuel n (initState cfg tops choices)).computed t = true ∨
          P25.Orphaned (runFuel n (initState cfg tops choices)) t := by
  have ri0 := runInv_init cfg tops choices h
  obtain ⟨n, hd, ri⟩ := P25.terminates_aux' (n0 := tops.length) _ _ _ ri0 (P20.pathOK_init cfg tops choices) hor rfl
  have hL := (P25.invL'_runFuel ri0 (P25.invL'_init cfg tops choices) hg hor n).2
  have hfin := P25.finished_of ri hd
  refine ⟨n, hfin, ?_⟩
  intro t hk hst
  cases hc : (runFuel n (initState cfg tops choices)).computed t with
  | true => exact Or.inl rfl
  | false =>
    exact Or.inr (P25.started_orphaned (P25.good'_of ri) hL hfin.2.1 t ⟨hk, hst, P6.out_none_of_uncomputed hc⟩)

/-- (a) for the silent oracle -/
theorem C03_terminates_nonasync_silent (cfg : Cfg) (tops : List (Conv × Body))
    (h : ∀ p ∈ tops, P10.WellScoped p.2 0 0 = true)
    (hg : ∀ n, (runFuel n (initState cfg tops [])).guardFired = false) :
    ∃ n, P25.Finished tops.length (runFuel n (initState cfg tops [])) ∧
      ∀ t, ((runFuel n (initState cfg tops [])).fut t).kind = .task →
        ((runFuel n (initState cfg tops [])).task t).started = true →
        (runFuel n (initState cfg tops [])).computed t = true ∨ P25.Orphaned (runFuel n (initState cfg tops [])) t :=
  C03_terminates_nonasync cfg tops [] h hg (P25.oracleOK_silent cfg tops h)

/-- (a), corollary: if no future ends with the AssertionError of `NonAsyncContext.pause()/resume()`, the run ends
    `P21.FinishedOK` - the conclusion of `C03_terminates_strong`, whatever contexts the program creates -/
theorem C03_terminates_nonasync_nofail (cfg : Cfg) (tops : List (Conv × Body)) (choices : List (Nat × Nat))
    (h : ∀ p ∈ tops, P10.WellScoped p.2 0 0 = true)
    (hg : ∀ n, (runFuel n (initState cfg tops choices)).guardFired = false)
    (hor : ∀ n, oracleOK (runFuel n (initState cfg tops choices)) = true) :
    ∃ n, P25.Finished tops.length (runFuel n (initState cfg tops choices)) ∧
      ((∀ u, (runFuel n (initState cfg tops choices)).out u ≠ some (.err .nonasync)) →
        FinishedOK tops.length (runFuel n (initState cfg tops choices))) := by
  obtain ⟨n, hfin, hall⟩ := C03_terminates_nonasync cfg tops choices h hg hor
  refine ⟨n, hfin, fun hno => ?_⟩
  obtain ⟨h1, h2, h3, h4, h5⟩ := hfin
  refine ⟨h1, h2, h3, h4, by rw [isRet_eq]; exact h5, ?_⟩
  intro t hk hst
  rcases hall t hk hst with hc | ho
  · exact hc
  · obtain ⟨u, hu⟩ := ho.witness
    exact absurd hu (hno u)

/-- the run of `C03s_naProg` (`Spec_C03_ret_needs_noNonAsync`): task 1 has started, is not computed, and is orphaned:
    task 0 yielded it inside a NonAsyncContext and was failed by `pause()` -/
example : P25.Orphaned C03s_naRun 1 := .direct (u := 0) (by decide) (by decide)

example : ∃ n, P25.Finished 1 (runFuel n (initState {} [(.value, C03s_naProg)] [])) ∧
    ∀ t, ((runFuel n (initState {} [(.value, C03s_naProg)] [])).fut t).kind = .task →
      ((runFuel n (initState {} [(.value, C03s_naProg)] [])).task t).started = true →
      (runFuel n (initState {} [(.value, C03s_naProg)] [])).computed t = true ∨
        P25.Orphaned (runFuel n (initState {} [(.value, C03s_naProg)] [])) t :=
  C03_terminates_nonasync_silent {} _ (by decide) (P6T.guard_never _ 100 (by decide) (by decide))

/-- a CHAIN of orphans: the root awaits `C03s_parent` inside a NonAsyncContext, `C03s_parent` awaits `C03s_leaf`, which
    awaits a batch item.  `pause()` fails the root (task 0); task 1 is orphaned directly, task 2 through task 1 -/
def C03f_naChain : Body := .withCtx .nonasync (.spawn C03s_parent [] (.yld (.f (.own 0)) .endwith .endwith)) (.ret 1)
def C03f_naChainRun : State := runFuel 100 (initState {} [(.value, C03f_naChain)] [])

theorem C03f_orphan_chain :
    P10.WellScoped C03f_naChain 0 0 = true ∧ P25.Finished 1 C03f_naChainRun ∧
    C03f_naChainRun.out 0 = some (.err .nonasync) ∧
    ((List.range C03f_naChainRun.futs.length).map fun t =>
      ((C03f_naChainRun.task t).started, C03f_naChainRun.computed t, (C03f_naChainRun.task t).deps)) =
      [(true, true, []), (true, false, [2]), (true, false, [3]), (false, false, [])] ∧
    P25.Orphaned C03f_naChainRun 1 ∧ P25.Orphaned C03f_naChainRun 2 := by
  have h1 : P25.Orphaned C03f_naChainRun 1 := .direct (u := 0) (by decide) (by decide)
  exact ⟨by decide, ⟨by decide, by decide, by decide, by decide, by decide⟩, by decide, by decide, h1,
    .via (u := 1) (by decide) (by decide) (by decide) h1⟩

/-- no NonAsync failure, NonAsyncContext present: a task that enters and leaves a NonAsyncContext without yielding in
    it; `C03_terminates_nonasync_nofail` gives `FinishedOK` although `Spec.bodyHasNonAsync = true` -/
def C03f_naHarmless : Body :=
  .withCtx .nonasync (.const 4 .endwith) (.item 0 1 .ok (.yld (.f (.own 1)) (.ret 1) .reraise))
example : Spec.bodyHasNonAsync C03f_naHarmless = true ∧ P10.WellScoped C03f_naHarmless 0 0 = true := by decide
example : FinishedOK 1 (runFuel 100 (initState {} [(.value, C03f_naHarmless)] [])) := by
  refine ⟨by decide, by decide, by decide, by decide, by decide, ?_⟩
  have : ((List.range (runFuel 100 (initState {} [(.value, C03f_naHarmless)] [])).futs.length).all fun t =>
      !((runFuel 100 (initState {} [(.value, C03f_naHarmless)] [])).task t).started ||
        (runFuel 100 (initState {} [(.value, C03f_naHarmless)] [])).computed t) = true := by decide
  intro t hk hst
  have ht : t < (runFuel 100 (initState {} [(.value, C03f_naHarmless)] [])).futs.length :=
    P2.lt_of_kind _ t (by rw [hk]; intro e; cases e)
  have := List.all_eq_true.1 this t (List.mem_range.2 ht)
  rw [hst] at this
  simpa using this

/-! ## what does not survive -/

/-- with a NonAsyncContext the last clause of `P21.FinishedOK` fails: the run of `C03s_naProg` is `Finished`, the
    guard has not fired, and task 1 has started and is not computed (it was awaited only by task 0, which
    `NonAsyncContext.pause()` failed while it was suspended) -/
theorem C03f_started_left_nonasync :
    P25.Finished 1 C03s_naRun ∧ C03s_naRun.guardFired = false ∧
    (C03s_naRun.fut 1).kind = .task ∧ (C03s_naRun.task 1).started = true ∧ C03s_naRun.computed 1 = false ∧
    C03s_naRun.out 0 = some (.err .nonasync) ∧ 1 ∈ extractFutures (C03s_naRun.task 0).prevY := by
  refine ⟨⟨by decide, by decide, by decide, by decide, by decide⟩, by decide, by decide, by decide, by decide,
    by decide, by decide⟩

/-- ... and so it does when the guard fires (`Spec_C03_ret_needs_guard`: no NonAsyncContext there) -/
theorem C03f_started_left_guard :
    P25.Finished 1 C03s_guardRun ∧ C03s_guardRun.guardFired = true ∧ Inv.noNonAsync C03s_guardRun = true ∧
    ((List.range C03s_guardRun.futs.length).filter fun t =>
      (C03s_guardRun.task t).started && !C03s_guardRun.computed t).length = 2 := by
  refine ⟨⟨by decide, by decide, by decide, by decide, by decide⟩, by decide, by decide, by decide⟩

/-- THE GUARD HYPOTHESIS OF (a) IS NEEDED for its last clause: in `C03s_guardRun` (no NonAsyncContext at all) the root
    task 0 and its child 1 have started, are not computed, and are not orphaned - no future holds the NonAsync error -/
theorem C03f_guard_needed_for_orphans :
    (C03s_guardRun.fut 1).kind = .task ∧ (C03s_guardRun.task 1).started = true ∧ C03s_guardRun.computed 1 = false ∧
    ¬ P25.Orphaned C03s_guardRun 1 := by
  refine ⟨by decide, by decide, by decide, ?_⟩
  intro ho
  obtain ⟨u, hu⟩ := ho.witness
  have hlt : u < C03s_guardRun.futs.length :=
    P6.computed_lt (s := C03s_guardRun) (f := u) (by unfold State.computed; rw [hu]; rfl)
  have hall : ((List.range C03s_guardRun.futs.length).all fun u =>
      decide (C03s_guardRun.out u ≠ some (.err .nonasync))) = true := by decide
  have := List.all_eq_true.1 hall u (List.mem_range.2 hlt)
  exact (of_decide_eq_true this) hu

/-- well-scopedness is still needed (`C03d_wellscoped_needed`: an ill-scoped program that loops for ever, with the
    default MAX_TASK_STACK_SIZE and the silent oracle), and so is the oracle condition (`C03e_oracle_needed`) -/
example : ¬ ∃ n, P25.Finished 1 (runFuel n (initState {} [(.value, C03d_ill)] [])) := by
  rintro ⟨n, hs, hctl, hcur, htops, _⟩
  have := (C03d_wellscoped_needed n).1
  simp [State.isDone, hctl, hcur, htops] at this

end AsynqModel.Core
