import AsynqModel.Proofs.P20Live
/-!
# C03 (continued): termination with synchronous re-entry

`C03_terminates_yieldonly` (Theorems/C03c.lean) is about yield-only programs, whose control stack is at most
`[gen t, waitLoop root 0]`.  Here the programs may call synchronously (`fn()` / `future.value()` in the middle of a task:
the instructions `sync`, `syncfut`), which pushes nested `wait_for` / `_execute` frames on the Python stack; every
nested `_execute` works on the SAME scheduler stack above its own base and flushes the SAME set of batches.

**Termination** (`C03_terminates`).  For every configuration, every list of top-level computations that are well-scoped
(`P10.WellScoped`, harness/coregen.py `well_scoped`) and create no NonAsyncContext, and EVERY flush oracle: if the
MAX_TASK_STACK_SIZE guard never fires along the run, the run finishes (`runFuel n ...` is `isDone` for some `n`;
a stuck state - an oracle choice that is not admissible, or a synchronous call of a task whose generator is already
executing, which cannot happen for well-scoped programs (`no_reentrancy`) - counts as finished).

The measure is `(M1, M2, cfl, phase, Phi)` (`Proofs/P20Term.lean`), lexicographically:
* `M1` remaining program weight (every instruction of a task body, `sync` / `syncfut` / `syncret` included, and every
  start of a top-level computation decreases it; no scheduler-side step increases it),
* `M2` number of unflushed non-empty batches (a scheduler flush that finds a batch),
* `cfl` = 0 if the current pass of the innermost `_execute` is `P20.Clean`, else 1,
* `phase` of the head of the control stack, `Phi` the potential of a scheduler pass w.r.t. the post-order rank of the
  creation forest (`P10.rankOf`; every await edge, synchronous ones included, goes down in it: `Theorems/Acyclic.lean`).

What is new with synchronous calls: `C03_flush_has_batch` is FALSE for them (`C03d_flush_finds_no_batch` below): a nested
`wait_for` may flush the batch an outer pass has scheduled; the outer `_execute` then returns to its base with the root
uncomputed and NO flushable batch, `_continue_with_batch` returns None and `wait_for` loops once more.  This cannot
repeat: the pass that found nothing was not `Clean`, the pass that follows is (`C03_flush_has_batch_clean`,
`C03_clean_preserved`), and a clean pass ends with an instruction or a real flush.
No lexicographic product over the control stack is needed: whenever a frame is pushed or popped the next step is an
instruction of a task (`M1` decreases) or the phase has decreased.
-/
namespace AsynqModel.Core
open AsynqModel.Core.P6 AsynqModel.Core.P6T AsynqModel.Core.P20

/-- 3a. A clean pass never finds "no batch": when `_execute` is back at its base with the root uncomputed and the pass
    has not been disturbed by a nested `wait_for`, a flushable batch exists. -/
theorem C03_flush_has_batch_clean (s : State) (hc : P20.Clean s) (root base : Nat) (rest : List Ctl)
    (hctl : s.ctl = .waitLoop root base :: rest) (hlen : s.stack.length ≤ base) (hroot : s.computed root = false) :
    s.flushable ≠ [] :=
  P20.flushable_ne_nil hc hctl hlen hroot

/-- 3b. Every scheduler-side step that is not a scheduler flush keeps the pass clean (in particular the step from
    `wait_for`'s loop head into `_execute` starts a clean pass: `Clean` holds trivially at the loop head). -/
theorem C03_clean_preserved (s : State) (h : P20.Good s)
    (hng : ∀ t old rest, s.ctl ≠ .gen t old :: rest) (hnf : ¬ IsFlush s)
    (hst : (step s).stuck = none) (hg : (step s).guardFired = false) (hc : P20.Clean s) : P20.Clean (step s) :=
  P20.clean_step s h.stuck h.raising h.o h.cinv h.hinv hng hnf hst hg hc

/-- 3c. The measure decreases with every step of an unfinished run (`p`, `p'`: addressings of the creation forest; the
    addressing changes only when a future is created). -/
theorem C03_sync_measure_decreases (s : State) (h : P20.Good s) (p : Nat → List Nat) (hp : P10.PathOK s p)
    (hnd : s.isDone = false) (hst : (step s).stuck = none) (hg : (step s).guardFired = false) :
    ∃ p', P10.PathOK (step s) p' ∧ Lt5 (P20.mu (step s) p') (P20.mu s p) :=
  P20.mu_step h hp hnd hst hg

/-- the hypotheses of `C03_terminates` establish the run invariant `P20.Good` in every state of the run that is not
    stuck -/
theorem C03_good_runFuel (cfg : Cfg) (tops : List (Conv × Body)) (choices : List (Nat × Nat))
    (h : ∀ p ∈ tops, Spec.bodyHasNonAsync p.2 = false ∧ P10.WellScoped p.2 0 0 = true)
    (hg : ∀ n, (runFuel n (initState cfg tops choices)).guardFired = false) (n : Nat)
    (hs : (runFuel n (initState cfg tops choices)).stuck = none) : P20.Good (runFuel n (initState cfg tops choices)) :=
  P20.good_runFuel (P20.good_init cfg tops choices (fun p hp => (h p hp).2)
    (fun p hp => (h p hp).1)) hg n hs

/-- 3d. Liveness invariant behind the second half of the theorem: in every state of such a run, a task that has
    started and is not computed is the root of a `wait_for` in progress or is awaited (`_dependencies`) by an
    uncomputed task; the same holds of every uncomputed entry of the scheduler stack. -/
theorem C03_started_awaited (cfg : Cfg) (tops : List (Conv × Body)) (choices : List (Nat × Nat))
    (h : ∀ p ∈ tops, Spec.bodyHasNonAsync p.2 = false ∧ P10.WellScoped p.2 0 0 = true)
    (hg : ∀ n, (runFuel n (initState cfg tops choices)).guardFired = false) (n : Nat)
    (hs : (runFuel n (initState cfg tops choices)).stuck = none) :
    P20.InvL (runFuel n (initState cfg tops choices)) :=
  (P20.goodL_runFuel ⟨P20.good_init cfg tops choices (fun p hp => (h p hp).2)
    (fun p hp => (h p hp).1), P20.invL_init cfg tops choices⟩ hg n hs).live

/-- 3. TERMINATION with synchronous calls.  Every run of well-scoped top-level computations that create no
    NonAsyncContext, with any flush oracle, in which the MAX_TASK_STACK_SIZE guard never fires, finishes; if it is not stuck then, every task that has
    started is computed.  (Same shape as `C03_terminates_yieldonly`; `Spec.bodyHasSync = false` is dropped.) -/
theorem C03_terminates (cfg : Cfg) (tops : List (Conv × Body)) (choices : List (Nat × Nat))
    (h : ∀ p ∈ tops, Spec.bodyHasNonAsync p.2 = false ∧ P10.WellScoped p.2 0 0 = true)
    (hg : ∀ n, (runFuel n (initState cfg tops choices)).guardFired = false) :
    ∃ n, (runFuel n (initState cfg tops choices)).isDone = true ∧
      ((runFuel n (initState cfg tops choices)).stuck = none →
        ∀ t, ((runFuel n (initState cfg tops choices)).fut t).kind = .task →
          ((runFuel n (initState cfg tops choices)).task t).started = true →
          (runFuel n (initState cfg tops choices)).computed t = true) := by
  have hws : ∀ p ∈ tops, P10.WellScoped p.2 0 0 = true := fun p hp => (h p hp).2
  have hna : ∀ p ∈ tops, Spec.bodyHasNonAsync p.2 = false := fun p hp => (h p hp).1
  obtain ⟨n, hn⟩ := P20.terminates cfg tops choices hws hna hg
  refine ⟨n, hn, ?_⟩
  intro hs t hk hst
  have hL := P20.goodL_runFuel ⟨P20.good_init cfg tops choices hws hna, P20.invL_init cfg tops choices⟩ hg n hs
  generalize runFuel n (initState cfg tops choices) = r at hn hs hk hst hL ⊢
  have hctl : r.ctl = [] := by
    simp [State.isDone, hs] at hn
    exact hn.1.1
  cases hc : r.computed t with
  | true => rfl
  | false => exact absurd ⟨hk, hst, out_none_of_uncomputed hc⟩ (P20.no_started_left hL hctl t)

/-- 3'. The statement for the silent oracle (`choices = []`). -/
theorem C03_terminates_silent (cfg : Cfg) (tops : List (Conv × Body))
    (h : ∀ p ∈ tops, Spec.bodyHasNonAsync p.2 = false ∧ P10.WellScoped p.2 0 0 = true)
    (hg : ∀ n, (runFuel n (initState cfg tops [])).guardFired = false) :
    ∃ n, (runFuel n (initState cfg tops [])).isDone = true :=
  (C03_terminates cfg tops [] h hg).imp fun _ hn => hn.1

/-! ## non-vacuity, and what happens with synchronous calls -/

/-- a root that creates an item, hands it to a child `Y`, and awaits `(Y, A)`, where `A` synchronously calls `B`, which
    creates an item of the same batch and awaits it -/
def C03d_Y : Body := .yld (.f (.inh 0)) (.ret 1) .reraise
def C03d_B : Body := .item 0 2 .ok (.yld (.f (.own 0)) (.ret 3) .reraise)
def C03d_A : Body := .sync C03d_B [] (.ret 2) .reraise
def C03d_R : Body :=
  .item 0 1 .ok (.spawn C03d_Y [.own 0] (.spawn C03d_A [] (.yld (.tup [.f (.own 1), .f (.own 2)]) (.ret 9) .reraise)))
/-- `future.value()` on a shared task and on a batch item -/
def C03d_S : Body :=
  .item 1 5 .ok (.spawn (.yld (.f (.inh 0)) (.ret 4) .reraise) [.own 0]
    (.syncfut (.own 1) (.syncfut (.own 0) (.yld (.f (.own 1)) (.ret 5) .reraise) .reraise) .reraise))
def C03d_tops : List (Conv × Body) := [(.value, C03d_R), (.call, C03d_S)]
def C03d_run (n : Nat) : State := runFuel n (initState {} C03d_tops [])

/-- the hypotheses of the termination theorem hold for programs with synchronous calls: static checks, and the guard
    has not fired at the end -/
example : ∃ n, (runFuel n (initState {} C03d_tops [])).isDone = true :=
  C03_terminates_silent {} C03d_tops (by decide) (P6T.guard_never _ 200 (by decide) (by decide))

example : Spec.bodyHasSync C03d_R = true ∧ Spec.bodyHasSync C03d_S = true := by decide

example : (C03d_run 200).stuck = none ∧ (C03d_run 200).isDone = true ∧
    ((List.range (C03d_run 200).futs.length).all fun t =>
      !((C03d_run 200).task t).started || (C03d_run 200).computed t) = true := by decide

/-- nested `wait_for` frames do occur: after 20 steps the Python stack is
    `_continue(B) / _execute(B) / _continue(A) / _execute(R)` and the inner `_execute` has base 2 -/
example : (C03d_run 20).ctl = [.gen 4 (some 3), .waitLoop 4 2, .gen 3 none, .waitLoop 0 0] ∧
    (C03d_run 20).stack = [4, 3, 0] := by decide

/-- `C03_flush_has_batch` FAILS with synchronous calls: the nested `wait_for(B)` flushes batch (0, 0), which holds
    the item `Y` (already visited by the outer pass) waits for; after 37 steps the outer `_execute(R)` is back at its
    base, `R` is not computed and no batch is flushable: `wait_for` loops (step 38) and the next pass continues `Y` -/
theorem C03d_flush_finds_no_batch :
    (C03d_run 37).ctl = [.waitLoop 0 0] ∧ (C03d_run 37).stack = [] ∧ (C03d_run 37).computed 0 = false ∧
    (C03d_run 37).flushable = [] ∧ (C03d_run 37).stuck = none ∧
    (C03d_run 38).ctl = [.waitEnter 0] ∧ (C03d_run 41).ctl = [.gen 2 none, .waitLoop 0 0] := by decide

/-- so the pass that ends at step 37 is not `Clean` -/
example : ¬ P20.Clean (C03d_run 37) := fun hc =>
  C03_flush_has_batch_clean _ hc 0 0 [] (by decide) (by decide) (by decide) (by decide)

/-- the measure component `M1` on this run: the synchronous call (step 17 -> 18: `sync` becomes `syncret`, the child
    `B` is created) decreases it, scheduler steps (35 -> 38) keep it, the end is 0 -/
example : P20.M1 (C03d_run 17) > P20.M1 (C03d_run 18) ∧ P20.M1 (C03d_run 35) = P20.M1 (C03d_run 38) ∧
    P6T.M2 (C03d_run 26) = 1 ∧ P6T.M2 (C03d_run 27) = 0 ∧ P20.M1 (C03d_run 200) = 0 := by decide

/-! ## the hypotheses are needed -/

/-- an ILL-SCOPED program: the root yields `own 5`, a future it never created; the reference resolves to future 0,
    the root itself, which then awaits itself -/
def C03d_ill : Body := .yld (.f (.own 5)) (.ret 1) .reraise

example : P10.WellScoped C03d_ill 0 0 = false ∧ Spec.bodyHasNonAsync C03d_ill = false := by decide

/-- ... and the scheduler loops forever (first visit: push the root; second visit: pop it; ...): well-scopedness is
    needed, for EVERY oracle and with the guard never firing -/
theorem C03d_wellscoped_needed :
    ∀ n, (runFuel n (initState {} [(.value, C03d_ill)] [])).isDone = false ∧
      (runFuel n (initState {} [(.value, C03d_ill)] [])).guardFired = false := by
  have hcyc : step (step (runFuel 7 (initState {} [(.value, C03d_ill)] []))) =
      runFuel 7 (initState {} [(.value, C03d_ill)] []) := by rfl
  have hst := P20.cycle_states (runFuel 7 (initState {} [(.value, C03d_ill)] [])) (by decide) (by decide) hcyc
  have small : ∀ n, n < 7 → (runFuel n (initState {} [(.value, C03d_ill)] [])).isDone = false ∧
      (runFuel n (initState {} [(.value, C03d_ill)] [])).guardFired = false := by decide
  intro n
  by_cases hn : n < 7
  · exact small n hn
  · obtain ⟨m, rfl⟩ := Nat.exists_eq_add_of_le (Nat.le_of_not_lt hn)
    rw [P20.runFuel_add]
    rcases hst m with e | e <;> rw [e]
    · decide
    · decide

end AsynqModel.Core
