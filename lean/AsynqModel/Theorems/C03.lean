import AsynqModel.Proofs.P2Inv
/-!
# C03  A task resumes exactly once per yield, only when all it awaits is done

Theorems about every reachable state of the machine (`Reach s`).  None of them needs `s.stuck = none`: a stuck state
is a frozen copy of a reachable non-stuck one and the invariant `P2.PInv` holds there as well.
The trace `s.trace` is newest first.  `P2.runIdx t tr` lists the indices of the `run` events of task `t` in `tr`,
newest first; `P2.isRY t e` says that `e` is a `run` or `yield` event of task `t`.
-/
namespace AsynqModel.Core
open P2

/-- **ready** (= C02 "delivered only after every future yielded alongside it has completed"): whenever a generator is
    (re)entered, every future it yielded is computed: every `run` event carries `dc = true` -/
theorem C03_ready (s : State) (h : Reach s) (t i : Nat) (dc : Bool) (recv : Recv)
    (hm : Event.run t i dc recv ∈ s.trace) : dc = true :=
  (pinv_reach h).dc t i dc recv hm

/-- **once**: the `run` events of a task carry the indices 0, 1, 2, ... consecutively in time order (oldest first);
    there are `resumes + 1` of them once the task has started and none before; the first receives `start`, all others
    an outcome -/
theorem C03_once (s : State) (h : Reach s) (t : Nat) :
    (runIdx t s.trace).reverse = List.range (if (s.task t).started = true then (s.task t).resumes + 1 else 0) ∧
    ∀ i dc r, Event.run t i dc r ∈ s.trace → ((r = .start ↔ i = 0) ∧ (i ≠ 0 → ∃ o, r = .out o)) := by
  have inv := pinv_reach h
  refine ⟨by rw [inv.idx t, List.reverse_reverse], fun i dc r hm => ⟨inv.recv t i dc r hm, fun hi => ?_⟩⟩
  cases r with
  | start => exact absurd ((inv.recv t i dc .start hm).1 rfl) hi
  | out o => exact ⟨o, rfl⟩

/-- the same in the form "the indices are `List.range n` for some `n`" -/
theorem C03_once_range (s : State) (h : Reach s) (t : Nat) : ∃ n, (runIdx t s.trace).reverse = List.range n ∧
    ((s.task t).started = true → n = (s.task t).resumes + 1) :=
  ⟨_, (C03_once s h t).1, fun hs => by simp [hs]⟩

/-- every `run t i` event in the trace is counted by `runIdx` (so `C03_once` speaks about all of them) -/
theorem C03_runIdx_complete (tr : List Event) (t i : Nat) (dc : Bool) (r : Recv) (hm : Event.run t i dc r ∈ tr) :
    i ∈ runIdx t tr := by
  unfold runIdx
  rw [List.mem_filterMap]
  exact ⟨_, hm, by simp [runIdxOf]⟩

/-- **no run after done**: after `done t o` no later `run t ..` event occurs: a computed task never runs again.
    (The delicate case is `_continue_with_task`, which resumes the task's contexts before entering the generator: a
    NonAsyncContext raising there would complete the task and the generator would still be entered.  The invariant
    excludes it: an uncomputed task whose contexts are paused has no NonAsyncContext registered, because pausing such
    a task fails it on the spot, and contexts register only with the active task, whose contexts are active.) -/
theorem C03_no_run_after_done (s : State) (h : Reach s) (l1 l2 : List Event) (t : Nat) (o : Outcome)
    (htr : s.trace = l1 ++ Event.done t o :: l2) : ∀ i dc r, Event.run t i dc r ∉ l1 := by
  intro i dc r hm
  obtain ⟨a, b, hab⟩ := List.append_of_mem hm
  have inv := pinv_reach h
  exact (allSuff_iff _ _).1 inv.nrad a (Event.run t i dc r) (b ++ Event.done t o :: l2)
    (by rw [htr, hab]; simp) t i dc r rfl o (by simp)

/-- the state-level reason: a generator on the Python stack belongs to an uncomputed task -/
theorem C03_running_uncomputed (s : State) (h : Reach s) (t : Nat) (ht : t ∈ gens s.ctl) : s.out t = none :=
  (pinv_reach h).live t ht

/-- a `done` event is final: the future holds that outcome ever after (write once) -/
theorem C03_done_is_final (s : State) (h : Reach s) (f : Nat) (o : Outcome) (hm : Event.done f o ∈ s.trace) :
    s.out f = some o :=
  (pinv_reach h).doneC f o hm

/-- **yield then resume**: every `run t (i+1) ..` is preceded (earlier in time) by `yield t i y`, and between the two
    there is no other `run` (nor `yield`) event of `t` -/
theorem C03_yield_then_resume (s : State) (h : Reach s) (l1 l2 : List Event) (t i : Nat) (dc : Bool) (r : Recv)
    (htr : s.trace = l1 ++ Event.run t (i + 1) dc r :: l2) :
    ∃ y l2a l2b, l2 = l2a ++ Event.yield t i y :: l2b ∧
      (∀ j dc' r', Event.run t j dc' r' ∉ l2a) ∧ (∀ j y', Event.yield t j y' ∉ l2a) := by
  have inv := pinv_reach h
  obtain ⟨y, h1, _, _⟩ := (allSuff_iff _ _).1 inv.ybr l1 _ l2 htr t i dc r rfl
  obtain ⟨_, l2a, l2b, h4, h5⟩ := List.find?_eq_some_iff_append.1 h1
  refine ⟨y, l2a, l2b, h4, fun j dc' r' hm => ?_, fun j y' hm => ?_⟩
  · have := h5 _ hm; simp [isRY] at this
  · have := h5 _ hm; simp [isRY] at this

/-- the pieces of the state invariant behind these theorems, for every reachable state: generators on the Python stack
    are pairwise distinct and never blocked; a generator buried under a `wait_for` frame is in the middle of a step
    (not suspended at a yield); a suspended task's dependencies contain every leaf of what it yielded; the active task
    is a running generator; the contexts of a running generator are active; an uncomputed task with paused contexts has
    no NonAsyncContext registered -/
theorem C03_invariant (s : State) (h : Reach s) :
    (gens s.ctl).Nodup ∧ (∀ t ∈ gens s.ctl.tail, (s.task t).pending = false) ∧
    (∀ t ∈ gens s.ctl, ∀ d ∈ (s.task t).deps, s.computed d = true) ∧
    (∀ t, (s.task t).pending = true → (s.task t).started = true →
      ∀ f ∈ (s.task t).lastY.leaves, f ∈ (s.task t).deps) ∧
    (∀ a, s.active = some a → a ∈ gens s.ctl) ∧ (∀ t ∈ gens s.ctl, (s.task t).ctxActive = true) ∧
    (∀ t, s.out t = none → (s.task t).ctxActive = false → NAfree s t) := by
  have inv := pinv_reach h
  exact ⟨inv.distinct, inv.buried, inv.gnb, inv.leaves, inv.actIn, inv.rca, inv.z⟩

/-! ### the executable candidate invariants of `Core/Inv.lean` hold in every reachable state -/

theorem gensOf_map_fst (ctl : List Ctl) : (Inv.gensOf ctl).map (·.1) = gens ctl := by
  induction ctl with
  | nil => rfl
  | cons c rest ih => cases c <;> simp_all [Inv.gensOf, gens]

theorem C03_inv_gensDistinct (s : State) (h : Reach s) : Inv.gensDistinct s = true := by
  unfold Inv.gensDistinct
  rw [gensOf_map_fst]
  exact decide_eq_true (pinv_reach h).distinct

theorem C03_inv_buriedNotPending (s : State) (h : Reach s) : Inv.buriedNotPending s = true := by
  have inv := pinv_reach h
  unfold Inv.buriedNotPending
  cases hc : s.ctl with
  | nil => rfl
  | cons c rest =>
    simp only [List.all_eq_true]
    intro p hp
    have : p.1 ∈ gens rest := by rw [← gensOf_map_fst]; exact List.mem_map_of_mem hp
    have := inv.buried p.1 (by rw [hc]; exact this)
    simp [this]

theorem C03_inv_ready (s : State) (h : Reach s) : Inv.ready s = true := by
  have inv := pinv_reach h
  unfold Inv.ready
  rw [Bool.and_eq_true]
  constructor
  · split
    · rename_i t old rest hc
      show (!((s.task t).pending && (s.task t).started) || (s.task t).deps.all s.computed) = true
      have : (s.task t).deps.all s.computed = true :=
        List.all_eq_true.2 (inv.gnb t (by rw [hc]; simp [gens]))
      rw [this, Bool.or_true]
    · rfl
  · rw [List.all_eq_true]
    intro t _
    show (!((s.task t).pending && (s.task t).started) ||
      (s.task t).lastY.leaves.all fun f => (s.task t).deps.contains f) = true
    cases hp : ((s.task t).pending && (s.task t).started) with
    | false => rfl
    | true =>
      simp only [Bool.and_eq_true] at hp
      simp only [Bool.not_true, Bool.false_or, List.all_eq_true, List.contains_iff_mem]
      exact inv.leaves t hp.1 hp.2

/-! ### non-vacuity -/

/-- a task that yields twice: `run` indices 0, 1, 2, each resume preceded by its yield -/
def exProg3 : Body :=
  .const 7 (.yld (.f (.own 0)) (.yld (.tup [.f (.own 0), .none]) (.ret 1) (.raise 0)) (.raise 0))

example : Reach (runFuel 40 (initState {} [(.value, exProg3)] [])) := reach_runFuel _ _ _ _
example : (runIdx 0 (runFuel 40 (initState {} [(.value, exProg3)] [])).trace).reverse = [0, 1, 2] := by decide
example : ((runFuel 40 (initState {} [(.value, exProg3)] [])).task 0).resumes = 2 := by decide
example : (runFuel 40 (initState {} [(.value, exProg3)] [])).stuck = none := by decide
example : Event.run 0 2 true (.out (.ok (.tup [.a 7, .none]))) ∈
    (runFuel 40 (initState {} [(.value, exProg3)] [])).trace := by decide
example : Event.yield 0 1 (.tup [.f 1, .none]) ∈ (runFuel 40 (initState {} [(.value, exProg3)] [])).trace := by decide
example : Event.done 0 (.ok (.node 1 [.a 7, .tup [.a 7, .none]])) ∈
    (runFuel 40 (initState {} [(.value, exProg3)] [])).trace := by decide

/-- a task failed by a NonAsyncContext while blocked (`_pause_contexts` raises): it is completed with the assertion
    error and, as `C03_no_run_after_done` says, never resumed (its only `run` event is the start) -/
def exProg5 : Body := .withCtx .nonasync (.item 0 5 .ok (.yld (.f (.own 0)) .endwith .endwith)) (.ret 1)
example : Event.done 0 (.err .nonasync) ∈ (runFuel 80 (initState {} [(.value, exProg5)] [])).trace := by decide
example : runIdx 0 (runFuel 80 (initState {} [(.value, exProg5)] [])).trace = [0] := by decide
example : (runFuel 80 (initState {} [(.value, exProg5)] [])).stuck = none := by decide

/-- a task waiting for a batch item is resumed only after the flush (dc = true with a real dependency) -/
def exProg4 : Body := .item 0 5 .ok (.yld (.f (.own 0)) (.ret 2) (.raise 0))
example : Event.run 0 1 true (.out (.ok (itemVal 0 5))) ∈
    (runFuel 60 (initState {} [(.value, exProg4)] [])).trace := by decide
example : (runFuel 60 (initState {} [(.value, exProg4)] [])).stuck = none := by decide

end AsynqModel.Core
