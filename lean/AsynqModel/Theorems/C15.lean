import AsynqModel.Lib.Asyncio
import AsynqModel.Proofs.Asyncio
import AsynqModel.Proofs.AsyncioSpec
import AsynqModel.Proofs.AsyncioFixed
/-!
# C15  fn.asyncio() under an event loop matches the asynq result   (after the repair of convert_asynq_to_async)

Theorems about the model `AsynqModel.Asyncio` (asynq/asynq_to_async.py, asynq/decorators.py) for EVERY batch-free program:
every call kind (function, method, pure, async_proxy, non-generator), with or without an explicit `asyncio_fn`, every
nesting of tuples / lists / dicts of ANY width and depth, raises (of `Exception`s and of BaseException-only errors) and
try/except at every yield, `return` and `asynq.result()` of ANY kind of object (`valueKind`).

The statements named `_partial` carry the hypothesis `p.safe` (every handler of the program is `except Exception`, or the
program raises no BaseException-only error):
a BaseException-only error of an awaited child is thrown into the generator by asynq but leaves the `while` loop of
`convert_asynq_to_async` (`except Exception as exc`) without being delivered, so a handler that would catch it
(`except BaseException`, bare `except`, `finally`) behaves differently: `C15_base_handler_counterexample`.
-/
namespace AsynqModel.Asyncio
open AsynqModel.Core (Val)

/-- **equivalence** (programs without plain synchronous calls): awaiting `fn.asyncio(args)` - started in any context
    state `s` - gives exactly the value / exception of `fn(args)`, which is also what `fn.asynq(args).value()` gives -/
theorem C15_equiv_partial (c : Call) (p : Prog) (s s' : St) (hs : p.noSync = true) (hx : p.safe = true)
    (hm' : s'.mode = false) :
    (topA c p s).1 = (topCall c p s').1 ∧ (topValue c p s').1 = (topCall c p s').1 := by
  have h := equiv_noRes c (Prog.unres p) s s' (Prog.unres_noRes p) (by rw [Prog.unres_noSync]; exact hs)
    (by rw [Prog.unres_safe]; exact hx) hm'
  simpa [topA_unres, topCall_unres, topValue_unres] using h

/-- **equivalence, semantic form**: a program may contain plain synchronous calls; if the asyncio run attempts none of
    them (none is logged), it still gives exactly the outcome of `fn(args)` -/
theorem C15_equiv_run_partial (c : Call) (p : Prog) (s' : St) (hx : p.safe = true) (hm' : s'.mode = false)
    (hn : (topA c p {}).2.log.any isSyncX = false) : (topA c p {}).1 = (topCall c p s').1 := by
  have h := equiv_run_noRes c (Prog.unres p) s' (Prog.unres_noRes p) (by rw [Prog.unres_safe]; exact hx) hm'
    (by simpa [topA_unres] using hn)
  simpa [topA_unres, topCall_unres] using h

/-- `asynq.result(v)` is `return v` on both paths (the former counterexample) -/
theorem C15_result_is_return (c : Call) (p : Prog) (s : St) :
    topA c (Prog.unres p) s = topA c p s ∧ topCall c (Prog.unres p) s = topCall c p s :=
  ⟨topA_unres c p s, topCall_unres c p s⟩

/-- **the flag is confined** (ALL programs, also with `result()`, whatever the outcome - value, exception, escaping
    AsyncTaskResult): after `await fn.asyncio(args)` the asyncio-mode flag of the awaiting context is what it was before -/
theorem C15_mode_confined (c : Call) (p : Prog) (s : St) : (topA c p s).2.mode = s.mode := by
  simp [topA, callA_mode]

/-- the same at every level: resolving any yielded structure (children awaited directly or through `_gather`) leaves the
    flag of the running coroutine as it was -/
theorem C15_mode_confined_nested (y : Ys) (s : St) : (resolveA y s).2.mode = s.mode := resolveA_mode y s

/-- the asynq paths never touch the flag -/
theorem C15_mode_untouched_by_asynq (c : Call) (p : Prog) (s : St) :
    (topCall c p s).2.mode = s.mode ∧ (topValue c p s).2.mode = s.mode := by
  constructor
  · unfold topCall; split
    · rfl
    · rw [bodyR_mode]; rfl
  · unfold topValue; split
    · rfl
    · rw [bodyR_mode]; rfl

/-- **a synchronous call while the flag is on is refused** (ALL programs): the callee's body does not run (nothing of it
    is logged), the caller sees RuntimeError at the call and continues in its handler -/
theorem C15_sync_refused (gen : Bool) (t : Nat) (env : List Val) (caught : Option Err) (i : Nat)
    (c : Call) (child k h : Prog) (s : St) (hm : s.mode = true) :
    bodyA gen t env caught i (.sync c child k h) s =
      bodyA gen t env (some .syncRefused) i h (s.emit (.syncX t (.err .syncRefused))) := by
  simp [bodyA, hm, Err.isBase]

/-- the same call made from the top level while the flag is on -/
theorem C15_sync_refused_top (c : Call) (p : Prog) (s : St) (hm : s.mode = true) :
    topCall c p s = (.err .syncRefused, s) := by
  simp [topCall, hm]

/-- the asynq side of the same statement, for ALL programs: flag off inside, siblings complete first, synchronous calls
    allowed -/
theorem C15_asynq_run_good (c : Call) (p : Prog) : (topCall c p {}).2.log.all evOkR = true := (topCall_good c p).2

/-- **`_gather`: all awaited, then the first failure in list order** (ALL programs): the result of gathering is
    `firstFailure` of the outcomes of ALL elements (each run to completion), ... -/
theorem C15_gather_first_failure (l : YsL) (s : St) : (gatherA l s).1 = firstFailure (elemsA l s) :=
  gatherA_firstFailure l s

/-- ... and `firstFailure` of a list whose first failing element is `o` is `o`, whatever the later elements did -/
theorem C15_first_failure_wins (pre : List Out) (o : Out) (post : List Out)
    (hpre : pre.all Out.isOk = true) (ho : o.isOk = false) :
    firstFailure (pre ++ o :: post) = o.asFailure := firstFailure_split pre o post hpre ho

/-- **shape**: a value delivered at a yield has the shape of the yielded structure (ALL programs) -/
theorem C15_shape (y : Ys) (s : St) (v : Val) (h : (resolveA y s).1 = .ok v) : shapeOk y v = true :=
  resolveA_shape y s v h

/-- **inside, the flag is on; siblings complete first; sync calls refused** (ALL programs): every event logged by an
    asyncio run satisfies `evOkA` -/
theorem C15_asyncio_run_good (c : Call) (p : Prog) : (topA c p {}).2.log.all evOkA = true := by
  have h := asyncio_run_good_noRes c (Prog.unres p) (Prog.unres_noRes p)
  simpa [topA_unres] using h

/-- **C15 as a whole** (ALL programs): the observations of the model under all five ways of running a program are accepted
    by the observer `spec`, the same Boolean function the check evaluates on the observations of the real implementation -/
theorem C15_spec_holds_partial (c : Call) (p : Prog) (hx : p.safe = true) : spec (observe c p) = true := by
  have h := spec_holds_noRes c (Prog.unres p) (Prog.unres_noRes p) (by rw [Prog.unres_safe]; exact hx)
  simpa [observe_unres] using h

/-! ## values are opaque; a failure raised at a yield is the failure of one of the awaitables -/

/-- **`_gather` returns the values untouched** (ALL programs, ALL kinds of value): if every awaitable yielded together ended
    with a value - an exception INSTANCE returned as a value included - the yield receives exactly those values, in order -/
theorem C15_gather_all_ok (l : YsL) (s : St) (h : (elemsA l s).all Out.isOk = true) :
    ∃ vs, (gatherA l s).1 = .ok vs ∧ elemsA l s = vs.map Out.ok := by
  rw [gatherA_firstFailure]; exact firstFailure_ok _ h

/-- **nothing is raised that did not fail**: an error raised by `_gather` is the outcome of one of the awaitables -/
theorem C15_failure_is_an_element (l : YsL) (s : St) (e : Err) (h : (gatherA l s).1 = .err e) :
    Out.err e ∈ elemsA l s := by
  rw [gatherA_firstFailure] at h; exact firstFailure_err_mem _ e h

/-! ## BaseException-only errors -/

/-- asyncio side (the code as it is): a BaseException-only error of an awaited structure is never delivered to the body -
    whatever its handler is, the coroutine ends with that error -/
theorem C15_base_error_leaves_asyncio (t : Nat) (env : List Val) (caught : Option Err) (i : Nat) (hb : Bool) (y : Ys)
    (k h : Prog) (s : St) (e : Err) (hy : (resolveA y s).1 = .err e) (he : e.isBase = true) :
    (bodyA true t env caught i (.yld hb y k h) s).1 = .err e := by
  unfold bodyA
  rcases hA : resolveA y s with ⟨r, s1⟩
  rw [hA] at hy; simp only at hy; subst hy
  simp [he]

/-- asynq side: the same error is thrown into the generator; an `except BaseException` handler runs -/
theorem C15_base_error_delivered_by_asynq (t : Nat) (env : List Val) (caught : Option Err) (i : Nat) (y : Ys)
    (k h : Prog) (s : St) (e : Err) (hy : (ysR y s).1 = .err e) :
    (bodyR true t env caught i (.yld true y k h) s).1 =
      (bodyR true t env (some e) (i + 1) h ((ysR y s).2.emit (.run t (i + 1) ((ysR y s).2.dc y) (ysR y s).2.mode (.err e)))).1 := by
  conv => lhs; unfold bodyR
  rcases hR : ysR y s with ⟨r, s1⟩
  rw [hR] at hy; simp only at hy; subst hy
  simp

/-- **counterexample to the unrestricted statement** (genuine divergence of the code as it is): the body
    `try: yield child.asynq() / except BaseException: return 2` with a child raising a BaseException-only error returns 2
    under `fn(args)` and raises the error under `await fn.asyncio(args)`; the observer rejects it -/
theorem C15_base_handler_counterexample :
    let c : Call := { kind := .gen, afn := false, label := 0 }
    let p : Prog := .yld true (.task { kind := .gen, afn := false, label := 1 } (.raiseB 1)) (.ret 1) (.ret 2)
    (topCall c p {}).1 = .ok (.node 2 []) ∧ (topA c p {}).1 = .err (.b 1) ∧ spec (observe c p) = false := by
  decide

/-! ## non-vacuity -/

private def cG (n : Nat) : Call := { kind := .gen, afn := false, label := n }
private def cM (n : Nat) : Call := { kind := .meth, afn := true, label := n }
private def cP (n : Nat) : Call := { kind := .proxy, afn := false, label := n }

/-- a dict with two failing entries (the first in structure order is the deeper one) and a succeeding one, caught, then
    a further yield in the handler -/
private def demo : Prog :=
  .yld false (.dict [7, 8, 9]
      (.cons (.task (cM 1) (.yld false (.lst (.cons (.const 1) .nil)) (.raise 4) .reraise))
      (.cons (.task (cG 2) (.raise 5))
      (.cons (.tup (.cons (.task (cP 3) (.ret 9)) (.cons .none .nil))) .nil))))
    (.ret 1)
    (.yld false (.task (cG 4) (.ret 2)) (.ret 3) .reraise)

example : (topA (cG 0) demo {}).1 = .ok (.node 3 [.node 2 []]) := by decide
example : (topCall (cG 0) demo {}).1 = .ok (.node 3 [.node 2 []]) := by decide
example : spec (observe (cG 0) demo) = true := by decide
/-- the handler really received the FIRST failure in structure order (user error 4, not 5), with all siblings finished -/
example : (topA (cG 0) demo {}).2.log.any (fun e => e == .run 0 1 true true (.err (.u 4))) = true := by decide
/-- a synchronous call inside an asyncio run is refused, and the same program run by asynq performs it -/
example : (topA (cG 0) (.sync (cG 1) (.ret 1) (.ret 2) (.ret 3)) {}).1 = .ok (.node 3 []) ∧
    (topCall (cG 0) (.sync (cG 1) (.ret 1) (.ret 2) (.ret 3)) {}).1 = .ok (.node 2 [.node 1 []]) := by decide
/-- the observer is not trivially true: it rejects a run that leaves the flag on ... -/
example : spec ((observe (cG 0) (.ret 1)).map (fun ob => if ob.conv == .aio then { ob with after := true } else ob)) = false := by
  decide
/-- ... and one that delivers a failure before a sibling has finished -/
example : spec ((observe (cG 0) demo).map (fun ob =>
    { ob with log := ob.log.map (fun e => match e with | .run t i _ m r => .run t i (!ob.conv.isAio) m r | e => e) })) = false := by
  decide

/-- `asynq.result()` anywhere: the asyncio run returns what `fn(args)` returns and the observer accepts -/
example : (topA (cG 0) (.yld false (.lst (.cons (.task (cG 1) (.res 5)) .nil)) (.res 1) .reraise) {}).1 =
    .ok (.node 1 [.lst [.node 5 []]]) := by decide
example : spec (observe (cG 0) (.yld false (.lst (.cons (.task (cG 1) (.res 5)) .nil)) (.res 1) .reraise)) = true := by decide

/-- a BaseException-only error first in structure order, beside an ordinary failure, handlers `except Exception`: both engines
    let it through to the caller (after all siblings have finished), and the observer accepts -/
private def demoB : Prog :=
  .yld false (.lst (.cons (.task (cG 1) (.yld false .none (.raiseB 1) .reraise)) (.cons (.task (cM 2) (.raise 2)) .nil)))
    (.ret 1) (.ret 2)
example : (topA (cG 0) demoB {}).1 = .err (.b 1) ∧ (topCall (cG 0) demoB {}).1 = .err (.b 1) := by decide
example : demoB.safe = true ∧ spec (observe (cG 0) demoB) = true := by decide
/-- the ordinary failure first: the handler runs in both engines although a BaseException-only error is among the siblings -/
example : (topA (cG 0) (.yld false (.lst (.cons (.task (cM 2) (.raise 2)) (.cons (.task (cG 1) (.raiseB 1)) .nil))) (.ret 1) (.ret 2)) {}).1
    = .ok (.node 2 []) := by decide
/-- a handler that catches BaseException in a program that raises none: covered by the `_partial` statements -/
example : (Prog.yld true (.task (cG 1) (.raise 2)) (.ret 1) (.ret 2)).safe = true := by decide
/-- an exception INSTANCE returned as a value (tag 10-19: `valueKind = exc`) is delivered as a value, in a list too -/
example : valueKind 12 = .exc ∧
    (topA (cG 0) (.yld false (.lst (.cons (.task (cG 1) (.ret 12)) .nil)) (.ret 1) (.ret 2)) {}).1 =
      .ok (.node 1 [.lst [.node 12 []]]) := by decide

end AsynqModel.Asyncio
