import AsynqModel.Lib.Asyncio
import AsynqModel.Proofs.Asyncio
import AsynqModel.Proofs.AsyncioSpec
import AsynqModel.Proofs.AsyncioFixed
/-!
# C15  fn.asyncio() under an event loop matches the asynq result   (after the repair of convert_asynq_to_async)

Theorems about the model `AsynqModel.Asyncio` (asynq/asynq_to_async.py, asynq/decorators.py) for EVERY batch-free program:
every call kind (function, method, pure, async_proxy, non-generator), with or without an explicit `asyncio_fn`, every
nesting of tuples / lists / dicts, raises and try/except at every yield, `return` and `asynq.result()`.
-/
namespace AsynqModel.Asyncio
open AsynqModel.Core (Val)

/-- **equivalence** (programs without plain synchronous calls): awaiting `fn.asyncio(args)` - started in any context
    state `s` - gives exactly the value / exception of `fn(args)`, which is also what `fn.asynq(args).value()` gives -/
theorem C15_equiv (c : Call) (p : Prog) (s s' : St) (hs : p.noSync = true) (hm' : s'.mode = false) :
    (topA c p s).1 = (topCall c p s').1 ∧ (topValue c p s').1 = (topCall c p s').1 := by
  have h := equiv_noRes c (Prog.unres p) s s' (Prog.unres_noRes p) (by rw [Prog.unres_noSync]; exact hs) hm'
  simpa [topA_unres, topCall_unres, topValue_unres] using h

/-- **equivalence, semantic form**: a program may contain plain synchronous calls; if the asyncio run attempts none of
    them (none is logged), it still gives exactly the outcome of `fn(args)` -/
theorem C15_equiv_run (c : Call) (p : Prog) (s' : St) (hm' : s'.mode = false)
    (hn : (topA c p {}).2.log.any isSyncX = false) : (topA c p {}).1 = (topCall c p s').1 := by
  have h := equiv_run_noRes c (Prog.unres p) s' (Prog.unres_noRes p) hm' (by simpa [topA_unres] using hn)
  simpa [topA_unres, topCall_unres] using h

/-- `asynq.result(v)` is `return v` on both paths (the former counterexample) -/
theorem C15_result_is_return (c : Call) (p : Prog) (s : St) :
    topA c (Prog.unres p) s = topA c p s ∧ topCall c (Prog.unres p) s = topCall c p s :=
  ⟨topA_unres c p s, topCall_unres c p s⟩

/-- **the flag is confined** (ALL programs, also with `result()`, whatever the outcome - value, exception, escaping
    AsyncTaskResult): after `await fn.asyncio(args)` the asyncio-mode flag of the awaiting context is what it was before -/
theorem C15_mode_confined (c : Call) (p : Prog) (s : St) : (topA c p s).2.mode = s.mode := by
  simp [topA, callA_mode]

/-- the same at every level: resolving any yielded structure (children awaited directly or through `_gather`) leaves the
    flag of the running coroutine as it was -/
theorem C15_mode_confined_nested (y : Ys) (s : St) : (resolveA y s).2.mode = s.mode := resolveA_mode y s

/-- the asynq paths never touch the flag -/
theorem C15_mode_untouched_by_asynq (c : Call) (p : Prog) (s : St) :
    (topCall c p s).2.mode = s.mode ∧ (topValue c p s).2.mode = s.mode := by
  constructor
  · unfold topCall; split
    · rfl
    · rw [bodyR_mode]; rfl
  · unfold topValue; split
    · rfl
    · rw [bodyR_mode]; rfl

/-- **a synchronous call while the flag is on is refused** (ALL programs): the callee's body does not run (nothing of it
    is logged), the caller sees RuntimeError at the call and continues in its handler -/
theorem C15_sync_refused (gen : Bool) (t : Nat) (env : List Val) (caught : Option Err) (i : Nat)
    (c : Call) (child k h : Prog) (s : St) (hm : s.mode = true) :
    bodyA gen t env caught i (.sync c child k h) s =
      bodyA gen t env (some .syncRefused) i h (s.emit (.syncX t (.err .syncRefused))) := by
  simp [bodyA, hm]

/-- the same call made from the top level while the flag is on -/
theorem C15_sync_refused_top (c : Call) (p : Prog) (s : St) (hm : s.mode = true) :
    topCall c p s = (.err .syncRefused, s) := by
  simp [topCall, hm]

/-- the asynq side of the same statement, for ALL programs: flag off inside, siblings complete first, synchronous calls
    allowed -/
theorem C15_asynq_run_good (c : Call) (p : Prog) : (topCall c p {}).2.log.all evOkR = true := (topCall_good c p).2

/-- **`_gather`: all awaited, then the first failure in list order** (ALL programs): the result of gathering is
    `firstFailure` of the outcomes of ALL elements (each run to completion), ... -/
theorem C15_gather_first_failure (l : YsL) (s : St) : (gatherA l s).1 = firstFailure (elemsA l s) :=
  gatherA_firstFailure l s

/-- ... and `firstFailure` of a list whose first failing element is `o` is `o`, whatever the later elements did -/
theorem C15_first_failure_wins (pre : List Out) (o : Out) (post : List Out)
    (hpre : pre.all Out.isOk = true) (ho : o.isOk = false) :
    firstFailure (pre ++ o :: post) = o.asFailure := firstFailure_split pre o post hpre ho

/-- **shape**: a value delivered at a yield has the shape of the yielded structure (ALL programs) -/
theorem C15_shape (y : Ys) (s : St) (v : Val) (h : (resolveA y s).1 = .ok v) : shapeOk y v = true :=
  resolveA_shape y s v h

/-- **inside, the flag is on; siblings complete first; sync calls refused** (ALL programs): every event logged by an
    asyncio run satisfies `evOkA` -/
theorem C15_asyncio_run_good (c : Call) (p : Prog) : (topA c p {}).2.log.all evOkA = true := by
  have h := asyncio_run_good_noRes c (Prog.unres p) (Prog.unres_noRes p)
  simpa [topA_unres] using h

/-- **C15 as a whole** (ALL programs): the observations of the model under all five ways of running a program are accepted
    by the observer `spec`, the same Boolean function the check evaluates on the observations of the real implementation -/
theorem C15_spec_holds (c : Call) (p : Prog) : spec (observe c p) = true := by
  have h := spec_holds_noRes c (Prog.unres p) (Prog.unres_noRes p)
  simpa [observe_unres] using h

/-! ## non-vacuity -/

private def cG (n : Nat) : Call := { kind := .gen, afn := false, label := n }
private def cM (n : Nat) : Call := { kind := .meth, afn := true, label := n }
private def cP (n : Nat) : Call := { kind := .proxy, afn := false, label := n }

/-- a dict with two failing entries (the first in structure order is the deeper one) and a succeeding one, caught, then
    a further yield in the handler -/
private def demo : Prog :=
  .yld (.dict [7, 8, 9]
      (.cons (.task (cM 1) (.yld (.lst (.cons (.const 1) .nil)) (.raise 4) .reraise))
      (.cons (.task (cG 2) (.raise 5))
      (.cons (.tup (.cons (.task (cP 3) (.ret 9)) (.cons .none .nil))) .nil))))
    (.ret 1)
    (.yld (.task (cG 4) (.ret 2)) (.ret 3) .reraise)

example : (topA (cG 0) demo {}).1 = .ok (.node 3 [.node 2 []]) := by decide
example : (topCall (cG 0) demo {}).1 = .ok (.node 3 [.node 2 []]) := by decide
example : spec (observe (cG 0) demo) = true := by decide
/-- the handler really received the FIRST failure in structure order (user error 4, not 5), with all siblings finished -/
example : (topA (cG 0) demo {}).2.log.any (fun e => e == .run 0 1 true true (.err (.u 4))) = true := by decide
/-- a synchronous call inside an asyncio run is refused, and the same program run by asynq performs it -/
example : (topA (cG 0) (.sync (cG 1) (.ret 1) (.ret 2) (.ret 3)) {}).1 = .ok (.node 3 []) ∧
    (topCall (cG 0) (.sync (cG 1) (.ret 1) (.ret 2) (.ret 3)) {}).1 = .ok (.node 2 [.node 1 []]) := by decide
/-- the observer is not trivially true: it rejects a run that leaves the flag on ... -/
example : spec ((observe (cG 0) (.ret 1)).map (fun ob => if ob.conv == .aio then { ob with after := true } else ob)) = false := by
  decide
/-- ... and one that delivers a failure before a sibling has finished -/
example : spec ((observe (cG 0) demo).map (fun ob =>
    { ob with log := ob.log.map (fun e => match e with | .run t i _ m r => .run t i (!ob.conv.isAio) m r | e => e) })) = false := by
  decide

/-- `asynq.result()` anywhere: the asyncio run returns what `fn(args)` returns and the observer accepts -/
example : (topA (cG 0) (.yld (.lst (.cons (.task (cG 1) (.res 5)) .nil)) (.res 1) .reraise) {}).1 =
    .ok (.node 1 [.lst [.node 5 []]]) := by decide
example : spec (observe (cG 0) (.yld (.lst (.cons (.task (cG 1) (.res 5)) .nil)) (.res 1) .reraise)) = true := by decide

end AsynqModel.Asyncio
