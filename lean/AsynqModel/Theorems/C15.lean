import AsynqModel.Lib.Asyncio
import AsynqModel.Proofs.Asyncio
import AsynqModel.Proofs.AsyncioSem
import AsynqModel.Proofs.AsyncioLock
import AsynqModel.Proofs.AsyncioSpec
import AsynqModel.Proofs.AsyncioCanon
import AsynqModel.Proofs.AsyncioFixed
/-!
# C15  fn.asyncio() under an event loop matches the asynq result

Theorems about the model `AsynqModel.Asyncio` of asynq/asynq_to_async.py and asynq/decorators.py.  The reference ("what
`fn(args)` gives") is the evaluator `bodyR` / `ysR` of the same file - the sequential depth-first evaluation with asynq's
`unwrap` rule; it is tied to the real `fn(args)` and `fn.asynq(args).value()` by the correspondence check (conventions
`call` and `value`), not to `Core.Seq` by a theorem.

Programs: every call kind (function, method, pure, async_proxy, non-generator, @deduplicate()), with or without an explicit
`asyncio_fn`, declared with or without `sync_fn=` (`Call.sfn`: the callee of a plain synchronous call then is that sync_fn),
every nesting of tuples / lists / dicts of ANY width and depth, raises (of `Exception`s and of BaseException-only errors)
and try/except at every yield, `return` and `asynq.result()` of ANY kind of object (`valueKind`), plain synchronous calls,
yielded instances of SUBCLASSES of tuple / list / dict (`Ys.sub`), async_proxy functions returning None or a container
instead of one future (`Ys.pval`), futures that are not ConstFutures - ErrorFuture, lazy Future - (`Ys.ofut`), children whose
explicit asyncio_fn is a generator-based coroutine (`Ys.gco`), a root that is a `pure=True` method (`observeR true`) - the
last two ordinary cases since the repairs /repo 6607af4 and fec982c.

Hypotheses, each with a machine-checked witness that it cannot be dropped FOR THE CODE AS IT IS (section B):
* `p.safe`   - every handler of the program is `except Exception`, or the program raises no BaseException-only error
               (`C15_base_handler_counterexample`; a static over-approximation: sufficient, not a characterisation);
* `p.plainY` - no yielded container is an instance of a subclass, no async_proxy function returns a non-future, every future
               made in a yield is a ConstFuture, an ErrorFuture or a lazy Future (`C15_container_subclass_counterexample`,
               `C15_proxy_value_counterexample`); a child whose explicit asyncio_fn is a generator-based coroutine (`Ys.gco`) is
               INSIDE `plainY` since the repair 6607af4 (`C15_generator_coroutine_asyncio_fn_repaired`), and a whole case needs
               no hypothesis on its root any more: a `pure=True` METHOD has `.asyncio` since fec982c
               (`C15_case_spec_holds_partial` for every `pm`, `C15_pure_method_root_repaired`);
* where a statement speaks about outcomes: `p.noSync` or "the asyncio run logged no synchronous call" - a plain synchronous
  call is refused under asyncio by design (`C15_noSync_necessary`); `s'.mode = false` (`C15_flag_off_necessary`);
* `p.validCalls` is NOT a hypothesis of any theorem (third audit, C: the four statements about refused synchronous calls
  carried it unused; it has been dropped, they hold of the MODEL for every term).  It delimits the `Call` terms for which
  the model is tied to the code (the harness sends no others): read the four statements as statements about the code for
  programs with `p.validCalls` only.  The model refuses the plain synchronous call of every term;
  the code does not for `.sync {kind := .pure}` (`pure(args)` returns an un-awaited coroutine, nothing is refused) and
  `.sync {kind := .proxy, sfn := true}` (AsyncAndSyncPairProxyDecorator.__call__ runs sync_fn whatever the flag): neither is
  "a plain synchronous call of an @asynq() function"; shown on the real code (DESIGN.md 5 C15), not in the model.

## Section A: statements with content (induction over all programs)
-/
namespace AsynqModel.Asyncio
open AsynqModel.Core (Val)

/-- **equivalence** (programs without plain synchronous calls): awaiting `fn.asyncio(args)` - started in any context
    state `s` - gives exactly the value / exception of `fn(args)`, which is also what `fn.asynq(args).value()` gives -/
theorem C15_equiv_partial (c : Call) (p : Prog) (s s' : St) (hs : p.noSync = true) (hy : p.plainY = true)
    (hx : p.safe = true) (hm' : s'.mode = false) :
    (topA c p s).1 = (topCall c p s').1 ∧ (topValue c p s').1 = (topCall c p s').1 := by
  refine ⟨?_, by rw [topValue_eq_topCall c p s' hm']⟩
  rw [topA_eq]
  simp only [topCall, hm', Bool.false_eq_true, if_false]
  exact bodyA_eq_bodyR p _ _ _ _ _ _ _ (by simp) (by simp [hm']) hy hs (Safe.ofBool hx)

/-- **equivalence, semantic form**: a program may contain plain synchronous calls; if the asyncio run attempts none of
    them (none is logged), it still gives exactly the outcome of `fn(args)` -/
theorem C15_equiv_run_partial (c : Call) (p : Prog) (s' : St) (hy : p.plainY = true) (hx : p.safe = true)
    (hm' : s'.mode = false)
    (hn : (topA c p {}).2.log.any isSyncX = false) : (topA c p {}).1 = (topCall c p s').1 :=
  topA_sem c p hy hx s' hm' hn

/-- **every delivery agrees, in every task** (the statement behind "keeps the shape", "first failure in structure order",
    "try/except behaves the same"): run `await fn.asyncio(args)` and `fn(args)`; project both logs (oldest first) on
    "task t started", "the i-th yield of task t returned value v / raised e", "task t ended with o".
    * If the asyncio run attempted no synchronous call, the two projections are EQUAL - every task of the tree started, was
      resumed as often, received at each yield the same value (same shape) or the same exception and ended the same way as
      under asynq - and the outcomes are equal.
    * Otherwise the asyncio projection up to the first (refused) synchronous call is a PREFIX of the asynq projection.  (This
      second clause is about the MODEL, whose evaluators are sequential: where the first refusal falls relative to the events
      of OTHER tasks depends on how the event loop interleaves sibling coroutines, so the observer `spec` does not read it.) -/
theorem C15_deliveries_agree_partial (c : Call) (p : Prog) (hy : p.plainY = true) (hx : p.safe = true) :
    ((topA c p {}).2.log.reverse.any isSyncX = false →
        (topA c p {}).1 = (topCall c p {}).1 ∧
        proj (topA c p {}).2.log.reverse = proj (topCall c p {}).2.log.reverse) ∧
    ((topA c p {}).2.log.reverse.any isSyncX = true →
        proj (cutSync (topA c p {}).2.log.reverse) <+: proj (topCall c p {}).2.log.reverse) :=
  top_deliveries c p hy hx

/-- the same per task: the sub-log of every task `t` is the same under both engines -/
theorem C15_deliveries_agree_per_task_partial (c : Call) (p : Prog) (hy : p.plainY = true) (hx : p.safe = true)
    (hn : (topA c p {}).2.log.reverse.any isSyncX = false) (t : Nat) :
    onTask t (proj (topA c p {}).2.log.reverse) = onTask t (proj (topCall c p {}).2.log.reverse) := by
  rw [((top_deliveries c p hy hx).1 hn).2]

/-- **a run ends with the end of its own task, carrying the outcome the caller sees** (ALL programs, all five ways of
    running): the log opens with an event of the root task and the last event of that task is `fin root outcome` -/
theorem C15_run_ends_with_outcome (c : Call) (p : Prog) : ∀ ob ∈ observe c p, rootOk ob = true := by
  intro ob hob
  simp only [observe, allConvs, List.map_cons, List.map_nil, List.mem_cons, List.not_mem_nil, or_false] at hob
  have hv := topValue_eq_topCall c p {} rfl
  rcases hob with h | h | h | h | h <;> subst h
  · exact topCall_root c p _ rfl rfl
  · exact topCall_root c p _ (by rw [show (observe1 .value c p).log = (topValue c p {}).2.log.reverse from rfl, hv])
      (by rw [show (observe1 .value c p).out = (topValue c p {}).1 from rfl, hv])
  · exact topA_root c p _ rfl rfl
  · exact topA_root c p _ rfl rfl
  · exact topA_root c p _ rfl rfl

/-- **inside, the flag is on; everything the engine awaits together completes before the yield returns or raises; every
    synchronous call attempted is REFUSED with the RuntimeError and its callee never runs** (ALL programs): every event logged
    by an asyncio run satisfies `evOkA` (a callee run by a synchronous call would log `start _ false` or `sfn`, which `evOkA`
    rejects; a call that came back with anything but `.err .syncRefused` too).  No hypothesis on the call sites is needed: the
    model refuses every `Call` term (it is tied to the code for `p.validCalls` only, see the header) -/
theorem C15_asyncio_run_good (c : Call) (p : Prog) :
    (topA c p {}).2.log.all evOkA = true := (topA_good c p).2

/-- **no `sync_fn` ever runs inside an asyncio run** (ALL programs; every callee declared any way: function / method,
    with or without `sync_fn=`, with or without `asyncio_fn=`): the guard of `AsyncDecorator.__call__` AND that of
    `AsyncAndSyncPairDecorator.__call__` (reached directly or through `AsyncAndSyncPairDecoratorBinder.__call__`) refuse the
    call before the synchronous implementation is entered - the log of `await fn.asyncio(args)` contains no `sfn` event -/
theorem C15_sync_fn_never_runs_under_asyncio (c : Call) (p : Prog) :
    (topA c p {}).2.log.all (fun e => !isSfn e) = true := by
  have h := (topA_good c p).2
  rw [List.all_eq_true] at h ⊢
  intro e he
  have h1 := h e he
  cases e <;> simp_all [evOkA, syncRefusedOk, isSfn]

/-- **every plain synchronous call attempted inside an asyncio run comes back with the RuntimeError "asyncio mode does not
    support synchronous calls"** - whatever the declaration of the callee (function / method / non-generator / @deduplicate(),
    with or without `sync_fn=` / `asyncio_fn=`), at any depth of the task tree, in a handler or not (ALL programs) -/
theorem C15_sync_refused_with_RuntimeError (c : Call) (p : Prog) :
    (topA c p {}).2.log.all syncRefusedOk = true := topA_strict c p

/-- **nothing of the callee of a refused call runs** (ALL programs): every event an asyncio run logs - start, resumption, end,
    asyncio_fn, synchronous call - belongs to the root or to a task of `p.live`: the tasks of the yielded structures reached
    through continuations and handlers.  The callee of a plain synchronous call and the tasks inside its body are not in
    `p.live` (`C15_live_excludes_callee`, for programs whose labels are distinct - as the harness' are) -/
theorem C15_refused_callee_never_runs (c : Call) (p : Prog) :
    ∀ e ∈ (topA c p {}).2.log, e.label ∈ c.label :: p.live := by
  intro e he
  have h := List.all_eq_true.mp (topA_live c p) e he
  simpa [inL] using h

/-- the asynq side of the same statement, for ALL programs: flag off inside, siblings complete first, synchronous calls
    allowed -/
theorem C15_asynq_run_good (c : Call) (p : Prog) : (topCall c p {}).2.log.all evOkR = true := (topCall_good c p).2

/-- **shape**: a value delivered at a yield has the shape of the yielded structure (ALL programs) -/
theorem C15_shape (y : Ys) (s : St) (v : Val) (h : (resolveA y s).1 = .ok v) : shapeOk y v = true :=
  resolveA_shape y s v h

/-- **equal views, equal verdicts** (ALL observations, no hypothesis): the observer - the observation-only clauses `specClause`
    and, for any case `(c, p)`, the program-aware ones `specClauseP` - reads of a log only what the correspondence check
    compares: the canonical per-task form `canonE` and the first event, never the relative order of events of different tasks;
    so if the model's and the implementation's observations have the same view (`sameViews`), the observer gives both the same
    verdict, clause for clause.  (That the driver's `firstDiff` is `none` exactly when `sameViews` holds is by reading of
    Drv/Asyncio.lean, not a theorem.) -/
theorem C15_spec_respects_correspondence (model impl : List Obs) (h : sameViews model impl = true) :
    specClause model = specClause impl ∧ spec model = spec impl ∧
    ∀ (c : Call) (p : Prog), specClauseP c p model = specClauseP c p impl := by
  have := specClause_congr h
  exact ⟨this, by simp [spec, this], fun c p => specClauseP_congr c p h⟩

/-- **C15, the observation-only observer**: the observations of the model under all five ways of running a program are
    accepted by `spec` - flag off before / after / on inside, siblings complete, synchronous calls refused under asyncio and
    allowed under asynq, no escaping AsyncTaskResult, every run ends with the end of its root task carrying the outcome, and
    for runs that attempted no synchronous call: same outcome and same deliveries in every task as `fn(args)` -/
theorem C15_spec_holds_partial (c : Call) (p : Prog) (hy : p.plainY = true) (hx : p.safe = true) :
    spec (observe c p) = true := spec_holds c p hy hx

/-- **C15 as a whole** - what the check evaluates on the observations of the real implementation (`SPEC`): `spec` and the
    program-aware clauses `specObsP`.  Of those, `refused-callee-ran` has content (`C15_refused_callee_never_runs`);
    `asyncio-fn` and `sync-run-deliveries` compare with the model's own run and hold of the model by reflexivity (what they say
    about the code is the correspondence; what the model's run is like is stated by the theorems above) -/
theorem C15_specP_holds_partial (c : Call) (p : Prog) (hy : p.plainY = true) (hx : p.safe = true) :
    specP c p (observe c p) = true := specP_holds c p hy hx

/-- **C15 for a whole case** (what Drv/Asyncio.lean evaluates: the root may be declared as a `pure=True` method, `pm`): the
    observer accepts the model's observations WHATEVER `pm` is - since /repo fec982c a pure method has `.asyncio` and
    `observeR pm` is `observe`; the former hypothesis `pm = false` is gone (`C15_pure_method_root_repaired`) -/
theorem C15_case_spec_holds_partial (pm : Bool) (c : Call) (p : Prog) (hy : p.plainY = true)
    (hx : p.safe = true) : specPR pm c p (observeR pm c p) = true := specP_holds c p hy hx

/-! ## Section B: where the code as it is violates the property (genuine divergences), and why each hypothesis is needed -/

/-- asyncio side (the code as it is): a BaseException-only error of an awaited structure is never delivered to the body -
    whatever its handler is, the coroutine ends with that error -/
theorem C15_base_error_leaves_asyncio (t : Nat) (env : List Val) (caught : Option Err) (i : Nat) (hb : Bool) (y : Ys)
    (k h : Prog) (s : St) (e : Err) (hy : (resolveA y s).1 = .err e) (he : e.isBase = true) :
    (bodyA true t env caught i (.yld hb y k h) s).1 = .err e := by
  unfold bodyA
  rcases hA : resolveA y s with ⟨r, s1⟩
  rw [hA] at hy; simp only at hy; subst hy
  simp [he]

/-- asynq side: the same error is thrown into the generator; an `except BaseException` handler runs -/
theorem C15_base_error_delivered_by_asynq (t : Nat) (env : List Val) (caught : Option Err) (i : Nat) (y : Ys)
    (k h : Prog) (s : St) (e : Err) (hy : (ysR y s).1 = .err e) :
    (bodyR true t env caught i (.yld true y k h) s).1 =
      (bodyR true t env (some e) (i + 1) h
        ((ysR y s).2.emit (.run t (i + 1) ((ysR y s).2.dc (Ys.labelsR y)) (ysR y s).2.mode (.err e)))).1 := by
  conv => lhs; unfold bodyR
  rcases hR : ysR y s with ⟨r, s1⟩
  rw [hR] at hy; simp only at hy; subst hy
  simp

private def cG (n : Nat) : Call := { kind := .gen, afn := false, label := n }
private def cM (n : Nat) : Call := { kind := .meth, afn := true, label := n }
private def cP (n : Nat) : Call := { kind := .proxy, afn := false, label := n }

/-- **`p.safe` cannot be dropped** (genuine divergence of the code as it is, recorded finding
    `base-exception-not-delivered-to-handler`): the body `try: yield child.asynq() / except BaseException: return 2` with a
    child raising a BaseException-only error returns 2 under `fn(args)` and raises the error under
    `await fn.asyncio(args)`; the observer rejects it -/
theorem C15_base_handler_counterexample :
    let c : Call := { kind := .gen, afn := false, label := 0 }
    let p : Prog := .yld true (.task { kind := .gen, afn := false, label := 1 } (.raiseB 1)) (.ret 1) (.ret 2)
    p.plainY = true ∧ p.noSync = true ∧
    (topCall c p {}).1 = .ok (.node 2 []) ∧ (topA c p {}).1 = .err (.b 1) ∧ spec (observe c p) = false := by
  decide

/-- **`p.plainY` cannot be dropped, 1** (genuine divergence of the code as it is, finding
    `container-subclass-yield-accepted-by-asyncio`): `v = yield P(ConstFuture(1), ConstFuture(2))` with `P` a namedtuple
    (any subclass of tuple / list / dict): `fn(args)` raises TypeError "Cannot unwrap" at the yield (`type(value) is tuple`
    in async_task.py `unwrap` / `extract_futures`), `await fn.asyncio(args)` delivers the plain tuple `(1, 2)`
    (`isinstance(x, tuple)` in asynq_to_async.py `resolve_awaitables`); the observer rejects it -/
theorem C15_container_subclass_counterexample :
    let c : Call := { kind := .gen, afn := false, label := 0 }
    let p : Prog := .yld false (.sub (.tup (.cons (.const 1) (.cons (.const 2) .nil)))) (.ret 1) .reraise
    p.safe = true ∧ p.noSync = true ∧
    (topCall c p {}).1 = .err .typeerr ∧ (topA c p {}).1 = .ok (.node 1 [.tup [.a 1, .a 2]]) ∧
    spec (observe c p) = false := by
  decide

/-- **`p.plainY` cannot be dropped, 2** (genuine divergence of the code as it is, finding
    `async-proxy-non-future-result-not-resolved`): `v = yield proxy.asynq()` where the @async_proxy() function returns None:
    `fn(args)` delivers None, `await fn.asyncio(args)` raises TypeError "object NoneType can't be used in 'await'
    expression" out of `unwrap_coroutine` (decorators.py AsyncProxyDecorator.asyncio); the same for a returned list of
    futures; the observer rejects both -/
theorem C15_proxy_value_counterexample :
    let c : Call := { kind := .gen, afn := false, label := 0 }
    let p : Prog := .yld false (.pval .none) (.ret 1) .reraise
    let q : Prog := .yld false (.pval (.lst (.cons (.task { kind := .gen, afn := false, label := 1 } (.ret 5)) .nil)))
      (.ret 1) .reraise
    p.safe = true ∧ p.noSync = true ∧
    (topCall c p {}).1 = .ok (.node 1 [.none]) ∧ (topA c p {}).1 = .err .other ∧ spec (observe c p) = false ∧
    (topCall c q {}).1 = .ok (.node 1 [.lst [.node 5 []]]) ∧ (topA c q {}).1 = .err .other ∧
    spec (observe c q) = false := by
  decide

/-- (after the repair /repo 6607af4 of the former finding `generator-based-asyncio_fn-rejected-at-yield`, third audit A3)
    `r = yield f.asynq(1)` where `f` is declared `@asynq(asyncio_fn=g)` and `g` is a generator-based coroutine
    (`@types.coroutine def g(x): r = yield from base.asyncio(x).__await__(); return r`): `resolve_awaitables` now tests
    `inspect.isawaitable(x)` and awaits the generator object like every other form of an asyncio_fn - bare and inside a list
    both engines deliver the child's value, the asyncio run enters the asyncio_fn (`afn 1`) and runs the child, `Ys.gco` is
    inside `plainY` and the observer accepts.  The OLD behaviour (TypeError "Unknown structured awaitable type" delivered at the
    yield, the child never started) is still rejected: clause "equiv" / "deliveries" - a regression is a violation -/
theorem C15_generator_coroutine_asyncio_fn_repaired :
    let c : Call := { kind := .gen, afn := false, label := 0 }
    let f : Ys := .gco (.task { kind := .gen, afn := true, label := 1 } (.ret 5))
    let p : Prog := .yld false f (.ret 1) .reraise
    let q : Prog := .yld false (.lst (.cons (.task { kind := .gen, afn := false, label := 2 } (.ret 4)) (.cons f .nil))) (.ret 1) (.ret 2)
    let old : List Obs → List Obs := fun obs => obs.map (fun ob => if ob.conv.isAio then
      { ob with out := .err .typeerr,
                log := [.start 0 true, .run 0 1 true true (.err .typeerr), .fin 0 (.err .typeerr)] } else ob)
    p.plainY = true ∧ q.plainY = true ∧ p.safe = true ∧ p.validCalls = true ∧
    (topCall c p {}).1 = .ok (.node 1 [.node 5 []]) ∧ (topA c p {}).1 = .ok (.node 1 [.node 5 []]) ∧
    (topA c p {}).2.log.reverse = [.start 0 true, .afn 1, .start 1 true, .fin 1 (.ok (.node 5 [])),
      .run 0 1 true true (.ok (.node 5 [])), .fin 0 (.ok (.node 1 [.node 5 []]))] ∧
    specP c p (observe c p) = true ∧
    (topCall c q {}).1 = .ok (.node 1 [.lst [.node 4 [], .node 5 []]]) ∧ (topA c q {}).1 = (topCall c q {}).1 ∧
    specP c q (observe c q) = true ∧
    specClause (old (observe c p)) = "equiv" ∧ spec (old (observe c p)) = false := by
  decide

/-- (after the repair /repo fec982c of the former finding `pure-method-has-no-asyncio`, third audit B8) for
    `class C: @asynq(pure=True) def m(self, x): ...` the expression `C().m.asyncio(1)` now exists
    (`PureAsyncDecoratorBinder.asyncio`) and is what `asyncio` of the same function outside a class is: the observations of
    a case with a pure-method root (`observeR true`) are the ordinary ones and the observer accepts them.  The OLD behaviour
    (AttributeError before anything runs: outcome `Err.other`, empty log - `oldPureMethodObs`) is still rejected: clause "equiv" -/
theorem C15_pure_method_root_repaired :
    let c : Call := { kind := .pure, afn := false, label := 0 }
    let p : Prog := .yld false (.task { kind := .gen, afn := false, label := 1 } (.ret 5)) (.ret 1) .reraise
    p.plainY = true ∧ p.safe = true ∧ p.noSync = true ∧ p.validCalls = true ∧
    observeR true c p = observe c p ∧
    (observeR true c p).all (fun ob => ob.out == .ok (.node 1 [.node 5 []]) && !ob.after) = true ∧
    specPR true c p (observeR true c p) = true ∧
    specClausePR true c p (oldPureMethodObs c p) = "equiv" ∧ specPR true c p (oldPureMethodObs c p) = false := by
  decide

/-- (after the repair of `non-const-future-yield-rejected-by-asyncio`) an ErrorFuture / a lazy Future made in a yield is
    resolved by both engines alike (`.value()`); `Ys.ofut` is inside `plainY` and the observer accepts -/
theorem C15_other_future_resolved :
    let c : Call := { kind := .gen, afn := false, label := 0 }
    let p : Prog := .yld false (.ofut true 1) (.ret 1) .reraise
    let q : Prog := .yld false (.ofut false 7) (.ret 1) .reraise
    p.plainY = true ∧ q.plainY = true ∧
    (topCall c p {}).1 = .err (.u 1) ∧ (topA c p {}).1 = .err (.u 1) ∧ specP c p (observe c p) = true ∧
    (topCall c q {}).1 = .ok (.node 1 [.a 7]) ∧ (topA c q {}).1 = .ok (.node 1 [.a 7]) ∧ specP c q (observe c q) = true := by
  decide

/-- an instance of `C15_sync_refused_with_RuntimeError` (the repaired former finding
    `sync-call-of-deduplicated-function-raises-TypeError-in-asyncio-mode`): a plain synchronous call of a @deduplicate() function
    made while the flag is on is refused with the RuntimeError like any other -/
theorem C15_dedup_sync_refused :
    let c : Call := { kind := .gen, afn := false, label := 0 }
    let p : Prog := .sync { kind := .dedup, afn := false, label := 1 } (.ret 1) (.ret 2) .reraise
    (topA c p {}).1 = .err .syncRefused ∧ (topA c p {}).2.log.all syncRefusedOk = true ∧ specP c p (observe c p) = true := by
  decide

/-- **`p.noSync` (resp. "no synchronous call logged") cannot be dropped** - by design, not a defect: a plain synchronous
    call is performed by asynq and refused under asyncio, so the outcomes differ; the observer accepts this run (the clauses
    that apply are "refused" and "the outcome is the one the root task ended with") -/
theorem C15_noSync_necessary :
    let p : Prog := .sync (cG 1) (.ret 1) (.ret 2) (.ret 3)
    p.plainY = true ∧ p.safe = true ∧
    (topA (cG 0) p {}).1 = .ok (.node 3 []) ∧ (topCall (cG 0) p {}).1 = .ok (.node 2 [.node 1 []]) ∧
    spec (observe (cG 0) p) = true := by
  decide

/-- **`s'.mode = false` cannot be dropped**: `fn(args)` called while the flag is on is itself refused -/
theorem C15_flag_off_necessary :
    (topA (cG 0) (.ret 1) {}).1 = .ok (.node 1 []) ∧ (topCall (cG 0) (.ret 1) { mode := true }).1 = .err .syncRefused := by
  decide

/-! ## Section C: statements that hold BY CONSTRUCTION of the model (one unfolding of a definition).  They are kept because
    they document how the model renders the code (`with AsyncioMode()` as enter / exit around the body, `__call__` in asyncio
    mode as an immediate RuntimeError, `result()` handled like `return`, `_gather` as "evaluate all, then combine"); their
    content lies in the correspondence check (flag after a run and canary call on every path, `syncX` events, `dc` bits and
    per-task deliveries of the real library equal to the model's), not in their proofs. -/

/-- by construction of `callA` (holds for an arbitrary body function): the flag is restored whatever the outcome -/
theorem C15_mode_confined (c : Call) (p : Prog) (s : St) : (topA c p s).2.mode = s.mode := by
  simp [topA, callA_mode]

/-- by construction of `bodyA` (one unfolding): a synchronous call while the flag is on is refused, nothing of the callee is
    logged, the caller continues in its handler with the RuntimeError -/
theorem C15_sync_refused (gen : Bool) (t : Nat) (env : List Val) (caught : Option Err) (i : Nat)
    (c : Call) (child k h : Prog) (s : St) (hm : s.mode = true) :
    bodyA gen t env caught i (.sync c child k h) s =
      bodyA gen t env (some .syncRefused) i h (s.emit (.syncX t (.err .syncRefused))) := by
  simp [bodyA, hm, refusal, Err.isBase]

/-- by construction of `bodyR` / `syncStart`: the same call made while the flag is off runs the callee - through its `sync_fn`
    (logged first) if it was declared with one -/
theorem C15_sync_allowed_by_asynq (gen : Bool) (t : Nat) (env : List Val) (caught : Option Err) (i : Nat)
    (c : Call) (child k h : Prog) (s : St) (hm : s.mode = false) :
    (syncStart c s).log = (if c.sfn then [Ev.start c.label false, Ev.sfn c.label] else [Ev.start c.label false]) ++ s.log ∧
    (bodyR gen t env caught i (.sync c child k h) s).1 =
      (match bodyR c.kind.isGen c.label [] none 0 child (syncStart c s) with
       | (.ok v, s1) => (bodyR gen t (env ++ [v]) caught i k (s1.emit (.syncX t (.ok v)))).1
       | (.err e, s1) => if e.isBase then .err e else (bodyR gen t env (some e) i h (s1.emit (.syncX t (.err e)))).1
       | (.esc v, _) => .esc v) := by
  refine ⟨by rw [syncStart_log, hm], ?_⟩
  conv => lhs; unfold bodyR
  simp only [hm, Bool.false_eq_true, if_false]
  rcases bodyR c.kind.isGen c.label [] none 0 child (syncStart c s) with ⟨r, s1⟩
  cases r with
  | ok v => rfl
  | err e => simp only; split <;> rfl
  | esc v => rfl

/-- by construction of `callA` / `ysR` / `resolveA` / `topValue` (none reads `Call.sfn`): `.asynq()` and `.asyncio()` of a function
    declared with `sync_fn=` are those of the function declared without -/
theorem C15_sync_fn_unused_by_asynq_and_asyncio (c : Call) (p : Prog) (s : St) (b : Bool) :
    topA { c with sfn := b } p s = topA c p s ∧ topValue { c with sfn := b } p s = topValue c p s ∧
    ysR (.task { c with sfn := b } p) s = ysR (.task c p) s ∧ resolveA (.task { c with sfn := b } p) s = resolveA (.task c p) s := by
  refine ⟨rfl, rfl, ?_, ?_⟩
  · simp [ysR]
  · simp [resolveA, callA]

/-- by construction of `topCall`: the same call made from the top level while the flag is on -/
theorem C15_sync_refused_top (c : Call) (p : Prog) (s : St) (hm : s.mode = true) :
    topCall c p s = (.err (refusal c), s) := by
  simp [topCall, hm]

/-- by construction (`bodyA` / `bodyR` have the same clause for `res` and `ret`): `asynq.result(v)` is `return v` on both
    paths -/
theorem C15_result_is_return (c : Call) (p : Prog) (s : St) :
    topA c (Prog.unres p) s = topA c p s ∧ topCall c (Prog.unres p) s = topCall c p s :=
  ⟨topA_unres c p s, topCall_unres c p s⟩

/-- by construction of `gatherA` (it IS "evaluate every element, then combine"): the result of gathering is `firstFailure`
    of the outcomes of all elements -/
theorem C15_gather_first_failure (l : YsL) (s : St) : (gatherA l s).1 = firstFailure (elemsA l s) :=
  gatherA_firstFailure l s

/-- by construction: no rule of `bodyA` / `bodyR` / `resolveA` / `ysR` ever INTRODUCES `.esc` (`res` is rendered like `ret`):
    no computation of the model ends with an escaping AsyncTaskResult; the content is the correspondence (clause
    `result-escapes` of the observer on the real runs; repaired finding `asynq.result()-escapes-asyncio`) -/
theorem C15_no_result_escapes (c : Call) (p : Prog) :
    isEsc (topA c p {}).1 = false ∧ isEsc (topCall c p {}).1 = false := ⟨topA_noEsc c p, topCall_noEsc c p⟩

/-- by construction (`callA_mode` holds for an arbitrary body, `gatherA` restores the flag explicitly: `ensure_future` runs the
    child in a COPY of the context): resolving any yielded structure leaves the flag of the running coroutine as it was -/
theorem C15_mode_confined_nested (y : Ys) (s : St) : (resolveA y s).2.mode = s.mode := resolveA_mode y s

/-- by construction: no rule of the asynq-side evaluators writes the flag -/
theorem C15_mode_untouched_by_asynq (c : Call) (p : Prog) (s : St) :
    (topCall c p s).2.mode = s.mode ∧ (topValue c p s).2.mode = s.mode := by
  constructor
  · unfold topCall; split
    · rfl
    · rw [bodyR_mode]; rfl
  · unfold topValue; split
    · rfl
    · rw [bodyR_mode]; rfl

/-- list lemma about `firstFailure` (with `C15_gather_first_failure`: what `_gather` raises is the first failure in list
    order, whatever the later elements did) -/
theorem C15_first_failure_wins (pre : List Out) (o : Out) (post : List Out)
    (hpre : pre.all Out.isOk = true) (ho : o.isOk = false) :
    firstFailure (pre ++ o :: post) = o.asFailure := firstFailure_split pre o post hpre ho

/-- list lemma about `firstFailure` over `elemsA` (itself defined by `gatherA`'s recursion): if every awaitable yielded
    together ended with a value - an exception INSTANCE returned as a value included - the yield receives exactly those values -/
theorem C15_gather_all_ok (l : YsL) (s : St) (h : (elemsA l s).all Out.isOk = true) :
    ∃ vs, (gatherA l s).1 = .ok vs ∧ elemsA l s = vs.map Out.ok := by
  rw [gatherA_firstFailure]; exact firstFailure_ok _ h

/-- list lemma: an error raised by `_gather` is the outcome of one of the awaitables -/
theorem C15_failure_is_an_element (l : YsL) (s : St) (e : Err) (h : (gatherA l s).1 = .err e) :
    Out.err e ∈ elemsA l s := by
  rw [gatherA_firstFailure] at h; exact firstFailure_err_mem _ e h

/-- by definition of `Prog.live`: the tasks an asyncio run may start below a plain synchronous call are those of its continuation
    and of its handler - the callee `c` and the tasks inside its body `child` are not listed (they occur in `live` of the whole
    program only if the same label is used at another call site; the harness' labels are distinct) -/
theorem C15_live_excludes_callee (c : Call) (child k h : Prog) : (Prog.sync c child k h).live = k.live ++ h.live := rfl

/-! ## non-vacuity -/

/-- a dict with two failing entries (the first in structure order is the deeper one) and a succeeding one, caught, then
    a further yield in the handler -/
private def demo : Prog :=
  .yld false (.dict [7, 8, 9]
      (.cons (.task (cM 1) (.yld false (.lst (.cons (.const 1) .nil)) (.raise 4) .reraise))
      (.cons (.task (cG 2) (.raise 5))
      (.cons (.tup (.cons (.task (cP 3) (.ret 9)) (.cons .none .nil))) .nil))))
    (.ret 1)
    (.yld false (.task (cG 4) (.ret 2)) (.ret 3) .reraise)

example : demo.plainY = true ∧ demo.safe = true ∧ demo.noSync = true := by decide
example : (topA (cG 0) demo {}).1 = .ok (.node 3 [.node 2 []]) := by decide
example : (topCall (cG 0) demo {}).1 = .ok (.node 3 [.node 2 []]) := by decide
example : spec (observe (cG 0) demo) = true := by decide
/-- the handler really received the FIRST failure in structure order (user error 4, not 5), with all siblings finished -/
example : (topA (cG 0) demo {}).2.log.any (fun e => e == .run 0 1 true true (.err (.u 4))) = true := by decide
/-- the two projections of `C15_deliveries_agree_partial` are equal and not empty (13 events) -/
example : proj (topA (cG 0) demo {}).2.log.reverse = proj (topCall (cG 0) demo {}).2.log.reverse ∧
    (proj (topA (cG 0) demo {}).2.log.reverse).length = 13 := by decide
/-- a synchronous call inside an asyncio run is refused, and the same program run by asynq performs it -/
example : (topA (cG 0) (.sync (cG 1) (.ret 1) (.ret 2) (.ret 3)) {}).1 = .ok (.node 3 []) ∧
    (topCall (cG 0) (.sync (cG 1) (.ret 1) (.ret 2) (.ret 3)) {}).1 = .ok (.node 2 [.node 1 []]) := by decide

/-- a function / method declared with `sync_fn=` (label 1, with an explicit asyncio_fn too) called synchronously, and yielded:
    asynq runs its sync_fn for the plain call only; asyncio refuses the plain call (no `sfn` in the log) and awaits the other -/
private def cS (n : Nat) : Call := { kind := .meth, afn := true, label := n, sfn := true }
private def demoPair : Prog :=
  .sync (cS 1) (.ret 1) (.yld false (.task (cS 2) (.ret 2)) (.ret 3) .reraise) (.yld false (.task (cS 2) (.ret 2)) (.ret 4) .reraise)
example : (topCall (cG 0) demoPair {}).2.log.reverse =
    [.start 0 false, .sfn 1, .start 1 false, .fin 1 (.ok (.node 1 [])), .syncX 0 (.ok (.node 1 [])), .start 2 false,
     .fin 2 (.ok (.node 2 [])), .run 0 1 true false (.ok (.node 2 [])), .fin 0 (.ok (.node 3 [.node 1 [], .node 2 []]))] := by decide
example : (topA (cG 0) demoPair {}).2.log.reverse =
    [.start 0 true, .syncX 0 (.err .syncRefused), .afn 2, .start 2 true, .fin 2 (.ok (.node 2 [])),
     .run 0 1 true true (.ok (.node 2 [])), .fin 0 (.ok (.node 4 [.node 2 []]))] := by decide
example : spec (observe (cG 0) demoPair) = true := by decide
/-- the observer rejects an asyncio run in which the sync_fn of a refused call was entered all the same (what a binder that
    calls `decorator.sync_fn` directly produces when that sync_fn goes on to call a guarded function) ... -/
example : specClause ((observe (cG 0) demoPair).map (fun ob =>
    if ob.conv.isAio then { ob with log := ob.log.take 1 ++ [.sfn 1] ++ ob.log.drop 1 } else ob)) = "sync-refused" := by
  decide
/-- ... and one in which asynq did NOT go through the sync_fn is a correspondence difference, not a violation of C15 -/
example : spec ((observe (cG 0) demoPair).map (fun ob => { ob with log := ob.log.filter (fun e => !isSfn e) })) = true ∧
    sameViews (observe (cG 0) demoPair)
      ((observe (cG 0) demoPair).map (fun ob => { ob with log := ob.log.filter (fun e => !isSfn e) })) = false := by decide

/-- a program that works, then makes a synchronous call in a child, then goes on: the prefix clause of
    `C15_deliveries_agree_partial` is not vacuous (4 events before the refusal) -/
private def demoSync : Prog :=
  .yld false (.task (cG 1) (.ret 4))
    (.yld false (.task (cG 2) (.sync (cG 3) (.ret 1) (.ret 2) (.raise 7))) (.ret 5) (.ret 6))
    .reraise
example : (topA (cG 0) demoSync {}).2.log.reverse.any isSyncX = true ∧
    (proj (cutSync (topA (cG 0) demoSync {}).2.log.reverse)).length = 5 ∧
    spec (observe (cG 0) demoSync) = true := by decide

/-! ### the observer rejects the wrong observations listed by the audit (B1) -/

/-- it rejects a run that leaves the flag on ... -/
example : spec ((observe (cG 0) (.ret 1)).map (fun ob => if ob.conv == .aio then { ob with after := true } else ob)) = false := by
  decide
/-- ... one that delivers a failure before a sibling has finished ... -/
example : spec ((observe (cG 0) demo).map (fun ob =>
    { ob with log := ob.log.map (fun e => match e with | .run t i _ m r => .run t i (!ob.conv.isAio) m r | e => e) })) = false := by
  decide
/-- ... (B1 a) one in which every asyncio run delivered the SECOND failure in structure order (5 instead of 4) at the yield ... -/
example : specClause ((observe (cG 0) demo).map (fun ob =>
    if ob.conv.isAio then { ob with log := ob.log.map (fun e => match e with
      | .run 0 i d m (.err (.u 4)) => .run 0 i d m (.err (.u 5)) | e => e) } else ob)) = "deliveries" := by
  decide
/-- ... (B1 b) one in which a yielded tuple came back as a list of another length (in a task that fails later, so that the
    outcome does not show it) ... -/
private def shp : Prog := .yld false (.tup (.cons (.const 1) (.cons (.const 2) .nil))) (.raise 3) .reraise
example : specClause ((observe (cG 0) shp).map (fun ob =>
    if ob.conv.isAio then { ob with log := ob.log.map (fun e => match e with
      | .run t i d m (.ok _) => .run t i d m (.ok (.lst [.a 2])) | e => e) } else ob)) = "deliveries" := by
  decide
example : spec (observe (cG 0) shp) = true := by decide
/-- ... (B1 c) five runs with empty logs and an arbitrary common outcome ... -/
private def mkObs (cv : Conv) (o : Out) : Obs :=
  { conv := cv, before := false, out := o, after := false, canary := .ok (retVal 0 []), log := [] }
example : specClause (allConvs.map (fun cv => mkObs cv (.esc (.a 1)))) = "result-escapes" := by decide
example : specClause (allConvs.map (fun cv => mkObs cv (.err .syncRefused))) = "root-outcome" := by decide
example : specClause (allConvs.map (fun cv => mkObs cv (.ok (.a 1)))) = "root-outcome" := by decide
/-- ... (B1 d) an asyncio run that attempted a synchronous call and reports an outcome its own task never produced ... -/
example : specClause ((observe (cG 0) (.sync (cG 1) (.ret 1) (.ret 2) (.ret 3))).map (fun ob =>
    if ob.conv.isAio then { ob with out := .ok (.a 999) } else ob)) = "root-outcome" := by
  decide
/-- ... one in which a synchronous call was NOT refused under asyncio ... -/
example : specClause ((observe (cG 0) demoSync).map (fun ob =>
    if ob.conv.isAio then { ob with log := ob.log.map (fun e => match e with
      | .syncX t _ => .syncX t (.ok (.a 0)) | e => e) } else ob)) = "sync-refused" := by
  decide
/-- ... (B1 e) and one whose asyncio logs are empty although the outcome is right. -/
example : specClause ((observe (cG 0) demo).map (fun ob => if ob.conv.isAio then { ob with log := [] } else ob))
    = "deliveries" := by
  decide

/-! ### the observer rejects the wrong observations listed by the second audit (N10): runs WITH a refused synchronous call -/

private def onAio (f : Obs → Obs) (obs : List Obs) : List Obs := obs.map (fun ob => if ob.conv.isAio then f ob else ob)
/-- the unchanged observations pass, and `live` of `demoSync` are the tasks 1 and 2 - not the refused callee 3 -/
example : specP (cG 0) demoSync (observe (cG 0) demoSync) = true ∧ specP (cG 0) demo (observe (cG 0) demo) = true ∧
    demoSync.live = [1, 2] ∧ demoSync.validCalls = true := by decide
/-- (n1) the value delivered to the ROOT at the yield BEFORE the refusal changed to 999, outcome and end untouched ... -/
example : specClauseP (cG 0) demoSync (onAio (fun ob => { ob with log := ob.log.map (fun e => match e with
    | .run 0 1 d m (.ok _) => .run 0 1 d m (.ok (.a 999)) | e => e) }) (observe (cG 0) demoSync)) = "sync-run-deliveries" := by
  decide
/-- ... (n6) task 1 never ran (its start and end dropped) ... -/
example : specClauseP (cG 0) demoSync (onAio (fun ob => { ob with log := ob.log.filter (fun e => e.label != 1) })
    (observe (cG 0) demoSync)) = "sync-run-deliveries" := by decide
/-- ... (n7) the body of the REFUSED callee (label 3) ran all the same, with the flag on, and the call still came back refused ... -/
example : specClauseP (cG 0) demoSync (onAio (fun ob => { ob with log := ob.log.flatMap (fun e => match e with
    | .syncX t o => [.start 3 true, .fin 3 (.ok (.node 1 [])), .syncX t o] | e => [e]) }) (observe (cG 0) demoSync))
    = "refused-callee-ran" := by decide
/-- ... (n11) an arbitrary outcome on which `out` and the root's end agree ... -/
example : specClauseP (cG 0) demoSync (onAio (fun ob => { ob with out := .ok (.a 999), log := ob.log.map (fun e => match e with
    | .fin 0 _ => .fin 0 (.ok (.a 999)) | e => e) }) (observe (cG 0) demoSync)) = "sync-run-deliveries" := by decide
/-- ... (n12) a log reduced to [start, refused call, end] ... -/
example : specClauseP (cG 0) demoSync (onAio (fun ob => { ob with
    out := .err (.u 1), log := [.start 0 true, .syncX 0 (.err .syncRefused), .fin 0 (.err (.u 1))] }) (observe (cG 0) demoSync))
    = "sync-run-deliveries" := by decide
/-- ... a delivery changed in a task that is NOT downstream of the refusal, AFTER it (sibling 3 of the refusing task 1) ... -/
private def demoSync2 : Prog :=
  .yld false (.lst (.cons (.task (cG 1) (.sync (cG 2) (.ret 1) (.ret 2) (.raise 7)))
      (.cons (.task (cG 3) (.yld false (.const 5) (.raise 8) .reraise)) .nil))) (.ret 5) (.ret 6)
example : specP (cG 0) demoSync2 (observe (cG 0) demoSync2) = true ∧
    specClauseP (cG 0) demoSync2 (onAio (fun ob => { ob with log := ob.log.map (fun e => match e with
      | .run 3 1 d m (.ok _) => .run 3 1 d m (.ok (.a 6)) | e => e) }) (observe (cG 0) demoSync2)) = "sync-run-deliveries" := by
  decide
/-- ... and (n2) a run without any synchronous call in which no explicit `asyncio_fn` was entered (all `afn` events dropped).
    (n8 - ALL five runs, `fn(args)` included, consistently deliver the second failure in structure order - is accepted by
    design: the observer judges `await fn.asyncio(args)` RELATIVE to `fn(args)`, as the property does; that `fn(args)` itself
    raises the first failure in structure order is the correspondence of the conventions `call` / `value` with `bodyR`.) -/
example : specClauseP (cG 0) demo (onAio (fun ob => { ob with log := ob.log.filter (fun e => !isAfn e) }) (observe (cG 0) demo))
    = "asyncio-fn" := by decide

/-- `C15_spec_respects_correspondence` is not vacuous: letting the second sibling start before the first one has finished
    (events 3 and 4 of every log swapped, as a real event loop does) keeps the view and the verdict; a changed delivery does not -/
private def sibs : Prog := .yld false (.lst (.cons (.task (cG 1) (.ret 1)) (.cons (.task (cG 2) (.ret 2)) .nil))) (.ret 3) .reraise
private def swap34 : List Ev → List Ev
  | a :: b :: c :: d :: l => a :: b :: d :: c :: l
  | l => l
example : ((observe (cG 0) sibs).map (fun ob => ob.log.take 4)).head? =
    some [.start 0 false, .start 1 false, .fin 1 (.ok (.node 1 [])), .start 2 false] := by decide
example : sameViews (observe (cG 0) sibs) ((observe (cG 0) sibs).map (fun ob => { ob with log := swap34 ob.log })) = true ∧
    spec ((observe (cG 0) sibs).map (fun ob => { ob with log := swap34 ob.log })) = true := by
  decide
example : sameViews (observe (cG 0) shp) ((observe (cG 0) shp).map (fun ob =>
    if ob.conv.isAio then { ob with log := ob.log.map (fun e => match e with
      | .run t i d m (.ok _) => .run t i d m (.ok (.lst [.a 2])) | e => e) } else ob)) = false := by
  decide

/-! ### further instances -/

/-- `asynq.result()` anywhere: the asyncio run returns what `fn(args)` returns and the observer accepts -/
example : (topA (cG 0) (.yld false (.lst (.cons (.task (cG 1) (.res 5)) .nil)) (.res 1) .reraise) {}).1 =
    .ok (.node 1 [.lst [.node 5 []]]) := by decide
example : spec (observe (cG 0) (.yld false (.lst (.cons (.task (cG 1) (.res 5)) .nil)) (.res 1) .reraise)) = true := by decide

/-- a BaseException-only error first in structure order, beside an ordinary failure, handlers `except Exception`: both engines
    let it through to the caller (after all siblings have finished), and the observer accepts -/
private def demoB : Prog :=
  .yld false (.lst (.cons (.task (cG 1) (.yld false .none (.raiseB 1) .reraise)) (.cons (.task (cM 2) (.raise 2)) .nil)))
    (.ret 1) (.ret 2)
example : (topA (cG 0) demoB {}).1 = .err (.b 1) ∧ (topCall (cG 0) demoB {}).1 = .err (.b 1) := by decide
example : demoB.safe = true ∧ demoB.plainY = true ∧ spec (observe (cG 0) demoB) = true := by decide
/-- the ordinary failure first: the handler runs in both engines although a BaseException-only error is among the siblings -/
example : (topA (cG 0) (.yld false (.lst (.cons (.task (cM 2) (.raise 2)) (.cons (.task (cG 1) (.raiseB 1)) .nil))) (.ret 1) (.ret 2)) {}).1
    = .ok (.node 2 []) := by decide
/-- a handler that catches BaseException in a program that raises none: covered by the `_partial` statements -/
example : (Prog.yld true (.task (cG 1) (.raise 2)) (.ret 1) (.ret 2)).safe = true := by decide
/-- an exception INSTANCE returned as a value (tag 10-19: `valueKind = exc`) is delivered as a value, in a list too -/
example : valueKind 12 = .exc ∧
    (topA (cG 0) (.yld false (.lst (.cons (.task (cG 1) (.ret 12)) .nil)) (.ret 1) (.ret 2)) {}).1 =
      .ok (.node 1 [.lst [.node 12 []]]) := by decide

/-- call terms outside `validCalls`: the plain synchronous call of a `pure=True` function, of an @async_proxy(sync_fn=..) pair,
    an `asyncio_fn=` on @deduplicate() -/
example : (Prog.sync { kind := .pure, afn := false, label := 1 } (.ret 1) (.ret 2) (.ret 3)).validCalls = false ∧
    (Prog.sync { kind := .proxy, afn := false, label := 1, sfn := true } (.ret 1) (.ret 2) (.ret 3)).validCalls = false ∧
    (Prog.yld false (.task { kind := .dedup, afn := true, label := 1 } (.ret 1)) (.ret 2) (.ret 3)).validCalls = false ∧
    demo.validCalls = true ∧ demoPair.validCalls = true := by decide
/-- `Prog.safe` is sufficient, not necessary (a static over-approximation): an `except BaseException` handler in one child and
    a BaseException-only error in its SIBLING never meet - `safe` is false, the engines agree and the observer accepts -/
private def unsafeOk : Prog :=
  .yld false (.lst (.cons (.task (cG 1) (.yld true (.const 1) (.ret 1) (.ret 2))) (.cons (.task (cG 2) (.raiseB 1)) .nil)))
    (.ret 3) (.ret 4)
example : unsafeOk.safe = false ∧ (topA (cG 0) unsafeOk {}).1 = (topCall (cG 0) unsafeOk {}).1 ∧
    specP (cG 0) unsafeOk (observe (cG 0) unsafeOk) = true := by decide

/-- `C15_shape` is not vacuous (a dict of a tuple and an empty list resolves, with the flag on, to a value of that shape) and
    `shapeOk` is not trivially true -/
private def y1 : Ys := .dict [7, 8] (.cons (.tup (.cons (.task (cG 3) (.ret 9)) (.cons .none .nil))) (.cons (.lst .nil) .nil))
example : (resolveA y1 { mode := true }).1 = .ok (.dict [7, 8] [.tup [.node 9 [], .none], .lst []]) ∧
    shapeOk y1 (.dict [7, 8] [.tup [.node 9 [], .none], .lst []]) = true := by decide
example : shapeOk y1 (.lst []) = false ∧ shapeOk y1 (.dict [7, 8] [.tup [.a 1], .lst []]) = false := by decide
/-- `C15_first_failure_wins` is not vacuous -/
example : firstFailure ([.ok (.a 1)] ++ .err (.u 4) :: [.err (.u 5), .ok (.a 2)]) = (Out.err (.u 4)).asFailure ∧
    ([Out.ok (.a 1)]).all Out.isOk = true ∧ (Out.err (.u 4)).isOk = false := by decide
/-- `C15_gather_all_ok` / `C15_failure_is_an_element` are not vacuous -/
example : (elemsA (.cons (.const 1) (.cons (.task (cG 1) (.ret 12)) .nil)) { mode := true }).all Out.isOk = true := by decide
example : (gatherA (.cons (.const 1) (.cons (.task (cG 1) (.raise 3)) .nil)) { mode := true }).1 = .err (.u 3) := by decide

end AsynqModel.Asyncio
