import AsynqModel.Proofs.P3Main
import AsynqModel.Proofs.P3Weak
/-!
# C08  The active task is always the running one; the scheduler is clean after any outcome

Theorems about every reachable state of the core machine (`Reach s`: any configuration, any list of top-level
computations, any flush oracle, any number of steps).  `s.guardFired = false` = the MAX_TASK_STACK_SIZE guard has
never reset the scheduler so far.  The hypothesis `s.stuck = none` of the assignment is kept in the statements but
is not used by any proof (the invariants also hold in stuck states).

The theorems named `..._always` need no hypothesis at all: they say what survives a guard reset.
-/
namespace AsynqModel.Core
open AsynqModel.Core.P3

/-- 1. `scheduler.active_task` is the task of the innermost `_continue_with_task` frame, the value saved in each such
    frame is the task of the next frame outwards, `None` at the bottom. -/
theorem C08_active_invariant (s : State) (h : Reach s) (_hs : s.stuck = none) (hg : s.guardFired = false) :
    Inv.active s = true :=
  (reach_core s h hg).1.active

/-- 2. `get_active_task()` evaluated in the code of task `t` is `t` - also after a nested synchronous call returned. -/
theorem C08_active (s : State) (h : Reach s) (_hs : s.stuck = none) (hg : s.guardFired = false) :
    ∀ t seen, Event.active t seen ∈ s.trace → seen = some t :=
  fun t seen he => (reach_core s h hg).2 (.active t seen) he

/-- 3. A task is created with `creator` = the task running at that moment: the events of the step out of `s` are
    prepended to the trace, and every `new f (task c)` among them has `c = some t` when the innermost frame is the
    generator of `t`, `c = none` at top level; wait frames create no task. -/
theorem C08_creator (s : State) (h : Reach s) (_hs : s.stuck = none) (hg : s.guardFired = false) :
    ∃ pre, (step s).trace = pre ++ s.trace ∧
      ∀ f c, Event.new f (.task c) ∈ pre →
        match s.ctl with
        | [] => c = none
        | .gen t _ :: _ => c = some t
        | _ => False := by
  obtain ⟨pre, e, hp⟩ := step_ext s h hg
  exact ⟨pre, e, fun f c hm => hp _ hm⟩

/-- 4. Nested `_execute` bases are ordered, the stack never goes below the innermost base, and with an empty control
    stack the task stack is empty. -/
theorem C08_frames (s : State) (h : Reach s) (_hs : s.stuck = none) (hg : s.guardFired = false) :
    Inv.frames s = true :=
  frames_of_core (reach_core s h hg).1

/-- 5 (strong form). After ANY outcome of an outermost call - value, exception, or the RuntimeError of the guard - the
    scheduler retains no task and no active task.  No hypothesis on `guardFired` or `stuck`. -/
theorem C08_clean_always (s : State) (h : Reach s) :
    ∀ same n nb live a, Event.sched same n nb live a ∈ s.trace → same = true ∧ n = 0 ∧ a = none :=
  fun same n nb live a he => (reach_weak s h).2 (.sched same n nb live a) he

/-- 5. as assigned -/
theorem C08_clean (s : State) (h : Reach s) (_hs : s.stuck = none) (_hg : s.guardFired = false) :
    ∀ same n nb live a, Event.sched same n nb live a ∈ s.trace → same = true ∧ n = 0 ∧ a = none :=
  C08_clean_always s h

/-- 6 (strong form). Outside every `wait_for` there is no active task and the stack is empty; no hypothesis. -/
theorem C08_active_none_at_top_always (s : State) (h : Reach s) (hctl : s.ctl = []) :
    s.active = none ∧ s.stack = [] := by
  have hw := (reach_weak s h).1
  refine ⟨weakChain_nil.1 (by simpa [hctl] using hw.bottom), ?_⟩
  exact List.eq_nil_of_length_eq_zero (outerOK_nil.1 (by simpa [hctl] using hw.outer))

/-- 6. as assigned -/
theorem C08_active_none_at_top (s : State) (h : Reach s) (_hs : s.stuck = none) (_hg : s.guardFired = false)
    (hctl : s.ctl = []) : s.active = none ∧ s.stack = [] :=
  C08_active_none_at_top_always s h hctl

/-- 7. The iteration of `_execute` in which the MAX_TASK_STACK_SIZE guard fires, from any state: tasks, batches and
    the active task are dropped, RuntimeError propagates out of the innermost `wait_for`. -/
theorem C08_guard_resets (s : State) (hmax : s.stack.length > s.cfg.maxStack) :
    s.executeIter.stack = [] ∧ s.executeIter.sbatches = [] ∧ s.executeIter.active = none ∧
    s.executeIter.raising = some .stackguard ∧ s.executeIter.guardFired = true ∧
    s.executeIter.ctl = s.ctl.tail ∧ s.executeIter.trace = s.trace ∧ s.executeIter.futs = s.futs := by
  rw [executeIter_guard s hmax]
  exact ⟨rfl, rfl, rfl, rfl, rfl, rfl, rfl, rfl⟩

/-- 7'. The same as a step of the machine, and conversely: the guard is the only step that sets `guardFired`. -/
theorem C08_guard_step (s : State) (root base : Nat) (rest : List Ctl) (hs : s.stuck = none)
    (hctl : s.ctl = .waitLoop root base :: rest) (hr : s.raising = none) (hlen : s.stack.length > base)
    (hmax : s.stack.length > s.cfg.maxStack) :
    (step s).stack = [] ∧ (step s).sbatches = [] ∧ (step s).active = none ∧
    (step s).raising = some .stackguard ∧ (step s).guardFired = true ∧ (step s).ctl = rest := by
  have e : step s = s.executeIter := by
    unfold step
    simp [hs, hctl, hr, hlen]
  rw [e, executeIter_guard s hmax]
  exact ⟨rfl, rfl, rfl, rfl, rfl, by simp [guardReset, State.raiseOutOfWait, hctl]⟩

theorem C08_guard_only (s : State) (h0 : s.guardFired = false) (h1 : (step s).guardFired = true) :
    (∃ root base rest, s.ctl = .waitLoop root base :: rest) ∧ s.stack.length > s.cfg.maxStack ∧
    step s = guardReset s := by
  rcases step_core s with h | ⟨e, _⟩
  · exact h
  · rw [e, h0] at h1; cases h1

/-- Without `guardFired = false` property 2 weakens to: `get_active_task()` in task `t` is `t` or `None`
    (holds in every reachable state). -/
theorem C08_active_always (s : State) (h : Reach s) :
    ∀ t seen, Event.active t seen ∈ s.trace → seen = none ∨ seen = some t :=
  fun t seen he => (reach_weak s h).2 (.active t seen) he

/-! ## non-vacuity -/

/-- a task that observes the active task, makes a nested synchronous call to a task observing it too, and observes it
    again after the call returned -/
def C08_prog : Body := .active (.sync (.active (.ret 1)) [] (.active (.ret 2)) (.ret 3))

def C08_run (n : Nat) : State := runFuel n (initState {} [(.value, C08_prog)] [])

example : Reach (C08_run 200) := reach_runFuel _ _ _ _
/-- the hypotheses are satisfiable: the run ends, is not stuck, the guard never fired -/
example : (C08_run 200).isDone = true ∧ (C08_run 200).stuck = none ∧ (C08_run 200).guardFired = false := by decide
/-- the `active` observations (newest first): outer after the call, inner, outer before the call -/
example : ((C08_run 200).trace.filterMap fun | .active t seen => some (t, seen) | _ => none)
    = [(0, some 0), (1, some 1), (0, some 0)] := by decide
/-- the nested task was created by task 0, the outer one at top level -/
example : Event.new 1 (.task (some 0)) ∈ (C08_run 200).trace ∧ Event.new 0 (.task none) ∈ (C08_run 200).trace := by
  decide
/-- the snapshot after the outermost call -/
example : Event.sched true 0 0 0 none ∈ (C08_run 200).trace := by decide
/-- in the middle of the nested call: two generator frames, two `_execute` frames with bases 1 and 0 -/
example : (C08_run 8).ctl = [.gen 1 (some 0), .waitLoop 1 1, .gen 0 none, .waitLoop 0 0] ∧
    (C08_run 8).active = some 1 ∧ (C08_run 8).stack = [1, 0] := by decide
example : Inv.active (C08_run 8) = true ∧ Inv.frames (C08_run 8) = true := by decide
/-- back in the caller: the saved value has been restored -/
example : (C08_run 13).ctl = [.gen 0 none, .waitLoop 0 0] ∧ (C08_run 13).active = some 0 := by decide
/-- the step that creates the nested task (`C08_creator` with a non-empty `pre`) -/
example : (C08_run 5).ctl = [.gen 0 none, .waitLoop 0 0] ∧
    (step (C08_run 5)).trace = [.syncE 0 1, .new 1 (.task (some 0))] ++ (C08_run 5).trace := by decide
/-- the scheduler is clean after an exception outcome too -/
example : let s := runFuel 200 (initState {} [(.value, .active (.raise 7)), (.call, .ret 0)] [])
    s.stuck = none ∧ Event.ret (.err (.u 7)) ∈ s.trace ∧
    (s.trace.filterMap fun | .sched a b _ _ e => some (a, b, e) | _ => none) = [(true, 0, none), (true, 0, none)] := by
  decide

/-! ### the guard: `guardFired = false` is necessary for 1, 2 and 4 (real behaviour, not a proof artefact) -/

/-- MAX_TASK_STACK_SIZE = 1: the nested synchronous call trips the guard, the caller catches the RuntimeError and
    then observes `get_active_task() = None` inside its own code -/
def C08_guardRun (n : Nat) : State :=
  runFuel n (initState { maxStack := 1 } [(.value, .sync (.ret 1) [] (.active (.ret 2)) (.active (.ret 3)))] [])

example : Reach (C08_guardRun 7) := reach_runFuel _ _ _ _
example : (C08_guardRun 100).stuck = none ∧ (C08_guardRun 100).guardFired = true ∧
    Event.syncX 0 1 (.err .stackguard) ∈ (C08_guardRun 100).trace ∧
    Event.active 0 none ∈ (C08_guardRun 100).trace := by decide
/-- right after the reset the generator of task 0 is running but the active task is `None` -/
example : (C08_guardRun 7).ctl = [.gen 0 none, .waitLoop 0 0] ∧ (C08_guardRun 7).active = none ∧
    (C08_guardRun 7).stack = [] ∧ (C08_guardRun 7).raising = some .stackguard ∧
    Inv.active (C08_guardRun 7) = false := by decide
/-- ... and yet the snapshot after the outermost call is clean (`C08_clean_always`) -/
example : Event.sched true 0 0 0 none ∈ (C08_guardRun 100).trace := by decide
/-- `C08_guard_resets` is not vacuous: the state before the reset -/
example : (C08_guardRun 6).stack.length > (C08_guardRun 6).cfg.maxStack ∧
    (C08_guardRun 6).ctl = [.waitLoop 1 1, .gen 0 none, .waitLoop 0 0] := by decide

/-- two levels of nesting, MAX_TASK_STACK_SIZE = 2: after the reset the stack is below the base of the enclosing
    `_execute`, so `Inv.frames` fails -/
def C08_guardRun2 (n : Nat) : State :=
  runFuel n (initState { maxStack := 2 } [(.value, .sync (.sync (.ret 1) [] (.ret 2) (.ret 3)) [] (.ret 4) (.ret 5))] [])

example : (C08_guardRun2 11).ctl = [.gen 1 (some 0), .waitLoop 1 1, .gen 0 none, .waitLoop 0 0] ∧
    (C08_guardRun2 11).stack = [] ∧ (C08_guardRun2 11).stuck = none ∧
    Inv.frames (C08_guardRun2 11) = false ∧ Inv.active (C08_guardRun2 11) = false := by decide

end AsynqModel.Core
