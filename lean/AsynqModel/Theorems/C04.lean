import AsynqModel.Proofs.P6Static
/-!
# C04  Batches are flushed only when nothing else can run (maximal batching)

Theorems about every state `s` with `ReachYO s` (`Proofs/P6Main.lean`): `s` is reached from `initState cfg tops choices`
(any configuration, any list of top-level computations, any flush oracle, any number of steps) where

* every top-level body is yield-only (`Spec.bodyHasSync = false`) and creates no NonAsyncContext
  (`Spec.bodyHasNonAsync = false`), and
* before every step the running task dereferences only references that are in scope (`P6.StepScoped`; the machine
  resolves an out-of-scope reference to future 0, which can make a task await its own ancestor - a cyclic,
  non-terminating pass; the harness never generates such programs).

`s.stuck = none`: the model's own assumptions hold; `s.guardFired = false`: the MAX_TASK_STACK_SIZE guard has not
reset the scheduler.  `P6.Settled s f` (`Proofs/P6Settled.lean`): `f` is computed; or an uncomputed batch item whose
batch has not been flushed; or an uncompleted task that has started, is suspended at a yield, is BLOCKED (awaits
something uncomputed) and awaits only settled futures.

`ReachWS s` (`Proofs/P6Static.lean`) puts hypotheses on the PROGRAM only: every top-level body is yield-only, creates no
NonAsyncContext and passes the static scope check `P6.wsBody` (the Lean counterpart of `harness/coregen.py:
well_scoped`, which every generated program satisfies); `C04_static` shows `ReachWS s → ReachYO s`, and the
`..._static` theorems restate the results for `ReachWS`.

Full statement as assigned (for the record): the same for every `Reach s` of a yield-only program.  Proved here:
all task graphs (trees and DAGs with futures handed to children, duplicates in yields), under the two
restrictions above (no NonAsyncContext - `failSuspended` completes tasks from outside; in-scope references -
acyclicity of the awaits relation is needed because `_dependencies_scheduled` is one bit per task, not per stack
entry).
-/
namespace AsynqModel.Core
open AsynqModel.Core.P6

/-- 0. The control stack of a yield-only program never nests: it is `[]`, `[waitEnter r]`, `[waitLoop r 0]` or
    `[gen t old, waitLoop r 0]`; outside `_execute` the task stack is empty. -/
theorem C04_ctl_shape (s : State) (h : ReachYO s) (hs : s.stuck = none) (hg : s.guardFired = false) :
    (s.ctl = [] ∧ s.stack = []) ∨ (∃ r, s.ctl = [.waitEnter r] ∧ s.stack = []) ∨ (∃ r, s.ctl = [.waitLoop r 0]) ∨
    (∃ t old r, s.ctl = [.gen t old, .waitLoop r 0]) := by
  have hA := (inv6 s h hs hg).a
  obtain ⟨h1, h2⟩ := core_facts (P3.reach_core s h.reach hg).1 hA.shape
  rcases hA.shape with h0 | ⟨r0, h0⟩ | ⟨r0, b0, h0⟩ | ⟨t0, old0, r0, b0, h0⟩
  · exact Or.inl ⟨h0, h1 (Or.inl h0)⟩
  · exact Or.inr (Or.inl ⟨r0, h0, h1 (Or.inr ⟨r0, h0⟩)⟩)
  · have := h2 r0 b0 [] h0
    subst this
    exact Or.inr (Or.inr (Or.inl ⟨r0, h0⟩))
  · have hc := (P3.reach_core s h.reach hg).1.frames
    rw [h0] at hc
    have hb : b0 = 0 := P3.chain_nil.1 (P3.chain_cons.1 (by simpa using hc)).2
    subst hb
    exact Or.inr (Or.inr (Or.inr ⟨t0, old0, r0, h0⟩))

/-- 1. MAIN THEOREM.  Whenever `_execute(root)` finds its stack back at the base with `root` uncomputed - the only
    situation in which the scheduler flushes a batch - `root` is settled: every uncompleted task reachable from the
    root has started and is waiting, directly or through other waiting tasks, on a batch item whose batch has not
    been flushed.  So every request that can be issued before a flush has been issued and travels in a pending batch. -/
theorem C04_settled_at_flush (s : State) (h : ReachYO s) (hs : s.stuck = none) (hg : s.guardFired = false)
    (root base : Nat) (rest : List Ctl) (hctl : s.ctl = .waitLoop root base :: rest)
    (hlen : s.stack.length ≤ base) (_hroot : s.computed root = false) : Settled s root := by
  obtain ⟨hA, _, P, hC⟩ := inv6 s h hs hg
  obtain ⟨_, h2⟩ := core_facts (P3.reach_core s h.reach hg).1 hA.shape
  rw [h2 root base rest hctl] at hlen
  have hs0 : s.stack = [] := List.eq_nil_of_length_eq_zero (Nat.le_zero.1 hlen)
  rcases hC.root root base rest (Or.inl hctl) with ⟨pre, h1⟩ | h1
  · rw [hs0] at h1
    cases pre <;> cases h1
  · exact h1

/-- 1'. The statement as assigned: if the step out of `s` is a scheduler flush that really flushes a batch
    (`flushable ≠ []`), the root is settled; the step is `schedulerFlush root`. -/
theorem C04_settled_at_flush_step (s : State) (h : ReachYO s) (hs : s.stuck = none) (hg : s.guardFired = false)
    (root base : Nat) (rest : List Ctl) (hctl : s.ctl = .waitLoop root base :: rest)
    (hlen : s.stack.length ≤ base) (hroot : s.computed root = false) (_hfl : s.flushable ≠ []) :
    step s = s.schedulerFlush root ∧ Settled s root := by
  refine ⟨?_, C04_settled_at_flush s h hs hg root base rest hctl hlen hroot⟩
  have hr := (P3.reach_core s h.reach hg).1.raising
  unfold step
  simp [hs, hctl, hr, hroot]
  intro hlt
  omega

/-- 2. (S1) Until the next scheduler flush a settled future stays settled: no step of the scheduler or of a task
    body can make anything below it runnable. -/
theorem C04_settled_stable (s : State) (h : ReachYO s) (hs : (step s).stuck = none)
    (hg : (step s).guardFired = false) (hnf : ¬ IsFlush s) (f : Nat) (hf : Settled s f) : Settled (step s) f := by
  obtain ⟨d, hA⟩ := desc_of_reach s h hs hg
  exact settled_step hA d hnf hf

/-- 3. Between two scheduler flushes no batch item is completed (nor changed in any other way): in a yield-only
    program `flushBatch` is only called by `schedulerFlush`. -/
theorem C04_no_item_completes_between_flushes (s : State) (h : ReachYO s) (hs : (step s).stuck = none)
    (hg : (step s).guardFired = false) (hnf : ¬ IsFlush s) (f k q p : Nat) (m : ItemMode)
    (hk : (s.fut f).kind = .item k q p m) :
    (step s).out f = s.out f ∧ ((step s).fut f).kind = .item k q p m := by
  obtain ⟨d, hA⟩ := desc_of_reach s h hs hg
  have := item_unchanged hA d hnf (f := f) (k := k) (q := q) (p := p) (m := m) hk
  exact ⟨congrArg FV.out this, (congrArg FV.kind this).trans hk⟩

/-- 4. A batch is flushed only by a scheduler flush, i.e. only when the task stack is back at its base (empty)
    with the root of the pass uncomputed. -/
theorem C04_flush_only_when_stack_at_base (s : State) (h : ReachYO s) (hs : (step s).stuck = none)
    (hg : (step s).guardFired = false) (k q : Nat) (b b' : Batch) (hb : s.batch? k q = some b)
    (hbf : b.flushed = false) (hb' : (step s).batch? k q = some b') (hbf' : b'.flushed = true) :
    IsFlush s ∧ s.stack = [] := by
  obtain ⟨d, hA⟩ := desc_of_reach s h hs hg
  have hfl : IsFlush s := by
    refine Classical.byContradiction fun hnf => ?_
    obtain ⟨b'', h1, h2⟩ := d.unflushed_mono hnf k q b hb hbf
    rw [hb'] at h1
    cases h1
    rw [hbf'] at h2; cases h2
  refine ⟨hfl, ?_⟩
  obtain ⟨root, base, rest, hctl, hlen, _⟩ := hfl
  have hs0 := stuck_mono s hs
  have hg0 := P3.guard_mono s hg
  obtain ⟨_, h2⟩ := core_facts (P3.reach_core s h.reach hg0).1 hA.shape
  rw [h2 root base rest hctl] at hlen
  exact List.eq_nil_of_length_eq_zero (Nat.le_zero.1 hlen)

/-- 5. A statically well-scoped yield-only program never dereferences an out-of-scope reference: `ReachWS → ReachYO`. -/
theorem C04_static (s : State) (h : ReachWS s) (hs : s.stuck = none) (hg : s.guardFired = false) : ReachYO s :=
  (reachYO_of_ws s h hs hg).1

/-- 1 for statically well-scoped programs: hypotheses on the program only. -/
theorem C04_settled_at_flush_static (s : State) (h : ReachWS s) (hs : s.stuck = none) (hg : s.guardFired = false)
    (root base : Nat) (rest : List Ctl) (hctl : s.ctl = .waitLoop root base :: rest)
    (hlen : s.stack.length ≤ base) (hroot : s.computed root = false) : Settled s root :=
  C04_settled_at_flush s (C04_static s h hs hg) hs hg root base rest hctl hlen hroot

/-- 2 for statically well-scoped programs. -/
theorem C04_settled_stable_static (s : State) (h : ReachWS s) (hs : (step s).stuck = none)
    (hg : (step s).guardFired = false) (hnf : ¬ IsFlush s) (f : Nat) (hf : Settled s f) : Settled (step s) f :=
  C04_settled_stable s (C04_static s h (stuck_mono s hs) (P3.guard_mono s hg)) hs hg hnf f hf

/-- 3 for statically well-scoped programs. -/
theorem C04_no_item_completes_between_flushes_static (s : State) (h : ReachWS s) (hs : (step s).stuck = none)
    (hg : (step s).guardFired = false) (hnf : ¬ IsFlush s) (f k q p : Nat) (m : ItemMode)
    (hk : (s.fut f).kind = .item k q p m) :
    (step s).out f = s.out f ∧ ((step s).fut f).kind = .item k q p m :=
  C04_no_item_completes_between_flushes s (C04_static s h (stuck_mono s hs) (P3.guard_mono s hg)) hs hg hnf f k q p m hk

/-- 4 for statically well-scoped programs. -/
theorem C04_flush_only_when_stack_at_base_static (s : State) (h : ReachWS s) (hs : (step s).stuck = none)
    (hg : (step s).guardFired = false) (k q : Nat) (b b' : Batch) (hb : s.batch? k q = some b)
    (hbf : b.flushed = false) (hb' : (step s).batch? k q = some b') (hbf' : b'.flushed = true) :
    IsFlush s ∧ s.stack = [] :=
  C04_flush_only_when_stack_at_base s (C04_static s h (stuck_mono s hs) (P3.guard_mono s hg)) hs hg k q b b' hb hbf hb' hbf'

/-- 6. The executable version of `Settled` (fuel = depth of the awaits relation) is sound. -/
theorem C04_settledB_sound (s : State) (fuel f : Nat) (h : settledB s fuel f = true) : Settled s f :=
  settledB_sound s fuel f h

/-! ## non-vacuity -/

/-- a task that creates a batch item and awaits it -/
def C04_leaf (p : Nat) : Body := .item 0 p .ok (.yld (.f (.own 0)) (.ret 1) .reraise)

/-- a 2-level tree: two children, each with its own item; the root awaits both -/
def C04_tree : Body :=
  .spawn (C04_leaf 1) [] (.spawn (C04_leaf 2) [] (.yld (.tup [.f (.own 0), .f (.own 1)]) (.ret 2) .reraise))

/-- `runChk` performs a step only if `StepScoped` holds before it, so every state it reaches is a `ReachYO` state -/
def C04_run (n : Nat) : State := runChk n (initState {} [(.value, C04_tree)] [])

theorem C04_run_reach (n : Nat) : ReachYO (C04_run n) :=
  reachYO_runChk n _ (ReachYO.init _ _ _ (by decide))

/-- after 23 steps both children are suspended on their items, the stack is back at the base, the root is not
    computed, batch (0, 0) is flushable: all hypotheses of the main theorem hold ... -/
example : (C04_run 23).stuck = none ∧ (C04_run 23).guardFired = false ∧ (C04_run 23).ctl = [.waitLoop 0 0] ∧
    (C04_run 23).stack = [] ∧ (C04_run 23).computed 0 = false ∧ (C04_run 23).flushable = [(0, 0)] := by decide
/-- ... and the root is settled, by evaluation of the Bool version -/
example : settledB (C04_run 23) 3 0 = true := by decide
/-- the conclusion of the theorem for this state -/
example : Settled (C04_run 23) 0 :=
  C04_settled_at_flush _ (C04_run_reach 23) (by decide) (by decide) 0 0 [] (by decide) (by decide) (by decide)
/-- the flush that follows carries BOTH items: one flush for the whole level -/
example : ((C04_run 24).trace.filterMap fun | .flushB k q items _ _ => some (k, q, items) | _ => none) =
    [(0, 0, [3, 4])] := by decide
example : (C04_run 60).isDone = true ∧ (C04_run 60).stuck = none ∧
    ((C04_run 60).trace.filter fun | .flushB .. => true | _ => false).length = 1 := by decide
/-- `Settled` is not trivially true: while the second child has not run yet the root is NOT settled
    (state 15: child 1 is suspended, child 2 has not started) -/
example : (C04_run 15).computed 0 = false ∧ settledB (C04_run 15) 5 0 = false ∧ (C04_run 15).stack ≠ [] := by decide
/-- `IsFlush` holds exactly at the flush state of this run -/
example : IsFlush (C04_run 23) := ⟨0, 0, [], by decide, by decide, by decide⟩

/-- a DAG: the root creates one item and hands it to two children; both await it, the root awaits the children -/
def C04_dag : Body :=
  .item 0 7 .ok (.spawn (.yld (.f (.inh 0)) (.ret 1) .reraise) [.own 0]
    (.spawn (.yld (.f (.inh 0)) (.ret 2) .reraise) [.own 0]
      (.yld (.lst [.f (.own 1), .f (.own 2), .f (.own 1)]) (.ret 3) .reraise)))

def C04_dagRun (n : Nat) : State := runChk n (initState {} [(.value, C04_dag)] [])

theorem C04_dagRun_reach (n : Nat) : ReachYO (C04_dagRun n) :=
  reachYO_runChk n _ (ReachYO.init _ _ _ (by decide))

/-- the static hypotheses hold for both programs (so `ReachWS` applies to `runFuel`) -/
example : Spec.bodyHasSync C04_tree = false ∧ Spec.bodyHasNonAsync C04_tree = false ∧ wsBody C04_tree = true ∧
    Spec.bodyHasSync C04_dag = false ∧ Spec.bodyHasNonAsync C04_dag = false ∧ wsBody C04_dag = true := by decide
example (n : Nat) : ReachWS (runFuel n (initState {} [(.value, C04_dag)] [])) :=
  reachWS_runFuel _ _ _ (by decide) n
/-- the checked run and the plain run agree (no step was refused) -/
example : (C04_dagRun 25).trace = (runFuel 25 (initState {} [(.value, C04_dag)] [])).trace := by decide
/-- the DAG at its flush: the shared item 1 is awaited by both children (tasks 2 and 3), the root awaits
    `[2, 3, 2]`; everything is settled, one flush serves all -/
example : (C04_dagRun 25).ctl = [.waitLoop 0 0] ∧ (C04_dagRun 25).stack = [] ∧ (C04_dagRun 25).computed 0 = false ∧
    (C04_dagRun 25).flushable = [(0, 0)] ∧ ((C04_dagRun 25).task 0).deps = [2, 3, 2] ∧
    ((C04_dagRun 25).task 2).deps = [1] ∧ ((C04_dagRun 25).task 3).deps = [1] ∧
    settledB (C04_dagRun 25) 3 0 = true := by decide
example : Settled (C04_dagRun 25) 0 :=
  C04_settled_at_flush _ (C04_dagRun_reach 25) (by decide) (by decide) 0 0 [] (by decide) (by decide) (by decide)
/-- a program that is NOT well-scoped (`inh 5` does not exist and resolves to future 0, the task itself): the
    static check rejects it, and the checked run refuses the offending step -/
example : wsBody (.item 0 1 .ok (.yld (.tup [.f (.inh 5), .f (.own 0)]) (.ret 1) (.ret 2))) = false := by decide

example : (C04_dagRun 80).isDone = true ∧ (C04_dagRun 80).stuck = none ∧
    Event.ret (.ok (.node 3 [.lst [.node 1 [.a 1007], .node 2 [.a 1007], .node 1 [.a 1007]]])) ∈ (C04_dagRun 80).trace := by
  decide

end AsynqModel.Core
