import AsynqModel.Lib.ContextsWith
import AsynqModel.Theorems.C06c
/-!
  Theorems about the context-history model WITH real with-blocks (Lib/ContextsWith.lean; second audit of the core, item 2).
  The model describes the code as it is: `AsyncTask._computed` lets an exception of `generator.close()` escape.
  Two routes into that (both reproduced on the real library by family `ctxwith`, ONE open C08 finding, one repair):
  two raising hooks (`C06w_close_escape_counterexample`), or one raising hook and a body that ignores GeneratorExit
  (`C06w_ignored_generatorexit_counterexample`).
-/
namespace AsynqModel.Contexts

/-- **the defect, machine-checked for the model** (work/closeraise.py of the second audit; reproduced on the real library by
    the family `ctxwith`): `with Plain(0), Plain(1): yield item`, resume() of 0 raises at the continuation, pause() of 1
    raises while `generator.close()` leaves the blocks: the continuation lets pause's exception out of the scheduler although
    the task's outcome is resume's exception; every hook was called (R0 R1 P1 P0), the scheduler's task stack stays dirty. -/
theorem C06w_close_escape_counterexample :
    let defs : List Kind := [.plain [2] [], .plain [] [2]]
    let ops : List Op := [.enter 0, .enter 1, .suspend, .continue_]
    specW (runW (repairedCfg false) defs (initW defs 2 2) ops) = false ∧
    (runW (repairedCfg false) defs (initW defs 2 2) ops).map (fun ob => (ob.calls.map unflag, ob.esc, ob.status)) =
      [([(true, 0)], .none, .none), ([(true, 1)], .none, .none), ([(false, 1), (false, 0)], .none, .none),
       ([(true, 0), (true, 1), (false, 1), (false, 0)], .exc (.hookP 1), .err (.hookR 0))] ∧
    (finalStateW (repairedCfg false) defs (initW defs 2 2) ops).dirty = true := by
  decide

/-- **the sibling route, machine-checked for the model** (third audit of the core, item 2; reproduced on the real library by
    the cases of family `ctxwith` with `gxs = 1`): ONE raising hook and a body that ignores GeneratorExit.
    `with Plain(0): try: yield item / except GeneratorExit: yield`, resume() of 0 raises at the continuation: the task's
    outcome is resume's exception, `generator.close()` raises RuntimeError('generator ignored GeneratorExit') (`Exc.other`)
    through the with-block (its `__exit__` calls pause() of 0: calls R0 P0), the RuntimeError leaves the scheduler, whose
    task stack stays dirty.  No with-block is needed (second conjunct: no context at all is open, a NonAsyncContext
    operated by hand fails the suspension). -/
theorem C06w_ignored_generatorexit_counterexample :
    let defs : List Kind := [.plain [2] []]
    let ops : List Op := [.enter 0, .suspend, .continue_]
    let w0 : StW := { initW defs 2 1 with swallowsGX := true }
    (specW (runW (repairedCfg false) defs w0 ops) = false ∧
     (runW (repairedCfg false) defs w0 ops).map (fun ob => (ob.calls.map unflag, ob.esc, ob.status)) =
       [([(true, 0)], .none, .none), ([(false, 0)], .none, .none), ([(true, 0), (false, 0)], .exc .other, .err (.hookR 0))] ∧
     (finalStateW (repairedCfg false) defs w0 ops).dirty = true) ∧
    (let defs' : List Kind := [.na]
     let w1 : StW := { initW defs' 2 0 with swallowsGX := true }
     specClauseW (runW (repairedCfg false) defs' w1 [.enter 0, .suspend]) = "hook-error-escapes-scheduler@suspend" ∧
     (finalStateW (repairedCfg false) defs' w1 [.enter 0, .suspend]).blocks = []) := by
  decide

/-- failing a task that has no open with-block and whose body does not ignore GeneratorExit lets nothing escape (the
    histories of Lib/Contexts.lean, where every block is operated by hand, are this case); the hypothesis `hg` is needed:
    second conjunct of `C06w_ignored_generatorexit_counterexample` -/
theorem C06w_no_open_block_no_escape (cfg : Cfg) (defs : List Kind) (w : StW) (e : Exc) (h : w.blocks = [])
    (hg : w.swallowsGX = false) :
    (acceptErrorW cfg defs w e).2.2 = none := by
  unfold acceptErrorW
  split
  · rfl
  · simp [h, hg, unwind]

theorem pauseCtx_reg (defs : List Kind) (s : St) (c : Nat) : (pauseCtx defs s c).1.reg = s.reg := by
  unfold pauseCtx
  split <;> rfl

theorem exitOp_reg (cfg : Cfg) (defs : List Kind) (s : St) (c : Nat) :
    (exitOp cfg defs s c).1.reg = s.reg ∨ (exitOp cfg defs s c).1.reg = s.reg.erase c := by
  unfold exitOp
  simp only []
  split
  · exact Or.inl rfl
  · split
    · exact Or.inl rfl
    · split
      · exact Or.inr rfl
      · split
        · have h := pauseCtx_reg defs { s with reg := s.reg.erase c } c
          split <;> (rename_i heq; rw [heq] at h; exact Or.inr (by simpa [delAttr] using h))
        · exact Or.inr rfl
  · split
    · exact Or.inl rfl
    · have h := pauseCtx_reg defs s c
      split <;> (rename_i heq; rw [heq] at h; exact Or.inl (by simpa [delAttr] using h))

/-- leaving the blocks never registers anything: what is registered with the task afterwards was registered before (every
    `__exit__` only removes its own context - `leave_context` -, also when its pause() raises) -/
theorem C06w_unwind_only_unregisters (cfg : Cfg) (defs : List Kind) (blocks : List Nat) (s : St) (calls : List Call)
    (fl : Option Exc) (c : Nat) (hc : c ∈ (unwind cfg defs blocks s calls fl).1.reg) : c ∈ s.reg := by
  induction blocks generalizing s calls fl with
  | nil => simpa [unwind] using hc
  | cons b rest ih =>
    have key : ∀ x, x ∈ (exitOp cfg defs s b).1.reg → x ∈ s.reg := by
      intro x hx
      rcases exitOp_reg cfg defs s b with h | h
      · rw [h] at hx; exact hx
      · rw [h] at hx; exact List.mem_of_mem_erase hx
    unfold unwind at hc
    split at hc
    · rename_i s' cl e heq
      exact key c (by rw [heq]; exact ih s' (calls ++ cl) (some e) hc)
    · rename_i s' cl x hne heq
      exact key c (by rw [heq]; exact ih s' (calls ++ cl) fl hc)

/-- with `closeSwallows` the model's `acceptErrorW` returns no escape: this is the line `if w.closeSwallows then none else esc`
    read back (BY CONSTRUCTION) -/
theorem C06w_acceptErrorW_swallows (cfg : Cfg) (defs : List Kind) (w : StW) (e : Exc) (h : w.closeSwallows = true) :
    (acceptErrorW cfg defs w e).2.2 = none ∧ (acceptErrorW cfg defs w e).1.closeSwallows = true := by
  unfold acceptErrorW
  split
  · exact ⟨rfl, h⟩
  · simp [h]

theorem pauseContextsW_swallows (cfg : Cfg) (defs : List Kind) (w : StW) (h : w.closeSwallows = true) :
    (pauseContextsW cfg defs w).2.2 = none ∧ (pauseContextsW cfg defs w).1.closeSwallows = true := by
  unfold pauseContextsW
  split
  · exact ⟨rfl, h⟩
  · split
    · rename_i s' calls e _
      have := C06w_acceptErrorW_swallows cfg defs { w with s := s' } e h
      rcases hh : acceptErrorW cfg defs { w with s := s' } e with ⟨w', c2, esc⟩
      rw [hh] at this
      exact this
    · exact ⟨rfl, h⟩

theorem resumeContextsW_swallows (cfg : Cfg) (defs : List Kind) (w : StW) (h : w.closeSwallows = true) :
    (resumeContextsW cfg defs w).2.2 = none ∧ (resumeContextsW cfg defs w).1.closeSwallows = true := by
  unfold resumeContextsW
  split
  · exact ⟨rfl, h⟩
  · split
    · rename_i s' calls e _
      have := C06w_acceptErrorW_swallows cfg defs { w with s := s' } e h
      rcases hh : acceptErrorW cfg defs { w with s := s' } e with ⟨w', c2, esc⟩
      rw [hh] at this
      exact this
    · exact ⟨rfl, h⟩

theorem endBody_swallows (cfg : Cfg) (defs : List Kind) (w : StW) (fl : Option Exc) (h : w.closeSwallows = true) :
    (endBody cfg defs w fl).1.closeSwallows = true := by
  unfold endBody
  split <;> exact h

theorem stepCoreW_swallows (cfg : Cfg) (defs : List Kind) (w : StW) (op : Op) (h : w.closeSwallows = true) :
    (stepCoreW cfg defs w op).1.closeSwallows = true ∧
    (isSchedOp op = true → ∀ e, (stepCoreW cfg defs w op).2.2 ≠ .exc e) := by
  cases op with
  | enter c =>
    refine ⟨?_, fun hs => by simp [isSchedOp] at hs⟩
    unfold stepCoreW
    simp only []
    repeat' split
    all_goals first
      | exact h
      | exact endBody_swallows cfg defs _ _ h
  | exit c =>
    refine ⟨?_, fun hs => by simp [isSchedOp] at hs⟩
    unfold stepCoreW
    simp only []
    repeat' split
    all_goals first
      | exact h
      | exact endBody_swallows cfg defs _ _ h
  | finish ok =>
    refine ⟨?_, fun hs => by simp [isSchedOp] at hs⟩
    unfold stepCoreW
    simp only []
    repeat' split
    all_goals first
      | exact h
      | exact endBody_swallows cfg defs _ _ h
  | suspend =>
    unfold stepCoreW
    simp only []
    split
    · exact ⟨h, fun _ e => by simp⟩
    · have h1 := resumeContextsW_swallows cfg defs { w with s := { w.s with phase := .suspended } } h
      rcases hh1 : resumeContextsW cfg defs { w with s := { w.s with phase := .suspended } } with ⟨w1, c1, e1⟩
      rw [hh1] at h1
      have h2 := pauseContextsW_swallows cfg defs w1 h1.2
      rcases hh2 : pauseContextsW cfg defs w1 with ⟨w2, c2, e2⟩
      rw [hh2] at h2
      obtain ⟨h1a, _⟩ := h1
      obtain ⟨h2a, h2b⟩ := h2
      simp only [] at h1a h2a h2b
      subst h1a; subst h2a
      exact ⟨h2b, fun _ e => by simp [escOfOpt]⟩
  | continue_ =>
    unfold stepCoreW
    simp only []
    split
    · exact ⟨h, fun _ e => by simp⟩
    · have h1 := resumeContextsW_swallows cfg defs w h
      rcases hh1 : resumeContextsW cfg defs w with ⟨w1, c1, e1⟩
      rw [hh1] at h1
      obtain ⟨h1a, h1b⟩ := h1
      simp only [] at h1a h1b
      subst h1a
      exact ⟨h1b, fun _ e => by simp [escOfOpt]⟩

/-- TRUE BY CONSTRUCTION OF THE MODEL (third audit of the core, item 2): the only place where the with-block model produces an
    escape is `if w.closeSwallows then none else esc` in `acceptErrorW` (Lib/ContextsWith.lean), so with `closeSwallows` no
    history of the MODEL lets an exception out of a suspension or continuation - also when the body ignores GeneratorExit
    (`swallowsGX`).  What this says about the library: in the with-block model `generator.close()` is the only source of an
    escape, nothing more.  That proposed-fixes/C08-close-raise.diff cures the real library on the generated histories is a
    matter of RUNNING it: tools/ctxwith_afterfix.py (family `ctxwith` against a patched clone, expectation = this variant of
    the model). -/
theorem C06w_repaired_never_escapes (cfg : Cfg) (defs : List Kind) (w : StW) (ops : List Op) (h : w.closeSwallows = true) :
    specW (runW cfg defs w ops) = true := by
  induction ops generalizing w with
  | nil => simp [runW, specW]
  | cons op rest ih =>
    have hs := stepCoreW_swallows cfg defs w op h
    have hstep : (stepW cfg defs w op).1 = (stepCoreW cfg defs w op).1 := by
      unfold stepW; rcases stepCoreW cfg defs w op with ⟨w', calls, esc⟩; rfl
    have hob : (stepW cfg defs w op).2.esc = (stepCoreW cfg defs w op).2.2 ∧ (stepW cfg defs w op).2.op = op := by
      unfold stepW; rcases stepCoreW cfg defs w op with ⟨w', calls, esc⟩; exact ⟨rfl, rfl⟩
    have ih' := ih (stepW cfg defs w op).1 (by rw [hstep]; exact hs.1)
    simp only [specW, runW, List.all_cons, Bool.and_eq_true] at ih' ⊢
    refine ⟨?_, ih'⟩
    simp only [escapes, hob.1, hob.2, Bool.not_eq_true', Bool.and_eq_false_iff]
    by_cases hso : isSchedOp op = true
    · right
      have := hs.2 hso
      rcases hesc : (stepCoreW cfg defs w op).2.2 with _ | _ | e
      · rfl
      · rfl
      · exact absurd hesc (this e)
    · left; simpa using hso

/-- the hypothesis `hnr` of `C06c_alternate` (no call on the context raised) is needed, also for the repaired `__enter__`: enter
    block 0 twice, the first resume() raises (the block is not entered, nothing is misused, the observer accepts and has not
    stopped): the calls on context 0 are resume, resume - they do not alternate -/
theorem C06w_alternate_needs_no_raise :
    let defs : List Kind := [.plain [1] []]
    let obs := run (repairedCfg false) defs (init defs 1) [.enter 0, .enter 0]
    ∃ w, watchRun defs 1 {} obs = .ok w ∧ w.stopped = false ∧
      altRun false (onCtx 0 (obs.flatMap (·.calls))) ≠ some (resumedNow w 0) := by
  refine ⟨_, rfl, ?_, ?_⟩ <;> decide

/-- the repaired model on the history of the sibling counterexample: nothing escapes, the scheduler is not left dirty -/
example :
    let defs : List Kind := [.plain [2] []]
    let ops : List Op := [.enter 0, .suspend, .continue_]
    let w0 : StW := { initW defs 2 1 with swallowsGX := true, closeSwallows := true }
    specW (runW (repairedCfg false) defs w0 ops) = true ∧
    ((runW (repairedCfg false) defs w0 ops).getLast?.map fun ob => (ob.calls.map unflag, ob.esc, ob.status)) =
      some ([(true, 0), (false, 0)], .none, .err (.hookR 0)) ∧
    (finalStateW (repairedCfg false) defs w0 ops).dirty = false := by
  decide

/-- non-vacuity: the repaired model on the history of the counterexample - same hook calls, the task fails with resume's
    exception, nothing escapes, the scheduler is not left dirty -/
example :
    let defs : List Kind := [.plain [2] [], .plain [] [2]]
    let ops : List Op := [.enter 0, .enter 1, .suspend, .continue_]
    let w0 : StW := { initW defs 2 2 with closeSwallows := true }
    specW (runW (repairedCfg false) defs w0 ops) = true ∧
    ((runW (repairedCfg false) defs w0 ops).getLast?.map fun ob => (ob.calls.map unflag, ob.esc, ob.status)) =
      some ([(true, 0), (true, 1), (false, 1), (false, 0)], .none, .err (.hookR 0)) ∧
    (finalStateW (repairedCfg false) defs w0 ops).dirty = false := by
  decide

end AsynqModel.Contexts
