import AsynqModel.Proofs.P27Static
import AsynqModel.Theorems.SpecC04
import AsynqModel.Theorems.SpecC06
import AsynqModel.Proofs.P27CtxFinal
import AsynqModel.Theorems.C07b
import AsynqModel.Proofs.P27Read
import AsynqModel.Theorems.SpecC07
import AsynqModel.Proofs.P27OrdC
import AsynqModel.Theorems.SpecC03
/-!
# Theorems that no longer need "no NonAsyncContext exists" (audit item 10)

Sections: C04 (`C04_settled_at_flush_any`, `Spec_C04_accepts_settled_any`), C06b (`C06_..._any`), C07 (`C07_lifo_any` and the
counterexample `C07_lifo_needs_noNonAsync` to the literal statement, `C07_values_any`, `Spec_C07_accepts_any`), C03
start-order clause (`Spec_C03_accepts_order_any`, `Spec_C03_only_ret_any`).

## C04 (`C04_..._any`, `Spec_C04_accepts_settled_any`)

`C04_settled_at_flush` and `Spec_C04_accepts_settled` (`Theorems/C04.lean`, `SpecC04.lean`) assume that the program creates
no NonAsyncContext (`Spec.bodyHasNonAsync = false` in `P6.ReachYO` / `P6.ReachWS`).  192 000 model runs of generated
programs with NonAsyncContexts under random admissible flush orders (90 000 of them with a task failed by
`NonAsyncContext.pause()`) gave no counterexample; the hypothesis is not needed.  `P27.ReachYO` / `P27.ReachWS` (`Proofs/P27Main.lean`, `P27Static.lean`) are `P6.ReachYO` /
`P6.ReachWS` without the clause `Spec.bodyHasNonAsync p.2 = false`; the remaining hypotheses (yield-only, in-scope
references, `guardFired = false`) have machine-checked necessity witnesses in `SpecC04.lean`.

The proof (`Proofs/P27*.lean`) is the one of P6 with two changes.  (1) The second visit of a blocked task with a
registered NonAsyncContext FAILS the task (`P27.Desc.naFail`): it is completed from outside its generator and popped.
(2) At that moment the task looks settled (started, suspended, blocked, awaiting only settled futures) but it is about
to be completed: the invariant is stated for `P27.Settled`, which asks in addition that a settled task has no
registered NonAsyncContext (`P2.NAfree`).  A task acquires a NonAsyncContext only while its generator runs
(`P27.naf_step`), and a suspended task with paused contexts has none (`P2.PInv.z`), so a task that the scheduler
leaves suspended is `NAfree` and stays so.  `P27.Settled.toP6` forgets the extra clause.
-/
namespace AsynqModel.Core
open AsynqModel.Core.P6 AsynqModel.Core.P18
open AsynqModel.Core.P13 (obs Acc)

/-- the new reachability predicates are weaker than the old ones: every state of a run without NonAsyncContext is a
    state of `P27.ReachYO` / `P27.ReachWS`, so the `_any` theorems subsume the originals -/
theorem C04_reachYO_any_of (s : State) (h : P6.ReachYO s) : P27.ReachYO s := by
  induction h with
  | init cfg tops choices hyo => exact .init cfg tops choices (fun p hp => (hyo p hp).1)
  | step _ hsc ih => exact .step ih hsc

theorem C04_reachWS_any_of (s : State) (h : P6.ReachWS s) : P27.ReachWS s := by
  induction h with
  | init cfg tops choices hyo => exact .init cfg tops choices (fun p hp => ⟨(hyo p hp).1, (hyo p hp).2.2⟩)
  | step _ ih => exact .step ih

/-- `C04_static` without the NonAsync hypothesis: a statically well-scoped yield-only program never dereferences an
    out-of-scope reference -/
theorem C04_static_any (s : State) (h : P27.ReachWS s) (hs : s.stuck = none) (hg : s.guardFired = false) :
    P27.ReachYO s :=
  (P27.reachYO_of_ws s h hs hg).1

/-- `C04_ctl_shape` without the NonAsync hypothesis -/
theorem C04_ctl_shape_any (s : State) (h : P27.ReachYO s) (hs : s.stuck = none) (hg : s.guardFired = false) :
    (s.ctl = [] ∧ s.stack = []) ∨ (∃ r, s.ctl = [.waitEnter r] ∧ s.stack = []) ∨ (∃ r, s.ctl = [.waitLoop r 0]) ∨
    (∃ t old r, s.ctl = [.gen t old, .waitLoop r 0]) := by
  have hA := (P27.inv6 s h hs hg).a
  obtain ⟨h1, h2⟩ := P27.core_facts (P3.reach_core s h.reach hg).1 hA.shape
  rcases hA.shape with h0 | ⟨r0, h0⟩ | ⟨r0, b0, h0⟩ | ⟨t0, old0, r0, b0, h0⟩
  · exact Or.inl ⟨h0, h1 (Or.inl h0)⟩
  · exact Or.inr (Or.inl ⟨r0, h0, h1 (Or.inr ⟨r0, h0⟩)⟩)
  · have := h2 r0 b0 [] h0
    subst this
    exact Or.inr (Or.inr (Or.inl ⟨r0, h0⟩))
  · have hc := (P3.reach_core s h.reach hg).1.frames
    rw [h0] at hc
    have hb : b0 = 0 := P3.chain_nil.1 (P3.chain_cons.1 (by simpa using hc)).2
    subst hb
    exact Or.inr (Or.inr (Or.inr ⟨t0, old0, r0, h0⟩))

/-- the strong form: at a scheduler flush the root is settled AND no task below it that is left waiting has a
    registered NonAsyncContext (`P27.Settled`) -/
theorem C04_settled_at_flush_strong (s : State) (h : P27.ReachYO s) (hs : s.stuck = none) (hg : s.guardFired = false)
    (root base : Nat) (rest : List Ctl) (hctl : s.ctl = .waitLoop root base :: rest)
    (hlen : s.stack.length ≤ base) : P27.Settled s root := by
  obtain ⟨hA, _, P, hC⟩ := P27.inv6 s h hs hg
  obtain ⟨_, h2⟩ := P27.core_facts (P3.reach_core s h.reach hg).1 hA.shape
  rw [h2 root base rest hctl] at hlen
  have hs0 : s.stack = [] := List.eq_nil_of_length_eq_zero (Nat.le_zero.1 hlen)
  rcases hC.root root base rest (Or.inl hctl) with ⟨pre, h1⟩ | h1
  · rw [hs0] at h1
    cases pre <;> cases h1
  · exact h1

/-- **C04_settled_at_flush_any**: `C04_settled_at_flush` for programs that MAY create NonAsyncContexts.  Whenever
    `_execute(root)` finds its stack back at the base - the only situation in which the scheduler flushes a batch -
    `root` is settled (`P6.Settled`, the predicate of `Theorems/C04.lean`). -/
theorem C04_settled_at_flush_any (s : State) (h : P27.ReachYO s) (hs : s.stuck = none) (hg : s.guardFired = false)
    (root base : Nat) (rest : List Ctl) (hctl : s.ctl = .waitLoop root base :: rest)
    (hlen : s.stack.length ≤ base) : Settled s root :=
  (C04_settled_at_flush_strong s h hs hg root base rest hctl hlen).toP6

/-- the statement as assigned: the step out of such a state is `schedulerFlush root`, and the root is settled -/
theorem C04_settled_at_flush_step_any (s : State) (h : P27.ReachYO s) (hs : s.stuck = none)
    (hg : s.guardFired = false) (root base : Nat) (rest : List Ctl) (hctl : s.ctl = .waitLoop root base :: rest)
    (hlen : s.stack.length ≤ base) (hroot : s.computed root = false) :
    step s = s.schedulerFlush root ∧ Settled s root := by
  refine ⟨?_, C04_settled_at_flush_any s h hs hg root base rest hctl hlen⟩
  have hr := (P3.reach_core s h.reach hg).1.raising
  unfold step
  simp [hs, hctl, hr, hroot]
  intro hlt
  omega

/-- hypotheses on the program only -/
theorem C04_settled_at_flush_static_any (s : State) (h : P27.ReachWS s) (hs : s.stuck = none)
    (hg : s.guardFired = false) (root base : Nat) (rest : List Ctl) (hctl : s.ctl = .waitLoop root base :: rest)
    (hlen : s.stack.length ≤ base) : Settled s root :=
  C04_settled_at_flush_any s (C04_static_any s h hs hg) hs hg root base rest hctl hlen

/-- (S1) until the next scheduler flush a (strongly) settled future stays settled - also when a sibling is failed by
    `NonAsyncContext.pause()` in between -/
theorem C04_settled_stable_any (s : State) (h : P27.ReachYO s) (hs : (step s).stuck = none)
    (hg : (step s).guardFired = false) (hnf : ¬ P27.IsFlush s) (f : Nat) (hf : P27.Settled s f) :
    P27.Settled (step s) f := by
  obtain ⟨d, hA⟩ := P27.desc_of_reach s h hs hg
  exact P27.settled_step hA d (P27.naf_step h.reach) hnf hf

/-- between two scheduler flushes no batch item is completed or changed (NonAsyncContexts allowed) -/
theorem C04_no_item_completes_between_flushes_any (s : State) (h : P27.ReachYO s) (hs : (step s).stuck = none)
    (hg : (step s).guardFired = false) (hnf : ¬ P27.IsFlush s) (f k q p : Nat) (m : ItemMode)
    (hk : (s.fut f).kind = .item k q p m) :
    (step s).out f = s.out f ∧ ((step s).fut f).kind = .item k q p m := by
  obtain ⟨d, hA⟩ := P27.desc_of_reach s h hs hg
  have := P27.item_unchanged hA d hnf (f := f) (k := k) (q := q) (p := p) (m := m) hk
  exact ⟨congrArg FV.out this, (congrArg FV.kind this).trans hk⟩

/-- the only way a task is completed from outside its generator in a yield-only run: the description of the step -/
theorem C04_step_desc_any (s : State) (h : P27.ReachYO s) (hs : (step s).stuck = none)
    (hg : (step s).guardFired = false) : P27.Desc s (step s) :=
  (P27.desc_of_reach s h hs hg).1

/-! ### the observer -/

/-- the one event the observer checks: at a scheduler flush of a yield-only run the root is settled for the observer -/
theorem Spec_C04_flush_ok_any (c : Spec.Ctx) {s : State} (h : P27.ReachYO s) (hs : s.stuck = none)
    (hg : s.guardFired = false) (hG : G c s) (root base : Nat) (rest : List Ctl)
    (hctl : s.ctl = .waitLoop root base :: rest) (hlen : s.stack.length ≤ base)
    (k q : Nat) (its : List Nat) (p : Nat × Nat) (pd : List PendingB) :
    checkC04NoRet c (obs s.trace) (.flushB k q its p pd) = none := by
  have hset := C04_settled_at_flush_any s h hs hg root base rest hctl hlen
  have hrest : rest = [] := by
    rcases (P27.inv6 s h hs hg).a.shape with h0 | ⟨r0, h0⟩ | ⟨r0, b0, h0⟩ | ⟨t0, old0, r0, b0, h0⟩ <;>
      rw [h0] at hctl
    · cases hctl
    · injection hctl with h1 _; cases h1
    · injection hctl with _ h2; exact h2.symm
    · injection hctl with h1 _; cases h1
  subst hrest
  have hi := P13.inv13_of_reach h.reach { (default : Spec.Ctx) with cfg := s.cfg } rfl
  have htop : (obs s.trace).topRoot = some root := by
    have hb := hi.sr.bur
    rw [hctl] at hb
    exact hi.sr.top root hb.1
  have hR : Rel s { obs s.trace with flushedB := (obs s.trace).flushedB.erase (k, q) } :=
    rel_of_reach h.reach hg hG _ rfl rfl rfl rfl (fun x hx => List.mem_of_mem_erase hx)
  have hw := settled_of_rel hR hset
  show Spec.checkC04 c (obs s.trace) (.flushB k q its p pd) = none
  simp only [Spec.checkC04]
  split
  · rfl
  · split
    · next r hr =>
      rw [htop] at hr
      injection hr with hr
      subst hr
      rw [if_pos]
      exact hw
    · next hr => rw [htop] at hr; cases hr

theorem Spec_C04_G_step_any (c : Spec.Ctx) {s : State} (hG : G c s) (hyo : s.stuck = none → P27.ReachYO s)
    (hg : (step s).guardFired = false) : G c (step s) :=
  G_step hG fun root base rest hs hctl _ hlen _ k q its p pd =>
    Spec_C04_flush_ok_any c (hyo hs) hs (P3.guard_mono s hg) hG root base rest hctl hlen k q its p pd

theorem Spec_C04_G_reachYO_any (c : Spec.Ctx) {s : State} (h : P27.ReachYO s) (hg : s.guardFired = false) : G c s := by
  induction h with
  | init cfg tops choices _ => exact G_init cfg tops choices
  | @step s hr _ ih => exact Spec_C04_G_step_any c (ih (P3.guard_mono s hg)) (fun _ => hr) hg

theorem Spec_C04_G_reachWS_any (c : Spec.Ctx) {s : State} (h : P27.ReachWS s) (hg : s.guardFired = false) : G c s := by
  induction h with
  | init cfg tops choices _ => exact G_init cfg tops choices
  | @step s hr ih =>
    have hg0 := P3.guard_mono s hg
    exact Spec_C04_G_step_any c (ih hg0) (fun hs => (P27.reachYO_of_ws s hr hs hg0).1) hg

/-- **Spec_C04_accepts_settled_any**: `Spec_C04_accepts_settled` for programs that MAY create NonAsyncContexts.  On the
    trace of every state of a yield-only run in which only in-scope references are dereferenced and the stack guard has
    not fired, the observer `Spec.checkC04` without its `.ret` clause raises nothing: never
    "flush-while-a-task-can-run", never "flush-outside-computation", never "unknown-event".  Any observer context;
    `s` may be stuck. -/
theorem Spec_C04_accepts_settled_any (c : Spec.Ctx) (s : State) (h : P27.ReachYO s) (hg : s.guardFired = false) :
    Spec.specRun checkC04NoRet c {} 0 s.trace.reverse = none :=
  (P13.specRun_none_iff checkC04NoRet c s.trace).2 (Spec_C04_G_reachYO_any c h hg).acc

/-- hypotheses on the program only: yield-only and statically well-scoped (`P6.wsBody`) -/
theorem Spec_C04_accepts_settled_static_any (c : Spec.Ctx) (s : State) (h : P27.ReachWS s)
    (hg : s.guardFired = false) : Spec.specRun checkC04NoRet c {} 0 s.trace.reverse = none :=
  (P13.specRun_none_iff checkC04NoRet c s.trace).2 (Spec_C04_G_reachWS_any c h hg).acc

/-- ... in particular after any number of steps of the program, with the context the checks build from it -/
theorem Spec_C04_accepts_settled_run_any (cfg : Cfg) (tops : List (Conv × Body)) (choices : List (Nat × Nat))
    (h : ∀ p ∈ tops, Spec.bodyHasSync p.2 = false ∧ wsBody p.2 = true) (n : Nat)
    (hg : (runFuel n (initState cfg tops choices)).guardFired = false) :
    Spec.specRun checkC04NoRet (Spec.mkCtx cfg tops) {} 0 (runFuel n (initState cfg tops choices)).trace.reverse = none :=
  Spec_C04_accepts_settled_static_any _ _ (P27.reachWS_runFuel cfg tops choices h n) hg

/-- whatever `Spec.spec "C04"` reports on such a trace is the flush-count clause (which legitimately differs with
    NonAsyncContexts: `C04b_nonasync_counterexample`) -/
theorem Spec_C04_only_count_any (c : Spec.Ctx) (s : State) (h : P27.ReachYO s) (hg : s.guardFired = false) (i : Nat)
    (msg : String) (hv : Spec.spec "C04" c s.trace.reverse = some (i, msg)) :
    msg = "flush-count-differs-from-longest-chain" :=
  Spec_C04_only_count_of c _ _ _ (Spec_C04_accepts_settled_any c s h hg) i msg hv

/-! ### non-vacuity -/

/-- the program of `SpecC04.lean`: child 1 is failed by `NonAsyncContext.pause()` while its sibling waits for a batch -/
example : Spec.bodyHasSync SpecC04_naProg = false ∧ Spec.bodyHasNonAsync SpecC04_naProg = true ∧
    wsBody SpecC04_naProg = true := by decide

/-- a DAG with a NonAsyncContext: the root creates item 1 and task 2, which enters a NonAsyncContext and awaits the
    item; tasks 3 and 4 both await task 2 (handed to them), the root awaits 3, 4 and its own second item 5 -/
def NoNA_dag : Body :=
  .item 0 7 .ok
    (.spawn (.withCtx .nonasync (.yld (.f (.inh 0)) .endwith .endwith) (.ret 1)) [.own 0]
      (.spawn (.yld (.f (.inh 0)) (.ret 2) (.ret 12)) [.own 1]
        (.spawn (.yld (.f (.inh 0)) (.ret 3) (.ret 13)) [.own 1]
          (.item 0 8 .ok (.yld (.lst [.f (.own 2), .f (.own 3), .f (.own 4)]) (.ret 4) .reraise)))))

example : Spec.bodyHasSync NoNA_dag = false ∧ Spec.bodyHasNonAsync NoNA_dag = true ∧ wsBody NoNA_dag = true := by
  decide

def NoNA_dagRun (n : Nat) : State := runFuel n (initState {} [(.value, NoNA_dag)] [])

theorem NoNA_dagRun_reach (n : Nat) : P27.ReachWS (NoNA_dagRun n) :=
  P27.reachWS_runFuel _ _ _ (by decide) n

/-- state 21: task 2 (inside its NonAsyncContext, awaiting item 1) is on top of the stack for its second visit; the step
    fails it from outside any generator (`P27.Desc.naFail`): the control stack is `[waitLoop 0 0]` before and the
    generator of task 3 - which gets the AssertionError - is entered right after -/
example : (NoNA_dagRun 21).ctl = [.waitLoop 0 0] ∧ (NoNA_dagRun 21).stack = [2, 3, 4, 5, 0] ∧
    ((NoNA_dagRun 21).task 2).depsSched = true ∧ ((NoNA_dagRun 21).task 2).ctxs = [0] ∧
    (NoNA_dagRun 21).ctxIsNonAsync 0 = true ∧ (NoNA_dagRun 21).out 2 = none ∧
    (NoNA_dagRun 22).out 2 = some (.err .nonasync) ∧ (NoNA_dagRun 22).ctl = [.waitLoop 0 0] ∧
    (NoNA_dagRun 22).stack = [3, 4, 5, 0] := by decide +kernel

/-- why the invariant needs the stronger predicate: in state 21 task 2 and task 3 (which awaits only task 2) are settled
    in the sense of `Theorems/C04.lean`, the step is not a flush, and in state 22 task 3 can run - `C04_settled_stable`
    does NOT hold with NonAsyncContexts; `P27.Settled` holds for neither of them in state 21 -/
theorem C04_settled_stable_needs_noNonAsync :
    ∃ s f, P27.ReachWS s ∧ (step s).stuck = none ∧ (step s).guardFired = false ∧ ¬ IsFlush s ∧
      Settled s f ∧ ¬ Settled (step s) f := by
  refine ⟨NoNA_dagRun 21, 3, NoNA_dagRun_reach 21, by decide +kernel, by decide +kernel, ?_,
    settledB_sound _ 8 3 (by decide +kernel), ?_⟩
  · rintro ⟨root, base, rest, hctl, hlen, _⟩
    have h1 : (NoNA_dagRun 21).ctl = [.waitLoop 0 0] := by decide +kernel
    have h2 : (NoNA_dagRun 21).stack.length = 5 := by decide +kernel
    rw [h1] at hctl
    injection hctl with hc _
    injection hc with _ hb
    omega
  · intro h
    have := computed_of_settled_unblocked (s := step (NoNA_dagRun 21)) (t := 3) (by decide +kernel)
      (by decide +kernel) h
    revert this
    decide +kernel

example : P27.settledB (NoNA_dagRun 21) 8 2 = false ∧ P27.settledB (NoNA_dagRun 21) 8 3 = false := by decide +kernel

/-- state 35 is the scheduler flush: tasks 2, 3, 4 are computed (2 failed, 3 and 4 handled the error), the root waits
    for item 5; all hypotheses of the theorems hold, the root is settled, the flush carries both items -/
example : (NoNA_dagRun 35).stuck = none ∧ (NoNA_dagRun 35).guardFired = false ∧ (NoNA_dagRun 35).ctl = [.waitLoop 0 0] ∧
    (NoNA_dagRun 35).stack = [] ∧ (NoNA_dagRun 35).computed 0 = false ∧ (NoNA_dagRun 35).flushable = [(0, 0)] ∧
    Inv.noNonAsync (NoNA_dagRun 35) = false ∧ P27.settledB (NoNA_dagRun 35) 3 0 = true := by decide +kernel
example : Settled (NoNA_dagRun 35) 0 :=
  C04_settled_at_flush_static_any _ (NoNA_dagRun_reach 35) (by decide +kernel) (by decide +kernel) 0 0 []
    (by decide +kernel) (by decide +kernel)
example : (NoNA_dagRun 200).isDone = true ∧ (NoNA_dagRun 200).stuck = none ∧
    Event.done 2 (.err .nonasync) ∈ (NoNA_dagRun 200).trace ∧
    ((NoNA_dagRun 200).trace.reverse.filterMap fun | .flushB k q items _ _ => some (k, q, items) | _ => none) =
      [(0, 0, [1, 5])] := by decide +kernel

/-- the observer accepts both runs: by the theorem ... -/
example : Spec.specRun checkC04NoRet (Spec.mkCtx {} [(.value, NoNA_dag)]) {} 0 (NoNA_dagRun 200).trace.reverse = none :=
  Spec_C04_accepts_settled_run_any {} _ [] (by decide) 200 (by decide +kernel)
example : Spec.specRun checkC04NoRet (Spec.mkCtx {} [(.value, SpecC04_naProg)]) {} 0
    (runFuel 300 (initState {} [(.value, SpecC04_naProg)] [])).trace.reverse = none :=
  Spec_C04_accepts_settled_run_any {} _ [] (by decide) 300 (by decide +kernel)
/-- ... and by evaluation -/
example : Spec.specRun checkC04NoRet (Spec.mkCtx {} [(.value, NoNA_dag)]) {} 0 (NoNA_dagRun 200).trace.reverse = none := by
  decide +kernel

/-! ## C06b (`C06_..._any`): which contexts are resumed - without "no NonAsyncContext exists"

The theorems of `Theorems/C06b.lean` take `Inv.noNonAsync s`, inherited from `P7.K` (`k.reg`, `k.live`, `k.stk`) and
`P12.J_reach`.  P16 re-proved the invariants behind them without it (`P16.R_reach`: the observer's table of contexts is
the machine's; `P16.B_reach`; `P16.J_reach'`); here the theorems themselves.  The resumed contexts are the same
whether or not NonAsyncContexts exist: a NonAsyncContext is never resumed (`P5.J.na`). -/

/-- a resumed context is registered with its owner, an uncomputed task whose contexts are active - for every reachable
    state (stack guard not fired), NonAsyncContexts allowed (`P12.resumed_owner` without `NA`) -/
theorem C06_resumed_owner_any (s : State) (h : Reach s) (hg : s.guardFired = false) (c : Nat) (x : CtxSt)
    (hx : s.ctxs[c]? = some x) (hr : x.resumed = true) :
    ∃ o, x.owner = some o ∧ c ∈ (s.task o).ctxs ∧ (s.fut o).kind = .task ∧ (s.task o).ctxActive = true ∧
      s.computed o = false := by
  have r : P16.R default s none := P16.R_reach h hg
  have hlt : c < s.ctxs.length := P5.lt_of_getElem?_some hx
  -- the observer has an entry for `c`
  obtain ⟨w, hlook⟩ := r.entry hlt
  obtain ⟨y, hy, _, ho, hres, hopen⟩ := r.rel c w hlook
  rw [hx] at hy; cases hy
  have hop : w.isOpen = true := by
    cases hh : w.isOpen with
    | true => rfl
    | false =>
      have := r.closed c w hlook hh
      rw [hres, hr] at this; cases this
  have hm : c ∈ (s.task w.owner).ctxs := (hopen (by simp)).1 hop
  obtain ⟨z, hz, _, hzr⟩ := (P5.I_reach h).j.reg w.owner c hm
  rw [hx] at hz; cases hz
  have hact : (s.task w.owner).ctxActive = true := by
    rcases hzr with hk | hk
    · have := (P5.I_reach h).j.na c x hx hk
      rw [hr] at this; cases this
    · simpa [hr] using hk.symm
  obtain ⟨h1, h2⟩ := (P16.B_reach h hg).live (t := w.owner) (fun h0 => by rw [h0] at hm; cases hm)
  exact ⟨w.owner, ho, hm, h1, hact, h2⟩

/-- **C06_resumed_awaits_top_any**: the owner of every resumed context waits (`awaitsStar`) for the future on top of the
    scheduler's task stack (which is not empty) - NonAsyncContexts allowed -/
theorem C06_resumed_awaits_top_any (s : State) (h : P10.WSReach s) (hg : s.guardFired = false)
    (c : Nat) (x : CtxSt) (hx : s.ctxs[c]? = some x) (hr : x.resumed = true) :
    ∃ t, x.owner = some t ∧ c ∈ (s.task t).ctxs ∧ ∃ top stk, s.stack = top :: stk ∧ P12.awaitsStar s t top := by
  obtain ⟨o, ho, hm, hk, ha, hc⟩ := C06_resumed_owner_any s h.reach hg c x hx hr
  exact ⟨o, ho, hm, C06_active_awaits_top s h hg o hk ha hc⟩

/-- **C06_resumed_implies_awaiting_any**: while the code of task `u` runs, every resumed context belongs to `u` itself,
    to a task waiting - directly or through tasks - for `u`, or to a task in the middle of a synchronous call that
    leads to `u` -/
theorem C06_resumed_implies_awaiting_any (s : State) (h : P10.WSReach s) (hg : s.guardFired = false)
    (c : Nat) (x : CtxSt) (hx : s.ctxs[c]? = some x) (hr : x.resumed = true)
    (u : Nat) (old : Option Nat) (rest : List Ctl) (hctl : s.ctl = .gen u old :: rest) :
    ∃ t, x.owner = some t ∧ c ∈ (s.task t).ctxs ∧ P12.awaitsStar s t u := by
  obtain ⟨t, ho, hm, top, stk, hst, ha⟩ := C06_resumed_awaits_top_any s h hg c x hx hr
  have hd := (P10.ws_cinv h hg).disc
  rw [hctl, hst] at hd
  have : top = u := by simpa using hd.1
  exact ⟨t, ho, hm, this ▸ ha⟩

/-- **C06_paused_unless_awaiting_any**: while the code of task `u` runs, every context of a task `t` that does not wait
    for `u` is paused -/
theorem C06_paused_unless_awaiting_any (s : State) (h : P10.WSReach s) (hg : s.guardFired = false)
    (c : Nat) (x : CtxSt) (hx : s.ctxs[c]? = some x) (t : Nat)
    (ho : x.owner = some t) (u : Nat) (old : Option Nat) (rest : List Ctl) (hctl : s.ctl = .gen u old :: rest)
    (hn : ¬ P12.awaitsStar s t u) : x.resumed = false := by
  cases hr : x.resumed with
  | false => rfl
  | true =>
    obtain ⟨t', ho', _, ha⟩ := C06_resumed_implies_awaiting_any s h hg c x hx hr u old rest hctl
    rw [ho] at ho'; cases ho'
    exact absurd ha hn

/-- **C06_paused_at_outer_flush_any**: when the outermost `wait_for(root)` finds its `_execute` finished and `root` not
    computed, the step is a scheduler flush, every context is paused at that moment, and the flush changes no context
    and logs no resume/pause.  (`P10.WSReach` instead of `Reach`: the proof goes through the awaiting chain.) -/
theorem C06_paused_at_outer_flush_any (s : State) (h : P10.WSReach s) (hs : s.stuck = none) (hg : s.guardFired = false)
    (root base : Nat) (hctl : s.ctl = [.waitLoop root base])
    (hlen : s.stack.length ≤ base) (hnc : s.computed root = false) :
    step s = s.schedulerFlush root ∧ (∀ (c : Nat) (x : CtxSt), s.ctxs[c]? = some x → x.resumed = false) ∧
    (step s).ctxs = s.ctxs ∧ ∃ evs, (step s).trace = evs ++ s.trace ∧ ∀ e ∈ evs, P7.calm e = true := by
  have hcore := (P3.reach_core s h.reach hg).1
  have e := P12.step_eq_flush s hs root base [] hctl hcore.raising hlen hnc
  have q : P7.Q P7.calm s (s.schedulerFlush root) :=
    P7.q_schedulerFlush (fun e _ h => h) s root (P2.pinv_reach h.reach).items
  refine ⟨e, ?_, by rw [e]; exact q.ctxs, by rw [e]; exact q.trace⟩
  have hst : s.stack = [] := by
    have hf := hcore.frames
    rw [hctl] at hf
    have hb : base = 0 := P3.chain_nil.1 (P3.chain_cons.1 (by simpa using hf)).2
    subst hb
    exact List.eq_nil_of_length_eq_zero (Nat.le_zero.1 hlen)
  intro c x hx
  cases hres : x.resumed with
  | false => rfl
  | true =>
    obtain ⟨_, _, _, top, stk, hst', _⟩ := C06_resumed_awaits_top_any s h hg c x hx hres
    rw [hst] at hst'; cases hst'

/-- **C06_flush_nested_any**: when a NESTED `wait_for(root)` - called synchronously from the generator of task `t` -
    finds its `_execute` finished, the only resumed contexts belong to `t` or to tasks waiting for `t` -/
theorem C06_flush_nested_any (s : State) (h : P10.WSReach s) (hg : s.guardFired = false)
    (root base t : Nat) (old : Option Nat) (rest : List Ctl)
    (hctl : s.ctl = .waitLoop root base :: .gen t old :: rest) (hlen : s.stack.length ≤ base)
    (c : Nat) (x : CtxSt) (hx : s.ctxs[c]? = some x) (hr : x.resumed = true) :
    ∃ o, x.owner = some o ∧ c ∈ (s.task o).ctxs ∧ P12.awaitsStar s o t := by
  obtain ⟨o, ho, hm, top, stk, hst, ha⟩ := C06_resumed_awaits_top_any s h hg c x hx hr
  have hd := (P10.ws_cinv h hg).disc
  rw [hctl] at hd
  have h2 := (P12.disc_under_wait hd (.inr ⟨root, base, rfl, hlen⟩)).2
  rw [hst] at h2
  have : top = t := by simpa using h2.1
  exact ⟨o, ho, hm, this ▸ ha⟩

/-! ## C07 (`C07_..._any`): context activations nest, overrides read and restore - without "no NonAsyncContext exists"

`C07_lifo` as stated is FALSE with NonAsyncContexts, for a shallow reason: `P7.rstack s` lists every registered
context of the hot tasks, and a registered NonAsyncContext is never resumed (`C07_lifo_needs_noNonAsync`).  With the
stack of RESUMED contexts `P27.rstackN s` - the live (non-NonAsync) registered contexts of the hot tasks, equal to
`rstack s` when no NonAsyncContext is registered - everything holds without the hypothesis: `C07_lifo_any`.  The other
statements of `Theorems/C07b.lean` hold verbatim (`expect` / `svChain` skip contexts that are not overrides):
`C07_values_any`, `C07_restored_at_top_any`, `C07_svals_zero_any`, `C07_all_paused_at_top_any`, `C06_paused_at_ret_any`.
Proof: `Proofs/P27Ctx*.lean`, the development of P7 with the new case of a task failed by `NonAsyncContext.pause()`:
its live contexts are paused innermost first, then its with-blocks are left without further pauses. -/

open P5 P7 in
/-- **C07_lifo_needs_noNonAsync**: the first clause of `C07_lifo` fails for a well-scoped program that enters a
    NonAsyncContext: the context is registered (so it is in `rstack`) but it is never resumed -/
theorem C07_lifo_needs_noNonAsync :
    ∃ s, P10.WSReach s ∧ s.guardFired = false ∧ s.stuck = none ∧ lifo s.trace ≠ some (rstack s) := by
  refine ⟨runFuel 5 (initState {} [(.value, .withCtx .nonasync (.ret 1) (.ret 2))] []), ?_, by decide, by decide,
    by decide⟩
  exact wsreach_of_reachFrom_c06 (by intro p hp; simp at hp; subst hp; decide) (P13.reachFrom_runFuel _ 5)

open P5 P7 in
/-- **C07_noRevisit_any**: in a well-scoped program no step pushes a task with resumed contexts onto the task stack -/
theorem C07_noRevisit_any (s : State) (h : P10.WSReach s) (hg : s.guardFired = false) : ReachNR s :=
  P27.reachNR_of_ws' h hg

open P5 P7 in
theorem C07_rstackN_of_noNonAsync (s : State) (hna : Inv.noNonAsync s = true) : P27.rstackN s = rstack s :=
  P27.rstackN_eq_rstack (fun _ c _ => na_isNonAsync (na_of_noNonAsync hna) c)

open P5 P7 in
/-- **C07_lifo_any**: the resume/pause events of ALL contexts form one well-bracketed word; the contexts resumed at the
    end are the live registered contexts of the hot tasks, read off the task stack (`P27.rstackN`) -/
theorem C07_lifo_any (s : State) (h : P10.WSReach s) (hg : s.guardFired = false) :
    lifo s.trace = some (P27.rstackN s) ∧
    (∀ post pre c, s.trace = post ++ .ctx false c :: pre → ∃ R, lifo pre = some (c :: R)) ∧
    (∀ post pre c, s.trace = post ++ .ctx true c :: pre → ∃ R, lifo pre = some R ∧ c ∉ R) := by
  have m := P27.M_reach' (P27.reachNR_of_ws' h hg) hg
  refine ⟨m.lifo, ?_, ?_⟩
  · intro post pre c htr
    have := m.lifo
    rw [htr] at this
    obtain ⟨R', hR'⟩ := lifo_suffix this
    exact ⟨R', lifo_pause_top hR'⟩
  · intro post pre c htr
    have := m.lifo
    rw [htr] at this
    obtain ⟨R', hR'⟩ := lifo_suffix this
    obtain ⟨R, h1, h2, _⟩ := lifo_resume_fresh hR'
    exact ⟨R, h1, h2⟩

open P5 P7 in
/-- the resumed stack of P27 is `rstack` without the NonAsyncContexts -/
theorem C07_rstackN_eq (s : State) : P27.rstackN s = (rstack s).filter fun c => !s.ctxIsNonAsync c :=
  P27.rstackN_filter s

open P5 P7 in
/-- **C07_values_any**: every scoped value is the value of the innermost override among the resumed contexts (default
    0), and every resumed override context has saved the value the contexts below it give - the statement of
    `C07_values`, without `Inv.noNonAsync` (`expect` and `svChain` skip contexts that are not overrides) -/
theorem C07_values_any (s : State) (h : P10.WSReach s) (hg : s.guardFired = false) :
    (∀ var, s.svGet var = expect s (rstack s) var) ∧ svChain s (rstack s) ∧ (rstack s).Nodup :=
  P27.values' s h hg

open P5 P7 in
/-- **C07_restored_at_top_any**: after the computation ends, normally or with an error, every overridden value is back
    to what it was before (its default) -/
theorem C07_restored_at_top_any (s : State) (h : P10.WSReach s) (hg : s.guardFired = false) (hctl : s.ctl = []) :
    ∀ var, s.svGet var = 0 :=
  (P27.restored' (P27.reachNR_of_ws' h hg) hg hctl).1

open P5 P7 in
/-- **C07_svals_zero_any**: every `.svals` event of the trace reports only zeros -/
theorem C07_svals_zero_any (s : State) (h : P10.WSReach s) (hg : s.guardFired = false)
    (l : List (Nat × Val)) (hl : Event.svals l ∈ s.trace) : ∀ p ∈ l, p.2 = Val.a 0 :=
  P27.svals_zero' (P27.reachNR_of_ws' h hg) hg l hl

open P5 P7 in
/-- **C07_all_paused_at_top_any**: between top-level computations every context object is paused (every reachable
    state, well-scoped or not) -/
theorem C07_all_paused_at_top_any (s : State) (h : Reach s) (hg : s.guardFired = false) (hctl : s.ctl = []) :
    ∀ (c : Nat) (x : CtxSt), s.ctxs[c]? = some x → x.resumed = false :=
  (P27.all_paused' h hg hctl).2

open P5 P7 in
/-- **C06_paused_at_ret_any**: at the moment a top-level computation returns the newest resume/pause event of every
    context, if any, is a pause -/
theorem C06_paused_at_ret_any (s : State) (h : Reach s) (hg : s.guardFired = false)
    (post pre : List Event) (o : Outcome) (htr : s.trace = post ++ .ret o :: pre) (c : Nat) :
    (ctxWord pre c).getLast? ≠ some true := by
  unfold ctxWord
  rw [List.getLast?_reverse]
  exact P27.ret_paused' h hg post o pre htr c

open P5 P7 in
/-- the invariant `P7.K` for every reachable state, NonAsyncContexts allowed: the open with-blocks of a task are its
    registered contexts (innermost first), only uncomputed tasks have registered contexts, a resumed context is
    registered with its owner, a task with active registered contexts is on the task stack -/
theorem C07_K_any (s : State) (h : Reach s) (hg : s.guardFired = false) : K s := P27.K_reach' h hg

/-! ### the observer of C07 -/

open AsynqModel.Core.Spec AsynqModel.Core.P13 AsynqModel.Core.P17 in
/-- all clauses of `Spec.checkC07` except the one about `.read` events (`P17.acc_rest` without `Inv.noNonAsync`) -/
theorem Spec_C07_acc_rest_any (s : State) (h : P10.WSReach s) (hg : s.guardFired = false) (c : Spec.Ctx) :
    P13.Acc checkRest c s.trace := by
  rw [acc_iff_suffix]
  intro post e pre htr
  have hl := C07_lifo_any s h hg
  cases e with
  | ctx b c0 =>
    cases b with
    | true => rfl
    | false =>
      obtain ⟨R, hR⟩ := hl.2.1 post pre c0 htr
      have := ctxStack_of_lifo pre _ hR
      simp [checkRest, checkC07, this]
  | svals l =>
    have hz := C07_svals_zero_any s h hg l (by rw [htr]; simp)
    simp only [checkRest, checkC07]
    rw [if_neg]
    simp only [List.any_eq_true, not_exists, not_and, Bool.not_eq_true, bne_eq_false_iff_eq]
    intro p hp
    exact hz p hp
  | ret o =>
    have h1 := hl.1
    rw [htr] at h1
    obtain ⟨R1, hR1⟩ := P7.lifo_suffix h1
    obtain ⟨R', hR'⟩ := P7.lifo_suffix (post := [.ret o]) (pre := pre) hR1
    have hp := P27.ret_paused' h.reach hg post o pre htr
    have hnil : R' = [] := by
      cases R' with
      | nil => rfl
      | cons c0 R'' => exact absurd (lifo_mem_word pre _ c0 hR' List.mem_cons_self) (hp c0)
    have := ctxStack_of_lifo pre _ hR'
    simp [checkRest, checkC07, this, hnil]
  | bad m =>
    exact absurd (show Event.bad m ∈ s.trace by rw [htr]; simp) (P13.no_bad h.reach m)
  | read t var v => rfl
  | _ => rfl

open AsynqModel.Core.P17 in
/-- **Spec_C07_accepts_ws_any**: SPECM = none for C07 on every reachable state of a well-scoped run in which the stack
    guard has not fired - all five clauses, the scoped-read clause included - NonAsyncContexts allowed -/
theorem Spec_C07_accepts_ws_any (s : State) (h : P10.WSReach s) (hg : s.guardFired = false) (ctx : Spec.Ctx) :
    Spec.spec "C07" ctx s.trace.reverse = none := by
  show Spec.specRun Spec.checkC07 ctx {} 0 s.trace.reverse = none
  rw [P13.specRun_none_iff, acc_split]
  exact ⟨(P27.RA_reach' h hg ctx).g1.acc, Spec_C07_acc_rest_any s h hg ctx⟩

/-- **Spec_C07_accepts_any** (`Spec_C07_accepts` without `Inv.noNonAsync`): for the run of the machine on `tops` with
    flush oracle `choices`, if every top-level computation is well-scoped and the stack guard has not fired, the
    executable observer of C07 with the context of that run accepts the trace -/
theorem Spec_C07_accepts_any (cfg : Cfg) (tops : List (Conv × Body)) (choices : List (Nat × Nat)) (s : State)
    (h : P13.ReachFrom (initState cfg tops choices) s) (hws : ∀ p, p ∈ tops → P10.WellScoped p.2 0 0 = true)
    (hg : s.guardFired = false) :
    Spec.spec "C07" (Spec.mkCtx cfg tops) s.trace.reverse = none :=
  Spec_C07_accepts_ws_any s (wsreach_of_reachFrom h hws) hg _

/-- the same for a run with fuel -/
theorem Spec_C07_accepts_run_any (cfg : Cfg) (tops : List (Conv × Body)) (choices : List (Nat × Nat)) (n : Nat)
    (hws : ∀ p, p ∈ tops → P10.WellScoped p.2 0 0 = true)
    (hg : (runFuel n (initState cfg tops choices)).guardFired = false) :
    Spec.spec "C07" (Spec.mkCtx cfg tops) (runFuel n (initState cfg tops choices)).trace.reverse = none :=
  Spec_C07_accepts_any cfg tops choices _ (P13.reachFrom_runFuel _ n) hws hg

open AsynqModel.Core.P17 in
/-- the clause about `.read` events as a statement about the machine: while the code of task `t` runs, the observer's
    `.read` clause holds for the current value of every scoped variable -/
theorem Spec_C07_read_value_any (s : State) (h : P10.WSReach s) (hg : s.guardFired = false)
    (ctx : Spec.Ctx) (t : Nat) (old : Option Nat) (rest : List Ctl)
    (hctl : s.ctl = .gen t old :: rest) (var : Nat) :
    Spec.checkC07 ctx (P13.obs s.trace) (.read t var (.a (s.svGet var))) = none :=
  P27.read_ok' h hg (P27.RA_reach' h hg ctx) hctl var

/-- the `.read` part of the C01 observer ("C01 includes what task code reads from scoped values") accepts every trace of
    a well-scoped run, NonAsyncContexts allowed; the delivery part of C01 is `Spec_C02_accepts`, whose `.ret` clause
    (the result equals the sequential one) does depend on `Inv.noNonAsync`: a task failed by `NonAsyncContext.pause()` has no
    sequential counterpart -/
theorem Spec_C01_read_accepts_any (s : State) (h : P10.WSReach s) (hg : s.guardFired = false) (ctx : Spec.Ctx) :
    P13.Acc P17.checkRead ctx s.trace :=
  (P27.RA_reach' h hg ctx).g1.acc

/-! ## C03, the start-order clause of `Spec_C03_accepts` - without "no NonAsyncContext exists"

`Spec_C03_accepts` has three hypotheses; for the `.ret` clause ("awaited-task-left-uncomputed") `Inv.noNonAsync` IS
necessary (`Spec_C03_ret_needs_noNonAsync`).  For the start-order clause it is not: `Spec_C03_accepts_order_any` - every
clause of the C03 observer except the `.ret` clause, the start-order clause included, on every state of a well-scoped run
in which the stack guard has not fired; `Spec_C03_only_ret_any`: on such a trace `Spec.spec "C03"` can only report
"awaited-task-left-uncomputed".
Proof (`Proofs/P27Ord*.lean`): the stack invariant `P15.OrdInv` as in P15, over the NonAsync-free classifications of the
steps (`P10.Sh`, `P16.J_reach'`) and with one new invariant, `P27.DS`: every task-dependency of a flagged uncomputed
stack entry has started or lies above it.  So when `NonAsyncContext.pause()` fails the blocked task on top of the stack,
all its dependencies have started, and no mention by it was the last live witness of an unstarted task (`P15.Q.q9`).
The root of the outermost `wait_for` is under no obligation because nobody can name it (`P17.G1.rn`; P15 used
`aw_reach`, which needs the hypothesis). -/

open P15 in
/-- the stack invariant behind the start-order clause (`C03_order_invariant` without `Inv.noNonAsync`) -/
theorem C03_order_invariant_any (s : State) (h : P10.WSReach s) (hg : s.guardFired = false)
    (u : Nat) (l : List Nat) (hm : (u, l) ∈ (P14.wOf s.trace).orderObl) (p t : Nat) (hp : s.stack[p]? = some t)
    (ht : t ∈ l) (hts : (s.task t).started = false) (hs : ¬ P15.elsewhere (P14.wOf s.trace) t) :
    ∀ a ∈ l.takeWhile (· != t), (s.task a).started = true ∨ a ∈ s.stack.take p :=
  P27.ordInv_reach' h hg u l hm p t hp ht hts hs

/-- the dependencies of a blocked task at its second visit have all started (the new invariant `P27.DS`, at the top of
    the stack) -/
theorem C03_deps_started_at_second_visit (s : State) (h : P10.WSReach s) (hg : s.guardFired = false)
    (t : Nat) (stk : List Nat) (hst : s.stack = t :: stk) (hfl : (s.task t).depsSched = true)
    (hnc : s.computed t = false) (d : Nat) (hd : d ∈ (s.task t).deps) (hk : (s.fut d).kind = .task) :
    (s.task d).started = true := by
  rcases (P27.QD_reach h hg).2 [] t stk (by rw [hst]; rfl) hfl hnc d hd hk with h1 | h1
  · exact h1
  · cases h1

open P15 in
/-- the task whose generator frame has just been pushed is the top of the stack, so the clause holds when it starts -/
theorem C03_order_at_start_any (s : State) (h : P10.WSReach s) (hg : s.guardFired = false)
    (t : Nat) (old : Option Nat) (rest : List Ctl) (hctl : s.ctl = .gen t old :: rest)
    (hts : (s.task t).started = false) :
    P15.elsewhere (P14.wOf s.trace) t ∨ P15.orderBad (P14.wOf s.trace) t = false := by
  have oi := P27.ordInv_reach' h hg
  have r := R_reach h.reach
  have hd := (P16.lib'_of_ws h hg).disc
  rw [hctl] at hd
  have hhead : s.stack[0]? = some t := by
    have := hd.1
    cases hs : s.stack with
    | nil => rw [hs] at this; cases this
    | cons x xs => rw [hs] at this; simpa using this
  by_cases he : elsewhere (P14.wOf s.trace) t
  · exact Or.inl he
  · right
    unfold orderBad
    rw [List.any_eq_false]
    rintro ⟨u, l⟩ hm
    simp only [Bool.and_eq_true, List.contains_eq_mem, decide_eq_true_eq, List.any_eq_true, Bool.not_eq_true',
      not_and, not_exists]
    intro htl a ha
    rcases oi u l hm 0 t hhead htl hts he a ha with h1 | h1
    · rw [r.started a, h1]; simp
    · simp at h1

open P15 in
/-- the simulation relation with the start-order clause (`R true false`) -/
theorem C03_R_order_any {s : State} (h : P10.WSReach s) (hg : s.guardFired = false) : R true false s := by
  induction h with
  | init cfg tops choices _ => exact R_init cfg tops choices
  | @step s hs ih =>
    have hg0 := P3.guard_mono s hg
    exact R_step (ih hg0) (P2.pinv_reach hs.reach).items
      (fun t old rest _ hctl => genOK_of_false (genOK_reach hs.reach hctl)
        (fun _ _ hst => C03_order_at_start_any s hs hg0 t old rest hctl hst))
      (fun _ _ _ _ hr => by cases hr)

open P15 in
/-- **Spec_C03_accepts_order_any**: every clause of the C03 observer except the `.ret` clause - the START-ORDER clause
    included - on the trace of every state of a well-scoped run in which the stack guard has not fired; NonAsyncContexts
    allowed -/
theorem Spec_C03_accepts_order_any (s : State) (h : P10.WSReach s) (hg : s.guardFired = false) (c : Spec.Ctx) :
    Spec.specRun (P15.chkC true false) c {} 0 s.trace.reverse = none :=
  (specRun_iff_okTr3 true false c s.trace).2 (C03_R_order_any h hg).ok

/-- the same for the run of the machine on `tops` with flush oracle `choices` -/
theorem Spec_C03_accepts_order_run_any (cfg : Cfg) (tops : List (Conv × Body)) (choices : List (Nat × Nat)) (n : Nat)
    (hw : ∀ p, p ∈ tops → P10.WellScoped p.2 0 0 = true)
    (hg : (runFuel n (initState cfg tops choices)).guardFired = false) :
    Spec.specRun (P15.chkC true false) (Spec.mkCtx cfg tops) {} 0
      (runFuel n (initState cfg tops choices)).trace.reverse = none :=
  Spec_C03_accepts_order_any _ (wsreach_of_reachFrom (P13.reachFrom_runFuel _ n) hw) hg _

open P15 in
/-- `chk3 true true` can only add the `.ret` message to `chk3 true false` -/
theorem C03_chk3_msg_ret (w : Spec.Watch) (e : Event) (h1 : chk3 true false w e = none) (m : String)
    (h2 : chk3 true true w e = some m) : m = "awaited-task-left-uncomputed" := by
  cases e with
  | ret o =>
    simp only [chk3, Bool.true_and] at h2
    split at h2
    · injection h2 with h2; exact h2.symm
    · cases h2
  | run t i dc recv =>
    have : chk3 true true w (.run t i dc recv) = chk3 true false w (.run t i dc recv) := rfl
    rw [this, h1] at h2; cases h2
  | yield t i y =>
    have : chk3 true true w (.yield t i y) = chk3 true false w (.yield t i y) := rfl
    rw [this, h1] at h2; cases h2
  | done f o =>
    have : chk3 true true w (.done f o) = chk3 true false w (.done f o) := rfl
    rw [this, h1] at h2; cases h2
  | bad x =>
    have : chk3 true true w (.bad x) = chk3 true false w (.bad x) := rfl
    rw [this, h1] at h2; cases h2
  | _ => simp [chk3] at h2

open P15 in
/-- **Spec_C03_only_ret_any**: whatever the executable `Spec.spec "C03"` reports on the trace of a well-scoped run in
    which the stack guard has not fired is "awaited-task-left-uncomputed" - the clause for which `Inv.noNonAsync` is
    necessary (`Spec_C03_ret_needs_noNonAsync`); never "start-order" -/
theorem Spec_C03_only_ret_any (s : State) (h : P10.WSReach s) (hg : s.guardFired = false) (c : Spec.Ctx)
    (i : Nat) (msg : String) (hv : Spec.spec "C03" c s.trace.reverse = some (i, msg)) :
    msg = "awaited-task-left-uncomputed" := by
  unfold Spec.spec at hv
  rw [checkOf_C03] at hv
  have hacc := Spec_C03_accepts_order_any s h hg c
  generalize s.trace.reverse = l at hv hacc
  generalize ({} : Spec.Watch) = w at hv hacc
  generalize (0 : Nat) = j at hv hacc
  induction l generalizing w j with
  | nil => simp [Spec.specRun] at hv
  | cons e l ih =>
    simp only [Spec.specRun] at hacc hv
    cases h1 : chkC true false c w e with
    | some m => rw [h1] at hacc; cases hacc
    | none =>
      rw [h1] at hacc
      cases h2 : Spec.checkC03 c w e with
      | none => rw [h2] at hv; exact ih _ _ hv hacc
      | some m =>
        rw [h2] at hv
        injection hv with hv; injection hv with _ hv; subst hv
        rw [← chk3_full] at h2
        exact C03_chk3_msg_ret w e h1 m h2

/-! ### non-vacuity for the start-order clause -/

/-- task 1 enters a NonAsyncContext, creates tasks 2 and 3 (each blocks on a batch item) and yields `[2, 3]`: the
    observer records the obligation `(1, [2, 3])`; task 2 starts before task 3; at its second visit task 1 is failed by
    `NonAsyncContext.pause()` - both of its dependencies have started by then (`P27.DS`) -, the root handles the error,
    tasks 2 and 3 are left uncomputed -/
def NoNA_ordProg : Body :=
  .spawn (.withCtx .nonasync
      (.spawn (.item 0 1 .ok (.yld (.f (.own 0)) (.ret 3) (.ret 4))) []
        (.spawn (.item 0 2 .ok (.yld (.f (.own 0)) (.ret 5) (.ret 6))) []
          (.yld (.lst [.f (.own 0), .f (.own 1)]) .endwith .endwith))) (.ret 2)) []
    (.yld (.f (.own 0)) (.ret 0) (.ret 1))

def NoNA_ordRun (n : Nat) : State := runFuel n (initState {} [(.value, NoNA_ordProg)] [])

theorem NoNA_ordRun_ws (n : Nat) : P10.WSReach (NoNA_ordRun n) :=
  wsreach_of_reachFrom (P13.reachFrom_runFuel _ n) (by intro p hp; simp at hp; subst hp; decide)

example : (NoNA_ordRun 300).isDone = true ∧ (NoNA_ordRun 300).stuck = none ∧ (NoNA_ordRun 300).guardFired = false ∧
    (P14.wOf (NoNA_ordRun 300).trace).orderObl = [(3, []), (2, []), (1, [2, 3]), (0, [1])] ∧
    ((NoNA_ordRun 300).trace.reverse.filterMap fun e => match e with
      | .run t 0 _ _ => some t | _ => none) = [0, 1, 2, 3] ∧
    Event.done 1 (.err .nonasync) ∈ (NoNA_ordRun 300).trace := by decide +kernel

/-- state 28: task 1 is on top of the stack for its second visit, flagged, blocked on tasks 2 and 3, with a registered
    NonAsyncContext; the step fails it; its dependencies have started - by evaluation and by the theorem -/
example : (NoNA_ordRun 28).stack = [1, 0] ∧ ((NoNA_ordRun 28).task 1).depsSched = true ∧
    ((NoNA_ordRun 28).task 1).deps = [3, 2] ∧ (NoNA_ordRun 28).computed 2 = false ∧
    (NoNA_ordRun 28).computed 3 = false ∧ (NoNA_ordRun 28).out 1 = none ∧
    (NoNA_ordRun 29).out 1 = some (.err .nonasync) ∧
    ((NoNA_ordRun 28).task 2).started = true ∧ ((NoNA_ordRun 28).task 3).started = true := by decide +kernel
example : ((NoNA_ordRun 28).task 3).started = true :=
  C03_deps_started_at_second_visit _ (NoNA_ordRun_ws 28) (by decide +kernel) 1 [0] (by decide +kernel)
    (by decide +kernel) (by decide +kernel) 3 (by decide +kernel) (by decide +kernel)

/-- the observer without the `.ret` clause accepts the run (the start-order clause included): by the theorem -/
example : Spec.specRun (P15.chkC true false) (Spec.mkCtx {} [(.value, NoNA_ordProg)]) {} 0
    (NoNA_ordRun 300).trace.reverse = none :=
  Spec_C03_accepts_order_run_any {} _ [] 300 (by intro p hp; simp at hp; subst hp; decide) (by decide +kernel)
/-- the full observer reports the `.ret` clause - the one message `Spec_C03_only_ret_any` allows, and the one for which
    `Inv.noNonAsync` is necessary -/
example : Spec.spec "C03" (Spec.mkCtx {} [(.value, NoNA_ordProg)]) (NoNA_ordRun 300).trace.reverse =
    some (20, "awaited-task-left-uncomputed") := by decide +kernel

/-! ### non-vacuity for C07 / C06b -/

/-- the parent overrides variable 1 and awaits two children; child 1 overrides it again, enters a NonAsyncContext and
    blocks on a batch item - it is failed by `NonAsyncContext.pause()`; child 2 overrides variable 2 and blocks on an item
    of the same batch; the parent handles the AssertionError; everybody reads -/
def NoNA_ctxProg : Body :=
  .withCtx (.override 1 10)
    (.spawn (.withCtx (.override 1 11)
        (.withCtx .nonasync (.item 0 1 .ok (.yld (.f (.own 0)) (.read 1 .endwith) (.read 1 .endwith))) .endwith)
        (.read 1 (.ret 1))) []
      (.spawn (.withCtx (.override 2 21) (.item 0 2 .ok (.yld (.f (.own 0)) (.read 2 .endwith) (.raise 0)))
          (.read 1 (.ret 2))) []
        (.yld (.tup [.f (.own 0), .f (.own 1)]) (.read 1 .endwith) (.read 1 .endwith))))
    (.read 1 (.ret 0))

def NoNA_ctxRun (n : Nat) : State := runFuel n (initState {} [(.value, NoNA_ctxProg)] [])

theorem NoNA_ctxRun_ws (n : Nat) : P10.WSReach (NoNA_ctxRun n) :=
  wsreach_of_reachFrom (P13.reachFrom_runFuel _ n) (by intro p hp; simp at hp; subst hp; decide)

/-- the run is complete, not stuck, the guard has not fired, a NonAsyncContext exists, child 1 was failed -/
example : (NoNA_ctxRun 300).isDone = true ∧ (NoNA_ctxRun 300).stuck = none ∧ (NoNA_ctxRun 300).guardFired = false ∧
    Inv.noNonAsync (NoNA_ctxRun 300) = false ∧ Event.done 1 (.err .nonasync) ∈ (NoNA_ctxRun 300).trace := by
  decide +kernel

/-- state 13, child 1 is running inside both of its with-blocks: the resumed contexts are its override (1) and the
    parent's (0) - not the NonAsyncContext 2, which `rstack` lists; variable 1 reads the inner override -/
example : P27.rstackN (NoNA_ctxRun 13) = [1, 0] ∧ P7.rstack (NoNA_ctxRun 13) = [2, 1, 0] ∧
    P7.lifo (NoNA_ctxRun 13).trace = some [1, 0] ∧ (NoNA_ctxRun 13).svGet 1 = 11 := by decide +kernel
example : P7.lifo (NoNA_ctxRun 13).trace = some (P27.rstackN (NoNA_ctxRun 13)) :=
  (C07_lifo_any _ (NoNA_ctxRun_ws 13) (by decide +kernel)).1
example : (NoNA_ctxRun 13).svGet 1 = P7.expect (NoNA_ctxRun 13) (P7.rstack (NoNA_ctxRun 13)) 1 :=
  (C07_values_any _ (NoNA_ctxRun_ws 13) (by decide +kernel)).1 1

/-- the failing suspension: the live context of child 1 is paused, then both of its with-blocks are left without further
    pauses, then it is completed with the AssertionError; the parent reads 10 in its handler and 0 after its block -/
example : ((NoNA_ctxRun 300).trace.reverse.filter fun e => match e with
      | .ctx _ _ | .ctxX _ | .done 1 _ => true | _ => false) =
    [.ctx true 0, .ctx true 1, .ctx false 1, .ctxX 2, .ctxX 1, .done 1 (.err .nonasync), .ctx true 3, .ctx false 3,
     .ctx false 0, .ctx true 0, .ctx true 3, .ctx false 3, .ctxX 3, .ctx false 0, .ctxX 0] ∧
    ((NoNA_ctxRun 300).trace.reverse.filterMap fun e => match e with | .read t v x => some (t, v, x) | _ => none) =
    [(2, 2, .a 21), (2, 1, .a 10), (0, 1, .a 10), (0, 1, .a 0)] := by decide +kernel

/-- the observer of C07 accepts the run, by the theorem (the driver evaluates the same observer: `SPECM=ok`) -/
example : Spec.spec "C07" (Spec.mkCtx {} [(.value, NoNA_ctxProg)]) (NoNA_ctxRun 300).trace.reverse = none :=
  Spec_C07_accepts_run_any {} _ [] 300 (by intro p hp; simp at hp; subst hp; decide) (by decide +kernel)
/-- after the computation every scoped value is back to its default -/
example : ∀ var, (NoNA_ctxRun 300).svGet var = 0 :=
  C07_restored_at_top_any _ (NoNA_ctxRun_ws 300) (by decide +kernel) (by decide +kernel)

/-- C06b: in state 21 the code of child 2 runs; contexts 0 (the parent's) and 3 (its own) are resumed; the theorem says
    that the owner of context 0 waits for task 2 -/
example : (NoNA_ctxRun 21).ctl = [.gen 2 none, .waitLoop 0 0] ∧
    ((NoNA_ctxRun 21).ctxs.map fun x => (x.kind, x.owner, x.resumed)) =
      [(.override 1 10, some 0, true), (.override 1 11, some 1, false), (.nonasync, some 1, false),
       (.override 2 21, some 2, true)] := by decide +kernel
example : ∃ t, (some 0 : Option Nat) = some t ∧ 0 ∈ ((NoNA_ctxRun 21).task t).ctxs ∧ P12.awaitsStar (NoNA_ctxRun 21) t 2 := by
  have hx : (NoNA_ctxRun 21).ctxs[0]? = some { kind := .override 1 10, owner := some 0, old := 0, resumed := true } := by
    decide +kernel
  exact C06_resumed_implies_awaiting_any _ (NoNA_ctxRun_ws 21) (by decide +kernel) 0 _ hx rfl 2 none [.waitLoop 0 0]
    (by decide +kernel)

end AsynqModel.Core
