import AsynqModel.Proofs.P13C08
/-!
# The executable observer of C08 accepts the traces of the machine

`Spec.checkC08` (`Core/Spec.lean`) is the observer the checks run on the trace of the REAL scheduler; the driver also
runs it on the trace of the model.  Here: it raises no clause on the trace of any reachable state of the machine whose
MAX_TASK_STACK_SIZE guard has not fired.  The trace is stored newest first, the observer reads it oldest first
(`s.trace.reverse`).

Clauses: `active t seen` with `seen ≠ some t` ("active-task-is-not-the-running-task"); `sched same n nb live a` with
`!same` ("scheduler-replaced"), `n ≠ 0` ("scheduler-retains-tasks"), `live ≠ 0` ("scheduler-retains-pending-batch"),
`a ≠ none` ("active-task-not-cleared"); `bad _` ("unknown-event").

The clause "scheduler-retains-pending-batch" has NO unconditional theorem: that no scheduled, non-empty, unflushed
batch is left when an outermost call returns follows (informally) from "a task that made the scheduler schedule a batch
stays blocked until the batch is flushed, and the root cannot complete before it" - which fails for a task failed while
suspended by a NonAsyncContext (recorded known finding), and whose proof for NonAsyncContext-free programs needs the
depth-first-search invariant of `_execute` for programs with synchronous calls, which nobody has proved
(`Proofs/P6*` has it for yield-only programs only).  So:

* `Spec_C08_accepts`: the full observer, for runs in which that is the case - as a hypothesis on the snapshots in the
  trace (`P13.liveOK`, decidable on a concrete run), or on the states of the run (`P13.ReachC`);
* `Spec_C08_accepts_partial`: the observer without that one clause (`P13.checkC08r`), no extra hypothesis.

FULL STATEMENT AS ASSIGNED (not proved): `Reach s → s.guardFired = false → Inv.noNonAsync s = true →
Spec.specRun Spec.checkC08 ctx {} 0 s.trace.reverse = none`.
-/
namespace AsynqModel.Core
open AsynqModel.Core.P13

/-- The observer of C08 raises nothing on the trace of a reachable state, if the guard has not fired and every
    scheduler snapshot in the trace reports `live = 0`. -/
theorem Spec_C08_accepts (s : State) (h : Reach s) (hg : s.guardFired = false) (hlive : liveOK s.trace = true)
    (ctx : Spec.Ctx) : Spec.specRun Spec.checkC08 ctx {} 0 s.trace.reverse = none :=
  (specRun_none_iff _ _ _).2
    (acc_of_forall _ _ _ fun e he w => c08_event h hg ((liveOK_iff _).1 hlive) ctx w e he)

/-- the same through `Spec.spec` -/
theorem Spec_C08_accepts_spec (s : State) (h : Reach s) (hg : s.guardFired = false) (hlive : liveOK s.trace = true)
    (ctx : Spec.Ctx) : Spec.spec "C08" ctx s.trace.reverse = none :=
  Spec_C08_accepts s h hg hlive ctx

/-- The hypothesis on the trace follows from one on the states of the run: whenever an outermost call returns
    (`ctl = []`, `curTop ≠ none`), no scheduled, non-empty, unflushed batch is left (`flushable = []`). -/
theorem Spec_C08_accepts_clean (s : State) (h : ReachC s) (hg : s.guardFired = false) (ctx : Spec.Ctx) :
    Spec.specRun Spec.checkC08 ctx {} 0 s.trace.reverse = none :=
  Spec_C08_accepts s h.reach hg h.liveOK ctx

/-- All clauses except "scheduler-retains-pending-batch": every reachable state whose guard has not fired. -/
theorem Spec_C08_accepts_partial (s : State) (h : Reach s) (hg : s.guardFired = false) (ctx : Spec.Ctx) :
    Spec.specRun checkC08r ctx {} 0 s.trace.reverse = none :=
  (specRun_none_iff _ _ _).2 (acc_of_forall _ _ _ fun e he w => c08r_event h hg ctx w e he)

/-- where the `live` counts come from: a step adds a snapshot only when an outermost call returns, and its `live`
    count is the number of scheduled, non-empty, unflushed batches of that state -/
theorem Spec_C08_live_source (s : State) (same : Bool) (n nb live : Nat) (a : Option Nat)
    (hm : Event.sched same n nb live a ∈ (step s).trace) :
    Event.sched same n nb live a ∈ s.trace ∨ (s.ctl = [] ∧ (∃ f, s.curTop = some f) ∧ live = s.flushable.length) :=
  sched_of_step s hm

/-! ## non-vacuity -/

/-- the observer does reject: a wrong active task, a snapshot with a task left -/
example : Spec.spec "C08" (Spec.mkCtx {} []) [.active 1 (some 0)] = some (0, "active-task-is-not-the-running-task") := by
  decide
example : Spec.spec "C08" (Spec.mkCtx {} []) [.sched true 0 1 1 none] = some (0, "scheduler-retains-pending-batch") := by
  decide
/-- ... and the restricted observer differs from it only there -/
example : Spec.specRun checkC08r (Spec.mkCtx {} []) {} 0 [.sched true 0 1 1 none] = none ∧
    Spec.specRun checkC08r (Spec.mkCtx {} []) {} 0 [.sched true 1 0 0 none] = some (0, "scheduler-retains-tasks") := by
  decide

/-- a concrete run with a nested synchronous call and three `active` observations (`Theorems/C08.lean`): the
    hypotheses hold, the trace contains events of both kinds the observer checks -/
def SpecC08_run : State :=
  runFuel 200 (initState {} [(.value, .active (.sync (.active (.ret 1)) [] (.active (.ret 2)) (.ret 3)))] [])

example : SpecC08_run.isDone = true ∧ SpecC08_run.stuck = none ∧ SpecC08_run.guardFired = false ∧
    liveOK SpecC08_run.trace = true ∧ Event.sched true 0 0 0 none ∈ SpecC08_run.trace ∧
    Event.active 1 (some 1) ∈ SpecC08_run.trace := by decide

example : Spec.spec "C08" (Spec.mkCtx {} []) SpecC08_run.trace.reverse = none :=
  Spec_C08_accepts_spec _ (reach_runFuel _ _ _ _) (by decide) (by decide) _

/-- the same by evaluation of the observer -/
example : Spec.spec "C08" (Spec.mkCtx {} []) SpecC08_run.trace.reverse = none := by decide +kernel

/-- a run with two batches (`Proofs/P1Block.lean`): both are flushed before the call returns, `live = 0` -/
example : liveOK (runFuel 100 P1.demoInit).trace = true ∧ (runFuel 100 P1.demoInit).guardFired = false ∧
    Event.sched true 0 0 0 none ∈ (runFuel 100 P1.demoInit).trace := by decide

/-- `guardFired = false` is needed: after a guard reset a task observes `get_active_task() = None`
    (`Theorems/C08.lean`, `C08_guardRun`), and the observer rejects that trace -/
example : (Spec.spec "C08" (Spec.mkCtx {} [])
    (runFuel 100 (initState { maxStack := 1 } [(.value, .sync (.ret 1) [] (.active (.ret 2)) (.active (.ret 3)))] [])).trace.reverse).isSome
    = true := by decide +kernel

/-- the hypothesis on `live` is needed in general (the recorded known finding, reproduced by the model): a task
    inside a NonAsyncContext yields a batch item; when the scheduler suspends it the context raises, the task - the
    root - is failed, the call returns, and its batch stays scheduled: `live = 1`, the observer objects -/
def SpecC08_nonasync : State :=
  runFuel 100 (initState {} [(.value, .withCtx .nonasync (.item 0 1 .ok (.yld (.f (.own 0)) (.ret 1) (.ret 2))) (.ret 3))] [])

example : SpecC08_nonasync.isDone = true ∧ SpecC08_nonasync.stuck = none ∧ SpecC08_nonasync.guardFired = false ∧
    Inv.noNonAsync SpecC08_nonasync = false ∧ liveOK SpecC08_nonasync.trace = false ∧
    Spec.spec "C08" (Spec.mkCtx {} []) SpecC08_nonasync.trace.reverse = some (9, "scheduler-retains-pending-batch") := by
  decide +kernel
/-- ... while the restricted observer accepts it -/
example : Spec.specRun checkC08r (Spec.mkCtx {} []) {} 0 SpecC08_nonasync.trace.reverse = none :=
  Spec_C08_accepts_partial _ (reach_runFuel _ _ _ _) (by decide) _

end AsynqModel.Core
