import AsynqModel.Theorems.C10
/-!
# C10b  The C10 observer checks EVERY position of a recorded history

`Theorems/C10.lean` proves what ONE accepted step of the observer enforces (`C10_spec_enforces_*`: hypotheses
`watchStep k w ob = .ok w'`).  This file lifts them to whole histories of any length and origin (also the records of a
changed library): an accepted history is accepted at every position - every record in it went through `watchStep` from
the watch state its predecessors built, and was accepted there - and acceptance is prefix-closed.
-/
namespace AsynqModel.Futures

theorem watchRun_append (k : Kind) (w : Watch) (a b : List Obs) :
    watchRun k w (a ++ b) = (match watchRun k w a with
      | .ok w' => watchRun k w' b
      | .error e => .error e) := by
  induction a generalizing w with
  | nil => simp [watchRun]
  | cons ob obs ih =>
    simp only [List.cons_append, watchRun]
    cases watchStep k w ob with
    | ok w' => simp only [ih]
    | error e => rfl

/-- acceptance is prefix-closed -/
theorem C10_spec_prefix (k : Kind) (a b : List Obs) (h : spec k (a ++ b) = true) : spec k a = true := by
  simp only [spec, watchRun_append] at h ⊢
  cases hw : watchRun k (watchInit k) a with
  | ok w => rfl
  | error e => simp [hw] at h

/-- **every record of an accepted history was accepted by `watchStep`** from the watch state built by the records
    before it: the `C10_spec_enforces_*` theorems apply at every position -/
theorem C10_spec_every_step (k : Kind) (pre post : List Obs) (ob : Obs) (h : spec k (pre ++ ob :: post) = true) :
    ∃ w w', watchRun k (watchInit k) pre = .ok w ∧ watchStep k w ob = .ok w' := by
  simp only [spec, watchRun_append] at h
  cases hw : watchRun k (watchInit k) pre with
  | error e => simp [hw] at h
  | ok w =>
    simp only [hw, watchRun] at h
    cases hs : watchStep k w ob with
    | error e => simp [hs] at h
    | ok w' => exact ⟨w, w', rfl, hs⟩

/-- a single rejected record anywhere rejects the whole history -/
theorem C10_spec_rejects (k : Kind) (pre post : List Obs) (ob : Obs) (w : Watch) (e : String)
    (hp : watchRun k (watchInit k) pre = .ok w) (hs : watchStep k w ob = .error e) :
    spec k (pre ++ ob :: post) = false := by
  simp only [spec, watchRun_append, hp, watchRun, hs]

/-- non-vacuity: the hypothesis of `C10_spec_every_step` is met by EVERY history of the model, at every position -/
theorem C10_model_every_step (k : Kind) (c : Cfg) (ops : List Op) (hstats : k.isTask = true → c.statsOk = true)
    (pre post : List Obs) (ob : Obs) (hsplit : run (init k c) ops = pre ++ ob :: post) :
    ∃ w w', watchRun k (watchInit k) pre = .ok w ∧ watchStep k w ob = .ok w' :=
  C10_spec_every_step k pre post ob (hsplit ▸ C10_spec_holds k c ops hstats)

end AsynqModel.Futures
