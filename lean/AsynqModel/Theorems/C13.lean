import AsynqModel.Lib.Cache
import AsynqModel.Proofs.Cache
/-!
# C13  Async caches behave like their reference cache for every call history

Theorems about the model `AsynqModel.Cache` (alru_cache over qcore's LRUCache, acached_per_instance, alazy_constant,
and the key construction of qcore.caching.get_args_tuple over the argument-name lists as written in tools.py).

The reference is `spec`: a cache keyed on the call's normalised arguments (Python's own binding) - or on key_fn's
result - that returns the stored value without running the body on a hit, runs the body exactly once on a miss,
never stores a failure, keeps the `maxsize` most recently used entries, one independent cache per live instance,
and one recomputation after dirty() / ttl expiry.

-/
namespace AsynqModel.Cache

/-! ## Keys: "calls whose arguments differ in any parameter never receive each other's values" -/

/-- for EVERY signature, EVERY valid way of spelling a call (positional / keyword in any order / default omitted /
    keyword-only), `get_args_tuple` over the full parameter-name list `pos ++ kwonly` returns exactly the call's
    normalised arguments: the value of every parameter in declaration order.  (This is the construction of
    acached_per_instance - `args[1:]` there really removes `self` - and of deduplicate.) -/
theorem C13_key_normal (pos kwonly : List Name) (dflts : List (Name × Nat)) (c : Call) (b : List Nat)
    (h : bind pos kwonly dflts c = some b) :
    getArgsTuple c.args c.kwargs (pos ++ kwonly) dflts = some (b.map .val) :=
  getArgsTuple_of_bind pos kwonly dflts c b h

/-- acached_per_instance: for every method signature and any two valid calls, however spelled, the keys are equal
    exactly when the calls bind every parameter to the same value (injective AND spelling-insensitive) -/
theorem C13_key_injective (s : Sig) (c1 c2 : Call) (b1 b2 : List Nat)
    (h1 : perInstBind s c1 = some b1) (h2 : perInstBind s c2 = some b2) :
    perInstKey s c1 = perInstKey s c2 ↔ b1 = b2 := by
  have e1 : perInstKey s c1 = some (b1.map .val) := getArgsTuple_of_bind _ _ _ c1 b1 h1
  have e2 : perInstKey s c2 = some (b2.map .val) := getArgsTuple_of_bind _ _ _ c2 b2 h2
  rw [e1, e2]
  constructor
  · intro h; exact map_val_injective (Option.some.inj h)
  · intro h; rw [h]

/-- alru_cache's default key is the normalised argument tuple for every signature and every valid spelling -/
theorem C13_alru_key_normal (s : Sig) (c : Call) (b : List Nat) (h : alruBind s c = some b) :
    alruKey .default s c = some (b.map .val) :=
  getArgsTuple_of_bind _ _ _ c b h

/-! ## alru_cache -/

/-- with the default key: for every signature, every maxsize ≥ 1 and EVERY history of calls that are valid (spelled in
    any way) or fail in the key construction, the observations of the model are accepted by `Alru.spec` -/
theorem C13_alru_refines (s : Sig) (cap : Nat) (hcap : 1 ≤ cap) (ops : List Alru.Op)
    (h : ∀ op ∈ ops, alruCallOK s op.c = true) :
    Alru.spec (alruRefKey .default s) (alruBind s) cap ops
      (Alru.run (alruKey .default s) (alruBind s) (Alru.init cap) ops) = true := by
  obtain ⟨w', hw⟩ := Alru.watchRun_ok (alruKey .default s) (alruRefKey .default s) (alruBind s) cap hcap ops _ _
    (Alru.rel_init cap) (fun op ho => alruKey_agrees s op.c (h op ho))
  simp [Alru.spec, hw]

/-- with a custom key_fn: for every key function, signature, maxsize ≥ 1 and EVERY history (any spelling, malformed
    calls included) alru_cache refines the reference cache keyed on key_fn's result -/
theorem C13_alru_refines_keyfn (kf : Call → Option Key) (bd : Call → Option (List Nat)) (cap : Nat) (hcap : 1 ≤ cap)
    (ops : List Alru.Op) :
    Alru.spec kf bd cap ops (Alru.run kf bd (Alru.init cap) ops) = true := by
  obtain ⟨w', hw⟩ := Alru.watchRun_ok kf kf bd cap hcap ops _ _ (Alru.rel_init cap) (fun _ _ => rfl)
  simp [Alru.spec, hw]

/-- the former defect (`argspec.args[1:]`): `f(1, b=5)` and `f(1, b=6)` on `def f(a, b=0)` now get different keys -/
example : alruKey .default ⟨[1, 2], [0], [], []⟩ ⟨[1], [(2, 5)]⟩ ≠ alruKey .default ⟨[1, 2], [0], [], []⟩ ⟨[1], [(2, 6)]⟩ := by
  decide

/-- never more than maxsize entries, and no key twice - for every key function and every history -/
theorem C13_alru_size_le_maxsize (mk : Call → Option Key) (bd : Call → Option (List Nat)) (cap : Nat) (hcap : 1 ≤ cap)
    (ops : List Alru.Op) :
    (Alru.finalState mk bd (Alru.init cap) ops).cache.items.length ≤ cap ∧
      KeysNodup (Alru.finalState mk bd (Alru.init cap) ops).cache.items := by
  obtain ⟨w', h⟩ := Alru.inv_final mk bd cap hcap ops _ _ (Alru.rel_init cap)
  exact ⟨h.len, h.nodup⟩

/-- a hit returns the stored value, does not run the body and makes the entry the most recently used -/
theorem C13_alru_hit (mk : Call → Option Key) (bd : Call → Option (List Nat)) (st : Alru.St) (op : Alru.Op)
    (k : Key) (v : Val) (hk : mk op.c = some k) (hl : st.cache.items.lookup k = some v) :
    (Alru.step mk bd st op).2 = .ok v ∧ (Alru.step mk bd st op).1.runs = st.runs ∧
      (Alru.step mk bd st op).1.cache.items = del k st.cache.items ++ [(k, v)] := by
  rw [Alru.step_hit hk hl]; exact ⟨rfl, rfl, rfl⟩

/-- a miss runs the body exactly once, returns its fresh result, stores it as the most recently used entry and, iff
    the cache is full, evicts exactly the least recently used entry (the head of the recency list) -/
theorem C13_alru_miss (mk : Call → Option Key) (bd : Call → Option (List Nat)) (st : Alru.St) (op : Alru.Op)
    (k : Key) (b : List Nat) (hk : mk op.c = some k) (hl : st.cache.items.lookup k = none) (hb : bd op.c = some b)
    (hr : op.raises = false) :
    (Alru.step mk bd st op).2 = .ok ⟨st.runs + 1, b⟩ ∧ (Alru.step mk bd st op).1.runs = st.runs + 1 ∧
      (Alru.step mk bd st op).1.cache.items =
        (if st.cache.items.length = st.cache.cap then st.cache.items.drop 1 else st.cache.items) ++
          [(k, ⟨st.runs + 1, b⟩)] := by
  rw [Alru.step_store hk hl hb hr]
  refine ⟨rfl, rfl, ?_⟩
  simp only [LRU.setItem, hl, Option.isSome_none, Bool.false_eq_true, if_false]
  by_cases hfull : st.cache.items.length = st.cache.cap
  · simp [hfull]
  · have hb' : (st.cache.items.length == st.cache.cap) = false := by simpa using hfull
    simp [hb', hfull]

/-- a body that raises is not cached: the exception reaches the caller and the cache is unchanged -/
theorem C13_alru_raise_not_stored (mk : Call → Option Key) (bd : Call → Option (List Nat)) (st : Alru.St) (op : Alru.Op)
    (k : Key) (b : List Nat) (hk : mk op.c = some k) (hl : st.cache.items.lookup k = none) (hb : bd op.c = some b)
    (hr : op.raises = true) :
    (Alru.step mk bd st op).2 = .raisedUser (st.runs + 1) ∧ (Alru.step mk bd st op).1.cache = st.cache := by
  rw [Alru.step_raise hk hl hb hr]; exact ⟨rfl, rfl⟩

/-- least-recently-USED, not first-in: after ANY history, a call on key `k` that returned `v` (hit or fresh) keeps
    `k ↦ v` cached through the next `maxsize - 1` calls, whatever they are -/
theorem C13_alru_recently_used_kept (mk : Call → Option Key) (bd : Call → Option (List Nat)) (cap : Nat) (hcap : 1 ≤ cap)
    (hist : List Alru.Op) (op : Alru.Op) (k : Key) (v : Val) (later : List Alru.Op)
    (hk : mk op.c = some k)
    (hres : (Alru.step mk bd (Alru.finalState mk bd (Alru.init cap) hist) op).2 = .ok v)
    (hl : later.length + 1 ≤ cap) :
    (Alru.finalState mk bd (Alru.init cap) (hist ++ op :: later)).cache.items.lookup k = some v := by
  obtain ⟨w, hrel⟩ := Alru.inv_final mk bd cap hcap hist _ _ (Alru.rel_init cap)
  obtain ⟨w', _, hrel'⟩ := Alru.rel_step mk mk bd cap hcap w _ op hrel rfl
  have hw := Alru.within_after_ok mk bd _ op k v hk hres
  rw [Alru.finalState_append]
  simp only [Alru.finalState]
  exact Alru.within_run mk bd cap k v later w' _ 0 hrel' hcap (by simpa [Alru.observe] using hw) (by omega)

/-! ## acached_per_instance -/

/-- for every method signature and EVERY history of calls on any number of instances and instance drops, in which
    each call is valid (spelled in any way), or fails in the key construction ("Missing argument"), or carries an
    unexpected keyword, the model is accepted by the observer `PerInst.spec`: one reference cache `Key → Option Val`
    per live instance, keyed on the normalised arguments; a call Python cannot bind raises TypeError and runs nothing -/
theorem C13_per_instance_refines (s : Sig) (ops : List PerInst.Op)
    (h : ∀ i c r, PerInst.Op.call i c r ∈ ops → perInstCallOK s c = true) :
    PerInst.spec (perInstRefKey s) (perInstBind s) ops
      (PerInst.run (perInstKey s) (perInstBind s) PerInst.init ops) = true := by
  obtain ⟨w', hw⟩ := PerInst.watchRun_ok' (perInstKey s) (perInstRefKey s) (perInstBind s) ops _ _ PerInst.rel_init
    PerInst.good_init (fun i c r ho => perInst_agree s c (h i c r ho))
  simp [PerInst.spec, hw]

/-- per-instance caches are independent: nothing done to instance `i` changes the cache of another instance -/
theorem C13_instances_independent (mk : Call → Option Key) (bd : Call → Option (List Nat)) (st : PerInst.St)
    (i j : Nat) (hij : j ≠ i) (c : Call) (r : Bool) :
    PerInst.cacheOf (PerInst.step mk bd st (.call i c r)).1 j = PerInst.cacheOf st j ∧
      PerInst.cacheOf (PerInst.step mk bd st (.drop i)).1 j = PerInst.cacheOf st j := by
  constructor
  · have he : ∀ n, PerInst.cacheOf { insts := PerInst.ensure st.insts i, runs := n } j = PerInst.cacheOf st j := by
      intro n; simp only [PerInst.cacheOf, PerInst.ensure_getD]
    rw [PerInst.step_call_eq]
    simp only []
    cases mk c with
    | none => exact he _
    | some k =>
      simp only []
      cases (PerInst.cacheOf st i).lookup k with
      | some v => exact he _
      | none =>
        simp only []
        cases bd c with
        | none => exact he _
        | some b =>
          cases r with
          | true => exact he _
          | false =>
            simp only [PerInst.cacheOf, PerInst.lookup_store, hij, if_false, Bool.false_eq_true, PerInst.ensure_getD]
  · simp only [PerInst.step, PerInst.cacheOf, PerInst.lookup_filter_ne, hij, if_false]

/-- ... and vanish with their instance: after the drop the instance has no entry (a later call on a new instance
    that reuses the token starts from an empty cache) and exactly that entry is gone -/
theorem C13_instance_drop (mk : Call → Option Key) (bd : Call → Option (List Nat)) (st : PerInst.St) (i : Nat) :
    (PerInst.step mk bd st (.drop i)).1.insts.lookup i = none ∧
      (PerInst.step mk bd st (.drop i)).1.insts.map (·.1) = (st.insts.map (·.1)).filter (· != i) := by
  simp only [PerInst.step, PerInst.lookup_filter_ne, if_true, PerInst.map_fst_filter, and_self]

/-! ## alazy_constant -/

/-- for every ttl, every start of the clock ≥ 1 and EVERY history of calls (returning or raising bodies of any
    duration), dirty() and clock ticks, the model is accepted by the observer `Lazy.spec`: the stored value while
    `now ≤ stored_at + ttl` (or forever if ttl = 0), exactly one recomputation otherwise -/
theorem C13_lazy_refines (ttl t0 : Nat) (h : 1 ≤ t0) (ops : List Lazy.Op) :
    Lazy.spec ttl t0 ops (Lazy.run ttl (Lazy.init t0) ops) = true := by
  obtain ⟨w', hw⟩ := Lazy.watchRun_ok ttl ops _ _ (Lazy.rel_init ttl t0 h)
  simp [Lazy.spec, hw]

/-- dirty() forces exactly one recomputation: the next call runs the body once, the call after it does not -/
theorem C13_lazy_dirty_once (ttl : Nat) (st : Lazy.St) (hnow : 1 ≤ st.now) (dur : Nat) (r2 : Bool) (dur2 : Nat) :
    let s1 := (Lazy.step ttl st .dirty).1
    let s2 := Lazy.step ttl s1 (.call false dur)
    let s3 := Lazy.step ttl s2.1 (.call r2 dur2)
    s2.2 = .ok ⟨st.runs + 1, []⟩ ∧ s2.1.runs = st.runs + 1 ∧ s3.2 = .ok ⟨st.runs + 1, []⟩ ∧ s3.1.runs = st.runs + 1 := by
  have hs : Lazy.stale ttl { st with rt := 0 } = true := by simp [Lazy.stale]
  have hf : Lazy.stale ttl { rt := st.now + dur, cached := some ⟨st.runs + 1, []⟩, now := st.now + dur, runs := st.runs + 1 } = false := by
    rw [Bool.eq_false_iff, Ne, Lazy.stale_iff]; simp; omega
  simp [Lazy.step, hs, hf]

/-- ttl expiry forces exactly one recomputation, and only expiry does: an unexpired value is returned without
    running the body; once `now > refresh_time + ttl` the next call runs the body once and the call after it
    (within the new ttl) does not -/
theorem C13_lazy_ttl_once (ttl : Nat) (httl : ttl ≠ 0) (st : Lazy.St) (v : Val) (hrt : st.rt ≠ 0) (hc : st.cached = some v)
    (r : Bool) (dur : Nat) :
    (st.now ≤ st.rt + ttl →
      (Lazy.step ttl st (.call r dur)).2 = .ok v ∧ (Lazy.step ttl st (.call r dur)).1 = st) ∧
    (st.rt + ttl < st.now → ∀ r2 dur2,
      let s2 := Lazy.step ttl st (.call false dur)
      let s3 := Lazy.step ttl s2.1 (.call r2 dur2)
      s2.2 = .ok ⟨st.runs + 1, []⟩ ∧ s2.1.runs = st.runs + 1 ∧ s3.2 = .ok ⟨st.runs + 1, []⟩ ∧ s3.1.runs = st.runs + 1) := by
  constructor
  · intro hle
    have hf : Lazy.stale ttl st = false := by
      cases h : Lazy.stale ttl st with
      | false => rfl
      | true => rw [Lazy.stale_iff] at h; omega
    simp [Lazy.step, hf, hc]
  · intro hlt r2 dur2
    have hs : Lazy.stale ttl st = true := by rw [Lazy.stale_iff]; exact Or.inr ⟨httl, hlt⟩
    have hf : Lazy.stale ttl { rt := st.now + dur, cached := some ⟨st.runs + 1, []⟩, now := st.now + dur, runs := st.runs + 1 } = false := by
      rw [Bool.eq_false_iff, Ne, Lazy.stale_iff]; simp; omega
    simp [Lazy.step, hs, hf]

/-- a body that raises is not cached: the exception reaches the caller, nothing is marked fresh, and the next call
    runs the body again -/
theorem C13_lazy_raise_not_cached (ttl : Nat) (st : Lazy.St) (hs : Lazy.stale ttl st = true) (dur dur2 : Nat) :
    let s2 := Lazy.step ttl st (.call true dur)
    let s3 := Lazy.step ttl s2.1 (.call false dur2)
    s2.2 = .raisedUser (st.runs + 1) ∧ s2.1.rt = st.rt ∧ s2.1.cached = st.cached ∧
      s3.2 = .ok ⟨st.runs + 2, []⟩ ∧ s3.1.runs = st.runs + 2 := by
  have hs2 : Lazy.stale ttl { st with runs := st.runs + 1, now := st.now + dur } = true := by
    rw [Lazy.stale_iff] at hs ⊢
    rcases hs with h | h
    · exact Or.inl h
    · exact Or.inr ⟨h.1, by simp; omega⟩
  simp [Lazy.step, hs, hs2]

/-! ## non-vacuity -/

/-- every spelling of the same arguments of `m(self, a, b=0, *, k)` gets the same per-instance key -/
example : (([⟨[1], [(4, 2)]⟩, ⟨[], [(4, 2), (1, 1)]⟩, ⟨[1, 0], [(4, 2)]⟩, ⟨[], [(2, 0), (1, 1), (4, 2)]⟩] : List Call).map
    (perInstKey ⟨[9, 1, 2], [0], [4], []⟩)).all (· == some [.val 1, .val 0, .val 2]) = true := by decide

/-- a per-instance history with a hit through another spelling, a raising body, a second instance and a drop -/
example : PerInst.spec (perInstRefKey ⟨[9, 1, 2], [0], [], []⟩) (perInstBind ⟨[9, 1, 2], [0], [], []⟩)
    [.call 0 ⟨[1], []⟩ false, .call 0 ⟨[], [(2, 0), (1, 1)]⟩ false, .call 1 ⟨[1], []⟩ true, .call 1 ⟨[1], []⟩ false,
     .drop 0, .call 0 ⟨[1, 0], []⟩ false]
    (PerInst.run (perInstKey ⟨[9, 1, 2], [0], [], []⟩) (perInstBind ⟨[9, 1, 2], [0], [], []⟩) PerInst.init
      [.call 0 ⟨[1], []⟩ false, .call 0 ⟨[], [(2, 0), (1, 1)]⟩ false, .call 1 ⟨[1], []⟩ true, .call 1 ⟨[1], []⟩ false,
       .drop 0, .call 0 ⟨[1, 0], []⟩ false]) = true := by decide

/-- an LRU history `a b a c a b` with maxsize 2: the last `a` is a hit, the last `b` a miss -/
example : (Alru.run (alruKey .default ⟨[1], [], [], []⟩) (alruBind ⟨[1], [], [], []⟩) (Alru.init 2)
    [⟨⟨[1], []⟩, false⟩, ⟨⟨[2], []⟩, false⟩, ⟨⟨[1], []⟩, false⟩, ⟨⟨[3], []⟩, false⟩, ⟨⟨[1], []⟩, false⟩,
     ⟨⟨[2], []⟩, false⟩]).map (·.runs) = [1, 2, 2, 3, 3, 4] := by decide

/-- the observer is not trivially true: it rejects first-in-first-out eviction on that history -/
example : Alru.spec (alruRefKey .default ⟨[1], [], [], []⟩) (alruBind ⟨[1], [], [], []⟩) 2
    [⟨⟨[1], []⟩, false⟩, ⟨⟨[2], []⟩, false⟩, ⟨⟨[1], []⟩, false⟩, ⟨⟨[3], []⟩, false⟩, ⟨⟨[1], []⟩, false⟩]
    [⟨.ok ⟨1, [1]⟩, 1, 0⟩, ⟨.ok ⟨2, [2]⟩, 2, 0⟩, ⟨.ok ⟨1, [1]⟩, 2, 0⟩, ⟨.ok ⟨3, [3]⟩, 3, 0⟩, ⟨.ok ⟨4, [1]⟩, 4, 0⟩] = false := by
  decide

/-- a lazy-constant history with a failed computation, ttl expiry at the boundary and dirty() -/
example : Lazy.spec 5 1 [.call true 0, .call false 2, .tick 5, .call false 0, .tick 1, .call false 0, .dirty, .call false 0]
    (Lazy.run 5 (Lazy.init 1) [.call true 0, .call false 2, .tick 5, .call false 0, .tick 1, .call false 0, .dirty,
      .call false 0]) = true := by decide
example : (Lazy.run 5 (Lazy.init 1) [.call true 0, .call false 2, .tick 5, .call false 0, .tick 1, .call false 0, .dirty,
    .call false 0]).map (·.runs) = [1, 2, 2, 2, 2, 3, 3, 4] := by decide

/-- ... and it rejects a constant that caches a failed computation (returns None without running the body) -/
example : Lazy.spec 0 1 [.call true 0, .call false 0] [⟨.raisedUser 1, 1, 1⟩, ⟨.okNone, 1, 1⟩] = false := by decide

end AsynqModel.Cache
