import AsynqModel.Lib.Cache
import AsynqModel.Proofs.Cache
import AsynqModel.Proofs.CacheLru
/-!
# C13  Async caches behave like their reference cache for every call history

Theorems about the model `AsynqModel.Cache` (alru_cache over qcore's LRUCache, acached_per_instance, alazy_constant,
and the key construction of qcore.caching.get_args_tuple over the argument-name lists as written in tools.py).

The reference is `spec`: a cache keyed on the call's normalised arguments (Python's own binding) - or on key_fn's
result - that returns the stored value without running the body on a hit, runs the body exactly once on a miss,
never stores a failure, keeps the `maxsize` most recently used entries, one independent cache per live instance
that is gone when the program drops the instance, and one recomputation after dirty() / ttl expiry.

What is proved, and under which hypotheses (every hypothesis that restricts a theorem has a machine-checked witness that
it is needed, section "the hypotheses are needed"; hypotheses of the form `mk op.c = some k`, `... = .ok v`,
`bind .. = some b` only name the objects the conclusion speaks about):
* refinement to `spec` for every history: `C13_alru_refines` (default key; calls satisfying `alruCallOK`; maxsize ≥ 1;
  functions with `*rest` included), `C13_alru_refines_keyfn` (any key function, any calls),
  `C13_per_instance_refines_partial` (calls satisfying `perInstCallOK`; no body returns a value that refers to its
  instance), `C13_lazy_refines` (clock starts ≥ 1);
* the property is FALSE of the code as it is in one place, reproduced on the real code:
  `C13_per_instance_leak_counterexample` (a cached value that refers to its instance is never released);
* the eviction policy stated without the recency list the observer shares with the implementation:
  `C13_alru_kept_below_maxsize_keys`, `C13_alru_evicted_after_maxsize_keys` - both count the keys on which a call
  RETURNED A VALUE (`Alru.usedKeys`), so together they decide every history: kept while fewer than maxsize other keys
  were used, gone once maxsize other keys were used and the key itself was not.
The section "one step of the model" at the end holds by unfolding `step`; it documents the model, its content is the
correspondence check, and it is not part of the claimed theorems.
-/
namespace AsynqModel.Cache

/-! ## Keys: "calls whose arguments differ in any parameter never receive each other's values" -/

/-- for EVERY signature, EVERY valid way of spelling a call (positional / keyword in any order / default omitted /
    keyword-only), `get_args_tuple` over the full parameter-name list `pos ++ kwonly` returns exactly the call's
    normalised arguments: the value of every parameter in declaration order.  (This is the construction of
    acached_per_instance - `args[1:]` there really removes `self` - and of deduplicate.) -/
theorem C13_key_normal (pos kwonly : List Name) (dflts : List (Name × Nat)) (c : Call) (b : List Nat)
    (h : bind pos kwonly dflts c = some b) :
    getArgsTuple c.args c.kwargs (pos ++ kwonly) dflts = some (b.map .val) :=
  getArgsTuple_of_bind pos kwonly dflts c b h

/-- acached_per_instance: for every method signature (with or without `*rest`) and any two valid calls, however spelled,
    the keys are equal exactly when the calls bind every parameter (and `*rest`) to the same values (injective AND
    spelling-insensitive) -/
theorem C13_key_injective (s : Sig) (c1 c2 : Call) (b1 b2 : List Nat)
    (h1 : perInstBind s c1 = some b1) (h2 : perInstBind s c2 = some b2) :
    perInstKey s c1 = perInstKey s c2 ↔ b1 = b2 := by
  have e1 : perInstKey s c1 = some (b1.map .val) := argsKey_of_bindV s _ c1 b1 h1
  have e2 : perInstKey s c2 = some (b2.map .val) := argsKey_of_bindV s _ c2 b2 h2
  rw [e1, e2]
  constructor
  · intro h; exact map_val_injective (Option.some.inj h)
  · intro h; rw [h]

/-- alru_cache's default key is the normalised argument tuple for every signature and every valid spelling -/
theorem C13_alru_key_normal (s : Sig) (c : Call) (b : List Nat) (h : alruBind s c = some b) :
    alruKey .default s c = some (b.map .val) :=
  argsKey_of_bindV s _ c b h

/-! ## alru_cache -/

/-- with the default key: for every signature, every maxsize ≥ 1 (`LRUCache.__init__` rejects anything else) and EVERY
    history of calls each of which is valid (spelled in any way), or fails in the key construction ("Missing
    argument"), or carries an unexpected keyword (`alruCallOK`), the observations of the model are accepted by
    `Alru.spec`.  Calls that pass too many positional arguments or one parameter twice are NOT covered, and cannot
    be: `C13_alru_callOK_needed` (no normalised arguments: outside the statement).  Functions with `*rest` are covered,
    overflowing calls included. -/
theorem C13_alru_refines (s : Sig) (cap : Nat) (hcap : 1 ≤ cap) (ops : List Alru.Op)
    (h : ∀ op ∈ ops, alruCallOK s op.c = true) :
    Alru.spec (alruRefKey .default s) (alruBind s) cap ops
      (Alru.run (alruKey .default s) (alruBind s) (Alru.init cap) ops) = true := by
  obtain ⟨w', hw⟩ := Alru.watchRun_ok' (alruKey .default s) (alruRefKey .default s) (alruBind s) cap hcap ops _ _
    (Alru.rel_init cap) (Alru.good_init cap) (fun op ho => alru_agree s op.c (h op ho))
  simp [Alru.spec, hw]

/-- the former defect (`*rest` omitted from the argument-name list): `def f(a, *rest, k=0)`, `f(1, 2)` then `f(1, k=2)` now
    get different keys, the second call runs the body, and `f(1, 2, k=7)` is a third key -/
example :
    Alru.specClause (alruRefKey .default ⟨[1], [], [4], [(4, 0)], true⟩) (alruBind ⟨[1], [], [4], [(4, 0)], true⟩) 4
        [⟨⟨[1, 2], []⟩, false⟩, ⟨⟨[1], [(4, 2)]⟩, false⟩, ⟨⟨[1, 2], [(4, 7)]⟩, false⟩]
        (Alru.run (alruKey .default ⟨[1], [], [4], [(4, 0)], true⟩) (alruBind ⟨[1], [], [4], [(4, 0)], true⟩) (Alru.init 4)
          [⟨⟨[1, 2], []⟩, false⟩, ⟨⟨[1], [(4, 2)]⟩, false⟩, ⟨⟨[1, 2], [(4, 7)]⟩, false⟩]) = none ∧
      (Alru.run (alruKey .default ⟨[1], [], [4], [(4, 0)], true⟩) (alruBind ⟨[1], [], [4], [(4, 0)], true⟩) (Alru.init 4)
          [⟨⟨[1, 2], []⟩, false⟩, ⟨⟨[1], [(4, 2)]⟩, false⟩, ⟨⟨[1, 2], [(4, 7)]⟩, false⟩]).map (fun o => (o.res, o.runs)) =
        [(.ok ⟨1, [1, 0, 2]⟩, 1), (.ok ⟨2, [1, 2]⟩, 2), (.ok ⟨3, [1, 7, 2]⟩, 3)] := by decide

/-- with a custom key_fn: for every key function, signature, maxsize ≥ 1 and EVERY history (any spelling, malformed
    calls included) alru_cache refines the reference cache keyed on key_fn's result -/
theorem C13_alru_refines_keyfn (kf : Call → Option Key) (bd : Call → Option (List Nat)) (cap : Nat) (hcap : 1 ≤ cap)
    (ops : List Alru.Op) :
    Alru.spec kf bd cap ops (Alru.run kf bd (Alru.init cap) ops) = true := by
  obtain ⟨w', hw⟩ := Alru.watchRun_ok kf kf bd cap hcap ops _ _ (Alru.rel_init cap) (fun _ _ => rfl)
  simp [Alru.spec, hw]

/-- non-vacuity of `C13_alru_refines_keyfn`: `key_fn = lambda args, kwargs: ((sum(args) + sum(kwargs.values())) % 2,)`
    on `def f(a, b=0)`, maxsize 1: `f(1)` miss, `f(3)` hit (same parity: f(1)'s value - that is what key_fn asks for),
    `f(2)` miss and evicts, `f(b=1, a=0)` miss, `f()` cannot be bound: TypeError from the body's binding -/
example : (Alru.run (alruKey .sumParity ⟨[1, 2], [0], [], [], false⟩) (alruBind ⟨[1, 2], [0], [], [], false⟩) (Alru.init 1)
    [⟨⟨[1], []⟩, false⟩, ⟨⟨[3], []⟩, false⟩, ⟨⟨[2], []⟩, false⟩, ⟨⟨[], [(2, 1), (1, 0)]⟩, false⟩, ⟨⟨[], []⟩, false⟩]).map
      (·.res) = [.ok ⟨1, [1, 0]⟩, .ok ⟨1, [1, 0]⟩, .ok ⟨2, [2, 0]⟩, .ok ⟨3, [0, 1]⟩, .raisedType] := by decide
example : Alru.spec (alruRefKey .sumParity ⟨[1, 2], [0], [], [], false⟩) (alruBind ⟨[1, 2], [0], [], [], false⟩) 1
    [⟨⟨[1], []⟩, false⟩, ⟨⟨[3], []⟩, false⟩, ⟨⟨[2], []⟩, false⟩, ⟨⟨[], [(2, 1), (1, 0)]⟩, false⟩, ⟨⟨[], []⟩, false⟩]
    (Alru.run (alruKey .sumParity ⟨[1, 2], [0], [], [], false⟩) (alruBind ⟨[1, 2], [0], [], [], false⟩) (Alru.init 1)
      [⟨⟨[1], []⟩, false⟩, ⟨⟨[3], []⟩, false⟩, ⟨⟨[2], []⟩, false⟩, ⟨⟨[], [(2, 1), (1, 0)]⟩, false⟩, ⟨⟨[], []⟩, false⟩]) = true := by
  decide
/-- ... and the observer keyed on key_fn's result rejects a cache that ignores key_fn (`f(3)` recomputed) -/
example : Alru.specClause (alruRefKey .sumParity ⟨[1, 2], [0], [], [], false⟩) (alruBind ⟨[1, 2], [0], [], [], false⟩) 1
    [⟨⟨[1], []⟩, false⟩, ⟨⟨[3], []⟩, false⟩] [⟨.ok ⟨1, [1, 0]⟩, 1, 0⟩, ⟨.ok ⟨2, [3, 0]⟩, 2, 0⟩] = some .hitRanBody := by decide

/-- the former defect (`argspec.args[1:]`): `f(1, b=5)` and `f(1, b=6)` on `def f(a, b=0)` now get different keys -/
example : alruKey .default ⟨[1, 2], [0], [], [], false⟩ ⟨[1], [(2, 5)]⟩ ≠ alruKey .default ⟨[1, 2], [0], [], [], false⟩ ⟨[1], [(2, 6)]⟩ := by
  decide

/-- never more than maxsize entries, and no key twice - for every key function and every history -/
theorem C13_alru_size_le_maxsize (mk : Call → Option Key) (bd : Call → Option (List Nat)) (cap : Nat) (hcap : 1 ≤ cap)
    (ops : List Alru.Op) :
    (Alru.finalState mk bd (Alru.init cap) ops).cache.items.length ≤ cap ∧
      KeysNodup (Alru.finalState mk bd (Alru.init cap) ops).cache.items := by
  obtain ⟨w', h⟩ := Alru.inv_final mk bd cap hcap ops _ _ (Alru.rel_init cap)
  exact ⟨h.len, h.nodup⟩

/-- least-recently-USED, stated without the recency list: after ANY history, a call on key `k` that returned `v` (hit
    or fresh) keeps `k ↦ v` cached through ANY number of later calls, as long as these RETURN A VALUE on fewer than
    `maxsize` distinct other keys (`D` lists them: `Alru.usedKeys` - the same notion `C13_alru_evicted_after_maxsize_keys`
    counts; repetitions, calls that raise or cannot be bound and calls on `k` itself are free) -/
theorem C13_alru_kept_below_maxsize_keys (mk : Call → Option Key) (bd : Call → Option (List Nat)) (cap : Nat)
    (hist : List Alru.Op) (op : Alru.Op) (k : Key) (v : Val) (later : List Alru.Op) (D : List Key)
    (hk : mk op.c = some k)
    (hres : (Alru.step mk bd (Alru.finalState mk bd (Alru.init cap) hist) op).2 = .ok v)
    (hD : ∀ k2 ∈ Alru.usedKeys mk bd (Alru.step mk bd (Alru.finalState mk bd (Alru.init cap) hist) op).1 later,
      k2 ≠ k → k2 ∈ D)
    (hl : D.length + 1 ≤ cap) :
    (Alru.finalState mk bd (Alru.init cap) (hist ++ op :: later)).cache.items.lookup k = some v := by
  have hcap : 1 ≤ cap := by omega
  obtain ⟨w, hrel⟩ := Alru.inv_final mk bd cap hcap hist _ _ (Alru.rel_init cap)
  obtain ⟨w', _, hrel'⟩ := Alru.rel_step mk mk bd cap hcap w _ op hrel rfl
  obtain ⟨pre, post, hi, hp⟩ := Alru.within_after_ok mk bd _ op k v hk hres
  have hkept : Alru.Kept k v D (Alru.step mk bd (Alru.finalState mk bd (Alru.init cap) hist) op).1.cache.items := by
    refine ⟨pre, post, hi, ?_⟩
    intro p hpm
    have : post = [] := List.eq_nil_of_length_eq_zero (by omega)
    rw [this] at hpm; simp at hpm
  rw [Alru.finalState_append]
  simp only [Alru.finalState]
  exact Alru.kept_run mk bd cap hcap k v D later w' _ hrel' (by simpa [Alru.observe] using hD) hl
    (by simpa [Alru.observe] using hkept)

/-- the call-counting corollary: the entry survives the next `maxsize - 1` calls, whatever they are -/
theorem C13_alru_recently_used_kept (mk : Call → Option Key) (bd : Call → Option (List Nat)) (cap : Nat)
    (hist : List Alru.Op) (op : Alru.Op) (k : Key) (v : Val) (later : List Alru.Op)
    (hk : mk op.c = some k)
    (hres : (Alru.step mk bd (Alru.finalState mk bd (Alru.init cap) hist) op).2 = .ok v)
    (hl : later.length + 1 ≤ cap) :
    (Alru.finalState mk bd (Alru.init cap) (hist ++ op :: later)).cache.items.lookup k = some v := by
  refine C13_alru_kept_below_maxsize_keys mk bd cap hist op k v later (later.filterMap fun o => mk o.c) hk hres ?_ ?_
  · intro k2 hk2 _
    exact Alru.usedKeys_subset mk bd _ later k2 hk2
  · have := List.length_filterMap_le (fun o : Alru.Op => mk o.c) later
    omega

/-- ... and evicts the least recently used: after ANY history, once the later calls have RETURNED A VALUE (hit or
    fresh) on `maxsize` distinct keys (`D`) and none of them returned a value on `k`, `k` is no longer cached - whatever
    else happened in between (repetitions, calls that raise or cannot be bound - on `k` too) -/
theorem C13_alru_evicted_after_maxsize_keys (mk : Call → Option Key) (bd : Call → Option (List Nat)) (cap : Nat)
    (hcap : 1 ≤ cap) (hist later : List Alru.Op) (k : Key) (D : List Key)
    (hnk : k ∉ Alru.usedKeys mk bd (Alru.finalState mk bd (Alru.init cap) hist) later)
    (hD : D.Nodup)
    (hsub : ∀ d ∈ D, d ∈ Alru.usedKeys mk bd (Alru.finalState mk bd (Alru.init cap) hist) later)
    (hlen : cap ≤ D.length) :
    (Alru.finalState mk bd (Alru.init cap) (hist ++ later)).cache.items.lookup k = none := by
  obtain ⟨w, hrel⟩ := Alru.inv_final mk bd cap hcap hist _ _ (Alru.rel_init cap)
  obtain ⟨w2, hrel2⟩ := Alru.inv_final mk bd cap hcap later _ _ hrel
  have hg := Alru.gone_run mk bd cap hcap k later w _ [] hrel hnk (Alru.gone_start k _)
  rw [Alru.finalState_append]
  rcases hg with hg | ⟨pre, v, post, hi, hU⟩
  · exact hg
  · exfalso
    have hcard := nodup_subset_length D (post.map (·.1)) hD (fun d hd => hU d (by simpa using hsub d hd))
    have hl := hrel2.len
    rw [hi] at hl
    simp at hl hcard
    omega

/-- non-vacuity: maxsize 2, `f(1) f(2) f(2) f(2) f(2) f(1)`: four later calls but one other key - `f(1)` is still a hit;
    `f(1) f(2) f(3)`: two other keys - `f(1)` is gone -/
example : (Alru.run (alruKey .default ⟨[1], [], [], [], false⟩) (alruBind ⟨[1], [], [], [], false⟩) (Alru.init 2)
    [⟨⟨[1], []⟩, false⟩, ⟨⟨[2], []⟩, false⟩, ⟨⟨[2], []⟩, false⟩, ⟨⟨[2], []⟩, true⟩, ⟨⟨[2], []⟩, false⟩,
     ⟨⟨[1], []⟩, false⟩]).map (·.runs) = [1, 2, 2, 2, 2, 2] := by decide
example : Alru.usedKeys (alruKey .default ⟨[1], [], [], [], false⟩) (alruBind ⟨[1], [], [], [], false⟩)
    (Alru.finalState (alruKey .default ⟨[1], [], [], [], false⟩) (alruBind ⟨[1], [], [], [], false⟩) (Alru.init 2) [⟨⟨[1], []⟩, false⟩])
    [⟨⟨[2], []⟩, false⟩, ⟨⟨[4], []⟩, true⟩, ⟨⟨[3], []⟩, false⟩] = [[.val 2], [.val 3]] := by decide
example : (Alru.finalState (alruKey .default ⟨[1], [], [], [], false⟩) (alruBind ⟨[1], [], [], [], false⟩) (Alru.init 2)
    ([⟨⟨[1], []⟩, false⟩] ++ [⟨⟨[2], []⟩, false⟩, ⟨⟨[4], []⟩, true⟩, ⟨⟨[3], []⟩, false⟩])).cache.items.lookup [.val 1] = none := by
  decide

/-- the two eviction theorems instantiated (their hypotheses are satisfiable, all discharged by `decide`): maxsize 2,
    history `f(5)`, then `f(1)`, later `f(2) f(2) f(2)-raises f(3)-raises`: ONE other key returned a value (`D = [(2,)]`;
    the raising `f(3)` does not count) - `f(1)`'s entry is still there.  Before the hypothesis counted used keys only,
    neither theorem spoke about this history. -/
example : (Alru.finalState (alruKey .default ⟨[1], [], [], [], false⟩) (alruBind ⟨[1], [], [], [], false⟩) (Alru.init 2)
    ([⟨⟨[5], []⟩, false⟩] ++ ⟨⟨[1], []⟩, false⟩ ::
      [⟨⟨[2], []⟩, false⟩, ⟨⟨[2], []⟩, false⟩, ⟨⟨[2], []⟩, true⟩, ⟨⟨[3], []⟩, true⟩])).cache.items.lookup [.val 1] =
    some ⟨2, [1]⟩ :=
  C13_alru_kept_below_maxsize_keys _ _ 2 [⟨⟨[5], []⟩, false⟩] ⟨⟨[1], []⟩, false⟩ [.val 1] ⟨2, [1]⟩
    [⟨⟨[2], []⟩, false⟩, ⟨⟨[2], []⟩, false⟩, ⟨⟨[2], []⟩, true⟩, ⟨⟨[3], []⟩, true⟩] [[.val 2]] (by decide) (by decide)
    (by decide) (by decide)
/-- ... history `f(1)`, later `f(2) f(4)-raises f(3)`: two distinct keys returned a value, `f(1)` is gone -/
example : (Alru.finalState (alruKey .default ⟨[1], [], [], [], false⟩) (alruBind ⟨[1], [], [], [], false⟩) (Alru.init 2)
    ([⟨⟨[1], []⟩, false⟩] ++ [⟨⟨[2], []⟩, false⟩, ⟨⟨[4], []⟩, true⟩, ⟨⟨[3], []⟩, false⟩])).cache.items.lookup [.val 1] = none :=
  C13_alru_evicted_after_maxsize_keys _ _ 2 (by decide) [⟨⟨[1], []⟩, false⟩]
    [⟨⟨[2], []⟩, false⟩, ⟨⟨[4], []⟩, true⟩, ⟨⟨[3], []⟩, false⟩] [.val 1] [[.val 2], [.val 3]] (by decide) (by decide)
    (by decide) (by decide)

/-! ## acached_per_instance -/

/-- for every method signature and EVERY history of calls on any number of instances and instance drops, in which
    each call is valid (spelled in any way), or fails in the key construction ("Missing argument"), or carries an
    unexpected keyword, AND in which no body returns a value that refers to its instance (`noSelfRef`), the model is
    accepted by the observer `PerInst.spec`: one reference cache `Key → Option Val` per live instance, keyed on the
    normalised arguments, gone when the program drops the instance; a call Python cannot bind raises TypeError and runs
    nothing.  `_partial`: without `noSelfRef` the property is false - `C13_per_instance_leak_counterexample` -/
theorem C13_per_instance_refines_partial (s : Sig) (ops : List PerInst.Op)
    (h : ∀ i c r sr, PerInst.Op.call i c r sr ∈ ops → perInstCallOK s c = true)
    (hsr : PerInst.noSelfRef ops = true) :
    PerInst.spec (perInstRefKey s) (perInstBind s) ops
      (PerInst.run (perInstKey s) (perInstBind s) PerInst.init ops) = true := by
  obtain ⟨w', hw⟩ := PerInst.watchRun_ok' (perInstKey s) (perInstRefKey s) (perInstBind s) ops _ _ PerInst.rel_init
    PerInst.good_init (fun i c r sr ho => ⟨perInst_agree s c (h i c r sr ho), by
      have := List.all_eq_true.mp hsr _ ho
      simpa using this⟩)
  simp [PerInst.spec, hw]

/-- "per-instance caches ... vanish with their instance" is FALSE of acached_per_instance as it is: on
    `def m(self, a)`, `obj.m(1)` whose body returns a value that refers to `obj`, then `del obj; gc.collect()`:
    the closure dict `cache` holds the value, the value holds the instance, the weakref callback never fires and
    `len(__acached_per_instance_cache__)` stays 1 for the life of the class (clause `instances`) -/
theorem C13_per_instance_leak_counterexample :
    PerInst.specClause (perInstRefKey ⟨[9, 1], [], [], [], false⟩) (perInstBind ⟨[9, 1], [], [], [], false⟩)
      [.call 0 ⟨[1], []⟩ false true, .drop 0]
      (PerInst.run (perInstKey ⟨[9, 1], [], [], [], false⟩) (perInstBind ⟨[9, 1], [], [], [], false⟩) PerInst.init
        [.call 0 ⟨[1], []⟩ false true, .drop 0]) = some .instances := by decide

/-- the same history with a value that does not refer to the instance is accepted, and so is the self-referring
    one as long as the instance is not dropped: the leak is the only thing `noSelfRef` excludes -/
example : PerInst.specClause (perInstRefKey ⟨[9, 1], [], [], [], false⟩) (perInstBind ⟨[9, 1], [], [], [], false⟩)
    [.call 0 ⟨[1], []⟩ false false, .drop 0]
    (PerInst.run (perInstKey ⟨[9, 1], [], [], [], false⟩) (perInstBind ⟨[9, 1], [], [], [], false⟩) PerInst.init
      [.call 0 ⟨[1], []⟩ false false, .drop 0]) = none := by decide
example : PerInst.specClause (perInstRefKey ⟨[9, 1], [], [], [], false⟩) (perInstBind ⟨[9, 1], [], [], [], false⟩)
    [.call 0 ⟨[1], []⟩ false true, .call 0 ⟨[1], []⟩ false true, .call 1 ⟨[1], []⟩ true true, .drop 1]
    (PerInst.run (perInstKey ⟨[9, 1], [], [], [], false⟩) (perInstBind ⟨[9, 1], [], [], [], false⟩) PerInst.init
      [.call 0 ⟨[1], []⟩ false true, .call 0 ⟨[1], []⟩ false true, .call 1 ⟨[1], []⟩ true true, .drop 1]) = none := by decide

/-- per-instance caches are independent: nothing done to instance `i` (a call, however it ends; giving it up) changes
    the cache of another instance, in any state -/
theorem C13_instances_independent (mk : Call → Option Key) (bd : Call → Option (List Nat)) (st : PerInst.St)
    (i j : Nat) (hij : j ≠ i) (c : Call) (r sr : Bool) :
    PerInst.cacheOf (PerInst.step mk bd st (.call i c r sr)).1 j = PerInst.cacheOf st j ∧
      PerInst.cacheOf (PerInst.step mk bd st (.drop i)).1 j = PerInst.cacheOf st j := by
  constructor
  · have he : ∀ st' : PerInst.St, st'.insts = PerInst.ensure st.insts i → PerInst.cacheOf st' j = PerInst.cacheOf st j := by
      intro st' hs; simp only [PerInst.cacheOf, hs, PerInst.ensure_getD]
    rw [PerInst.step_call_eq]
    simp only []
    cases mk c with
    | none => exact he _ rfl
    | some k =>
      simp only []
      cases (PerInst.cacheOf st i).lookup k with
      | some v => exact he _ rfl
      | none =>
        simp only []
        cases bd c with
        | none => exact he _ rfl
        | some b =>
          cases r with
          | true => exact he _ rfl
          | false =>
            simp only [PerInst.cacheOf, PerInst.lookup_store, hij, if_false, Bool.false_eq_true, PerInst.ensure_getD]
  · simp only [PerInst.step]
    split <;> simp only [PerInst.cacheOf, PerInst.lookup_filter_ne, hij, if_false]

/-! ## alazy_constant -/

/-- for every ttl, every start of the clock ≥ 1 and EVERY history of calls (returning or raising bodies of any
    duration), dirty() and clock ticks, the model is accepted by the observer `Lazy.spec`: the stored value while
    `now ≤ stored_at + ttl` (or forever if ttl = 0), exactly one recomputation otherwise -/
theorem C13_lazy_refines (ttl t0 : Nat) (h : 1 ≤ t0) (ops : List Lazy.Op) :
    Lazy.spec ttl t0 ops (Lazy.run ttl (Lazy.init t0) ops) = true := by
  obtain ⟨w', hw⟩ := Lazy.watchRun_ok ttl ops _ _ (Lazy.rel_init ttl t0 h)
  simp [Lazy.spec, hw]

/-- dirty() forces exactly one recomputation: the next call runs the body once, the call after it does not -/
theorem C13_lazy_dirty_once (ttl : Nat) (st : Lazy.St) (hnow : 1 ≤ st.now) (dur : Nat) (r2 : Bool) (dur2 : Nat) :
    let s1 := (Lazy.step ttl st .dirty).1
    let s2 := Lazy.step ttl s1 (.call false dur)
    let s3 := Lazy.step ttl s2.1 (.call r2 dur2)
    s2.2 = .ok ⟨st.runs + 1, []⟩ ∧ s2.1.runs = st.runs + 1 ∧ s3.2 = .ok ⟨st.runs + 1, []⟩ ∧ s3.1.runs = st.runs + 1 := by
  have hs : Lazy.stale ttl { st with rt := 0 } = true := by simp [Lazy.stale]
  have hf : Lazy.stale ttl { rt := st.now + dur, cached := some ⟨st.runs + 1, []⟩, now := st.now + dur, runs := st.runs + 1 } = false := by
    rw [Bool.eq_false_iff, Ne, Lazy.stale_iff]; simp; omega
  simp [Lazy.step, hs, hf]

/-- ttl expiry forces exactly one recomputation, and only expiry does: an unexpired value is returned without
    running the body; once `now > refresh_time + ttl` the next call runs the body once and the call after it
    (within the new ttl) does not -/
theorem C13_lazy_ttl_once (ttl : Nat) (httl : ttl ≠ 0) (st : Lazy.St) (v : Val) (hrt : st.rt ≠ 0) (hc : st.cached = some v)
    (r : Bool) (dur : Nat) :
    (st.now ≤ st.rt + ttl →
      (Lazy.step ttl st (.call r dur)).2 = .ok v ∧ (Lazy.step ttl st (.call r dur)).1 = st) ∧
    (st.rt + ttl < st.now → ∀ r2 dur2,
      let s2 := Lazy.step ttl st (.call false dur)
      let s3 := Lazy.step ttl s2.1 (.call r2 dur2)
      s2.2 = .ok ⟨st.runs + 1, []⟩ ∧ s2.1.runs = st.runs + 1 ∧ s3.2 = .ok ⟨st.runs + 1, []⟩ ∧ s3.1.runs = st.runs + 1) := by
  constructor
  · intro hle
    have hf : Lazy.stale ttl st = false := by
      cases h : Lazy.stale ttl st with
      | false => rfl
      | true => rw [Lazy.stale_iff] at h; omega
    simp [Lazy.step, hf, hc]
  · intro hlt r2 dur2
    have hs : Lazy.stale ttl st = true := by rw [Lazy.stale_iff]; exact Or.inr ⟨httl, hlt⟩
    have hf : Lazy.stale ttl { rt := st.now + dur, cached := some ⟨st.runs + 1, []⟩, now := st.now + dur, runs := st.runs + 1 } = false := by
      rw [Bool.eq_false_iff, Ne, Lazy.stale_iff]; simp; omega
    simp [Lazy.step, hs, hf]

/-- a body that raises is not cached: the exception reaches the caller, nothing is marked fresh, and the next call
    runs the body again -/
theorem C13_lazy_raise_not_cached (ttl : Nat) (st : Lazy.St) (hs : Lazy.stale ttl st = true) (dur dur2 : Nat) :
    let s2 := Lazy.step ttl st (.call true dur)
    let s3 := Lazy.step ttl s2.1 (.call false dur2)
    s2.2 = .raisedUser (st.runs + 1) ∧ s2.1.rt = st.rt ∧ s2.1.cached = st.cached ∧
      s3.2 = .ok ⟨st.runs + 2, []⟩ ∧ s3.1.runs = st.runs + 2 := by
  have hs2 : Lazy.stale ttl { st with runs := st.runs + 1, now := st.now + dur } = true := by
    rw [Lazy.stale_iff] at hs ⊢
    rcases hs with h | h
    · exact Or.inl h
    · exact Or.inr ⟨h.1, by simp; omega⟩
  simp [Lazy.step, hs, hs2]

/-! ## non-vacuity -/

/-- every spelling of the same arguments of `m(self, a, b=0, *, k)` gets the same per-instance key -/
example : (([⟨[1], [(4, 2)]⟩, ⟨[], [(4, 2), (1, 1)]⟩, ⟨[1, 0], [(4, 2)]⟩, ⟨[], [(2, 0), (1, 1), (4, 2)]⟩] : List Call).map
    (perInstKey ⟨[9, 1, 2], [0], [4], [], false⟩)).all (· == some [.val 1, .val 0, .val 2]) = true := by decide

/-- a per-instance history with a hit through another spelling, a raising body, a second instance and a drop -/
example : PerInst.spec (perInstRefKey ⟨[9, 1, 2], [0], [], [], false⟩) (perInstBind ⟨[9, 1, 2], [0], [], [], false⟩)
    [.call 0 ⟨[1], []⟩ false false, .call 0 ⟨[], [(2, 0), (1, 1)]⟩ false false, .call 1 ⟨[1], []⟩ true false,
     .call 1 ⟨[1], []⟩ false false, .drop 0, .call 0 ⟨[1, 0], []⟩ false false]
    (PerInst.run (perInstKey ⟨[9, 1, 2], [0], [], [], false⟩) (perInstBind ⟨[9, 1, 2], [0], [], [], false⟩) PerInst.init
      [.call 0 ⟨[1], []⟩ false false, .call 0 ⟨[], [(2, 0), (1, 1)]⟩ false false, .call 1 ⟨[1], []⟩ true false,
       .call 1 ⟨[1], []⟩ false false, .drop 0, .call 0 ⟨[1, 0], []⟩ false false]) = true := by decide

/-- an LRU history `a b a c a b` with maxsize 2: the last `a` is a hit, the last `b` a miss -/
example : (Alru.run (alruKey .default ⟨[1], [], [], [], false⟩) (alruBind ⟨[1], [], [], [], false⟩) (Alru.init 2)
    [⟨⟨[1], []⟩, false⟩, ⟨⟨[2], []⟩, false⟩, ⟨⟨[1], []⟩, false⟩, ⟨⟨[3], []⟩, false⟩, ⟨⟨[1], []⟩, false⟩,
     ⟨⟨[2], []⟩, false⟩]).map (·.runs) = [1, 2, 2, 3, 3, 4] := by decide

/-- the observer is not trivially true: it rejects first-in-first-out eviction on that history -/
example : Alru.spec (alruRefKey .default ⟨[1], [], [], [], false⟩) (alruBind ⟨[1], [], [], [], false⟩) 2
    [⟨⟨[1], []⟩, false⟩, ⟨⟨[2], []⟩, false⟩, ⟨⟨[1], []⟩, false⟩, ⟨⟨[3], []⟩, false⟩, ⟨⟨[1], []⟩, false⟩]
    [⟨.ok ⟨1, [1]⟩, 1, 0⟩, ⟨.ok ⟨2, [2]⟩, 2, 0⟩, ⟨.ok ⟨1, [1]⟩, 2, 0⟩, ⟨.ok ⟨3, [3]⟩, 3, 0⟩, ⟨.ok ⟨4, [1]⟩, 4, 0⟩] = false := by
  decide

/-- a lazy-constant history with a failed computation, ttl expiry at the boundary and dirty() -/
example : Lazy.spec 5 1 [.call true 0, .call false 2, .tick 5, .call false 0, .tick 1, .call false 0, .dirty, .call false 0]
    (Lazy.run 5 (Lazy.init 1) [.call true 0, .call false 2, .tick 5, .call false 0, .tick 1, .call false 0, .dirty,
      .call false 0]) = true := by decide
example : (Lazy.run 5 (Lazy.init 1) [.call true 0, .call false 2, .tick 5, .call false 0, .tick 1, .call false 0, .dirty,
    .call false 0]).map (·.runs) = [1, 2, 2, 2, 2, 3, 3, 4] := by decide

/-- ... and it rejects a constant that caches a failed computation (returns None without running the body) -/
example : Lazy.spec 0 1 [.call true 0, .call false 0] [⟨.raisedUser 1, 1, 1⟩, ⟨.okNone, 1, 1⟩] = false := by decide


/-! ## the hypotheses are needed (machine-checked witnesses on the model; the first two are reproduced on the real code) -/

/-- `alruCallOK` cannot be dropped from `C13_alru_refines`: on `def f(a, b=0)`, `f(1)` then `f(1, a=1)` ("multiple values
    for argument 'a'") - `get_args_tuple` gives both the key `(1, 0)`, so the second call is answered from the cache
    instead of raising TypeError (it does raise when `f(1)` is not cached).  Same for too many positional arguments:
    `def g(a, *, k=3)`, `g(1)` then `g(1, 3)` -/
theorem C13_alru_callOK_needed :
    Alru.specClause (alruRefKey .default ⟨[1, 2], [0], [], [], false⟩) (alruBind ⟨[1, 2], [0], [], [], false⟩) 2
        [⟨⟨[1], []⟩, false⟩, ⟨⟨[1], [(1, 1)]⟩, false⟩]
        (Alru.run (alruKey .default ⟨[1, 2], [0], [], [], false⟩) (alruBind ⟨[1, 2], [0], [], [], false⟩) (Alru.init 2)
          [⟨⟨[1], []⟩, false⟩, ⟨⟨[1], [(1, 1)]⟩, false⟩]) = some .malformedCall ∧
      Alru.specClause (alruRefKey .default ⟨[1], [], [4], [(4, 3)], false⟩) (alruBind ⟨[1], [], [4], [(4, 3)], false⟩) 2
        [⟨⟨[1], []⟩, false⟩, ⟨⟨[1, 3], []⟩, false⟩]
        (Alru.run (alruKey .default ⟨[1], [], [4], [(4, 3)], false⟩) (alruBind ⟨[1], [], [4], [(4, 3)], false⟩) (Alru.init 2)
          [⟨⟨[1], []⟩, false⟩, ⟨⟨[1, 3], []⟩, false⟩]) = some .malformedCall ∧
      alruCallOK ⟨[1, 2], [0], [], [], false⟩ ⟨[1], [(1, 1)]⟩ = false ∧ alruCallOK ⟨[1], [], [4], [(4, 3)], false⟩ ⟨[1, 3], []⟩ = false := by
  decide

/-- the same for acached_per_instance: `def m(self, a, b=0)`, `obj.m(1)` then `obj.m(1, a=1)` -/
theorem C13_per_instance_callOK_needed :
    PerInst.specClause (perInstRefKey ⟨[9, 1, 2], [0], [], [], false⟩) (perInstBind ⟨[9, 1, 2], [0], [], [], false⟩)
        [.call 0 ⟨[1], []⟩ false false, .call 0 ⟨[1], [(1, 1)]⟩ false false]
        (PerInst.run (perInstKey ⟨[9, 1, 2], [0], [], [], false⟩) (perInstBind ⟨[9, 1, 2], [0], [], [], false⟩) PerInst.init
          [.call 0 ⟨[1], []⟩ false false, .call 0 ⟨[1], [(1, 1)]⟩ false false]) = some .malformedCall ∧
      perInstCallOK ⟨[9, 1, 2], [0], [], [], false⟩ ⟨[1], [(1, 1)]⟩ = false := by
  decide

/-- the unexpected-keyword calls that `alruCallOK` now includes are really covered: `f(1)`, `f(1, q=1)` twice, `f(1)` -/
example : (Alru.run (alruKey .default ⟨[1, 2], [0], [], [], false⟩) (alruBind ⟨[1, 2], [0], [], [], false⟩) (Alru.init 2)
    [⟨⟨[1], []⟩, false⟩, ⟨⟨[1], [(6, 1)]⟩, false⟩, ⟨⟨[1], [(6, 1)]⟩, false⟩, ⟨⟨[1], []⟩, false⟩]).map (·.res) =
      [.ok ⟨1, [1, 0]⟩, .raisedType, .raisedType, .ok ⟨1, [1, 0]⟩] ∧
    alruCallOK ⟨[1, 2], [0], [], [], false⟩ ⟨[1], [(6, 1)]⟩ = true := by decide

/-- `1 ≤ maxsize` cannot be dropped from `C13_alru_size_le_maxsize` / `C13_alru_refines` / `C13_alru_refines_keyfn`: the model of `__setitem__`
    with capacity 0 stores the entry (length 1 > 0) and the observer rejects the following hit.  (In the real code
    `LRUCache(0)` raises ValueError when the decorator is applied: the hypothesis is the constructor's own check.) -/
theorem C13_alru_maxsize_pos_needed :
    (Alru.finalState (alruKey .default ⟨[1], [], [], [], false⟩) (alruBind ⟨[1], [], [], [], false⟩) (Alru.init 0)
        [⟨⟨[1], []⟩, false⟩]).cache.items.length = 1 ∧
      Alru.specClause (alruRefKey .default ⟨[1], [], [], [], false⟩) (alruBind ⟨[1], [], [], [], false⟩) 0
        [⟨⟨[1], []⟩, false⟩, ⟨⟨[1], []⟩, false⟩]
        (Alru.run (alruKey .default ⟨[1], [], [], [], false⟩) (alruBind ⟨[1], [], [], [], false⟩) (Alru.init 0)
          [⟨⟨[1], []⟩, false⟩, ⟨⟨[1], []⟩, false⟩]) = some .staleValue := by
  decide

/-- `1 ≤ t0` cannot be dropped from `C13_lazy_refines`: a constant computed while `utime()` returns 0 gets refresh time
    0, alazy_constant's "never computed" mark, and is computed again by the next call -/
theorem C13_lazy_clock_pos_needed :
    Lazy.specClause 0 0 [.call false 0, .call false 0] (Lazy.run 0 (Lazy.init 0) [.call false 0, .call false 0]) =
      some .hitRanBody := by
  decide

/-- the hypotheses of the two eviction theorems cannot be dropped (`def f(a)`, maxsize 2):
    `hD`/`hl` of `C13_alru_kept_below_maxsize_keys`: after `f(1)`, TWO other keys return a value (`f(2) f(3)`): gone;
    `hnk` of `C13_alru_evicted_after_maxsize_keys`: `f(1) f(2) f(1) f(3)` - `k` itself returned a value in between: still
    cached although two distinct other keys were used; `hlen` / `D.Nodup`: `f(1) f(2) f(2)` - one other key, listed twice
    or not: still cached; `hsub`: `f(1) f(2) f(3)-raises` - a key whose call did not return a value does not count: still
    cached -/
theorem C13_alru_eviction_hyps_needed :
    (Alru.finalState (alruKey .default ⟨[1], [], [], [], false⟩) (alruBind ⟨[1], [], [], [], false⟩) (Alru.init 2)
      [⟨⟨[1], []⟩, false⟩, ⟨⟨[2], []⟩, false⟩, ⟨⟨[3], []⟩, false⟩]).cache.items.lookup [.val 1] = none ∧
    (Alru.finalState (alruKey .default ⟨[1], [], [], [], false⟩) (alruBind ⟨[1], [], [], [], false⟩) (Alru.init 2)
      [⟨⟨[1], []⟩, false⟩, ⟨⟨[2], []⟩, false⟩, ⟨⟨[1], []⟩, false⟩, ⟨⟨[3], []⟩, false⟩]).cache.items.lookup [.val 1] =
        some ⟨1, [1]⟩ ∧
    (Alru.finalState (alruKey .default ⟨[1], [], [], [], false⟩) (alruBind ⟨[1], [], [], [], false⟩) (Alru.init 2)
      [⟨⟨[1], []⟩, false⟩, ⟨⟨[2], []⟩, false⟩, ⟨⟨[2], []⟩, false⟩]).cache.items.lookup [.val 1] = some ⟨1, [1]⟩ ∧
    (Alru.finalState (alruKey .default ⟨[1], [], [], [], false⟩) (alruBind ⟨[1], [], [], [], false⟩) (Alru.init 2)
      [⟨⟨[1], []⟩, false⟩, ⟨⟨[2], []⟩, false⟩, ⟨⟨[3], []⟩, true⟩]).cache.items.lookup [.val 1] = some ⟨1, [1]⟩ := by
  decide

/-- the hypotheses of the one-step theorems about alazy_constant cannot be dropped:
    `hnow` of `C13_lazy_dirty_once`: with the clock at 0 the value computed after dirty() gets refresh time 0 and the
    call after it recomputes (3 body runs instead of 2);
    `hrt` of `C13_lazy_ttl_once`: refresh time 0 means "never computed / dirtied": within the ttl the body runs all the same;
    `httl`: ttl 0 never expires: long after the refresh time the stored value comes back without a body run;
    `hs` of `C13_lazy_raise_not_cached`: if the stored value is still valid a raising body does not even run -/
theorem C13_lazy_step_hyps_needed :
    (Lazy.step 5 (Lazy.step 5 (Lazy.step 5 ⟨7, some ⟨1, []⟩, 0, 1⟩ .dirty).1 (.call false 0)).1 (.call false 0)).1.runs = 3 ∧
    (Lazy.step 5 ⟨0, some ⟨1, []⟩, 3, 1⟩ (.call false 0)).2 = .ok ⟨2, []⟩ ∧
    (Lazy.step 0 ⟨1, some ⟨1, []⟩, 100, 1⟩ (.call false 0)) = (⟨1, some ⟨1, []⟩, 100, 1⟩, .ok ⟨1, []⟩) ∧
    (Lazy.step 5 ⟨1, some ⟨1, []⟩, 3, 1⟩ (.call true 0)) = (⟨1, some ⟨1, []⟩, 3, 1⟩, .ok ⟨1, []⟩) := by
  decide

/-! ## wrong observations the observers reject (each names the violated clause) -/

section rejected
private abbrev sgA : Sig := ⟨[1, 2], [0], [], [], false⟩   -- def f(a, b=0)
private abbrev sgM : Sig := ⟨[9, 1, 2], [0], [], [], false⟩   -- def m(self, a, b=0)

/-- the value evicted from a cache of size 1 comes back without a body run -/
example : Alru.specClause (alruRefKey .default sgA) (alruBind sgA) 1
    [⟨⟨[1], []⟩, false⟩, ⟨⟨[2], []⟩, false⟩, ⟨⟨[1], []⟩, false⟩]
    [⟨.ok ⟨1, [1, 0]⟩, 1, 0⟩, ⟨.ok ⟨2, [2, 0]⟩, 2, 0⟩, ⟨.ok ⟨1, [1, 0]⟩, 2, 0⟩] = some .staleValue := by decide
/-- `f(1, b=5)` receives `f(1)`'s value (the repaired `args[1:]` defect) -/
example : Alru.specClause (alruRefKey .default sgA) (alruBind sgA) 2 [⟨⟨[1], []⟩, false⟩, ⟨⟨[1], [(2, 5)]⟩, false⟩]
    [⟨.ok ⟨1, [1, 0]⟩, 1, 0⟩, ⟨.ok ⟨1, [1, 0]⟩, 1, 0⟩] = some .foreignValue := by decide
/-- a cache that never caches; one that caches a failure; one that runs the body twice for one call -/
example : Alru.specClause (alruRefKey .default sgA) (alruBind sgA) 2 [⟨⟨[1], []⟩, false⟩, ⟨⟨[1], []⟩, false⟩]
    [⟨.ok ⟨1, [1, 0]⟩, 1, 0⟩, ⟨.ok ⟨2, [1, 0]⟩, 2, 0⟩] = some .hitRanBody := by decide
example : Alru.specClause (alruRefKey .default sgA) (alruBind sgA) 2 [⟨⟨[1], []⟩, true⟩, ⟨⟨[1], []⟩, false⟩]
    [⟨.raisedUser 1, 1, 0⟩, ⟨.raisedUser 1, 1, 0⟩] = some .missNoRun := by decide
example : Alru.specClause (alruRefKey .default sgA) (alruBind sgA) 2 [⟨⟨[1], []⟩, false⟩]
    [⟨.ok ⟨2, [1, 0]⟩, 2, 0⟩] = some .missRanTwice := by decide
/-- the body's exception swallowed; the spelling `f(b=0, a=1)` not recognised as `f(1)` -/
example : Alru.specClause (alruRefKey .default sgA) (alruBind sgA) 2 [⟨⟨[1], []⟩, true⟩]
    [⟨.okNone, 1, 0⟩] = some .raiseLost := by decide
example : Alru.specClause (alruRefKey .default sgA) (alruBind sgA) 2 [⟨⟨[1], []⟩, false⟩, ⟨⟨[], [(2, 0), (1, 1)]⟩, false⟩]
    [⟨.ok ⟨1, [1, 0]⟩, 1, 0⟩, ⟨.ok ⟨2, [1, 0]⟩, 2, 0⟩] = some .hitRanBody := by decide
/-- a call that cannot be bound runs the body / raises something else; observation list too short or too long -/
example : Alru.specClause (alruRefKey .default sgA) (alruBind sgA) 1 [⟨⟨[], []⟩, false⟩] [⟨.ok ⟨1, []⟩, 1, 0⟩] =
    some .malformedCall := by decide
example : Alru.specClause (alruRefKey .default sgA) (alruBind sgA) 1 [⟨⟨[], []⟩, false⟩] [⟨.raisedOther, 0, 0⟩] =
    some .malformedCall := by decide
example : Alru.specClause (alruRefKey .default sgA) (alruBind sgA) 2 [⟨⟨[1], []⟩, true⟩] [] = some .shape := by decide
example : Alru.specClause (alruRefKey .default sgA) (alruBind sgA) 2 [] [⟨.unit, 0, 0⟩] = some .shape := by decide
/-- per instance: a value shared across instances; an instance not dropped; a cache that survives its instance -/
example : PerInst.specClause (perInstRefKey sgM) (perInstBind sgM) [.call 0 ⟨[1], []⟩ false false, .call 1 ⟨[1], []⟩ false false]
    [⟨.ok ⟨1, [1, 0]⟩, 1, 1⟩, ⟨.ok ⟨1, [1, 0]⟩, 1, 2⟩] = some .staleValue := by decide
example : PerInst.specClause (perInstRefKey sgM) (perInstBind sgM) [.call 0 ⟨[1], []⟩ false false, .drop 0]
    [⟨.ok ⟨1, [1, 0]⟩, 1, 1⟩, ⟨.unit, 1, 1⟩] = some .instances := by decide
example : PerInst.specClause (perInstRefKey sgM) (perInstBind sgM)
    [.call 0 ⟨[1], []⟩ false false, .drop 0, .call 0 ⟨[1], []⟩ false false]
    [⟨.ok ⟨1, [1, 0]⟩, 1, 1⟩, ⟨.unit, 1, 0⟩, ⟨.ok ⟨1, [1, 0]⟩, 1, 1⟩] = some .staleValue := by decide
/-- lazy constant: cached beyond its ttl; recomputed twice after dirty(); dirty() ignored -/
example : Lazy.specClause 5 1 [.call false 0, .tick 6, .call false 0]
    [⟨.ok ⟨1, []⟩, 1, 1⟩, ⟨.unit, 1, 7⟩, ⟨.ok ⟨1, []⟩, 1, 7⟩] = some .staleValue := by decide
example : Lazy.specClause 0 1 [.call false 0, .dirty, .call false 0, .call false 0]
    [⟨.ok ⟨1, []⟩, 1, 1⟩, ⟨.unit, 1, 1⟩, ⟨.ok ⟨2, []⟩, 2, 1⟩, ⟨.ok ⟨3, []⟩, 3, 1⟩] = some .hitRanBody := by decide
example : Lazy.specClause 0 1 [.call false 0, .dirty, .call false 0]
    [⟨.ok ⟨1, []⟩, 1, 1⟩, ⟨.unit, 1, 1⟩, ⟨.ok ⟨1, []⟩, 1, 1⟩] = some .staleValue := by decide
end rejected

/-! ## one step of the model (NOT claimed as property theorems)

These hold by unfolding `step` once: they say what the model does, in the vocabulary of the property, and are only as
good as the correspondence between the model and tools.py.  The history-level statements with content are the
refinement theorems (the observer checks hit / miss / failure-not-stored on every call of every history) and the two
eviction theorems above. -/

/-- a hit returns the stored value, does not run the body and makes the entry the most recently used -/
theorem C13_alru_hit (mk : Call → Option Key) (bd : Call → Option (List Nat)) (st : Alru.St) (op : Alru.Op)
    (k : Key) (v : Val) (hk : mk op.c = some k) (hl : st.cache.items.lookup k = some v) :
    (Alru.step mk bd st op).2 = .ok v ∧ (Alru.step mk bd st op).1.runs = st.runs ∧
      (Alru.step mk bd st op).1.cache.items = del k st.cache.items ++ [(k, v)] := by
  rw [Alru.step_hit hk hl]; exact ⟨rfl, rfl, rfl⟩

/-- a miss runs the body exactly once, returns its fresh result, stores it as the most recently used entry and, iff
    the cache is full, evicts exactly the least recently used entry (the head of the recency list) -/
theorem C13_alru_miss (mk : Call → Option Key) (bd : Call → Option (List Nat)) (st : Alru.St) (op : Alru.Op)
    (k : Key) (b : List Nat) (hk : mk op.c = some k) (hl : st.cache.items.lookup k = none) (hb : bd op.c = some b)
    (hr : op.raises = false) :
    (Alru.step mk bd st op).2 = .ok ⟨st.runs + 1, b⟩ ∧ (Alru.step mk bd st op).1.runs = st.runs + 1 ∧
      (Alru.step mk bd st op).1.cache.items =
        (if st.cache.items.length = st.cache.cap then st.cache.items.drop 1 else st.cache.items) ++
          [(k, ⟨st.runs + 1, b⟩)] := by
  rw [Alru.step_store hk hl hb hr]
  refine ⟨rfl, rfl, ?_⟩
  simp only [LRU.setItem, hl, Option.isSome_none, Bool.false_eq_true, if_false]
  by_cases hfull : st.cache.items.length = st.cache.cap
  · simp [hfull]
  · have hb' : (st.cache.items.length == st.cache.cap) = false := by simpa using hfull
    simp [hb', hfull]

/-- a body that raises is not cached: the exception reaches the caller and the cache is unchanged -/
theorem C13_alru_raise_not_stored (mk : Call → Option Key) (bd : Call → Option (List Nat)) (st : Alru.St) (op : Alru.Op)
    (k : Key) (b : List Nat) (hk : mk op.c = some k) (hl : st.cache.items.lookup k = none) (hb : bd op.c = some b)
    (hr : op.raises = true) :
    (Alru.step mk bd st op).2 = .raisedUser (st.runs + 1) ∧ (Alru.step mk bd st op).1.cache = st.cache := by
  rw [Alru.step_raise hk hl hb hr]; exact ⟨rfl, rfl⟩

/-- giving up an instance none of whose cached values refers to it removes exactly its entry (a later instance that
    reuses the token starts from an empty cache); one that is referred to by a cached value leaves a zombie entry -/
theorem C13_instance_drop (mk : Call → Option Key) (bd : Call → Option (List Nat)) (st : PerInst.St) (i : Nat) :
    (PerInst.step mk bd st (.drop i)).1.insts.lookup i = none ∧
      (PerInst.step mk bd st (.drop i)).1.insts.map (·.1) = (st.insts.map (·.1)).filter (· != i) ∧
      (PerInst.step mk bd st (.drop i)).1.zombies = st.zombies + (if st.pinned.contains i then 1 else 0) := by
  simp only [PerInst.step]
  split <;> simp_all [PerInst.lookup_filter_ne, PerInst.map_fst_filter]

end AsynqModel.Cache
