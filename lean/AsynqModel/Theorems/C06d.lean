import AsynqModel.Proofs.P26Clauses
import AsynqModel.Theorems.SpecC06
/-!
# C06, the positive direction: "resumed ... whenever tasks that only it is awaiting run"  (audit item 4a)

`C06_resumed_implies_awaiting` (Theorems/C06b.lean) says: while the code of task `u` runs, every resumed context belongs
to a task that waits for `u`.  Here is the converse.

Vocabulary.  `P12.awaits s t u` / `P12.awaitsStar s t u`: task `t` waits for future `u` - suspended at a yield with `u`
among what it yielded last / its `_dependencies`, or stopped in the synchronous call `u.value()` - directly / through
tasks (reflexive-transitive).  `(s.task t).conts`: the open with-blocks of `t`.  `P2.gens s.ctl`: the tasks whose
generator frames are on the Python stack (the running task, and the callers of the synchronous calls in progress).
`P26.TReach s`: `s` is a state of a run of WELL-SCOPED (`P10.WellScoped`), TREE-SHAPED (`Spec.bodyShares = false`: no
future is handed to a child, so a future can be named - hence awaited - by its creator only) top-level computations.
`P17.LabA s L` (Proofs/P17Lab.lean): `L` labels every entry of the scheduler's task stack with its PARENT, the task on
whose behalf the entry was pushed - a suspended task one of whose `_dependencies` it is, or the task whose generator
called `wait_for` on it -, the parent of an entry being the next entry or the parent of the next entry.

* `C06_awaiting_implies_resumed` (trees): while the code of `u` runs, EVERY open AsyncContext of EVERY task that waits
  for `u` - directly or through tasks - is resumed.  By `C06_caller_awaits_running` the callers of the synchronous
  calls leading to `u`, and the tasks waiting for them, are among these.
* `C06_active_iff_awaiting_tree` (trees): for an open AsyncContext `c` of task `t`, while `u` runs:
  `c` resumed ↔ `t` waits for `u` (↔ `t = u`, or `t` waits for `u`, or `t` is a caller, or `t` waits for a caller).
  This is the "exactly" of the title.
* `C06_resumed_iff_on_spine` (ANY well-scoped program, shared futures included): the open AsyncContexts that are resumed
  while `u` runs are exactly those of `u` and of the LABELS of the labelled stack: the awaiters through which the
  scheduler's depth-first walk reached `u`.  When `u` is awaited by `t1` and `t2`, the contexts of the one that
  scheduled it (the parent of `u`'s stack entry, `C06_scheduler_of_running_resumed`) are resumed; those of the other
  are resumed only if it is itself on the spine.
* `C06d_shared_not_resumed`: a machine-checked run with a task awaited by two: while it runs, an open context of one
  of its awaiters is PAUSED - tree shape (the "only" of the statement) is necessary.
* `Spec_C06strict_accepts`: the observer `P26.checkC06strict` (= `Spec.checkC06` plus: for tree-shaped programs the
  contexts of awaiting owners MUST be resumed at every `.run` event, and those of the tasks waiting for a caller at
  every scheduler flush inside a synchronous call) accepts every trace of the machine.

Hypotheses.  `s.guardFired = false`: after the MAX_TASK_STACK_SIZE guard has thrown the task stack away nothing relates
contexts and the stack (`Spec_C06_needs_guard`).  Well-scopedness: an ill-scoped program can build an await cycle
(Theorems/Acyclic.lean).  NO hypothesis about NonAsyncContexts (the labelled-stack invariant `P17.LabIA` is re-proved
without it, Proofs/P26Lab.lean) and none about `stuck`.
-/
namespace AsynqModel.Core
open P12 P26

/-- **C06_caller_awaits_running**: while the code of `u` runs, every task whose generator frame is on the Python stack
    - the caller of a synchronous call in progress - waits for `u` (through the root of its call).  So "a task waiting
    for a caller" is a task waiting for `u`. -/
theorem C06_caller_awaits_running (s : State) (h : P10.WSReach s) (hg : s.guardFired = false) (u : Nat)
    (old : Option Nat) (rest : List Ctl) (hctl : s.ctl = .gen u old :: rest) (cl : Nat) (hcl : cl ∈ P2.gens s.ctl) :
    awaitsStar s cl u := by
  obtain ⟨L, sp⟩ := spine_reach h hg
  have pi := P2.pinv_reach h.reach
  have hd := (P10.ws_cinv h hg).disc
  rw [hctl] at hd
  have hhead : s.stack.head? = some u := disc_gen_head hd
  rcases sp.only (pi.genKind cl hcl) (pi.rca cl hcl) (by simp [State.computed, pi.live cl hcl]) with h1 | h1
  · rw [hhead] at h1
    simp only [Option.some.injEq] at h1
    rw [h1]; exact .refl _
  · exact sp.label_awaits hhead h1

/-- **C06_awaiting_implies_resumed** (audit item 4a): in a run of well-scoped, tree-shaped computations, stack guard
    not fired, while the code of task `u` runs (the head of the Python stack is `u`'s generator frame): every context
    `c` of an open with-block of every task `t` that waits for `u` - directly or through tasks; `t = u` included -
    exists, is owned by `t` and, unless it is a NonAsyncContext, is RESUMED. -/
theorem C06_awaiting_implies_resumed (s : State) (h : TReach s) (hg : s.guardFired = false) (u : Nat)
    (old : Option Nat) (rest : List Ctl) (hctl : s.ctl = .gen u old :: rest) (t : Nat) (ha : awaitsStar s t u)
    (c : Nat) (hc : c ∈ (s.task t).conts.map (·.1)) :
    ∃ x, s.ctxs[c]? = some x ∧ x.owner = some t ∧ (x.kind = .nonasync ∨ x.resumed = true) := by
  have hws := h.ws
  obtain ⟨L, sp⟩ := spine_reach hws hg
  have hd := (P10.ws_cinv hws hg).disc
  rw [hctl] at hd
  have hhead : s.stack.head? = some u := disc_gen_head hd
  have hu : u ∈ s.stack := by
    cases hst : s.stack with
    | nil => rw [hst] at hhead; cases hhead
    | cons a st =>
      rw [hst] at hhead
      simp only [List.head?_cons, Option.some.injEq] at hhead
      rw [hhead]; exact List.mem_cons_self
  have hact : (s.task t).ctxActive = true := sp.active hws.reach hctl hhead (sp.tree h.ti ha hu)
  obtain ⟨_, x, hx, ho, hf⟩ := open_flag hws.reach hg hc
  refine ⟨x, hx, ho, ?_⟩
  by_cases hk : x.kind = .nonasync
  · exact .inl hk
  · exact .inr (by rw [hf hk]; exact hact)

/-- ... in particular the contexts of the tasks that wait for the caller of a synchronous call leading to `u` -/
theorem C06_awaiting_caller_resumed (s : State) (h : TReach s) (hg : s.guardFired = false) (u : Nat)
    (old : Option Nat) (rest : List Ctl) (hctl : s.ctl = .gen u old :: rest) (cl : Nat) (hcl : cl ∈ P2.gens s.ctl)
    (t : Nat) (ha : awaitsStar s t cl) (c : Nat) (hc : c ∈ (s.task t).conts.map (·.1)) :
    ∃ x, s.ctxs[c]? = some x ∧ x.owner = some t ∧ (x.kind = .nonasync ∨ x.resumed = true) :=
  C06_awaiting_implies_resumed s h hg u old rest hctl t
    (ha.trans (C06_caller_awaits_running s h.ws hg u old rest hctl cl hcl)) c hc

/-- the converse for with-blocks, without any hypothesis about NonAsyncContexts and for ANY well-scoped program:
    while `u` runs, the owner of a resumed context of an open with-block waits for `u` -/
theorem C06_open_resumed_implies_awaiting (s : State) (h : P10.WSReach s) (hg : s.guardFired = false) (u : Nat)
    (old : Option Nat) (rest : List Ctl) (hctl : s.ctl = .gen u old :: rest) (t c : Nat)
    (hc : c ∈ (s.task t).conts.map (·.1)) (x : CtxSt) (hx : s.ctxs[c]? = some x) (hk : x.kind ≠ .nonasync)
    (hr : x.resumed = true) : awaitsStar s t u := by
  obtain ⟨L, sp⟩ := spine_reach h hg
  have hd := (P10.ws_cinv h hg).disc
  rw [hctl] at hd
  have hhead : s.stack.head? = some u := disc_gen_head hd
  obtain ⟨_, x', hx', _, hf⟩ := open_flag h.reach hg hc
  rw [hx] at hx'; cases hx'
  obtain ⟨hkt, hcomp⟩ := open_live h.reach hg hc
  rcases sp.only hkt (by rw [← hf hk]; exact hr) hcomp with h1 | h1
  · rw [hhead] at h1
    simp only [Option.some.injEq] at h1
    rw [h1]; exact .refl _
  · exact sp.label_awaits hhead h1

/-- **C06_active_iff_awaiting_tree** ("active EXACTLY while its task, or work it awaits, runs", for trees): for an
    AsyncContext `c` of an open with-block of task `t`, while the code of `u` runs:
    `c` is resumed  ↔  `t` waits for `u` (directly or through tasks, or `t = u`). -/
theorem C06_active_iff_awaiting_tree (s : State) (h : TReach s) (hg : s.guardFired = false) (u : Nat)
    (old : Option Nat) (rest : List Ctl) (hctl : s.ctl = .gen u old :: rest) (t c : Nat)
    (hc : c ∈ (s.task t).conts.map (·.1)) (x : CtxSt) (hx : s.ctxs[c]? = some x) (hk : x.kind ≠ .nonasync) :
    x.resumed = true ↔ awaitsStar s t u := by
  constructor
  · exact C06_open_resumed_implies_awaiting s h.ws hg u old rest hctl t c hc x hx hk
  · intro ha
    obtain ⟨x', hx', _, hr⟩ := C06_awaiting_implies_resumed s h hg u old rest hctl t ha c hc
    rw [hx] at hx'; cases hx'
    rcases hr with hr | hr
    · exact absurd hr hk
    · exact hr

/-- the same with the four cases of the statement spelled out: `t` is the running task, or waits for it, or is the
    caller of a synchronous call leading to it, or waits for such a caller -/
theorem C06_active_iff_awaiting_tree' (s : State) (h : TReach s) (hg : s.guardFired = false) (u : Nat)
    (old : Option Nat) (rest : List Ctl) (hctl : s.ctl = .gen u old :: rest) (t c : Nat)
    (hc : c ∈ (s.task t).conts.map (·.1)) (x : CtxSt) (hx : s.ctxs[c]? = some x) (hk : x.kind ≠ .nonasync) :
    x.resumed = true ↔
      (t = u ∨ awaitsStar s t u ∨ t ∈ P2.gens s.ctl ∨ ∃ cl, cl ∈ P2.gens s.ctl ∧ awaitsStar s t cl) := by
  rw [C06_active_iff_awaiting_tree s h hg u old rest hctl t c hc x hx hk]
  constructor
  · exact fun ha => .inr (.inl ha)
  · rintro (rfl | ha | hm | ⟨cl, hcl, ha⟩)
    · exact .refl _
    · exact ha
    · exact C06_caller_awaits_running s h.ws hg u old rest hctl t hm
    · exact ha.trans (C06_caller_awaits_running s h.ws hg u old rest hctl cl hcl)

/-- the same with the hypotheses about the program spelled out: every state `s` of every run of the top-level
    computations `tops` - each well-scoped and with `Spec.bodyShares = false` - under any configuration and flush oracle -/
theorem C06_active_iff_awaiting_tree_run (cfg : Cfg) (tops : List (Conv × Body)) (choices : List (Nat × Nat))
    (s : State) (h : P13.ReachFrom (initState cfg tops choices) s)
    (hws : ∀ p, p ∈ tops → P10.WellScoped p.2 0 0 = true) (htree : ∀ p, p ∈ tops → Spec.bodyShares p.2 = false)
    (hg : s.guardFired = false) (u : Nat) (old : Option Nat) (rest : List Ctl) (hctl : s.ctl = .gen u old :: rest)
    (t c : Nat) (hc : c ∈ (s.task t).conts.map (·.1)) (x : CtxSt) (hx : s.ctxs[c]? = some x)
    (hk : x.kind ≠ .nonasync) : x.resumed = true ↔ awaitsStar s t u :=
  C06_active_iff_awaiting_tree s (treach_of_reachFrom h hws htree) hg u old rest hctl t c hc x hx hk

/-! ## shared futures: the spine -/

/-- **C06_resumed_iff_on_spine** (ANY well-scoped program, stack guard not fired): while the code of `u` runs there is a
    labelling `L` of the scheduler's task stack (`P17.LabA`: every entry but the bottom one is labelled with a task
    that DIRECTLY waits for it and whose contexts are active; the label of an entry is the next entry or the label of
    the next entry) such that `u` is the top entry, every label waits for `u`, and for every AsyncContext `c` of an
    open with-block of any task `t`:  `c` is resumed  ↔  `t = u` or `t` is a label.
    The labels are the awaiters through which the scheduler's depth-first walk reached `u`. -/
theorem C06_resumed_iff_on_spine (s : State) (h : P10.WSReach s) (hg : s.guardFired = false) (u : Nat)
    (old : Option Nat) (rest : List Ctl) (hctl : s.ctl = .gen u old :: rest) :
    ∃ L : List (Nat × Nat), L.map Prod.fst = s.stack ∧ P17.LabA s L ∧ s.stack.head? = some u ∧
      (∀ q ∈ L.map Prod.snd, awaitsStar s q u) ∧
      ∀ t c x, c ∈ (s.task t).conts.map (·.1) → s.ctxs[c]? = some x → x.kind ≠ .nonasync →
        (x.resumed = true ↔ (t = u ∨ t ∈ L.map Prod.snd)) := by
  obtain ⟨L, sp⟩ := spine_reach h hg
  have hd := (P10.ws_cinv h hg).disc
  rw [hctl] at hd
  have hhead : s.stack.head? = some u := disc_gen_head hd
  refine ⟨L, sp.stk, sp.lab, hhead, fun q hq => sp.label_awaits hhead hq, ?_⟩
  intro t c x hc hx hk
  obtain ⟨_, x', hx', _, hf⟩ := open_flag h.reach hg hc
  rw [hx] at hx'; cases hx'
  obtain ⟨hkt, hcomp⟩ := open_live h.reach hg hc
  rw [hf hk]
  constructor
  · intro ha
    rcases sp.only hkt ha hcomp with h1 | h1
    · rw [hhead] at h1
      simp only [Option.some.injEq] at h1
      exact .inl h1.symm
    · exact .inr h1
  · exact fun ht => sp.active h.reach hctl hhead ht

/-- **C06_scheduler_of_running_resumed**: while `u` runs and is not the only stack entry, the task `p` on whose behalf
    `u`'s entry was pushed - it DIRECTLY waits for `u` - has every AsyncContext of its open with-blocks resumed
    (whether or not other tasks wait for `u` too). -/
theorem C06_scheduler_of_running_resumed (s : State) (h : P10.WSReach s) (hg : s.guardFired = false) (u : Nat)
    (old : Option Nat) (rest : List Ctl) (hctl : s.ctl = .gen u old :: rest) (e : Nat) (stk : List Nat)
    (hst : s.stack = u :: e :: stk) :
    ∃ p, awaits s p u ∧ ∀ c x, c ∈ (s.task p).conts.map (·.1) → s.ctxs[c]? = some x → x.kind ≠ .nonasync →
      x.resumed = true := by
  obtain ⟨L, hL, hlab, hhead, _, hiff⟩ := C06_resumed_iff_on_spine s h hg u old rest hctl
  match L, hL, hlab with
  | [], hL, _ => rw [hst] at hL; cases hL
  | [_], hL, _ => rw [hst] at hL; cases hL
  | (a, pa) :: (b, pb) :: L', hL, hlab =>
    have : a = u := by
      rw [hst] at hL
      simp only [List.map_cons, List.cons.injEq] at hL
      exact hL.1
    subst this
    refine ⟨pa, hlab.1.1.awaits, fun c x hc hx hk => ?_⟩
    exact (hiff pa c x hc hx hk).2 (.inr (by simp))

/-! ## the observer -/

theorem C06d_mkCtx_tree {cfg : Cfg} {tops : List (Conv × Body)} (h : (Spec.mkCtx cfg tops).treeShaped = true) :
    ∀ p, p ∈ tops → Spec.bodyShares p.2 = false := by
  intro p hp
  have h' : (!(tops.any fun p => Spec.bodyShares p.2)) = true := h
  have h'' : (tops.any fun p => Spec.bodyShares p.2) = false := by simpa using h'
  rw [List.any_eq_false] at h''
  simpa using h'' p hp

/-- **the stricter observer accepts every trace of the machine**: for every state `s` of every run of well-scoped
    computations `tops` (tree-shaped or not) in which the stack guard has not fired, `P26.checkC06strict` - `Spec.checkC06`
    plus the clause that for TREE-SHAPED programs REQUIRES the contexts of awaiting owners to be resumed - with the
    context the checks build from the program accepts the trace of `s`. -/
theorem Spec_C06strict_accepts (cfg : Cfg) (tops : List (Conv × Body)) (choices : List (Nat × Nat)) (s : State)
    (h : P13.ReachFrom (initState cfg tops choices) s) (hws : ∀ p, p ∈ tops → P10.WellScoped p.2 0 0 = true)
    (hg : s.guardFired = false) :
    Spec.specRun checkC06strict (Spec.mkCtx cfg tops) {} 0 s.trace.reverse = none := by
  rw [P13.specRun_none_iff]
  have h1 : P13.Acc Spec.checkC06 (Spec.mkCtx cfg tops) s.trace := P16.acc_C06 (wsreach_of_reachFrom_c06 hws h) hg
  have h2 : P13.Acc strictC06 (Spec.mkCtx cfg tops) s.trace := by
    cases ht : (Spec.mkCtx cfg tops).treeShaped with
    | false => exact P13.acc_of_forall _ _ _ (fun e _ w => strict_void _ ht w e)
    | true => exact acc_strict (treach_of_reachFrom h hws (C06d_mkCtx_tree ht)) hg _
  exact acc_and s.trace h1 h2

theorem Spec_C06strict_accepts_run (cfg : Cfg) (tops : List (Conv × Body)) (choices : List (Nat × Nat)) (n : Nat)
    (hws : ∀ p, p ∈ tops → P10.WellScoped p.2 0 0 = true)
    (hg : (runFuel n (initState cfg tops choices)).guardFired = false) :
    Spec.specRun checkC06strict (Spec.mkCtx cfg tops) {} 0 (runFuel n (initState cfg tops choices)).trace.reverse = none :=
  Spec_C06strict_accepts cfg tops choices _ (P13.reachFrom_runFuel _ n) hws hg

/-- the strict observer is `checkC06` followed by the tree clause: whatever `checkC06` rejects it rejects, with the same
    message; on programs that are not tree-shaped the two coincide -/
theorem checkC06strict_of_checkC06 (c : Spec.Ctx) (w : Spec.Watch) (e : Event) (m : String)
    (h : Spec.checkC06 c w e = some m) : checkC06strict c w e = some m := by
  unfold checkC06strict; rw [h]

theorem checkC06strict_eq_of_not_tree (c : Spec.Ctx) (ht : c.treeShaped = false) (w : Spec.Watch) (e : Event) :
    checkC06strict c w e = Spec.checkC06 c w e := by
  unfold checkC06strict
  cases h : Spec.checkC06 c w e with
  | some m => rfl
  | none => exact strict_void c ht w e

/-! ## tree shape is necessary: a task awaited by two -/

/-- the shared task: blocks on a batch item -/
def C06d_u : Body := .item 0 1 .ok (.yld (.f (.own 0)) (.ret 9) (.raise 0))
/-- an awaiter: enters a context and awaits the future its parent handed over -/
def C06d_aw (tag : Nat) : Body := .withCtx .plain (.yld (.f (.inh 0)) .endwith (.raise 0)) (.ret tag)
/-- the parent creates `u` (future 1), hands it to two children (futures 2, 3) and awaits both -/
def C06d_dag : Body :=
  .spawn C06d_u [] (.spawn (C06d_aw 1) [.own 0] (.spawn (C06d_aw 2) [.own 0]
    (.yld (.tup [.f (.own 1), .f (.own 2)]) (.ret 0) (.raise 0))))

def C06d_dagState (n : Nat) : State := runFuel n (initState {} [(.value, C06d_dag)] [])

theorem C06d_dag_ws (n : Nat) : P10.WSReach (C06d_dagState n) :=
  wsreach_runFuel {} _ [] (by intro p hp; simp at hp; subst hp; decide) n

/-- **tree shape ("tasks that ONLY it is awaiting") is necessary**: the program is well-scoped but hands future 1 to two
    children; the run ends normally; after 37 steps the shared task 1 is being resumed (second round, after the flush),
    reached through task 2; task 3 also waits for task 1 (`P12.awaits`), is inside its with-block (context 1, an
    AsyncContext) - and that context is PAUSED, while context 0 of task 2 is resumed. -/
theorem C06d_shared_not_resumed :
    P10.WellScoped C06d_dag 0 0 = true ∧ Spec.bodyShares C06d_dag = true ∧
    (C06d_dagState 80).isDone = true ∧ (C06d_dagState 80).stuck = none ∧ (C06d_dagState 80).guardFired = false ∧
    (C06d_dagState 37).ctl = [.gen 1 none, .waitLoop 0 0] ∧ (C06d_dagState 37).stack = [1, 2, 3, 0] ∧
    awaits (C06d_dagState 37) 3 1 ∧ awaits (C06d_dagState 37) 2 1 ∧
    ((C06d_dagState 37).task 3).conts.map (·.1) = [1] ∧ ((C06d_dagState 37).task 2).conts.map (·.1) = [0] ∧
    (C06d_dagState 37).ctxs = [{ kind := .plain, owner := some 2, resumed := true },
                                { kind := .plain, owner := some 3, resumed := false }] := by
  refine ⟨by decide, by decide, by decide, by decide, by decide, by decide, by decide, ?_, ?_, by decide, by decide,
    by decide⟩
  · exact .inl ⟨by decide, by decide, .inl (by decide)⟩
  · exact .inl ⟨by decide, by decide, .inl (by decide)⟩

/-- the spine theorem applied to that state: the resumed context belongs to the label (task 2, through which the walk
    reached task 1), the paused one to the awaiter that is not on the spine -/
example : ∃ p, awaits (C06d_dagState 37) p 1 ∧
    ∀ c x, c ∈ ((C06d_dagState 37).task p).conts.map (·.1) → (C06d_dagState 37).ctxs[c]? = some x →
      x.kind ≠ .nonasync → x.resumed = true :=
  C06_scheduler_of_running_resumed _ (C06d_dag_ws 37) (by decide) 1 none [.waitLoop 0 0] (by decide) 2 [3, 0]
    (by decide)

/-- ... and the strict clause, forced onto this program that is not tree-shaped, rejects the model's own trace at the
    resume of the shared task - while the observer with the program's own context (not tree-shaped) accepts it -/
theorem C06d_strict_needs_tree :
    Spec.specRun checkC06strict { Spec.mkCtx {} [(.value, C06d_dag)] with treeShaped := true } {} 0
      (C06d_dagState 80).trace.reverse = some (26, strictMsg) ∧
    Spec.specRun checkC06strict (Spec.mkCtx {} [(.value, C06d_dag)]) {} 0 (C06d_dagState 80).trace.reverse = none := by
  constructor
  · decide
  · exact Spec_C06strict_accepts_run {} _ [] 80 (by intro p hp; simp at hp; subst hp; decide) (by decide)


/-! ## the stack guard -/

/-- the run of `SpecC06_guardProg` (a task enters a context, creates a child and awaits it) with
    `MAX_TASK_STACK_SIZE = 1`, followed by a second top-level computation -/
def C06d_guardState (n : Nat) : State :=
  runFuel n (initState { maxStack := 1 } [(.value, SpecC06_guardProg), (.value, .ret 5)] [])

theorem C06d_guard_not_awaiting : ¬ awaitsStar (C06d_guardState 13) 0 2 := by
  have h0 : ∀ u, awaits (C06d_guardState 13) 0 u → u = 1 := by
    intro u hu
    rcases hu with ⟨_, _, h | h⟩ | ⟨⟨k, hh, hb⟩, _⟩
    · have e : ((C06d_guardState 13).task 0).lastY.leaves = [1] := by decide
      rw [e] at h; simpa using h
    · have e : ((C06d_guardState 13).task 0).deps = [1] := by decide
      rw [e] at h; simpa using h
    · have e : C06b_syncTarget ((C06d_guardState 13).task 0).body = none := by decide
      rw [hb] at e; cases e
  have h1 : ∀ u, ¬ awaits (C06d_guardState 13) 1 u := by
    intro u hu
    rcases hu with ⟨_, _, h | h⟩ | ⟨⟨k, hh, hb⟩, _⟩
    · have e : ((C06d_guardState 13).task 1).lastY.leaves = [] := by decide
      rw [e] at h; cases h
    · have e : ((C06d_guardState 13).task 1).deps = [] := by decide
      rw [e] at h; cases h
    · have e : C06b_syncTarget ((C06d_guardState 13).task 1).body = none := by decide
      rw [hb] at e; cases e
  intro h
  cases h with
  | head ha hs =>
    have := h0 _ ha
    subst this
    cases hs with
    | head ha' _ => exact h1 _ ha'

/-- **`guardFired = false` cannot be dropped from `C06_active_iff_awaiting_tree`**: the programs are well-scoped and
    tree-shaped; the guard fires when the child is pushed and throws the task stack away with context 0 of task 0
    resumed; while the root of the NEXT computation (task 2) runs, that context - of an open with-block of task 0 - is
    still resumed, and task 0 does not wait for task 2.  (For the direction `C06_awaiting_implies_resumed` alone no
    counterexample is known: 1800 generated runs in which the guard fired satisfy the strict clause; the proof uses the
    hypothesis through the labelled-stack invariant.) -/
theorem C06d_iff_needs_guard :
    TReach (C06d_guardState 13) ∧ (C06d_guardState 13).guardFired = true ∧ (C06d_guardState 13).stuck = none ∧
    (C06d_guardState 13).ctl = [.gen 2 none, .waitLoop 2 0] ∧ ((C06d_guardState 13).task 0).conts.map (·.1) = [0] ∧
    (C06d_guardState 13).ctxs = [{ kind := .plain, owner := some 0, resumed := true }] ∧
    ¬ awaitsStar (C06d_guardState 13) 0 2 :=
  ⟨treach_runFuel _ _ [] 13 (by intro p hp; simp at hp; rcases hp with rfl | rfl <;> decide)
      (by intro p hp; simp at hp; rcases hp with rfl | rfl <;> decide),
    by decide, by decide, by decide, by decide, by decide, C06d_guard_not_awaiting⟩

/-! ## non-vacuity -/

/-- a chain of three tasks, the outer two inside a context of their own: grandchild (blocks on a batch item),
    child (awaits the grandchild inside a with-block), parent (awaits the child inside a with-block) -/
def C06d_gc : Body := .item 0 1 .ok (.yld (.f (.own 0)) (.ret 3) (.raise 0))
def C06d_child : Body := .withCtx .plain (.spawn C06d_gc [] (.yld (.f (.own 0)) .endwith (.raise 0))) (.ret 2)
def C06d_parent : Body := .withCtx .plain (.spawn C06d_child [] (.yld (.f (.own 0)) .endwith (.raise 0))) (.ret 1)

def C06d_state (n : Nat) : State := runFuel n (initState {} [(.value, C06d_parent)] [])

theorem C06d_treach (n : Nat) : TReach (C06d_state n) :=
  treach_runFuel {} _ [] n (by intro p hp; simp at hp; subst hp; decide) (by intro p hp; simp at hp; subst hp; decide)

/-- the run ends normally; after 28 steps the grandchild (task 2) is being resumed after the flush; the parent (0)
    waits for the child (1), the child for the grandchild; both are inside their with-blocks -/
example : (C06d_state 80).isDone = true ∧ (C06d_state 80).stuck = none ∧ (C06d_state 28).guardFired = false ∧
    (C06d_state 28).ctl = [.gen 2 none, .waitLoop 0 0] ∧ (C06d_state 28).stack = [2, 1, 0] ∧
    ((C06d_state 28).task 0).conts.map (·.1) = [0] ∧ ((C06d_state 28).task 1).conts.map (·.1) = [1] := by decide

theorem C06d_parent_awaits_gc : awaitsStar (C06d_state 28) 0 2 :=
  .head (u := 1) (.inl ⟨by decide, by decide, .inl (by decide)⟩)
    (.single (.inl ⟨by decide, by decide, .inl (by decide)⟩))

/-- the theorem applied: context 0 of the parent is resumed while the grandchild runs (by the theorem, not by evaluation) -/
example : ∃ x, (C06d_state 28).ctxs[0]? = some x ∧ x.owner = some 0 ∧ (x.kind = .nonasync ∨ x.resumed = true) :=
  C06_awaiting_implies_resumed _ (C06d_treach 28) (by decide) 2 none [.waitLoop 0 0] (by decide) 0
    C06d_parent_awaits_gc 0 (by decide)

/-- ... and it is so -/
example : (C06d_state 28).ctxs = [{ kind := .plain, owner := some 0, resumed := true },
                                   { kind := .plain, owner := some 1, resumed := true }] := by decide

/-- the strict observer accepts the trace of the chain, by the theorem; the trace does contain `.run` events of the
    grandchild at which the contexts of parent and child are open -/
example : Spec.specRun checkC06strict (Spec.mkCtx {} [(.value, C06d_parent)]) {} 0 (C06d_state 80).trace.reverse = none :=
  Spec_C06strict_accepts_run {} _ [] 80 (by intro p hp; simp at hp; subst hp; decide) (by decide)
example : (Spec.mkCtx {} [(.value, C06d_parent)]).treeShaped = true ∧
    Event.run 2 0 true .start ∈ (C06d_state 80).trace ∧ Event.run 2 1 true (.out (.ok (.a 1001))) ∈ (C06d_state 80).trace := by
  decide

/-- the strict clause is not void: a hand-made trace in which the parent's context is paused while the child it awaits
    runs is accepted by `Spec.checkC06` ("may be resumed") and rejected by the strict observer ("must be") -/
def C06d_badTrace : List Event :=
  [.new 0 (.task none), .run 0 0 true .start, .ctxN 0 0 .plain, .ctx true 0, .new 1 (.task (some 0)),
   .yield 0 0 (.f 1), .ctx false 0, .run 1 0 true .start]

example : Spec.specRun Spec.checkC06 { (Spec.mkCtx {} []) with treeShaped := true } {} 0 C06d_badTrace = none ∧
    Spec.specRun checkC06strict { (Spec.mkCtx {} []) with treeShaped := true } {} 0 C06d_badTrace = some (7, strictMsg) ∧
    Spec.specRun checkC06strict { (Spec.mkCtx {} []) with treeShaped := false } {} 0 C06d_badTrace = none := by decide

/-- the flush clause: a caller's awaiter paused during a flush inside the synchronous call -/
def C06d_badFlush : List Event :=
  [.new 0 (.task none), .run 0 0 true .start, .ctxN 0 0 .plain, .ctx true 0, .new 1 (.task (some 0)),
   .yield 0 0 (.f 1), .run 1 0 true .start, .new 2 (.task (some 1)), .syncE 1 2, .ctx false 0,
   .flushB 0 0 [3] (0, 1) []]

example : Spec.specRun Spec.checkC06 { (Spec.mkCtx {} []) with treeShaped := true } {} 0 C06d_badFlush = none ∧
    Spec.specRun checkC06strict { (Spec.mkCtx {} []) with treeShaped := true } {} 0 C06d_badFlush =
      some (10, strictFlushMsg) := by decide

end AsynqModel.Core
