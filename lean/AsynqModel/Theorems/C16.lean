import AsynqModel.Lib.Threads
import AsynqModel.Proofs.Threads
/-!
# C16  Computations on different threads never interfere

The model (`AsynqModel.Threads`, Lib/Threads.lean) is ONE global state for all threads - the thread-indexed carriers
(`locals`), the one process-wide deduplicate dict whose keys carry a thread component (`tasks`), and objects that the
program shares between threads (`sh`: a scoped value, an alru cache) - and ONE global step `gStep kg perf t op`.  How a
thread addresses the carriers and what it puts into a deduplicate key is the parameter `kg : Keying`; the state the
threads start from is the parameter `g₀` of every run.

What is proved:
* the SHARING STRUCTURE of `gStep`: for an operation that touches no shared object, the step of thread `t` commutes with
  the abstraction `abs kg t` to `t`'s view (`C16_gstep_simulates_local`, any keying), and if the keying separates the
  threads it leaves the view of every other thread unchanged (`C16_gstep_frames_others`, ALL operations);
* from these two facts: non-interference under EVERY schedule from EVERY start state, for fixed operation lists
  (`C16_noninterference`) and for ADAPTIVE computations (`C16_adaptive_noninterference`), for a thread whose own
  operations touch no shared object;
* WITHOUT any hypothesis on the thread's operations: all its records on scheduler / tasks / batches / profiler /
  deduplicate / asyncio mode equal those of its run alone, also after and between its uses of shared objects - under
  COLLECT_PERF_STATS up to its first cached call (`C16_noninterference_strict`; the cut is needed:
  `C16_strict_cut_counterexample`);
* the separation is NECESSARY (`C16_no_thread_in_key_counterexample`, `C16_module_state_counterexample`);
* the library as written keeps threads apart only if no two threads that were NOT created through `threading.Thread`
  had the same OS thread ident (`C16_cpython_noninterference_partial`); two such threads that follow each other on one
  ident share a deduplication scope (`C16_alien_ident_counterexample`) - a defect of the code (tools.py:349-350);
* a thread that reads a scoped value / calls a cached function that another thread uses too does NOT get the records of
  running alone (`C16_shared_object_counterexample`) - the property as stated is false of such programs and the
  observer reports them (`interference:shared-object`);
* the asyncio-mode flag a thread STARTS with (copied context: `asyncio.to_thread`, `Thread(target=ctx.run)`) is an input
  of its computation, not interference: all theorems hold from every start state, and the records do depend on it
  (`C16_inherited_mode_counterexample`);
* the Boolean observer `spec` that the check evaluates on the records of the real implementation: the model passes
  every clause except the last for ALL schedules (`C16_spec_own_holds`), passes the whole of it when no thread uses a
  shared object (`C16_spec_holds_partial`), and can fail it with the last clause only (`C16_spec_fails_only_on_shared_objects`).

What is NOT proved (a theorem does not exhibit OS interleavings or read Python): that the Python functions behave
like `gStep (Keying.cpython aliens)`.  That is tied to the code by the check's lock-step histories (every observation
compared with the model under the same schedule), write-in-A/observe-in-B probes, repeated free-running concurrent
runs and the AST inventory.
-/
namespace AsynqModel.Threads

/-! ## the sharing structure of the global step -/

/-- the library's keying separates threads created through `threading.Thread` (CPython: one threading.local slot per
    thread, distinct Thread objects).  Holds by construction of `Keying.real`; the content is the correspondence. -/
theorem C16_real_separates : Keying.real.Separates :=
  ⟨fun _ _ h => h, fun _ _ h => Nat.eq_of_mul_eq_mul_left (by decide : 0 < 2) h⟩

/-- **simulation** (any keying, any global state): an operation of thread `t` that touches no shared object observes
    what `localStep` observes on `t`'s view (its carriers and its slice of the one deduplicate dict) and changes `t`'s
    view like `localStep` - it reads nothing else of the global state -/
theorem C16_gstep_simulates_local (kg : Keying) (perf : Bool) (t : ThreadId) (op : Op) (g : GState)
    (h : op.isShared = false) :
    localStep perf (abs kg t g) op = (abs kg t (gStep kg perf t op g).1, (gStep kg perf t op g).2) :=
  gStep_commutes kg perf t op g h

/-- **frame** (separating keying, ALL operations, also those on shared objects): an operation of thread `t` leaves the
    view of every other thread - scheduler, active task, debug-batch table, profiler buffer and counter, asyncio mode,
    its entries of the deduplicate dict - exactly as it was -/
theorem C16_gstep_frames_others (kg : Keying) (hs : kg.Separates) (perf : Bool) (t u : ThreadId) (op : Op)
    (g : GState) (h : u ≠ t) : abs kg u (gStep kg perf t op g).1 = abs kg u g :=
  gStep_frame kg hs perf t u op g h

/-- a thread never observes another thread's activity: in two ARBITRARY global states in which thread `t` has the same
    view, the next operation of `t` - if it is not on a shared object - observes the same and leaves `t` with the same
    view, whatever tasks, batches, active task, profiler entries, deduplicate entries, asyncio mode the other threads
    have in the two states -/
theorem C16_never_observes_others (kg : Keying) (perf : Bool) (t : ThreadId) (op : Op) (g₁ g₂ : GState)
    (hop : op.isShared = false) (h : abs kg t g₁ = abs kg t g₂) :
    (gStep kg perf t op g₁).2 = (gStep kg perf t op g₂).2 ∧
    abs kg t (gStep kg perf t op g₁).1 = abs kg t (gStep kg perf t op g₂).1 := by
  have a := gStep_commutes kg perf t op g₁ hop
  have b := gStep_commutes kg perf t op g₂ hop
  rw [h] at a
  have := a.symm.trans b
  exact ⟨(Prod.mk.inj this).2, (Prod.mk.inj this).1⟩

/-- `hop` is needed (and so is `h` of `C16_gstep_simulates_local`): equal views, different scoped value -/
example : abs Keying.real 0 GState.init = abs Keying.real 0 { GState.init with sh := { sv := 5, lru := [], nf := false } } ∧
    (gStep Keying.real false 0 .svGet GState.init).2 ≠
      (gStep Keying.real false 0 .svGet { GState.init with sh := { sv := 5, lru := [], nf := false } }).2 ∧
    localStep false (abs Keying.real 0 { GState.init with sh := { sv := 5, lru := [], nf := false } }) .svGet ≠
      (abs Keying.real 0 (gStep Keying.real false 0 .svGet { GState.init with sh := { sv := 5, lru := [], nf := false } }).1,
       (gStep Keying.real false 0 .svGet { GState.init with sh := { sv := 5, lru := [], nf := false } }).2) := by decide
/-- `u ≠ t` of the frame theorem is needed: a thread's own step does change its own view -/
example : abs Keying.real 0 (gStep Keying.real false 0 (.taskStart 5) GState.init).1 ≠ abs Keying.real 0 GState.init := by
  decide

theorem abs_init (kg : Keying) (t : ThreadId) : abs kg t GState.init = Local.init := rfl

/-! ## non-interference, fixed operation lists -/

/-- **C16, all schedules, all start states**: the keying separates the threads; `g₀` is ANY process state (threads may
    have been started with copied contexts, may have used asynq before); `sch` is ANY schedule of ANY operations of ANY
    number of threads (the other threads may also use shared objects); thread `t`'s own operations touch no shared
    object.  Then `t` ends with the view, and has made exactly the records, of the run from `g₀` in which only `t` acts
    (`only t sch`) - which are those of the reference semantics `localStep` on `t`'s view of `g₀`. -/
theorem C16_noninterference (kg : Keying) (hs : kg.Separates) (perf : Bool) (g₀ : GState) (sch : List (ThreadId × Op))
    (t : ThreadId) (hown : ∀ op ∈ opsOf t sch, op.isShared = false) :
    (abs kg t (gRunFrom kg perf g₀ sch).1 = abs kg t (gRunFrom kg perf g₀ (only t sch)).1 ∧
     proj t (gRunFrom kg perf g₀ sch).2 = proj t (gRunFrom kg perf g₀ (only t sch)).2) ∧
    (abs kg t (gRunFrom kg perf g₀ sch).1 = (runAlone (localStep perf) (abs kg t g₀) (opsOf t sch)).1 ∧
     proj t (gRunFrom kg perf g₀ sch).2 = (runAlone (localStep perf) (abs kg t g₀) (opsOf t sch)).2) := by
  have hc : ∀ t op g, (!op.isShared) = true →
      localStep perf (abs kg t g) op = (abs kg t (gStep kg perf t op g).1, (gStep kg perf t op g).2) :=
    fun t op g h => gStep_commutes kg perf t op g (by simpa using h)
  have hf := fun t u op g => gStep_frame kg hs perf t u op g
  have a := sim_run (gStep kg perf) (localStep perf) (abs kg) (fun op => !op.isShared) hc hf sch g₀ t
    (fun op ho => by simp [hown op ho])
  have b := sim_run (gStep kg perf) (localStep perf) (abs kg) (fun op => !op.isShared) hc hf (only t sch) g₀ t
    (fun op ho => by rw [opsOf_only] at ho; simp [hown op ho])
  rw [opsOf_only] at b
  exact ⟨⟨a.1.trans b.1.symm, a.2.trans b.2.symm⟩, a⟩

/-- **no hypothesis on `t`'s operations**: thread `t` performs the operations the schedule gives it, and ALL its records
    that are not themselves operations on a shared object - scheduler, active task, tasks, debug batches, profiler,
    deduplicate, asyncio mode, trace; also those AFTER and BETWEEN its uses of shared objects - are those of the run in
    which only `t` acts.  Under COLLECT_PERF_STATS this holds up to `t`'s first call of a cached function (`cut`). -/
theorem C16_noninterference_strict (kg : Keying) (hs : kg.Separates) (perf : Bool) (g₀ : GState)
    (sch : List (ThreadId × Op)) (t : ThreadId) :
    (proj t (gRunFrom kg perf g₀ sch).2).map (·.1) = (proj t (gRunFrom kg perf g₀ (only t sch)).2).map (·.1) ∧
    strictPart perf (proj t (gRunFrom kg perf g₀ sch).2) = strictPart perf (proj t (gRunFrom kg perf g₀ (only t sch)).2) := by
  constructor
  · simp only [gRunFrom, runGlobal_ops, opsOf_only]
  · have a := sim_strict kg hs perf sch g₀ t
    have b := sim_strict kg hs perf (only t sch) g₀ t
    rw [opsOf_only] at b
    exact a.trans b.symm

/-- thread 1 calls the cached function (a hit or a miss depending on thread 0), then creates a task -/
def cutClash : List (ThreadId × Op) := [(0, .lruCall 3), (1, .lruCall 3), (1, .newTask)]

/-- the cut of `strictPart` under COLLECT_PERF_STATS is needed: after its first cached call the profiler ids of the
    thread's OWN tasks depend on whether another thread had filled the cache (hit: one id taken, miss: two) - without
    profiling they do not -/
theorem C16_strict_cut_counterexample :
    priv (proj 1 (inter true cutClash)) = [(.newTask, .task 0 2)] ∧
    priv (proj 1 (inter true (only 1 cutClash))) = [(.newTask, .task 0 3)] ∧
    priv (proj 1 (inter false cutClash)) = priv (proj 1 (inter false (only 1 cutClash))) := by
  decide

/-- the outcome of a thread depends neither on the schedule nor on what the other threads do: two ARBITRARY schedules
    (different threads, different operations of the others) in which `t` itself performs the same operations, none of
    them on a shared object, give `t` the same view and the same records -/
theorem C16_schedule_independent (kg : Keying) (hs : kg.Separates) (perf : Bool) (g₀ : GState)
    (sch₁ sch₂ : List (ThreadId × Op)) (t : ThreadId) (h : opsOf t sch₁ = opsOf t sch₂)
    (hown : ∀ op ∈ opsOf t sch₁, op.isShared = false) :
    abs kg t (gRunFrom kg perf g₀ sch₁).1 = abs kg t (gRunFrom kg perf g₀ sch₂).1 ∧
    proj t (gRunFrom kg perf g₀ sch₁).2 = proj t (gRunFrom kg perf g₀ sch₂).2 := by
  have a := (C16_noninterference kg hs perf g₀ sch₁ t hown).2
  have b := (C16_noninterference kg hs perf g₀ sch₂ t (h ▸ hown)).2
  rw [← h] at b
  exact ⟨a.1.trans b.1.symm, a.2.trans b.2.symm⟩

/-- `h` is needed (obviously): a thread that does something else records something else -/
example : opsOf 0 [((0 : ThreadId), Op.getActive)] ≠ opsOf 0 [((0 : ThreadId), Op.snap)] ∧
    proj 0 (inter false [(0, .getActive)]) ≠ proj 0 (inter false [(0, .snap)]) := by decide

/-- the statement for the library as written (`threading.Thread` threads, fresh contexts), in the functions the examples
    below evaluate (`inter` = the model's concurrent run, `aloneOn` = the model's run of one thread while the others do
    nothing, `alone` = the reference semantics).  An instance of `C16_noninterference`, nothing more. -/
theorem C16_noninterference_library (perf : Bool) (sch : List (ThreadId × Op)) (t : ThreadId)
    (hown : ∀ op ∈ opsOf t sch, op.isShared = false) :
    proj t (inter perf sch) = aloneOn perf t (opsOf t sch) ∧ aloneOn perf t (opsOf t sch) = alone perf (opsOf t sch) := by
  have a := C16_noninterference Keying.real C16_real_separates perf GState.init sch t hown
  exact ⟨a.1.2, a.1.2.symm.trans a.2.2⟩

/-! ## non-interference, adaptive computations -/

/-- a computation that never touches a shared object -/
def Strategy.Own (s : Strategy) : Prop := ∀ h op, s h = some op → op.isShared = false

/-- **C16 for arbitrary computations**: every thread `u` runs an ARBITRARY computation `ss u` (its next operation is any
    function of the records it has made so far - so its results, its context events, the batch its scheduler flushes
    next are not inputs that two runs are assumed to share); `turns` is ANY list saying which thread moves at each
    instant; `g₀` is ANY start state.  If the keying separates the threads and `t`'s computation never touches a shared
    object, then the records of `t` (operations AND observations) and its final view are those of `t`'s computation
    run alone on its view of `g₀` for as many turns as `t` got. -/
theorem C16_adaptive_noninterference (kg : Keying) (hs : kg.Separates) (perf : Bool) (g₀ : GState)
    (ss : ThreadId → Strategy) (t : ThreadId) (hown : (ss t).Own) (turns : List ThreadId) :
    abs kg t (stratGlobal (gStep kg perf) ss turns g₀ []).1 =
      (stratAlone (localStep perf) (ss t) (turns.count t) (abs kg t g₀) []).1 ∧
    proj t (stratGlobal (gStep kg perf) ss turns g₀ []).2 =
      (stratAlone (localStep perf) (ss t) (turns.count t) (abs kg t g₀) []).2 := by
  have hc : ∀ t op g, (!op.isShared) = true →
      localStep perf (abs kg t g) op = (abs kg t (gStep kg perf t op g).1, (gStep kg perf t op g).2) :=
    fun t op g h => gStep_commutes kg perf t op g (by simpa using h)
  have hf := fun t u op g => gStep_frame kg hs perf t u op g
  exact sim_strat (gStep kg perf) (localStep perf) (abs kg) (fun op => !op.isShared) hc hf ss t
    (fun h op e => by simp [hown h op e]) turns g₀ []

/-- ... in particular they depend neither on WHEN `t` got its turns nor on what the other threads compute -/
theorem C16_adaptive_schedule_independent (kg : Keying) (hs : kg.Separates) (perf : Bool) (g₀ : GState)
    (ss ss' : ThreadId → Strategy) (t : ThreadId) (hsame : ss t = ss' t) (hown : (ss t).Own) (turns turns' : List ThreadId)
    (hcount : turns.count t = turns'.count t) :
    proj t (stratGlobal (gStep kg perf) ss turns g₀ []).2 =
    proj t (stratGlobal (gStep kg perf) ss' turns' g₀ []).2 := by
  have a := (C16_adaptive_noninterference kg hs perf g₀ ss t hown turns).2
  have b := (C16_adaptive_noninterference kg hs perf g₀ ss' t (hsame ▸ hown) turns').2
  rw [← hsame, ← hcount] at b
  exact a.trans b.symm

/-! ## the separation is necessary: the same global step with a keying that does not separate the threads -/

/-- two threads call the same deduplicated function with the same key, nothing else -/
def dedupClash : List (ThreadId × Op) := [(0, .dedupCall 0 7), (1, .dedupCall 0 7)]

/-- thread key dropped from `cache_key` (one unkeyed table): thread 1 is handed thread 0's in-flight task
    (`dedup 1 0 _` = "the stored task, token 0") where alone it creates its own (`dedup 0 0 _`) -/
theorem C16_no_thread_in_key_counterexample :
    (∀ op ∈ opsOf 1 dedupClash, op.isShared = false) ∧
    proj 1 (gRun Keying.noThreadInKey false dedupClash).2 = [(.dedupCall 0 7, .dedup 1 0 0)] ∧
    proj 1 (gRun Keying.noThreadInKey false (only 1 dedupClash)).2 = [(.dedupCall 0 7, .dedup 0 0 0)] ∧
    abs Keying.noThreadInKey 1 (gStep Keying.noThreadInKey false 0 (.dedupCall 0 7) GState.init).1 ≠
      abs Keying.noThreadInKey 1 GState.init := by
  decide

/-- one thread is inside a task and has made a batch item, the other looks -/
def holderClash : List (ThreadId × Op) := [(0, .newTask), (0, .taskStart 0), (0, .mkItem 1 10), (1, .getActive), (1, .mkItem 1 20)]

/-- thread-local holders replaced by module state (one slot for all threads): thread 1 sees thread 0's active task
    and finds thread 0's item in its batch -/
theorem C16_module_state_counterexample :
    (∀ op ∈ opsOf 1 holderClash, op.isShared = false) ∧
    proj 1 (gRun Keying.moduleState false holderClash).2 =
      [(.getActive, .active (some 0)), (.mkItem 1 20, .item 0 1 0)] ∧
    proj 1 (gRun Keying.moduleState false (only 1 holderClash)).2 =
      [(.getActive, .active none), (.mkItem 1 20, .item 0 0 0)] := by
  decide

/-- with the library's keying both schedules are harmless (instances of `C16_noninterference`, computed) -/
example : proj 1 (gRun Keying.real false dedupClash).2 = proj 1 (gRun Keying.real false (only 1 dedupClash)).2 ∧
    proj 1 (gRun Keying.real false holderClash).2 = proj 1 (gRun Keying.real false (only 1 holderClash)).2 := by
  decide

/-! ## threads that were not created through `threading.Thread`: the deduplication scope belongs to the OS thread ident -/

/-- **the library as written, any mix of `threading.Thread` threads and others**: if no two threads of the second kind
    had the same OS thread ident (decidable: `identsDistinct`), every thread whose own operations touch no shared object
    ends with the view and the records of running alone - from every start state, under every schedule -/
theorem C16_cpython_noninterference_partial (aliens : List (ThreadId × Nat)) (hid : identsDistinct aliens = true)
    (perf : Bool) (g₀ : GState) (sch : List (ThreadId × Op)) (t : ThreadId)
    (hown : ∀ op ∈ opsOf t sch, op.isShared = false) :
    proj t (gRunFrom (Keying.cpython aliens) perf g₀ sch).2 = proj t (gRunFrom (Keying.cpython aliens) perf g₀ (only t sch)).2 ∧
    proj t (gRunFrom (Keying.cpython aliens) perf g₀ sch).2 =
      (runAlone (localStep perf) (abs (Keying.cpython aliens) t g₀) (opsOf t sch)).2 := by
  have a := C16_noninterference (Keying.cpython aliens) (cpython_separates aliens hid) perf g₀ sch t hown
  exact ⟨a.1.2, a.2.2⟩

/-- thread 0 leaves an un-awaited deduplicated task behind and ENDS; thread 1 lives afterwards (all of thread 0's
    operations come first) and asks for the same function and key -/
def lifeClash : List (ThreadId × Op) := [(0, .dedupCall 0 7), (0, .getActive), (1, .dedupCall 0 7)]

/-- **defect of the code as written** (tools.py:349-350 keys on `threading.current_thread()`): threads 0 and 1 were
    started with `_thread.start_new_thread` (or by a C extension) and thread 1 got the OS thread ident that thread 0
    gave back: CPython <= 3.12 answers `current_thread()` with the SAME cached `_DummyThread`, the two threads have one
    deduplication scope, and thread 1 is handed the dead thread's task (`dedup 1 0 _` = "the stored task") where alone
    it creates its own.  The keying does not separate them; with distinct idents, or with `threading.Thread` threads
    on the same ident, the run is harmless. -/
theorem C16_alien_ident_counterexample :
    identsDistinct [(0, 77), (1, 77)] = false ∧
    (∀ op ∈ opsOf 1 lifeClash, op.isShared = false) ∧
    proj 1 (interW [(0, 77), (1, 77)] [] false lifeClash) = [(.dedupCall 0 7, .dedup 1 0 0)] ∧
    proj 1 (interW [(0, 77), (1, 77)] [] false (only 1 lifeClash)) = [(.dedupCall 0 7, .dedup 0 0 0)] ∧
    proj 1 (interW [(0, 77), (1, 78)] [] false lifeClash) = proj 1 (interW [(0, 77), (1, 78)] [] false (only 1 lifeClash)) ∧
    proj 1 (interW [] [] false lifeClash) = proj 1 (interW [] [] false (only 1 lifeClash)) := by
  decide

/-- `Keying.cpython []` is `Keying.real`; `GState.start []` is `GState.init` -/
example : Keying.cpython [] = Keying.real ∧ GState.start [] = GState.init := ⟨rfl, rfl⟩
example (perf : Bool) (sch : List (ThreadId × Op)) : interW [] [] perf sch = inter perf sch := rfl

/-! ## attributes of a thread that are not its identity (its NAME, its daemon flag, ...)

A thread's name is chosen by the program (`Thread(name=..)`, `current_thread().name = ..`); any number of live threads
may carry the same one.  The library as written reads it in ONE place, for display only: `TaskScheduler.__init__`
(scheduler.py:48-55) puts `thread.name` (or `str(thread.ident)` if the name is empty) into `TaskScheduler.name`, the label
that debug dumps print; no carrier is indexed by it and no deduplicate key contains it (`Keying.real` / `Keying.cpython`).
The model has no name component (the harness compares the label with what the thread is called at that moment and
records a Boolean, `Obs.sched _ own`), so the statements above hold for every naming of the threads, and renaming is
a no-op (`Op.note`) - which is how the model is BUILT, not a theorem about the code; the lock-step runs with equal,
empty and changing names are what ties it to the code.  A library that derived the deduplication scope from such an attribute is `Keying.byAttr attr`. -/

/-- the deduplication scope derived from an attribute `attr t` of the thread (its name ...) instead of the Thread
    object; thread-local holders as written -/
def Keying.byAttr (attr : ThreadId → Nat) : Keying := { slot := id, key := attr }

/-- such a keying separates the threads exactly if no two threads (alive at the same time or one after the other)
    ever have the same value of the attribute -/
theorem C16_attr_key_separates_iff (attr : ThreadId → Nat) :
    (Keying.byAttr attr).Separates ↔ ∀ t u, attr t = attr u → t = u :=
  ⟨fun h => h.2, fun h => ⟨fun _ _ e => e, h⟩⟩

/-- threads 0 and 1 are called alike (name 7), thread 2 has a name of its own (8); all three call the same
    deduplicated function with the same key -/
def nameClash : List (ThreadId × Op) := [(0, .dedupCall 0 7), (1, .dedupCall 0 7), (2, .dedupCall 0 7)]

/-- **thread name in `cache_key` instead of the Thread object**: thread 1 is handed the in-flight task of its namesake
    thread 0 (`dedup 1 0 _` = "the stored task") where alone it creates its own; thread 2, whose name nobody shares,
    is not disturbed.  With the library's keying all three are undisturbed. -/
theorem C16_thread_name_key_counterexample :
    ¬ (Keying.byAttr fun t => if t = 2 then 8 else 7).Separates ∧
    (∀ op ∈ opsOf 1 nameClash, op.isShared = false) ∧
    proj 1 (gRun (Keying.byAttr fun t => if t = 2 then 8 else 7) false nameClash).2 = [(.dedupCall 0 7, .dedup 1 0 0)] ∧
    proj 1 (gRun (Keying.byAttr fun t => if t = 2 then 8 else 7) false (only 1 nameClash)).2 = [(.dedupCall 0 7, .dedup 0 0 0)] ∧
    proj 2 (gRun (Keying.byAttr fun t => if t = 2 then 8 else 7) false nameClash).2 =
      proj 2 (gRun (Keying.byAttr fun t => if t = 2 then 8 else 7) false (only 2 nameClash)).2 ∧
    (∀ t ∈ [0, 1, 2], proj t (gRun Keying.real false nameClash).2 = proj t (gRun Keying.real false (only t nameClash)).2) := by
  refine ⟨fun h => absurd (h.2 0 1 rfl) (by decide), by decide, by decide, by decide, by decide, by decide⟩

/-- renaming is invisible to the model of the library as written: a `note` step (the harness's record of
    `current_thread().name = ..`) changes nothing and observes nothing, whatever the keying -/
theorem C16_rename_is_noop (kg : Keying) (perf : Bool) (t : ThreadId) (a b : Nat) (g : GState) :
    abs kg t (gStep kg perf t (.note a b) g).1 = abs kg t g ∧ (gStep kg perf t (.note a b) g).2 = .unit := by
  have h := C16_gstep_simulates_local kg perf t (.note a b) g rfl
  have e : localStep perf (abs kg t g) (.note a b) = (abs kg t g, .unit) := rfl
  have := Prod.mk.inj (h.symm.trans e)
  exact ⟨this.1, this.2⟩

/-! ## objects the program shares between threads: the hypothesis on `t`'s own operations is necessary -/

/-- thread 0 is inside `with V.override(5)`, thread 1 reads `V`; thread 0 fills the alru cache, thread 1 calls -/
def sharedClash : List (ThreadId × Op) := [(0, .svEnter 5), (1, .svGet), (0, .svExit), (0, .lruCall 3), (1, .lruCall 3)]

/-- **the property as stated is false of the code for programs that share such objects**: the library as written
    (`Keying.real`): a thread that reads a scoped value / calls a cached function that another thread uses too does NOT
    get the records of running alone (5 instead of 0; a cache hit instead of a miss) - the observer reports it with the
    clause `interference:shared-object` - while a thread that does not touch such objects is unaffected by the two that
    do (`getActive`, `mkItem` of thread 2) -/
theorem C16_shared_object_counterexample :
    proj 1 (inter false sharedClash) = [(.svGet, .nat 5), (.lruCall 3, .cache true 31)] ∧
    proj 1 (inter false (only 1 sharedClash)) = [(.svGet, .nat 0), (.lruCall 3, .cache false 31)] ∧
    proj 2 (inter false (sharedClash ++ [(2, .getActive), (2, .mkItem 1 9)])) =
      proj 2 (inter false [(2, .getActive), (2, .mkItem 1 9)]) ∧
    specClause false 2 [aloneOn false 0 (opsOf 0 sharedClash), aloneOn false 1 (opsOf 1 sharedClash)]
      (inter false sharedClash) = "interference:shared-object" := by
  decide

/-! ## the library's own process-wide `none_future` (third audit A4) -/

/-- thread 0 is preempted inside `repr(none_future)` (past `self._in_repr = True`); thread 1 - a computation that only
    does `yield none_future; return repr(none_future)` - asks for the repr meanwhile, and again after thread 0 is done -/
def nfClash : List (ThreadId × Op) := [(0, .nfEnter), (1, .nfRepr), (0, .nfExit), (1, .nfRepr)]

/-- **the property as stated is false of the code although the program shares no object of its own** (OPEN FINDING
    `hist/fail:interference:none-future-repr`): `FutureBase.__repr__` keeps its re-entrancy flag `_in_repr` IN the
    object (futures.py:166-184) and `asynq.none_future` is one object for the whole process (futures.py:225), so the
    library as written (`Keying.real`) answers "<recursion>" (`.bool true`) to thread 1 while thread 0 is inside the same
    method, where alone thread 1 gets the ordinary text both times; the observer names it with a clause of its own, and
    a thread that does not ask for that repr is undisturbed.  With the flag kept per activation (the proposed repair:
    every call behaves like `nfRepr` on an unset flag) there is nothing to observe. -/
theorem C16_none_future_repr_counterexample :
    (∀ p ∈ nfClash, isNf p.2 = true) ∧
    proj 1 (inter false nfClash) = [(.nfRepr, .bool true), (.nfRepr, .bool false)] ∧
    proj 1 (inter false (only 1 nfClash)) = [(.nfRepr, .bool false), (.nfRepr, .bool false)] ∧
    proj 0 (inter false nfClash) = proj 0 (inter false (only 0 nfClash)) ∧
    proj 2 (inter false (nfClash ++ [(2, .getActive), (2, .mkItem 1 9)])) =
      proj 2 (inter false [(2, .getActive), (2, .mkItem 1 9)]) ∧
    specClause false 2 [aloneOn false 0 (opsOf 0 nfClash), aloneOn false 1 (opsOf 1 nfClash)]
      (inter false nfClash) = "interference:none-future-repr" := by
  decide

/-- two threads preempted inside the method at the same time: the second gets "<recursion>" at once and its
    activation does not reset the flag; the flag is reset by the activation that set it -/
example : (inter false [(0, .nfEnter), (1, .nfEnter), (1, .nfExit), (2, .nfRepr), (0, .nfExit), (2, .nfRepr)]).map (·.2.2) =
    [.bool false, .bool true, .unit, .bool true, .unit, .bool false] := by decide

/-- the new clause does not swallow its neighbours: a wrong scoped value next to agreeing `none_future` records keeps
    the clause of the shared objects; a wrong active task is named by `specCheckOwn` as before -/
example : specClause false 1 [aloneOn false 0 [.nfRepr, .svGet]] [(0, (.nfRepr, .bool false)), (0, (.svGet, .nat 5))]
    = "interference:shared-object" := by decide
example : specClause false 1 [aloneOn false 0 [.nfRepr, .getActive]] [(0, (.nfRepr, .bool true)), (0, (.getActive, .active (some 3)))]
    = "interference:scheduler" := by decide
example : specClause false 1 [aloneOn false 0 [.nfRepr, .getActive]] [(0, (.nfRepr, .bool true)), (0, (.getActive, .active none))]
    = "interference:none-future-repr" := by decide

/-! ## after the cut under COLLECT_PERF_STATS (third audit D10) -/

/-- the two hand-mutated observations of the third audit: under COLLECT_PERF_STATS, AFTER a thread's first cached call,
    a deduplicated call is handed another task / `get_active_task()` answers a task although none is active.  Until the
    third audit both were named `interference:shared-object` (the signature of the recorded finding); now they have
    a clause of their own, while what a cached call legitimately shifts (profiler ids: thread 1 of `cutClash` gets id 2
    instead of 3) is still named `interference:shared-object` -/
example : specClause true 1 [aloneOn true 0 [.lruCall 1, .dedupCall 0 7]]
    [(0, (.lruCall 1, .cache false 11)), (0, (.dedupCall 0 7, .dedup 1 0 3))] = "interference-after-cached-call:deduplicate" := by decide
example : specClause true 1 [aloneOn true 0 [.lruCall 1, .getActive]]
    [(0, (.lruCall 1, .cache false 11)), (0, (.getActive, .active (some 3)))] = "interference-after-cached-call:scheduler" := by decide
example : aloneOn true 0 [.lruCall 1, .dedupCall 0 7] = [(.lruCall 1, .cache false 11), (.dedupCall 0 7, .dedup 0 0 3)] := by decide
example : specClause true 2 [aloneOn true 0 (opsOf 0 cutClash), aloneOn true 1 (opsOf 1 cutClash)] (inter true cutClash)
    = "interference:shared-object" := by decide
/-- a profiler buffer that differs after the cut in the per-task entries only is a consequence of the shared cache; one
    that differs in a user entry is not -/
example : specClause true 1 [[(.lruCall 1, .cache false 11), (.profFlush, .stats [.task 2, .task 1, .user 4])]]
    [(0, (.lruCall 1, .cache true 11)), (0, (.profFlush, .stats [.task 1, .user 4]))] = "interference:shared-object" := by decide
example : specClause true 1 [[(.lruCall 1, .cache false 11), (.profFlush, .stats [.task 2, .task 1, .user 4])]]
    [(0, (.lruCall 1, .cache true 11)), (0, (.profFlush, .stats [.task 1, .user 5]))] = "interference-after-cached-call:profiler" := by decide

/-! ## the context a thread starts with is an input of its computation -/

/-- what a legacy synchronous worker does: looks at the mode, calls a deduplicated function, a cached function, makes a task -/
def workerOps : List Op := [.amGet, .dedupCall 0 7, .lruCall 3, .newTask]

/-- a thread started with a COPY of its creator's context (`asyncio.to_thread(f)` from inside `fn.asyncio()`,
    `Thread(target=copy_context().run)`) begins in the creator's asyncio mode: the same operations give other records
    than in a thread with a fresh context (a coroutine instead of a task, RuntimeError from the synchronous call).  This
    is NOT interference: the start state is the parameter `g₀` of every theorem above, and from either start state the
    thread's records are independent of the other threads (here: thread 0 enters and leaves asyncio mode meanwhile). -/
theorem C16_inherited_mode_counterexample :
    aloneW [] [(1, true)] false 1 workerOps =
      [(.amGet, .bool true), (.dedupCall 0 7, .bypass), (.lruCall 3, .raised 1), (.newTask, .bypass)] ∧
    aloneW [] [] false 1 workerOps =
      [(.amGet, .bool false), (.dedupCall 0 7, .dedup 0 0 0), (.lruCall 3, .cache false 31), (.newTask, .task 1 0)] ∧
    proj 1 (interW [] [(1, true)] false ([(0, .amEnter), (1, .amGet), (0, .amExit), (0, .dedupCall 0 7)] ++
      (workerOps.drop 1).map fun op => (1, op))) = aloneW [] [(1, true)] false 1 workerOps := by
  decide

/-! ## the observer -/

theorem firstDiff_self (l : List Rec) (i : Nat) : firstDiff l l i = none := by
  induction l generalizing i with
  | nil => rfl
  | cons x xs ih => simp [firstDiff, ih]

theorem firstDiff_eq {a b : List Rec} (h : a = b) (i : Nat) : firstDiff a b i = none := h ▸ firstDiff_self a i

theorem proj_mem {ρ : Type} (t : ThreadId) (recs : List (ThreadId × ρ)) (r : ρ) (h : r ∈ proj t recs) :
    (t, r) ∈ recs := by
  simp only [proj, List.mem_filterMap] at h
  obtain ⟨p, hp, he⟩ := h
  obtain ⟨u, x⟩ := p
  by_cases hu : u = t
  · simp [hu] at he; subst hu; subst he; exact hp
  · simp [hu] at he

theorem foreignIn_none (l : List Rec) (h : ∀ r ∈ l, r.2 ≠ Obs.foreign) : foreignIn l = none := by
  simp only [foreignIn, Option.map_eq_none_iff, List.find?_eq_none]
  intro r hr
  simpa using h r hr

/-- **C16 as the observer, every clause but the last** - the same Boolean function the check evaluates on the records of
    the real implementation: for any separating keying (in particular the library's), any start state, any `k ≥ 1`, any
    schedule of threads `< k` performing ANY operations (also on shared objects), the model's concurrent run passes
    `specOwn` against the model's runs of each thread alone: no foreign object, the same operations, and all records
    that no shared object can influence equal -/
theorem C16_spec_own_holds (kg : Keying) (hs : kg.Separates) (perf : Bool) (g₀ : GState) (k : Nat) (hk : 0 < k)
    (sch : List (ThreadId × Op)) (hthr : ∀ p ∈ sch, p.1 < k) :
    specOwn perf k ((List.range k).map fun t => proj t (gRunFrom kg perf g₀ (only t sch)).2) (gRunFrom kg perf g₀ sch).2 = true := by
  have hforeign : ∀ s : List (ThreadId × Op), ∀ r ∈ (gRunFrom kg perf g₀ s).2, r.2.2 ≠ Obs.foreign :=
    fun s => runGlobal_obs (gStep kg perf) (· ≠ Obs.foreign) (fun t op g => gStep_obs_ne_foreign kg perf t op g)
      g₀ s
  have h1 : ¬ (k = 0) := Nat.pos_iff_ne_zero.mp hk
  have h2 : ¬ (((List.range k).map fun t => proj t (gRunFrom kg perf g₀ (only t sch)).2).length ≠ k) := by simp
  have h3 : ((gRunFrom kg perf g₀ sch).2.any fun p => decide (k ≤ p.1)) = false := by
    rw [List.any_eq_false]
    intro p hp
    have : p.1 ∈ (gRunFrom kg perf g₀ sch).2.map (·.1) := List.mem_map_of_mem hp
    rw [gRunFrom, runGlobal_threads] at this
    obtain ⟨q, hq, he⟩ := List.mem_map.mp this
    have hlt : q.1 < k := hthr q hq
    have heq : q.1 = p.1 := he
    simp only [decide_eq_true_eq]
    exact Nat.not_le_of_gt (heq ▸ hlt)
  have h4 : foreignIn ((gRunFrom kg perf g₀ sch).2.map (·.2)) = none := by
    apply foreignIn_none
    intro r hr
    obtain ⟨p, hp, he⟩ := List.mem_map.mp hr
    exact he ▸ hforeign sch p hp
  have h5 : ((List.range k).map fun t => proj t (gRunFrom kg perf g₀ (only t sch)).2).findSome? foreignIn = none := by
    rw [List.findSome?_eq_none_iff]
    intro l hl
    obtain ⟨t, _, he⟩ := List.mem_map.mp hl
    subst he
    apply foreignIn_none
    intro r hr
    exact hforeign _ _ (proj_mem t _ r hr)
  have key : ∀ n, n ≤ k →
      specFind perf ((List.range k).map fun t => proj t (gRunFrom kg perf g₀ (only t sch)).2) (gRunFrom kg perf g₀ sch).2 n = none := by
    intro n
    induction n with
    | zero => intro _; rfl
    | succ n ih =>
      intro hn
      have hlt : n < k := hn
      have hget : ((List.range k).map fun t => proj t (gRunFrom kg perf g₀ (only t sch)).2).getD n [] =
          proj n (gRunFrom kg perf g₀ (only n sch)).2 := by
        simp [List.getD, hlt]
      have st := C16_noninterference_strict kg hs perf g₀ sch n
      simp only [specFind, ih (Nat.le_of_succ_le hn), hget, firstDiff_eq st.2.symm, st.1, if_true]
  simp only [specOwn, specCheckOwn, h1, h2, h3, h4, h5, key k (Nat.le_refl k), if_false, Bool.false_eq_true,
    Option.isNone_none]

/-- a thread whose records equal those of its run alone passes the two comparisons made before the last one -/
theorem maskedFind_none_of_fullFind (aloneRecs : List (List Rec)) (conc : List (ThreadId × Rec)) (k : Nat)
    (h : fullFind aloneRecs conc k = none) : maskedFind aloneRecs conc k = none := by
  induction k with
  | zero => rfl
  | succ n ih =>
    simp only [fullFind] at h
    split at h
    · cases h
    · next hn =>
      split at h
      · next he => simp only [maskedFind, ih hn, he, firstDiff_self]
      · cases h

theorem nfFind_none_of_fullFind (aloneRecs : List (List Rec)) (conc : List (ThreadId × Rec)) (k : Nat)
    (h : fullFind aloneRecs conc k = none) : nfFind aloneRecs conc k = none := by
  induction k with
  | zero => rfl
  | succ n ih =>
    simp only [fullFind] at h
    split at h
    · cases h
    · next hn =>
      split at h
      · next he => simp only [nfFind, ih hn, he, if_true]
      · cases h

/-- **the whole observer, for programs that share no object between threads** (decidable hypothesis on the schedule):
    the model's concurrent run is accepted against the model's runs of each thread alone -/
theorem C16_spec_holds_partial (kg : Keying) (hs : kg.Separates) (perf : Bool) (g₀ : GState) (k : Nat) (hk : 0 < k)
    (sch : List (ThreadId × Op)) (hthr : ∀ p ∈ sch, p.1 < k) (hown : ∀ p ∈ sch, p.2.isShared = false) :
    spec perf k ((List.range k).map fun t => proj t (gRunFrom kg perf g₀ (only t sch)).2) (gRunFrom kg perf g₀ sch).2 = true := by
  have own := C16_spec_own_holds kg hs perf g₀ k hk sch hthr
  simp only [specOwn, Option.isNone_iff_eq_none] at own
  have key : ∀ n, n ≤ k →
      fullFind ((List.range k).map fun t => proj t (gRunFrom kg perf g₀ (only t sch)).2) (gRunFrom kg perf g₀ sch).2 n = none := by
    intro n
    induction n with
    | zero => intro _; rfl
    | succ n ih =>
      intro hn
      have hlt : n < k := hn
      have hget : ((List.range k).map fun t => proj t (gRunFrom kg perf g₀ (only t sch)).2).getD n [] =
          proj n (gRunFrom kg perf g₀ (only n sch)).2 := by
        simp [List.getD, hlt]
      have ho : ∀ op ∈ opsOf n sch, op.isShared = false := by
        intro op hop
        simp only [opsOf, List.mem_filterMap] at hop
        obtain ⟨p, hp, he⟩ := hop
        by_cases hpn : p.1 = n
        · simp [hpn] at he; exact he ▸ hown p hp
        · simp [hpn] at he
      have ni := (C16_noninterference kg hs perf g₀ sch n ho).1.2
      simp only [fullFind, ih (Nat.le_of_succ_le hn), hget, ni, if_true]
  have full := key k (Nat.le_refl k)
  simp only [spec, specCheck, own, maskedFind_none_of_fullFind _ _ k full, nfFind_none_of_fullFind _ _ k full, full,
    ite_self, Option.isNone_none]

/-- for ALL programs the model can fail the observer only with the clauses that come after `specCheckOwn`: whatever
    the threads do, the only complaints `spec` can have about a run of the model are `interference:shared-object`
    (objects the program shares), `interference:none-future-repr` (the library's own `none_future`) and - under
    COLLECT_PERF_STATS only - a clause `interference-after-cached-call:..`.  (That the model never produces the latter
    is NOT proved: it would need non-interference modulo profiler ids; the check evaluates it on every run, SPECM.) -/
theorem C16_spec_fails_only_on_shared_objects (kg : Keying) (hs : kg.Separates) (perf : Bool) (g₀ : GState) (k : Nat)
    (hk : 0 < k) (sch : List (ThreadId × Op)) (hthr : ∀ p ∈ sch, p.1 < k) :
    specClause perf k ((List.range k).map fun t => proj t (gRunFrom kg perf g₀ (only t sch)).2) (gRunFrom kg perf g₀ sch).2 = "ok" ∨
    specClause perf k ((List.range k).map fun t => proj t (gRunFrom kg perf g₀ (only t sch)).2) (gRunFrom kg perf g₀ sch).2 =
      "interference:shared-object" ∨
    specClause perf k ((List.range k).map fun t => proj t (gRunFrom kg perf g₀ (only t sch)).2) (gRunFrom kg perf g₀ sch).2 =
      "interference:none-future-repr" ∨
    (perf = true ∧ ∃ c, specClause perf k ((List.range k).map fun t => proj t (gRunFrom kg perf g₀ (only t sch)).2)
      (gRunFrom kg perf g₀ sch).2 = "interference-after-cached-call:" ++ c) := by
  have own := C16_spec_own_holds kg hs perf g₀ k hk sch hthr
  simp only [specOwn, Option.isNone_iff_eq_none] at own
  simp only [specClause, specCheck, own]
  cases perf
  · simp only [Bool.false_eq_true, if_false]
    split
    · simp
    · split <;> simp
  · simp only [if_true]
    split
    · next c _ => exact Or.inr (Or.inr (Or.inr ⟨trivial, c, rfl⟩))
    · split
      · simp
      · split <;> simp

/-- SPECM of the check: the observer on the model's own records, for the library as written with the thread kinds and
    start contexts of the case.  An instance of `C16_spec_own_holds` / `C16_spec_holds_partial`. -/
theorem C16_spec_holds_library (aliens : List (ThreadId × Nat)) (hid : identsDistinct aliens = true)
    (modes : List (ThreadId × Bool)) (perf : Bool) (k : Nat) (hk : 0 < k) (sch : List (ThreadId × Op))
    (hthr : ∀ p ∈ sch, p.1 < k) :
    specOwn perf k ((List.range k).map fun t => proj t (interW aliens modes perf (only t sch))) (interW aliens modes perf sch) = true ∧
    ((∀ p ∈ sch, p.2.isShared = false) →
      spec perf k ((List.range k).map fun t => proj t (interW aliens modes perf (only t sch))) (interW aliens modes perf sch) = true) :=
  ⟨C16_spec_own_holds _ (cpython_separates aliens hid) perf _ k hk sch hthr,
   C16_spec_holds_partial _ (cpython_separates aliens hid) perf _ k hk sch hthr⟩

/-- both hypotheses `hk`, `hthr` are needed: no threads / a record of a thread that is not among the `k` -/
example : specOwn false 0 [] (inter false []) = false := by decide
example : specOwn false 1 [aloneOn false 0 []] (inter false [(1, .getActive)]) = false := by decide
/-- `hs` is needed: `C16_no_thread_in_key_counterexample`, `C16_module_state_counterexample` (and the examples below);
    `hown` of `C16_spec_holds_partial` is needed: `C16_shared_object_counterexample`;
    `hid` is needed: the colliding idents of `C16_alien_ident_counterexample` fail `specOwn` -/
example : specClause false 2 [aloneW [(0, 77), (1, 77)] [] false 0 (opsOf 0 lifeClash), aloneW [(0, 77), (1, 77)] [] false 1 (opsOf 1 lifeClash)]
    (interW [(0, 77), (1, 77)] [] false lifeClash) = "interference:deduplicate" := by decide

/-! ## non-vacuity and what the observer rejects -/

/-- two threads use the same batch name, the same deduplicated function with the same key, the profiler and asyncio
    mode, interleaved step by step -/
def demoSchedule : List (ThreadId × Op) :=
  [(0, .mkItem 1 10), (1, .mkItem 1 20), (0, .dedupCall 0 7), (1, .dedupCall 0 7), (0, .amEnter), (1, .amGet),
   (1, .dedupCall 0 7), (0, .dedupCall 0 7), (0, .amExit), (1, .newTask), (1, .push 1), (1, .taskStart 1), (0, .snap),
   (0, .getActive), (1, .mkItem 1 21), (1, .taskStop), (1, .schedBatch 1), (1, .pop), (1, .schedFlush 1),
   (0, .directFlush 1), (0, .profIncr), (1, .profFlush), (0, .mkItem 1 11), (1, .resetSched), (0, .getSched)]

example : proj 1 (inter true demoSchedule) =
    [(.mkItem 1 20, .item 0 0 1), (.dedupCall 0 7, .dedup 0 0 2), (.amGet, .bool false), (.dedupCall 0 7, .dedup 1 0 2),
     (.newTask, .task 1 3), (.push 1, .unit), (.taskStart 1, .active (some 1)), (.mkItem 1 21, .item 0 1 4),
     (.taskStop, .unit), (.schedBatch 1, .unit), (.pop, .unit), (.schedFlush 1, .flushed 0 [20, 21]),
     (.profFlush, .stats [.batch]), (.resetSched, .unit)] := by
  decide

example : proj 0 (inter true demoSchedule) =
    [(.mkItem 1 10, .item 0 0 1), (.dedupCall 0 7, .dedup 0 0 2), (.amEnter, .unit), (.dedupCall 0 7, .bypass),
     (.amExit, .unit), (.snap, .snap 0 0 none), (.getActive, .active none), (.directFlush 1, .flushed 0 [10]),
     (.profIncr, .nat 3), (.mkItem 1 11, .item 1 0 4), (.getSched, .sched 1 true)] := by
  decide

/-- the one dict really is shared in the model: after the demo both threads' entries sit in the same table, and each
    thread's view holds only its own -/
example : (gRun Keying.real true (demoSchedule.take 4)).1.tasks = [((7, 2, 0), 0), ((7, 0, 0), 0)] ∧
    (abs Keying.real 0 (gRun Keying.real true (demoSchedule.take 4)).1).dedup = [((0, 7), 0)] := by
  decide

/-- the run alone through the global model, the reference semantics, and the projection of the concurrent run agree -/
example : aloneOn true 1 (opsOf 1 demoSchedule) = alone true (opsOf 1 demoSchedule) ∧
    proj 1 (inter true demoSchedule) = alone true (opsOf 1 demoSchedule) := by
  decide

example : spec true 2 [aloneOn true 0 (opsOf 0 demoSchedule), aloneOn true 1 (opsOf 1 demoSchedule)] (inter true demoSchedule) = true := by
  decide

/-- instance of the frame theorem: thread 1 starts a task, thread 0's view does not move; instance of
    `C16_never_observes_others`: after two different schedules in which thread 0 did the same, its flush sees the same -/
example : abs Keying.real 0 (gStep Keying.real true 1 (.taskStart 5) (gRun Keying.real true (demoSchedule.take 4)).1).1 =
    abs Keying.real 0 (gRun Keying.real true (demoSchedule.take 4)).1 := by
  decide
example : (gStep Keying.real true 0 (.directFlush 1)
      (gRun Keying.real true [(0, .mkItem 1 10), (1, .mkItem 1 20), (1, .taskStart 5)]).1).2 = .flushed 0 [10] ∧
    (gStep Keying.real true 0 (.directFlush 1) (gRun Keying.real true [(1, .profIncr), (0, .mkItem 1 10)]).1).2 = .flushed 0 [10] := by
  decide

/-- slices of the one dict -/
example : slice 0 [((7, 0, 1), 100), ((7, 1, 1), 200), ((8, 0, 1), 300)] = [((1, 7), 100), ((1, 8), 300)] ∧
    slice 1 (aerase (7, 0, 1) [((7, 0, 1), 100), ((7, 1, 1), 200)]) = [((1, 7), 200)] := by
  decide

/-- an adaptive computation: after seeing its own first item it makes as many more as the position it was told, then
    flushes; run against a thread that floods the same batch name.  Instance of `C16_adaptive_noninterference`. -/
def adaptive : Strategy := fun h =>
  match h with
  | [] => some (.mkItem 1 5)
  | [(_, .item _ pos _)] => if pos = 0 then some (.directFlush 1) else some (.mkItem 1 6)
  | [_, (.mkItem _ _, _)] => some (.directFlush 1)
  | _ => none
def flooder : Strategy := fun h => if h.length < 3 then some (.mkItem 1 77) else none

example : proj 0 (stratGlobal (gStep Keying.real false) (fun t => if t = 0 then adaptive else flooder) [1, 0, 1, 0, 1, 0]
      GState.init []).2 = [(.mkItem 1 5, .item 0 0 0), (.directFlush 1, .flushed 0 [5])] ∧
    (stratAlone (localStep false) adaptive 3 Local.init []).2 = [(.mkItem 1 5, .item 0 0 0), (.directFlush 1, .flushed 0 [5])] := by
  decide
/-- with module state instead of thread-local holders the adaptive computation takes ANOTHER PATH (different operations) -/
example : proj 0 (stratGlobal (gStep Keying.moduleState false) (fun t => if t = 0 then adaptive else flooder)
      [1, 0, 1, 0, 1, 0] GState.init []).2 =
    [(.mkItem 1 5, .item 0 1 0), (.mkItem 1 6, .item 0 3 0), (.directFlush 1, .flushed 0 [77, 5, 77, 6, 77])] := by
  decide

/-- what a library whose state is NOT per thread records (the same global step, module state) -/
def sharedRun (perf : Bool) (sch : List (ThreadId × Op)) : List (ThreadId × Rec) := (gRun Keying.moduleState perf sch).2

/-- the observer is not trivially true: it rejects the records of such a library, naming the component -/
example : spec true 2 [aloneOn true 0 (opsOf 0 demoSchedule), aloneOn true 1 (opsOf 1 demoSchedule)] (sharedRun true demoSchedule) = false := by
  decide
example : specClause false 2 [aloneOn false 0 [.mkItem 1 10], aloneOn false 1 [.mkItem 1 20]]
    (sharedRun false [(0, .mkItem 1 10), (1, .mkItem 1 20)]) = "interference:debug-batch" := by
  decide
example : specClause false 2 [aloneOn false 0 [.dedupCall 0 7], aloneOn false 1 [.dedupCall 0 7]]
    (gRun Keying.noThreadInKey false dedupClash).2 = "interference:deduplicate" := by
  decide

/-- the wrong observations listed by the audit (B5) are rejected: records of a thread that is not one of the `k`
    threads; `k = 0`; a missing run alone; a thread that sees a foreign task both alone and concurrently -/
example : specClause true 2 [aloneOn true 0 [.mkItem 1 10], aloneOn true 1 [.mkItem 1 20]]
    (inter true [(0, .mkItem 1 10), (1, .mkItem 1 20)] ++ [(7, (.getActive, .foreign)), (2, (.snap, .snap 5 5 (some 3)))])
    = "record-of-unknown-thread" := by decide
example : specClause true 0 [] (sharedRun true demoSchedule) = "no-threads" := by decide
example : specClause true 3 [aloneOn true 0 [.mkItem 1 10]] (inter true [(0, .mkItem 1 10)]) = "alone-runs-missing" := by decide
example : specClause false 2 [[(.getActive, .foreign)], [(.getActive, .raised 1)]]
    [(0, (.getActive, .foreign)), (1, (.getActive, .raised 1))] = "observes-foreign:scheduler" := by decide
example : specClause false 2 [[(.getActive, .foreign)], []] [(0, (.getActive, .active none))] = "observes-foreign-alone:scheduler" := by decide

/-- what the observer compares for a thread that uses shared objects (second audit, N11): ALL its other records, also
    those after its first use of a shared object.  The wrong observations the audit lists are rejected:
    #7 a thread whose first operation is `svGet` then sees a foreign-looking active task and another thread's item in
    its batch; #8 the thread performs different operations after a shared one; #9 the value read from the shared
    object itself differs from the run alone - this is the property as stated failing, reported under its own clause -/
example : specClause false 2 [aloneOn false 0 [.svGet, .getActive, .mkItem 1 10], aloneOn false 1 [.newTask]]
    [(0, (.svGet, .nat 0)), (1, (.newTask, .task 0 0)), (0, (.getActive, .active (some 3))), (0, (.mkItem 1 10, .item 0 5 0))]
    = "interference:scheduler" := by decide
example : specClause false 2 [aloneOn false 0 [.svGet, .getActive, .mkItem 1 10], aloneOn false 1 [.newTask]]
    [(0, (.svGet, .nat 0)), (1, (.newTask, .task 0 0)), (0, (.getActive, .active none)), (0, (.mkItem 1 10, .item 0 5 0))]
    = "interference:debug-batch" := by decide
example : specClause false 1 [aloneOn false 0 [.svGet, .getActive]] [(0, (.svGet, .nat 0)), (0, (.profFlush, .stats [.user 3]))]
    = "interference:profiler" := by decide
example : specClause false 1 [aloneOn false 0 [.svGet, .svGet]] [(0, (.svGet, .nat 0)), (0, (.svSet 4, .unit))]
    = "interference:operations" := by decide
example : specClause false 1 [aloneOn false 0 [.svGet]] [(0, (.svGet, .nat 5))] = "interference:shared-object" := by decide
/-- a thread that did more, or less, concurrently than alone -/
example : specClause false 1 [aloneOn false 0 [.svGet]] [(0, (.svGet, .nat 0)), (0, (.svGet, .nat 0))] = "interference:operations" := by decide
example : specClause false 1 [aloneOn false 0 [.getActive]] [(0, (.getActive, .active none)), (0, (.getActive, .active none))]
    = "interference:scheduler" := by decide
example : specClause false 1 [aloneOn false 0 [.getActive, .svGet]] [(0, (.getActive, .active none))] = "interference:operations" := by decide
/-- under COLLECT_PERF_STATS the records after the first cached call are compared by the last clause only -/
example : specClause true 2 [aloneOn true 0 (opsOf 0 cutClash), aloneOn true 1 (opsOf 1 cutClash)] (inter true cutClash)
    = "interference:shared-object" := by decide
example : specClause true 1 [aloneOn true 0 [.svGet, .newTask, .lruCall 1, .newTask]]
    [(0, (.svGet, .nat 0)), (0, (.newTask, .task 0 7)), (0, (.lruCall 1, .cache false 11)), (0, (.newTask, .task 1 4))]
    = "interference:task" := by decide
/-- the threads of `sharedClash` pass every clause but the last; a thread that shares nothing is compared in full and
    passes all of them even when the others share (the shape of `C16_noninterference`) -/
example : specOwn false 3 [aloneOn false 0 (opsOf 0 sharedClash), aloneOn false 1 (opsOf 1 sharedClash), aloneOn false 2 [.getActive]]
    (inter false (sharedClash ++ [(2, .getActive)])) = true := by decide
example : spec false 2 [aloneOn false 0 [.svEnter 5, .getActive, .svExit], aloneOn false 1 [.getActive, .mkItem 1 9]]
    (inter false [(0, .svEnter 5), (1, .getActive), (0, .getActive), (1, .mkItem 1 9), (0, .svExit)]) = true := by decide
example : specClause false 2 [aloneOn false 0 [.getActive, .svGet], aloneOn false 1 []]
    [(0, (.getActive, .active (some 3))), (0, (.svGet, .nat 0))] = "interference:scheduler" := by decide
/-- `strictPart` keeps strictly more than the old prefix -/
example : (ownPrefix (proj 1 (inter false sharedClash))).length = 0 ∧
    (strictPart false (proj 0 (inter false (sharedClash ++ [(0, .getActive)])))).length = 1 := by decide

/-- `hsame` / `hcount` of `C16_adaptive_schedule_independent` are needed: another number of turns, another computation -/
example : proj 0 (stratGlobal (gStep Keying.real false) (fun _ => flooder) [0, 0] GState.init []).2 ≠
    proj 0 (stratGlobal (gStep Keying.real false) (fun _ => flooder) [0] GState.init []).2 := by decide
example : proj 0 (stratGlobal (gStep Keying.real false) (fun _ => flooder) [0] GState.init []).2 ≠
    proj 0 (stratGlobal (gStep Keying.real false) (fun _ => adaptive) [0] GState.init []).2 := by decide
/-- `Strategy.Own` is satisfiable (the adaptive theorem applies to the example) and needed (a computation that reads
    the scoped value another thread overrides takes another path) -/
example : Strategy.Own adaptive := by
  intro h op e
  unfold adaptive at e
  split at e <;> (try split at e) <;> simp at e <;> (try (subst e; rfl))
def svReader : Strategy := fun h =>
  match h with
  | [] => some .svGet
  | [(_, .nat v)] => if v = 0 then some .getActive else some .snap
  | _ => none
example : proj 1 (stratGlobal (gStep Keying.real false) (fun t => if t = 1 then svReader else fun h => if h.length < 1 then some (.svSet 4) else none)
      [0, 1, 1] GState.init []).2 = [(.svGet, .nat 4), (.snap, .snap 0 0 none)] ∧
    (stratAlone (localStep false) svReader 2 Local.init []).2 = [(.svGet, .nat 0), (.getActive, .active none)] := by decide

/-- the inventory comparison accepts exactly the carriers it knows and flags a thread-local turned global, a carrier
    nobody probes and a new closure cache -/
def allProbed : List (String × String) := components.map fun c => (c.1, c.2.1)
example : inventoryProblems (components ++ [("_debug", "options", "call:DebugOptions"), ("x", "TABLE", "const")]) allProbed = [] := by
  decide
example : inventoryProblems ((components.erase ("asynq_to_async", "_asyncio_mode", "contextvar")) ++
    [("asynq_to_async", "_asyncio_mode", "global")]) allProbed =
    [(true, "asynq_to_async", "_asyncio_mode", "contextvar"), (false, "asynq_to_async", "_asyncio_mode", "global")] := by
  decide
example : inventoryProblems components (allProbed.erase ("profiler", "_state")) = [(true, "profiler", "_state", "probed")] := by
  decide
example : inventoryProblems (components ++ [("tools", "amemo:cache", "closure:dict"), ("profiler", "Stats.n", "classattr")]) allProbed =
    [(false, "tools", "amemo:cache", "closure:dict"), (false, "profiler", "Stats.n", "classattr")] := by
  decide

end AsynqModel.Threads
