import AsynqModel.Lib.Threads
import AsynqModel.Proofs.Threads
/-!
# C16  Computations on different threads never interfere

What is proved here (for the model `AsynqModel.Threads`, for ALL programs, ALL thread counts and ALL schedules):
if every operation of a thread reads and writes only that thread's slot of the global state (`stepOf`), then the
final local state and the whole list of (operation, observation) records of every thread under any interleaving are
those of running its operations alone.  The `_generic` theorems hold for an arbitrary local step function; the others
instantiate them with `localStep`, the state machine written after scheduler.py / batching.py / profiler.py /
tools.py (deduplicate) / asynq_to_async.py.

What is NOT proved (it cannot be, a theorem does not exhibit OS interleavings or read Python): that the Python
functions have the shape `stepOf`.  That locality claim is tied to the code by the check's lock-step histories,
write-in-A/observe-in-B probes, repeated free-running concurrent runs and the AST inventory.
-/
namespace AsynqModel.Threads

/-- frame property, any step function: an operation of thread `t` leaves every other thread's slot untouched, and
    what it observes is a function of `t`'s own slot only -/
theorem C16_frame_generic {σ ω ο : Type} (step : σ → ω → σ × ο) (g g' : ThreadId → σ) (t : ThreadId) (op : ω) :
    (∀ u, u ≠ t → (stepOf step t op g).1 u = g u) ∧
    (g t = g' t → (stepOf step t op g).2 = (stepOf step t op g').2 ∧
                  (stepOf step t op g).1 t = (stepOf step t op g').1 t) := by
  refine ⟨fun u h => update_other _ _ _ _ h, fun h => ?_⟩
  simp [stepOf, update_same, h]

/-- non-interference, any step function, any initial global state, ANY schedule: thread `t` ends in the state and
    has made exactly the observations of running its own operations alone -/
theorem C16_noninterference_generic {σ ω ο : Type} (step : σ → ω → σ × ο) (g : ThreadId → σ)
    (sch : List (ThreadId × ω)) (t : ThreadId) :
    (runInterleaved step g sch).1 t = (runAlone step (g t) (opsOf t sch)).1 ∧
    proj t (runInterleaved step g sch).2 = (runAlone step (g t) (opsOf t sch)).2 :=
  inter_eq_alone step sch g t

/-- a thread never observes another thread's activity, any step function: after two arbitrary schedules in which
    thread `t` itself did the same things, the next operation of `t` observes the same and leaves `t` in the same state,
    whatever the other threads did (their tasks, batches, active task, profiler buffer, dedup entries, asyncio mode) -/
theorem C16_never_observes_others_generic {σ ω ο : Type} (step : σ → ω → σ × ο) (g : ThreadId → σ)
    (sch₁ sch₂ : List (ThreadId × ω)) (t : ThreadId) (op : ω) (h : opsOf t sch₁ = opsOf t sch₂) :
    (stepOf step t op (runInterleaved step g sch₁).1).2 = (stepOf step t op (runInterleaved step g sch₂).1).2 ∧
    (stepOf step t op (runInterleaved step g sch₁).1).1 t = (stepOf step t op (runInterleaved step g sch₂).1).1 t := by
  apply (C16_frame_generic step _ _ t op).2
  rw [(inter_eq_alone step sch₁ g t).1, (inter_eq_alone step sch₂ g t).1, h]

/-- **C16 for the model of asynq's per-thread state**: for every setting of COLLECT_PERF_STATS, every family of
    per-thread operation lists and every schedule that interleaves them, each thread's final local state
    (scheduler, debug-batch table, profiler, dedup scope, asyncio mode) and its records equal those of running alone -/
theorem C16_noninterference (perf : Bool) (progs : ThreadId → List Op) (sch : List (ThreadId × Op))
    (h : IsInterleaving sch progs) (t : ThreadId) :
    (runInterleaved (localStep perf) Global.init sch).1 t = (runAlone (localStep perf) Local.init (progs t)).1 ∧
    proj t (inter perf sch) = alone perf (progs t) := by
  have := inter_eq_alone (localStep perf) sch Global.init t
  rw [h t] at this
  exact this

/-- the outcome of a thread does not depend on the schedule: any two interleavings of the same programs agree -/
theorem C16_schedule_independent (perf : Bool) (progs : ThreadId → List Op) (sch₁ sch₂ : List (ThreadId × Op))
    (h₁ : IsInterleaving sch₁ progs) (h₂ : IsInterleaving sch₂ progs) (t : ThreadId) :
    (runInterleaved (localStep perf) Global.init sch₁).1 t = (runInterleaved (localStep perf) Global.init sch₂).1 t ∧
    proj t (inter perf sch₁) = proj t (inter perf sch₂) := by
  have a := C16_noninterference perf progs sch₁ h₁ t
  have b := C16_noninterference perf progs sch₂ h₂ t
  exact ⟨a.1.trans b.1.symm, a.2.trans b.2.symm⟩

theorem firstDiff_self (l : List Rec) (i : Nat) : firstDiff l l i = none := by
  induction l generalizing i with
  | nil => rfl
  | cons x xs ih => simp [firstDiff, ih]

/-- **C16 as the observer `spec`** - the same Boolean function the check evaluates on the records of the real
    implementation: for any number of threads, programs and schedule the model's concurrent run is accepted
    against the model's runs alone -/
theorem C16_spec_holds (perf : Bool) (k : Nat) (progs : ThreadId → List Op) (sch : List (ThreadId × Op))
    (h : IsInterleaving sch progs) :
    spec k ((List.range k).map fun t => alone perf (progs t)) (inter perf sch) = true := by
  have key : ∀ n, n ≤ k →
      specFind ((List.range k).map fun t => alone perf (progs t)) (inter perf sch) n = none := by
    intro n
    induction n with
    | zero => intro _; rfl
    | succ n ih =>
      intro hn
      have hlt : n < k := hn
      have hget : ((List.range k).map fun t => alone perf (progs t)).getD n [] = alone perf (progs n) := by
        simp [List.getD, hlt]
      simp only [specFind, ih (Nat.le_of_succ_le hn), hget, (C16_noninterference perf progs sch h n).2,
        firstDiff_self]
  simp [spec, key k (Nat.le_refl k)]

/-- the process-wide dict `DeduplicateDecorator.tasks` keyed by (arguments, current_thread(), id(fn)) IS a family of
    per-thread tables: what thread `t` looks up is in its slice; what `t` stores or removes changes its slice like
    the local table operation and leaves the slice of every other thread as it was -/
theorem C16_dedup_table_slices (t u : ThreadId) (f k v : Nat) (tbl : SharedTbl) :
    alookup (k, t, f) tbl = alookup (f, k) (slice t tbl) ∧
    slice t (aerase (k, t, f) tbl) = aerase (f, k) (slice t tbl) ∧
    slice t (ainsert (k, t, f) v tbl) = ainsert (f, k) v (slice t tbl) ∧
    (u ≠ t → slice u (aerase (k, t, f) tbl) = slice u tbl ∧ slice u (ainsert (k, t, f) v tbl) = slice u tbl) := by
  refine ⟨slice_lookup t f k tbl, slice_erase_same t f k tbl, ?_, fun h => ⟨slice_erase_other t u f k tbl h, ?_⟩⟩
  · simp [ainsert, slice, slice_erase_same]
  · have : ¬ (t = u) := fun h' => h h'.symm
    simp [ainsert, slice, this, slice_erase_other t u f k tbl h]

/-! ## non-vacuity -/

/-- two threads use the same batch name, the same deduplicated function with the same key, the profiler and asyncio
    mode, interleaved step by step -/
def demoSchedule : List (ThreadId × Op) :=
  [(0, .mkItem 1 10), (1, .mkItem 1 20), (0, .dedupCall 0 7), (1, .dedupCall 0 7), (0, .amEnter), (1, .amGet),
   (1, .dedupCall 0 7), (0, .dedupCall 0 7), (0, .amExit), (1, .newTask), (1, .push 1), (1, .taskStart 1), (0, .snap),
   (0, .getActive), (1, .mkItem 1 21), (1, .taskStop), (1, .schedBatch 1), (1, .pop), (1, .schedFlush 1),
   (0, .directFlush 1), (0, .profIncr), (1, .profFlush), (0, .mkItem 1 11), (1, .resetSched), (0, .getSched)]

example : proj 1 (inter true demoSchedule) =
    [(.mkItem 1 20, .item 0 0 1), (.dedupCall 0 7, .dedup 0 0 2), (.amGet, .bool false), (.dedupCall 0 7, .dedup 1 0 2),
     (.newTask, .task 1 3), (.push 1, .unit), (.taskStart 1, .active (some 1)), (.mkItem 1 21, .item 0 1 4),
     (.taskStop, .unit), (.schedBatch 1, .unit), (.pop, .unit), (.schedFlush 1, .flushed 0 [20, 21]),
     (.profFlush, .stats [.batch]), (.resetSched, .unit)] := by
  decide

example : proj 0 (inter true demoSchedule) =
    [(.mkItem 1 10, .item 0 0 1), (.dedupCall 0 7, .dedup 0 0 2), (.amEnter, .unit), (.dedupCall 0 7, .bypass),
     (.amExit, .unit), (.snap, .snap 0 0 none), (.getActive, .active none), (.directFlush 1, .flushed 0 [10]),
     (.profIncr, .nat 3), (.mkItem 1 11, .item 1 0 4), (.getSched, .sched 1 true)] := by
  decide

example : spec 2 [alone true (opsOf 0 demoSchedule), alone true (opsOf 1 demoSchedule)] (inter true demoSchedule) = true := by
  decide

/-- what a library whose state is NOT per thread would record: all operations act on one shared slot -/
def sharedRun (perf : Bool) (sch : List (ThreadId × Op)) : List (ThreadId × Rec) :=
  (sch.map (·.1)).zip (alone perf (sch.map (·.2)))

/-- the observer is not trivially true: it rejects the records of such a library (thread 1 would find thread 0's item
    in its batch), naming the component -/
example : spec 2 [alone true (opsOf 0 demoSchedule), alone true (opsOf 1 demoSchedule)] (sharedRun true demoSchedule) = false := by
  decide
example : specClause 2 [alone false [.mkItem 1 10], alone false [.mkItem 1 20]]
    (sharedRun false [(0, .mkItem 1 10), (1, .mkItem 1 20)]) = "interference:debug-batch" := by
  decide

/-- the inventory comparison accepts exactly the carriers it knows and flags a thread-local turned global -/
example : inventoryProblems (components ++ [("_debug", "options", "call:DebugOptions"), ("x", "TABLE", "const")]) = [] := by
  decide
example : inventoryProblems ((components.erase ("asynq_to_async", "_asyncio_mode", "contextvar")) ++
    [("asynq_to_async", "_asyncio_mode", "global")]) =
    [(true, "asynq_to_async", "_asyncio_mode", "contextvar"), (false, "asynq_to_async", "_asyncio_mode", "global")] := by
  decide

end AsynqModel.Threads
