import AsynqModel.Lib.Threads
import AsynqModel.Proofs.Threads
/-!
# C16  Computations on different threads never interfere

The model (`AsynqModel.Threads`, Lib/Threads.lean) is ONE global state for all threads - the thread-indexed carriers
(`locals`), the one process-wide deduplicate dict whose keys carry a thread component (`tasks`), and objects that are
shared by design (`sh`: a scoped value, an alru cache) - and ONE global step `gStep kg perf t op`.  How a thread
addresses the carriers and what it puts into a deduplicate key is the parameter `kg : Keying`.

What is proved:
* the SHARING STRUCTURE of `gStep`: for an operation that touches no shared-by-design object, the step of thread `t`
  commutes with the abstraction `abs kg t` to `t`'s view (`C16_gstep_simulates_local`, any keying), and if the keying
  separates the threads it leaves the view of every other thread unchanged (`C16_gstep_frames_others`, ALL operations);
* from these two facts and nothing else: non-interference under EVERY schedule for fixed operation lists
  (`C16_noninterference`, `C16_noninterference_prefix`) and for ADAPTIVE computations - the next operation is an
  arbitrary function of what the thread itself has observed so far, so results, context events and flush choices are
  not assumed equal between runs (`C16_adaptive_noninterference`, `C16_adaptive_schedule_independent`);
* that the separation is NECESSARY: with the thread missing from the deduplicate key, or with thread-local holders
  turned into module state, non-interference is refuted (`C16_no_thread_in_key_counterexample`,
  `C16_module_state_counterexample`) - so the theorems above are about this model's keying, not about any step function;
* the restriction to computations that do not touch shared-by-design objects is necessary
  (`C16_shared_object_counterexample`) and concerns only the thread's OWN operations: other threads may use them freely;
* the Boolean observer `spec` that the check evaluates on the records of the real implementation accepts every run
  of the model (`C16_spec_holds`).

What is NOT proved (a theorem does not exhibit OS interleavings or read Python): that the Python functions behave
like `gStep Keying.real`.  That is tied to the code by the check's lock-step histories (every observation compared
with the model under the same schedule), write-in-A/observe-in-B probes, repeated free-running concurrent runs and
the AST inventory.
-/
namespace AsynqModel.Threads

/-! ## the sharing structure of the global step -/

/-- the library's keying separates the threads (CPython: one threading.local slot per thread, distinct Thread objects) -/
theorem C16_real_separates : Keying.real.Separates := ⟨fun _ _ h => h, fun _ _ h => h⟩

/-- **simulation** (any keying, any global state): an operation of thread `t` that touches no shared-by-design object
    observes what `localStep` observes on `t`'s view (its carriers and its slice of the one deduplicate dict) and
    changes `t`'s view like `localStep` - it reads nothing else of the global state -/
theorem C16_gstep_simulates_local (kg : Keying) (perf : Bool) (t : ThreadId) (op : Op) (g : GState)
    (h : op.isShared = false) :
    localStep perf (abs kg t g) op = (abs kg t (gStep kg perf t op g).1, (gStep kg perf t op g).2) :=
  gStep_commutes kg perf t op g h

/-- **frame** (separating keying, ALL operations, also those on shared objects): an operation of thread `t` leaves the
    view of every other thread - scheduler, active task, debug-batch table, profiler buffer and counter, asyncio mode,
    its entries of the deduplicate dict - exactly as it was -/
theorem C16_gstep_frames_others (kg : Keying) (hs : kg.Separates) (perf : Bool) (t u : ThreadId) (op : Op)
    (g : GState) (h : u ≠ t) : abs kg u (gStep kg perf t op g).1 = abs kg u g :=
  gStep_frame kg hs perf t u op g h

/-- a thread never observes another thread's activity: in two ARBITRARY global states in which thread `t` has the same
    view, the next operation of `t` observes the same and leaves `t` with the same view - whatever tasks, batches,
    active task, profiler entries, deduplicate entries, asyncio mode the other threads have in the two states -/
theorem C16_never_observes_others (kg : Keying) (perf : Bool) (t : ThreadId) (op : Op) (g₁ g₂ : GState)
    (hop : op.isShared = false) (h : abs kg t g₁ = abs kg t g₂) :
    (gStep kg perf t op g₁).2 = (gStep kg perf t op g₂).2 ∧
    abs kg t (gStep kg perf t op g₁).1 = abs kg t (gStep kg perf t op g₂).1 := by
  have a := gStep_commutes kg perf t op g₁ hop
  have b := gStep_commutes kg perf t op g₂ hop
  rw [h] at a
  have := a.symm.trans b
  exact ⟨(Prod.mk.inj this).2, (Prod.mk.inj this).1⟩

theorem abs_init (kg : Keying) (t : ThreadId) : abs kg t GState.init = Local.init := rfl

/-! ## non-interference, fixed operation lists -/

/-- **C16, all schedules**: the keying separates the threads; `sch` is ANY schedule of ANY operations of ANY number of
    threads (the other threads may also use shared-by-design objects); thread `t`'s own operations touch no
    shared-by-design object.  Then `t` ends with the view, and has made exactly the records, of the run in which only
    `t` acts (`only t sch`) - which are those of the reference semantics `localStep` from the initial state. -/
theorem C16_noninterference (kg : Keying) (hs : kg.Separates) (perf : Bool) (sch : List (ThreadId × Op)) (t : ThreadId)
    (hown : ∀ op ∈ opsOf t sch, op.isShared = false) :
    (abs kg t (gRun kg perf sch).1 = abs kg t (gRun kg perf (only t sch)).1 ∧
     proj t (gRun kg perf sch).2 = proj t (gRun kg perf (only t sch)).2) ∧
    (abs kg t (gRun kg perf sch).1 = (runAlone (localStep perf) Local.init (opsOf t sch)).1 ∧
     proj t (gRun kg perf sch).2 = alone perf (opsOf t sch)) := by
  have hc : ∀ t op g, (!op.isShared) = true →
      localStep perf (abs kg t g) op = (abs kg t (gStep kg perf t op g).1, (gStep kg perf t op g).2) :=
    fun t op g h => gStep_commutes kg perf t op g (by simpa using h)
  have hf := fun t u op g => gStep_frame kg hs perf t u op g
  have a := sim_run (gStep kg perf) (localStep perf) (abs kg) (fun op => !op.isShared) hc hf sch GState.init t
    (fun op ho => by simp [hown op ho])
  have b := sim_run (gStep kg perf) (localStep perf) (abs kg) (fun op => !op.isShared) hc hf (only t sch) GState.init t
    (fun op ho => by rw [opsOf_only] at ho; simp [hown op ho])
  rw [opsOf_only] at b
  exact ⟨⟨a.1.trans b.1.symm, a.2.trans b.2.symm⟩, a⟩

/-- without any assumption on `t`'s operations: up to its first operation on a shared-by-design object the records of
    thread `t` are those of the run in which only `t` acts -/
theorem C16_noninterference_prefix (kg : Keying) (hs : kg.Separates) (perf : Bool) (sch : List (ThreadId × Op))
    (t : ThreadId) :
    ownPrefix (proj t (gRun kg perf sch).2) = ownPrefix (proj t (gRun kg perf (only t sch)).2) := by
  have hc : ∀ t op g, (!op.isShared) = true →
      localStep perf (abs kg t g) op = (abs kg t (gStep kg perf t op g).1, (gStep kg perf t op g).2) :=
    fun t op g h => gStep_commutes kg perf t op g (by simpa using h)
  have hf := fun t u op g => gStep_frame kg hs perf t u op g
  have a := sim_run_prefix (gStep kg perf) (localStep perf) (abs kg) (fun op => !op.isShared) hc hf sch GState.init t
  have b := sim_run_prefix (gStep kg perf) (localStep perf) (abs kg) (fun op => !op.isShared) hc hf (only t sch)
    GState.init t
  rw [opsOf_only] at b
  exact a.trans b.symm

/-- the outcome of a thread depends neither on the schedule nor on what the other threads do: two ARBITRARY schedules
    (different threads, different operations of the others) in which `t` itself performs the same operations, none of
    them on a shared-by-design object, give `t` the same view and the same records -/
theorem C16_schedule_independent (kg : Keying) (hs : kg.Separates) (perf : Bool)
    (sch₁ sch₂ : List (ThreadId × Op)) (t : ThreadId) (h : opsOf t sch₁ = opsOf t sch₂)
    (hown : ∀ op ∈ opsOf t sch₁, op.isShared = false) :
    abs kg t (gRun kg perf sch₁).1 = abs kg t (gRun kg perf sch₂).1 ∧
    proj t (gRun kg perf sch₁).2 = proj t (gRun kg perf sch₂).2 := by
  have a := (C16_noninterference kg hs perf sch₁ t hown).2
  have b := (C16_noninterference kg hs perf sch₂ t (h ▸ hown)).2
  rw [← h] at b
  exact ⟨a.1.trans b.1.symm, a.2.trans b.2.symm⟩

/-- the statement for the library as written, in the functions the driver of the check evaluates (`inter` = the model's
    concurrent run, `aloneOn` = the model's run of one thread while the others do nothing, `alone` = the reference
    semantics): CORR compares the implementation with `inter` / `aloneOn`, and these agree per thread -/
theorem C16_noninterference_library (perf : Bool) (sch : List (ThreadId × Op)) (t : ThreadId)
    (hown : ∀ op ∈ opsOf t sch, op.isShared = false) :
    proj t (inter perf sch) = aloneOn perf t (opsOf t sch) ∧ aloneOn perf t (opsOf t sch) = alone perf (opsOf t sch) := by
  have a := C16_noninterference Keying.real C16_real_separates perf sch t hown
  exact ⟨a.1.2, a.1.2.symm.trans a.2.2⟩

/-! ## non-interference, adaptive computations -/

/-- a computation that never touches a shared-by-design object -/
def Strategy.Own (s : Strategy) : Prop := ∀ h op, s h = some op → op.isShared = false

/-- **C16 for arbitrary computations**: every thread `u` runs an ARBITRARY computation `ss u` (its next operation is any
    function of the records it has made so far - so its results, its context events, the batch its scheduler flushes
    next are not inputs that two runs are assumed to share); `turns` is ANY list saying which thread moves at each
    instant.  If the keying separates the threads and `t`'s computation never touches a shared-by-design object, then
    the records of `t` (operations AND observations) and its final view are those of `t`'s computation run alone for
    as many turns as `t` got. -/
theorem C16_adaptive_noninterference (kg : Keying) (hs : kg.Separates) (perf : Bool) (ss : ThreadId → Strategy)
    (t : ThreadId) (hown : (ss t).Own) (turns : List ThreadId) :
    abs kg t (stratGlobal (gStep kg perf) ss turns GState.init []).1 =
      (stratAlone (localStep perf) (ss t) (turns.count t) Local.init []).1 ∧
    proj t (stratGlobal (gStep kg perf) ss turns GState.init []).2 =
      (stratAlone (localStep perf) (ss t) (turns.count t) Local.init []).2 := by
  have hc : ∀ t op g, (!op.isShared) = true →
      localStep perf (abs kg t g) op = (abs kg t (gStep kg perf t op g).1, (gStep kg perf t op g).2) :=
    fun t op g h => gStep_commutes kg perf t op g (by simpa using h)
  have hf := fun t u op g => gStep_frame kg hs perf t u op g
  exact sim_strat (gStep kg perf) (localStep perf) (abs kg) (fun op => !op.isShared) hc hf ss t
    (fun h op e => by simp [hown h op e]) turns GState.init []

/-- ... in particular they depend neither on WHEN `t` got its turns nor on what the other threads compute -/
theorem C16_adaptive_schedule_independent (kg : Keying) (hs : kg.Separates) (perf : Bool) (ss ss' : ThreadId → Strategy)
    (t : ThreadId) (hsame : ss t = ss' t) (hown : (ss t).Own) (turns turns' : List ThreadId)
    (hcount : turns.count t = turns'.count t) :
    proj t (stratGlobal (gStep kg perf) ss turns GState.init []).2 =
    proj t (stratGlobal (gStep kg perf) ss' turns' GState.init []).2 := by
  have a := (C16_adaptive_noninterference kg hs perf ss t hown turns).2
  have b := (C16_adaptive_noninterference kg hs perf ss' t (hsame ▸ hown) turns').2
  rw [← hsame, ← hcount] at b
  exact a.trans b.symm

/-! ## the separation is necessary: the same global step with a keying that does not separate the threads -/

/-- two threads call the same deduplicated function with the same key, nothing else -/
def dedupClash : List (ThreadId × Op) := [(0, .dedupCall 0 7), (1, .dedupCall 0 7)]

/-- thread key dropped from `cache_key` (one unkeyed table): thread 1 is handed thread 0's in-flight task
    (`dedup 1 0 _` = "the stored task, token 0") where alone it creates its own (`dedup 0 0 _`) -/
theorem C16_no_thread_in_key_counterexample :
    (∀ op ∈ opsOf 1 dedupClash, op.isShared = false) ∧
    proj 1 (gRun Keying.noThreadInKey false dedupClash).2 = [(.dedupCall 0 7, .dedup 1 0 0)] ∧
    proj 1 (gRun Keying.noThreadInKey false (only 1 dedupClash)).2 = [(.dedupCall 0 7, .dedup 0 0 0)] ∧
    abs Keying.noThreadInKey 1 (gStep Keying.noThreadInKey false 0 (.dedupCall 0 7) GState.init).1 ≠
      abs Keying.noThreadInKey 1 GState.init := by
  decide

/-- one thread is inside a task and has made a batch item, the other looks -/
def holderClash : List (ThreadId × Op) := [(0, .newTask), (0, .taskStart 0), (0, .mkItem 1 10), (1, .getActive), (1, .mkItem 1 20)]

/-- thread-local holders replaced by module state (one slot for all threads): thread 1 sees thread 0's active task
    and finds thread 0's item in its batch -/
theorem C16_module_state_counterexample :
    (∀ op ∈ opsOf 1 holderClash, op.isShared = false) ∧
    proj 1 (gRun Keying.moduleState false holderClash).2 =
      [(.getActive, .active (some 0)), (.mkItem 1 20, .item 0 1 0)] ∧
    proj 1 (gRun Keying.moduleState false (only 1 holderClash)).2 =
      [(.getActive, .active none), (.mkItem 1 20, .item 0 0 0)] := by
  decide

/-- with the library's keying both schedules are harmless (instances of `C16_noninterference`, computed) -/
example : proj 1 (gRun Keying.real false dedupClash).2 = proj 1 (gRun Keying.real false (only 1 dedupClash)).2 ∧
    proj 1 (gRun Keying.real false holderClash).2 = proj 1 (gRun Keying.real false (only 1 holderClash)).2 := by
  decide

/-! ## objects shared by design are outside the statement: the hypothesis on `t`'s own operations is necessary -/

/-- thread 0 is inside `with V.override(5)`, thread 1 reads `V`; thread 0 fills the alru cache, thread 1 calls -/
def sharedClash : List (ThreadId × Op) := [(0, .svEnter 5), (1, .svGet), (0, .svExit), (0, .lruCall 3), (1, .lruCall 3)]

/-- the library as written (`Keying.real`): a thread that reads a scoped value / calls a cached function that another
    thread uses too does NOT get the records of running alone (5 instead of 0; a cache hit instead of a miss) - while
    a thread that does not touch such objects is unaffected by the two that do (`getActive`, `mkItem` of thread 2) -/
theorem C16_shared_object_counterexample :
    proj 1 (inter false sharedClash) = [(.svGet, .nat 5), (.lruCall 3, .cache true 31)] ∧
    proj 1 (inter false (only 1 sharedClash)) = [(.svGet, .nat 0), (.lruCall 3, .cache false 31)] ∧
    proj 2 (inter false (sharedClash ++ [(2, .getActive), (2, .mkItem 1 9)])) =
      proj 2 (inter false [(2, .getActive), (2, .mkItem 1 9)]) := by
  decide

/-! ## the observer -/

theorem firstDiff_self (l : List Rec) (i : Nat) : firstDiff l l i = none := by
  induction l generalizing i with
  | nil => rfl
  | cons x xs ih => simp [firstDiff, ih]

theorem firstDiff_eq {a b : List Rec} (h : a = b) (i : Nat) : firstDiff a b i = none := h ▸ firstDiff_self a i

theorem proj_mem {ρ : Type} (t : ThreadId) (recs : List (ThreadId × ρ)) (r : ρ) (h : r ∈ proj t recs) :
    (t, r) ∈ recs := by
  simp only [proj, List.mem_filterMap] at h
  obtain ⟨p, hp, he⟩ := h
  obtain ⟨u, x⟩ := p
  by_cases hu : u = t
  · simp [hu] at he; subst hu; subst he; exact hp
  · simp [hu] at he

theorem foreignIn_none (l : List Rec) (h : ∀ r ∈ l, r.2 ≠ Obs.foreign) : foreignIn l = none := by
  simp only [foreignIn, Option.map_eq_none_iff, List.find?_eq_none]
  intro r hr
  simpa using h r hr

/-- **C16 as the observer `spec`** - the same Boolean function the check evaluates on the records of the real
    implementation: for any separating keying (in particular the library's), any `k ≥ 1`, any schedule of threads
    `< k` (any operations), the model's concurrent run is accepted against the model's runs of each thread alone -/
theorem C16_spec_holds (kg : Keying) (hs : kg.Separates) (perf : Bool) (k : Nat) (hk : 0 < k)
    (sch : List (ThreadId × Op)) (hthr : ∀ p ∈ sch, p.1 < k) :
    spec k ((List.range k).map fun t => proj t (gRun kg perf (only t sch)).2) (gRun kg perf sch).2 = true := by
  have hforeign : ∀ s : List (ThreadId × Op), ∀ r ∈ (gRun kg perf s).2, r.2.2 ≠ Obs.foreign :=
    fun s => runGlobal_obs (gStep kg perf) (· ≠ Obs.foreign) (fun t op g => gStep_obs_ne_foreign kg perf t op g)
      GState.init s
  have h1 : ¬ (k = 0) := Nat.pos_iff_ne_zero.mp hk
  have h2 : ¬ (((List.range k).map fun t => proj t (gRun kg perf (only t sch)).2).length ≠ k) := by simp
  have h3 : ((gRun kg perf sch).2.any fun p => decide (k ≤ p.1)) = false := by
    rw [List.any_eq_false]
    intro p hp
    have : p.1 ∈ (gRun kg perf sch).2.map (·.1) := List.mem_map_of_mem hp
    rw [gRun, runGlobal_threads] at this
    obtain ⟨q, hq, he⟩ := List.mem_map.mp this
    have hlt : q.1 < k := hthr q hq
    have heq : q.1 = p.1 := he
    simp only [decide_eq_true_eq]
    exact Nat.not_le_of_gt (heq ▸ hlt)
  have h4 : foreignIn ((gRun kg perf sch).2.map (·.2)) = none := by
    apply foreignIn_none
    intro r hr
    obtain ⟨p, hp, he⟩ := List.mem_map.mp hr
    exact he ▸ hforeign sch p hp
  have h5 : ((List.range k).map fun t => proj t (gRun kg perf (only t sch)).2).findSome? foreignIn = none := by
    rw [List.findSome?_eq_none_iff]
    intro l hl
    obtain ⟨t, _, he⟩ := List.mem_map.mp hl
    subst he
    apply foreignIn_none
    intro r hr
    exact hforeign _ _ (proj_mem t _ r hr)
  have key : ∀ n, n ≤ k →
      specFind ((List.range k).map fun t => proj t (gRun kg perf (only t sch)).2) (gRun kg perf sch).2 n = none := by
    intro n
    induction n with
    | zero => intro _; rfl
    | succ n ih =>
      intro hn
      have hlt : n < k := hn
      have hget : ((List.range k).map fun t => proj t (gRun kg perf (only t sch)).2).getD n [] =
          proj n (gRun kg perf (only n sch)).2 := by
        simp [List.getD, hlt]
      simp only [specFind, ih (Nat.le_of_succ_le hn), hget,
        firstDiff_eq (C16_noninterference_prefix kg hs perf sch n).symm]
  simp only [spec, specCheck, h1, h2, h3, h4, h5, key k (Nat.le_refl k), if_false, Bool.false_eq_true, Option.isNone_none]

/-- SPECM of the check: the observer on the model's own records, for the library's keying -/
theorem C16_spec_holds_library (perf : Bool) (k : Nat) (hk : 0 < k) (sch : List (ThreadId × Op))
    (hthr : ∀ p ∈ sch, p.1 < k) :
    spec k ((List.range k).map fun t => aloneOn perf t (opsOf t sch)) (inter perf sch) = true :=
  C16_spec_holds Keying.real C16_real_separates perf k hk sch hthr

/-- both hypotheses of `C16_spec_holds` are needed: no threads / a record of a thread that is not among the `k` -/
example : spec 0 [] (inter false []) = false := by decide
example : spec 1 [aloneOn false 0 []] (inter false [(1, .getActive)]) = false := by decide

/-! ## non-vacuity and what the observer rejects -/

/-- two threads use the same batch name, the same deduplicated function with the same key, the profiler and asyncio
    mode, interleaved step by step -/
def demoSchedule : List (ThreadId × Op) :=
  [(0, .mkItem 1 10), (1, .mkItem 1 20), (0, .dedupCall 0 7), (1, .dedupCall 0 7), (0, .amEnter), (1, .amGet),
   (1, .dedupCall 0 7), (0, .dedupCall 0 7), (0, .amExit), (1, .newTask), (1, .push 1), (1, .taskStart 1), (0, .snap),
   (0, .getActive), (1, .mkItem 1 21), (1, .taskStop), (1, .schedBatch 1), (1, .pop), (1, .schedFlush 1),
   (0, .directFlush 1), (0, .profIncr), (1, .profFlush), (0, .mkItem 1 11), (1, .resetSched), (0, .getSched)]

example : proj 1 (inter true demoSchedule) =
    [(.mkItem 1 20, .item 0 0 1), (.dedupCall 0 7, .dedup 0 0 2), (.amGet, .bool false), (.dedupCall 0 7, .dedup 1 0 2),
     (.newTask, .task 1 3), (.push 1, .unit), (.taskStart 1, .active (some 1)), (.mkItem 1 21, .item 0 1 4),
     (.taskStop, .unit), (.schedBatch 1, .unit), (.pop, .unit), (.schedFlush 1, .flushed 0 [20, 21]),
     (.profFlush, .stats [.batch]), (.resetSched, .unit)] := by
  decide

example : proj 0 (inter true demoSchedule) =
    [(.mkItem 1 10, .item 0 0 1), (.dedupCall 0 7, .dedup 0 0 2), (.amEnter, .unit), (.dedupCall 0 7, .bypass),
     (.amExit, .unit), (.snap, .snap 0 0 none), (.getActive, .active none), (.directFlush 1, .flushed 0 [10]),
     (.profIncr, .nat 3), (.mkItem 1 11, .item 1 0 4), (.getSched, .sched 1 true)] := by
  decide

/-- the one dict really is shared in the model: after the demo both threads' entries sit in the same table, and each
    thread's view holds only its own -/
example : (gRun Keying.real true (demoSchedule.take 4)).1.tasks = [((7, 1, 0), 0), ((7, 0, 0), 0)] ∧
    (abs Keying.real 0 (gRun Keying.real true (demoSchedule.take 4)).1).dedup = [((0, 7), 0)] := by
  decide

/-- the run alone through the global model, the reference semantics, and the projection of the concurrent run agree -/
example : aloneOn true 1 (opsOf 1 demoSchedule) = alone true (opsOf 1 demoSchedule) ∧
    proj 1 (inter true demoSchedule) = alone true (opsOf 1 demoSchedule) := by
  decide

example : spec 2 [aloneOn true 0 (opsOf 0 demoSchedule), aloneOn true 1 (opsOf 1 demoSchedule)] (inter true demoSchedule) = true := by
  decide

/-- instance of the frame theorem: thread 1 starts a task, thread 0's view does not move; instance of
    `C16_never_observes_others`: after two different schedules in which thread 0 did the same, its flush sees the same -/
example : abs Keying.real 0 (gStep Keying.real true 1 (.taskStart 5) (gRun Keying.real true (demoSchedule.take 4)).1).1 =
    abs Keying.real 0 (gRun Keying.real true (demoSchedule.take 4)).1 := by
  decide
example : (gStep Keying.real true 0 (.directFlush 1)
      (gRun Keying.real true [(0, .mkItem 1 10), (1, .mkItem 1 20), (1, .taskStart 5)]).1).2 = .flushed 0 [10] ∧
    (gStep Keying.real true 0 (.directFlush 1) (gRun Keying.real true [(1, .profIncr), (0, .mkItem 1 10)]).1).2 = .flushed 0 [10] := by
  decide

/-- slices of the one dict -/
example : slice 0 [((7, 0, 1), 100), ((7, 1, 1), 200), ((8, 0, 1), 300)] = [((1, 7), 100), ((1, 8), 300)] ∧
    slice 1 (aerase (7, 0, 1) [((7, 0, 1), 100), ((7, 1, 1), 200)]) = [((1, 7), 200)] := by
  decide

/-- an adaptive computation: after seeing its own first item it makes as many more as the position it was told, then
    flushes; run against a thread that floods the same batch name.  Instance of `C16_adaptive_noninterference`. -/
def adaptive : Strategy := fun h =>
  match h with
  | [] => some (.mkItem 1 5)
  | [(_, .item _ pos _)] => if pos = 0 then some (.directFlush 1) else some (.mkItem 1 6)
  | [_, (.mkItem _ _, _)] => some (.directFlush 1)
  | _ => none
def flooder : Strategy := fun h => if h.length < 3 then some (.mkItem 1 77) else none

example : proj 0 (stratGlobal (gStep Keying.real false) (fun t => if t = 0 then adaptive else flooder) [1, 0, 1, 0, 1, 0]
      GState.init []).2 = [(.mkItem 1 5, .item 0 0 0), (.directFlush 1, .flushed 0 [5])] ∧
    (stratAlone (localStep false) adaptive 3 Local.init []).2 = [(.mkItem 1 5, .item 0 0 0), (.directFlush 1, .flushed 0 [5])] := by
  decide
/-- with module state instead of thread-local holders the adaptive computation takes ANOTHER PATH (different operations) -/
example : proj 0 (stratGlobal (gStep Keying.moduleState false) (fun t => if t = 0 then adaptive else flooder)
      [1, 0, 1, 0, 1, 0] GState.init []).2 =
    [(.mkItem 1 5, .item 0 1 0), (.mkItem 1 6, .item 0 3 0), (.directFlush 1, .flushed 0 [77, 5, 77, 6, 77])] := by
  decide

/-- what a library whose state is NOT per thread records (the same global step, module state) -/
def sharedRun (perf : Bool) (sch : List (ThreadId × Op)) : List (ThreadId × Rec) := (gRun Keying.moduleState perf sch).2

/-- the observer is not trivially true: it rejects the records of such a library, naming the component -/
example : spec 2 [aloneOn true 0 (opsOf 0 demoSchedule), aloneOn true 1 (opsOf 1 demoSchedule)] (sharedRun true demoSchedule) = false := by
  decide
example : specClause 2 [aloneOn false 0 [.mkItem 1 10], aloneOn false 1 [.mkItem 1 20]]
    (sharedRun false [(0, .mkItem 1 10), (1, .mkItem 1 20)]) = "interference:debug-batch" := by
  decide
example : specClause 2 [aloneOn false 0 [.dedupCall 0 7], aloneOn false 1 [.dedupCall 0 7]]
    (gRun Keying.noThreadInKey false dedupClash).2 = "interference:deduplicate" := by
  decide

/-- the wrong observations listed by the audit (B5) are rejected: records of a thread that is not one of the `k`
    threads; `k = 0`; a missing run alone; a thread that sees a foreign task both alone and concurrently -/
example : specClause 2 [aloneOn true 0 [.mkItem 1 10], aloneOn true 1 [.mkItem 1 20]]
    (inter true [(0, .mkItem 1 10), (1, .mkItem 1 20)] ++ [(7, (.getActive, .foreign)), (2, (.snap, .snap 5 5 (some 3)))])
    = "record-of-unknown-thread" := by decide
example : specClause 0 [] (sharedRun true demoSchedule) = "no-threads" := by decide
example : specClause 3 [aloneOn true 0 [.mkItem 1 10]] (inter true [(0, .mkItem 1 10)]) = "alone-runs-missing" := by decide
example : specClause 2 [[(.getActive, .foreign)], [(.getActive, .raised 1)]]
    [(0, (.getActive, .foreign)), (1, (.getActive, .raised 1))] = "observes-foreign:scheduler" := by decide
example : specClause 2 [[(.getActive, .foreign)], []] [(0, (.getActive, .active none))] = "observes-foreign-alone:scheduler" := by decide

/-- a thread that touches a shared object is compared up to that operation only; one that does not is compared in full
    even when the others do (the shape of `C16_noninterference`) -/
example : spec 3 [aloneOn false 0 (opsOf 0 sharedClash), aloneOn false 1 (opsOf 1 sharedClash), aloneOn false 2 [.getActive]]
    (inter false (sharedClash ++ [(2, .getActive)])) = true := by decide
example : specClause 2 [aloneOn false 0 [.getActive, .svGet], aloneOn false 1 []]
    [(0, (.getActive, .active (some 3))), (0, (.svGet, .nat 0))] = "interference:scheduler" := by decide

/-- the inventory comparison accepts exactly the carriers it knows and flags a thread-local turned global, a carrier
    nobody probes and a new closure cache -/
def allProbed : List (String × String) := components.map fun c => (c.1, c.2.1)
example : inventoryProblems (components ++ [("_debug", "options", "call:DebugOptions"), ("x", "TABLE", "const")]) allProbed = [] := by
  decide
example : inventoryProblems ((components.erase ("asynq_to_async", "_asyncio_mode", "contextvar")) ++
    [("asynq_to_async", "_asyncio_mode", "global")]) allProbed =
    [(true, "asynq_to_async", "_asyncio_mode", "contextvar"), (false, "asynq_to_async", "_asyncio_mode", "global")] := by
  decide
example : inventoryProblems components (allProbed.erase ("profiler", "_state")) = [(true, "profiler", "_state", "probed")] := by
  decide
example : inventoryProblems (components ++ [("tools", "amemo:cache", "closure:dict"), ("profiler", "Stats.n", "classattr")]) allProbed =
    [(false, "tools", "amemo:cache", "closure:dict"), (false, "profiler", "Stats.n", "classattr")] := by
  decide

end AsynqModel.Threads
