import AsynqModel.Theorems.C15
/-!
# C15b  The C15 observer judges EVERY recorded way of running

`Spec.C15` (`Asyncio.spec`) takes the observations of one program under all calling conventions, takes the FIRST as the
reference (`fn(args)`), and folds `specObs` over all of them.  An accepted list - of any origin, also the records of a
changed library - has all conventions present and every single observation in it passed `specObs` against the first.
-/
namespace AsynqModel.Asyncio

theorem specList_ok_iff (ref : Out) (refC : List PEv) (obs : List Obs) :
    specList ref refC obs = .ok () ↔ ∀ ob ∈ obs, specObs ref refC ob = .ok () := by
  induction obs with
  | nil => simp [specList]
  | cons ob obs ih =>
    simp only [specList, List.mem_cons, forall_eq_or_imp]
    cases hs : specObs ref refC ob with
    | error e => simp
    | ok u => cases u; simp [ih]

theorem ite_ne' {α : Type} {c : Prop} [Decidable c] {a b x : α} (ha : a ≠ x) (hb : b ≠ x) :
    (if c then a else b) ≠ x := by
  split <;> assumption

/-- no clause of `specObs` is called "ok" -/
theorem specObs_ne_ok (ref : Out) (refC : List PEv) (ob : Obs) : specObs ref refC ob ≠ .error "ok" := by
  unfold specObs
  repeat' (apply ite_ne')
  all_goals simp

theorem specList_ne_ok (ref : Out) (refC : List PEv) (obs : List Obs) : specList ref refC obs ≠ .error "ok" := by
  induction obs with
  | nil => simp [specList]
  | cons ob obs ih =>
    simp only [specList]
    cases hs : specObs ref refC ob with
    | error e =>
      intro hh
      have : e = "ok" := by simpa using hh
      exact specObs_ne_ok ref refC ob (this ▸ hs)
    | ok u => cases u; exact ih

/-- **every observation of an accepted list passed `specObs`** against the first one, and all conventions are there -/
theorem C15_spec_every_obs (obs : List Obs) (h : spec obs = true) :
    convsPresent obs = true ∧ ∃ ob₀ rest, obs = ob₀ :: rest ∧
      ∀ ob ∈ obs, specObs ob₀.out (canonP (proj ob₀.log)) ob = .ok () := by
  simp only [spec, specClause] at h
  cases hc : convsPresent obs with
  | false => simp [hc] at h
  | true =>
    refine ⟨rfl, ?_⟩
    cases obs with
    | nil => simp [hc] at h
    | cons ob₀ rest =>
      refine ⟨ob₀, rest, rfl, ?_⟩
      simp only [hc] at h
      cases hl : specList ob₀.out (canonP (proj ob₀.log)) (ob₀ :: rest) with
      | error e =>
        rw [hl] at h
        have : e = "ok" := by simpa using h
        exact absurd (this ▸ hl) (specList_ne_ok _ _ _)
      | ok u => exact (specList_ok_iff _ _ _).mp (by cases u; exact hl)

end AsynqModel.Asyncio
