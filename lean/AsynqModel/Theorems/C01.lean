import AsynqModel.Proofs.P4TraceStep
/-!
# C01  Async execution returns exactly what sequential evaluation would   (and its corollary C02)

Theorems about the abstract machine `AsynqModel.Core.step` for every well-scoped list of computations, every
configuration (priorities, `keepDeps`, `maxStack`), every flush oracle `choices` and every number of steps.

Hypotheses (all on the state the theorem talks about; they hold for every earlier state of the run as well, see
`C01_hyps_mono`):
* `s.stuck = none`: the model's own assumptions hold (no re-entrant generator, admissible flush choices, ...);
* `s.guardFired = false`: the MAX_TASK_STACK_SIZE guard has not reset the scheduler (it raises RuntimeError into
  whoever waits, which sequential evaluation does not know about);
* `Inv.noNonAsync s`: no NonAsyncContext was created (its pause()/resume() fail a suspended task depending on the schedule);
* `P4.ReachW cfg tops choices s`: `s` is reachable from `initState cfg tops choices` and every computation in `tops`
  is well scoped (`P4.wsTop`, a decidable predicate): a task refers only to futures it has created or was handed, and
  the run-time-only instruction `syncret` does not occur.  Without it the machine (like Python) would resolve a
  dangling reference to *some* future while `evalBody` reads `Err.other` (see the last example).
-/
namespace AsynqModel.Core
open P4

/-- the hypotheses of the C01 theorems are inherited by the predecessor state (so they hold along the whole run):
    in particular `noNonAsync` of a later state implies it of earlier ones, since `ctxs` only grows and kinds never change -/
theorem C01_hyps_mono (s : State) :
    ((step s).stuck = none → s.stuck = none) ∧ ((step s).guardFired = false → s.guardFired = false) ∧
    (Inv.noNonAsync (step s) = true → Inv.noNonAsync s = true) :=
  ⟨step_stuck s, step_guard s, step_noNonAsync s⟩

/-- a well-scoped run is a run -/
theorem C01_reachW_reach {cfg tops choices} (s : State) (h : ReachW cfg tops choices s) : Reach s := h.reach

/-- **C01 (1)**: every future that is ever computed - by a top-level call, by `.value()` inside a task, by a
    `yield`, in any admissible flush order and under any priorities - holds exactly its sequential outcome `den`. -/
theorem C01_agree_prop {cfg tops choices} (s : State) (h : ReachW cfg tops choices s) (hs : s.stuck = none)
    (hg : s.guardFired = false) (hn : Inv.noNonAsync s = true) :
    ∀ f o, s.out f = some o → o = (s.fut f).den :=
  (good_reach h hs hg hn).fi.agree

/-- the same as the executable invariant `Inv.agree` -/
theorem C01_agree {cfg tops choices} (s : State) (h : ReachW cfg tops choices s) (hs : s.stuck = none)
    (hg : s.guardFired = false) (hn : Inv.noNonAsync s = true) : Inv.agree s = true := by
  have := C01_agree_prop s h hs hg hn
  unfold Inv.agree
  rw [List.all_eq_true]
  intro f _
  cases ho : s.out f with
  | none => rfl
  | some o => simp only [beq_iff_eq]; exact this f o ho

/-- **C01 (2)**: for every task that is not yet computed, evaluating the rest of it sequentially (current body, what
    it has received, the denotations of its futures, the continuations of its open with-blocks) gives its `den`. -/
theorem C01_taskOK_prop {cfg tops choices} (s : State) (h : ReachW cfg tops choices s) (hs : s.stuck = none)
    (hg : s.guardFired = false) (hn : Inv.noNonAsync s = true) :
    ∀ t, (s.fut t).kind = .task → s.out t = none → Inv.taskDen s t = (s.fut t).den :=
  (good_reach h hs hg hn).fi.taskOK

theorem C01_taskOK {cfg tops choices} (s : State) (h : ReachW cfg tops choices s) (hs : s.stuck = none)
    (hg : s.guardFired = false) (hn : Inv.noNonAsync s = true) : Inv.taskOK s = true := by
  have := C01_taskOK_prop s h hs hg hn
  unfold Inv.taskOK
  rw [List.all_eq_true]
  intro t _
  by_cases hk : (s.fut t).kind = .task
  · cases ho : s.out t with
    | none => simp [this t hk ho]
    | some o => simp [State.computed, ho]
  · simp [hk]

/-- **C01 (3)**: every `ret o` event closes the top-level computation announced by the last `top i conv` event
    before it (`P4.results` pairs them up), and `o = evalTop cfg body_i` for the i-th computation given to
    `initState` - for both calling conventions `fn.asynq(..).value()` and `fn(..)`. -/
theorem C01_result {cfg tops choices} (s : State) (h : ReachW cfg tops choices s) (hs : s.stuck = none)
    (hg : s.guardFired = false) (hn : Inv.noNonAsync s = true) :
    ∀ i conv o, (i, conv, o) ∈ results s.trace → ∃ body, tops[i]? = some (conv, body) ∧ o = evalTop cfg body :=
  fun i conv o hm => (good_tr_reach h hs hg hn).2.ti.results (i, conv, o) hm

/-- **C02** (corollary): (a) whatever outcome a future is completed with (`done f o`: in particular an uncaught
    failure `done t (err e)` of a task) is its sequential outcome; (b) what a task receives when it is resumed
    (`run t i dc (out o)`) is the sequential unwrapping of the structure it yielded (`yield t (i-1) ry`), all of
    whose leaves exist. -/
theorem C02_delivery {cfg tops choices} (s : State) (h : ReachW cfg tops choices s) (hs : s.stuck = none)
    (hg : s.guardFired = false) (hn : Inv.noNonAsync s = true) :
    (∀ f o, .done f o ∈ s.trace → (s.fut f).den = o) ∧
    (∀ t i dc o, .run t i dc (.out o) ∈ s.trace →
      ∃ ry, .yield t (i - 1) ry ∈ s.trace ∧ unwrap (denLook s) ry = o.toExcept) := by
  have T := (good_tr_reach h hs hg hn).2.ti
  refine ⟨fun f o hm => (T.doneEv f o hm).2, fun t i dc o hm => ?_⟩
  obtain ⟨ry, a, _, c⟩ := T.runEv t i dc o hm
  exact ⟨ry, a, c⟩

/-- C02, the error case spelled out: the exception thrown into a task at a yield is the `den`-error of the first
    failing future of the yielded structure in structure order (`P4.firstErr`; a non-future gives TypeError). -/
theorem C02_first_error {cfg tops choices} (s : State) (h : ReachW cfg tops choices s) (hs : s.stuck = none)
    (hg : s.guardFired = false) (hn : Inv.noNonAsync s = true) (t i : Nat) (dc : Bool) (e : Err)
    (hm : .run t i dc (.out (.err e)) ∈ s.trace) :
    ∃ ry, .yield t (i - 1) ry ∈ s.trace ∧ firstErr (denLook s) ry = some e ∧
      (e ≠ .typeerr → ∃ pre r post, ry.leaves = pre ++ r :: post ∧ (s.fut r).den = .err e ∧
        ∀ q ∈ pre, ∃ v, (s.fut q).den = .ok v) := by
  obtain ⟨ry, a, c⟩ := (C02_delivery s h hs hg hn).2 t i dc (.err e) hm
  have c' : unwrap (denLook s) ry = .error e := c
  refine ⟨ry, a, (unwrap_error_iff _ _ _).1 c', fun hne => ?_⟩
  obtain ⟨pre, r, post, h1, h2, h3⟩ := unwrap_error_leaf _ _ _ hne c'
  refine ⟨pre, r, post, h1, ?_, fun q hq => ?_⟩
  · rcases h2 with h2 | ⟨h2, _⟩
    · simpa [denLook] using h2
    · simp [denLook] at h2
  · obtain ⟨v, hv⟩ := h3 q hq
    exact ⟨v, by simpa [denLook] using hv⟩

/-- a task's uncaught failure, as assigned: `done t (err e)` in the trace implies `den t = err e` -/
theorem C02_uncaught {cfg tops choices} (s : State) (h : ReachW cfg tops choices s) (hs : s.stuck = none)
    (hg : s.guardFired = false) (hn : Inv.noNonAsync s = true) (t : Nat) (e : Err)
    (hm : .done t (.err e) ∈ s.trace) : (s.fut t).den = .err e :=
  (C02_delivery s h hs hg hn).1 t (.err e) hm

/-! ### non-vacuity

A DAG-shaped program with two batch kinds: items of kinds 1 and 2 (the second one failing with user error 5), a child
task handed both items that creates another kind-1 item and yields a tuple containing the failing item (so the child
fails with that error), and a root that yields a dict of an item and the child, catches the child's error, yields
again and returns through `result()`.  It is run twice (`.value` and `.call`), under two different flush orders. -/

def C01_exChild : Body :=
  .yld (.f (.inh 0)) (.item 1 11 .ok (.yld (.tup [.f (.own 0), .f (.inh 1)]) (.ret 3) .reraise)) .reraise

def C01_exProg : Body :=
  .item 1 10 .ok (.item 2 20 (.err 5) (.spawn C01_exChild [.own 0, .own 1]
    (.yld (.dict [1, 2] [.f (.own 0), .f (.own 2)]) (.ret 7) (.yld (.f (.own 0)) (.res 8) (.raise 1)))))

def C01_exTops : List (Conv × Body) := [(.value, C01_exProg), (.call, C01_exProg)]
def C01_exRun (choices : List (Nat × Nat)) : State := runFuel 300 (initState {} C01_exTops choices)

theorem C01_reachW_runFuel (cfg tops choices) (hw : ∀ p ∈ tops, wsTop p.2 = true) (n : Nat) :
    ReachW cfg tops choices (runFuel n (initState cfg tops choices)) := by
  suffices h : ∀ s, ReachW cfg tops choices s → ReachW cfg tops choices (runFuel n s) from h _ (ReachW.init hw)
  induction n with
  | zero => intro s h; exact h
  | succ n ih =>
    intro s h
    unfold runFuel
    split
    · exact h
    · exact ih _ (ReachW.step h)

/-- the example is well scoped, so its runs satisfy `ReachW` -/
example : ∀ p ∈ C01_exTops, wsTop p.2 = true := by decide
theorem C01_exReach (choices) : ReachW {} C01_exTops choices (C01_exRun choices) :=
  C01_reachW_runFuel {} C01_exTops choices (by decide) 300

/-- the other hypotheses hold of the finished runs, for the default flush order and for one where the scheduler
    flushes kind 2 before the second kind-1 batch -/
example : (C01_exRun []).isDone = true ∧ (C01_exRun []).stuck = none ∧ (C01_exRun []).guardFired = false ∧
    Inv.noNonAsync (C01_exRun []) = true := by decide
example : (C01_exRun [(1, 0), (2, 0)]).isDone = true ∧ (C01_exRun [(1, 0), (2, 0)]).stuck = none ∧
    (C01_exRun [(1, 0), (2, 0)]).guardFired = false ∧ Inv.noNonAsync (C01_exRun [(1, 0), (2, 0)]) = true := by decide

/-- the two runs really flush in different orders ... -/
example : (C01_exRun []).trace.filterMap (fun e => match e with | .flushB k q _ _ _ => some (k, q) | _ => none) =
    [(2, 1), (1, 3), (1, 2), (2, 0), (1, 1), (1, 0)] := by decide
example : (C01_exRun [(1, 0), (2, 0)]).trace.filterMap
    (fun e => match e with | .flushB k q _ _ _ => some (k, q) | _ => none) =
    [(2, 1), (1, 3), (1, 2), (1, 1), (2, 0), (1, 0)] := by decide

/-- ... and both computations, under both orders, return `evalTop` (what `C01_result` says) -/
example : results (C01_exRun []).trace =
    [(1, .call, evalTop {} C01_exProg), (0, .value, evalTop {} C01_exProg)] := by rfl
example : results (C01_exRun [(1, 0), (2, 0)]).trace =
    [(1, .call, evalTop {} C01_exProg), (0, .value, evalTop {} C01_exProg)] := by rfl
example : evalTop {} C01_exProg = .ok (.node 8 [.a 2010]) := by decide

/-- the events C02 talks about occur: the child (future 3) fails with the item's error, which is thrown into the
    root (task 0) at its first resume -/
example : Event.done 3 (.err (.u 5)) ∈ (C01_exRun []).trace ∧
    Event.run 0 1 true (.out (.err (.u 5))) ∈ (C01_exRun []).trace := by decide
/-- every future of the finished run is computed, so `C01_agree` speaks about all of them -/
example : (Inv.ids (C01_exRun [])).all (fun f => (C01_exRun []).computed f) = true ∧ (C01_exRun []).futs.length = 10 := by
  decide
/-- e.g. the root task 0 and the failing child 3 hold their denotations (`rfl`: comparing values by `decide` is slow) -/
example : (C01_exRun []).out 0 = some ((C01_exRun []).fut 0).den ∧
    (C01_exRun []).out 3 = some ((C01_exRun []).fut 3).den ∧ ((C01_exRun []).fut 3).den = .err (.u 5) ∧
    ((C01_exRun []).fut 0).den = evalTop {} C01_exProg := ⟨rfl, rfl, rfl, rfl⟩

/-- the well-scopedness hypothesis cannot be dropped: with a dangling reference (`own 9` in a task that has created
    nothing) the machine hands over future 0 - the result of the *previous* computation - while sequential
    evaluation reads an error; the run is not stuck, yet `agree` fails and the returned value differs -/
def C01_badTops : List (Conv × Body) :=
  [(.value, .ret 1),
   (.value, .spawn (.yld (.f (.inh 0)) (.ret 5) (.ret 6)) [.own 9] (.yld (.f (.own 0)) (.ret 7) (.ret 8)))]
example : (runFuel 300 (initState {} C01_badTops [])).stuck = none ∧
    Inv.agree (runFuel 300 (initState {} C01_badTops [])) = false ∧
    (∃ p ∈ C01_badTops, wsTop p.2 = false) := by decide

/-- hence the statement as originally assigned (all of `Reach`, no scoping hypothesis) is false in the frozen model:
    `theorem C01_agree (s) (h : Reach s) (hs : s.stuck = none) (hg : s.guardFired = false)
       (hn : Inv.noNonAsync s = true) : Inv.agree s = true` -/
theorem C01_agree_needs_scoping :
    ∃ s, Reach s ∧ s.stuck = none ∧ s.guardFired = false ∧ Inv.noNonAsync s = true ∧ Inv.agree s = false :=
  ⟨runFuel 300 (initState {} C01_badTops []), reach_runFuel {} C01_badTops [] 300, by decide⟩

end AsynqModel.Core
