import AsynqModel.Theorems.C12
/-!
# C12b  The C12 observer checks EVERY position of a recorded history

`Spec.C12` (`Dedup.spec`) folds `watchStep` and the table-size clause over a recorded history.  An accepted history -
of any length and origin, also the records of a changed library - is accepted at every position: every record went
through `watchStep` from the watch state built by its predecessors and passed `sizeOk` against the table size shown
by the record before it.  Acceptance is prefix-closed.
-/
namespace AsynqModel.Dedup

/-- the table size shown by the last record of a history (`size` if there is none) -/
def sizeAfter (size : Nat) : List Obs → Nat
  | [] => size
  | ob :: obs => sizeAfter ob.size obs

theorem watchRun_append (fns : List FnDecl) (w : Watch) (size : Nat) (a b : List Obs) :
    watchRun fns w size (a ++ b) = (match watchRun fns w size a with
      | .ok w' => watchRun fns w' (sizeAfter size a) b
      | .error e => .error e) := by
  induction a generalizing w size with
  | nil => simp [watchRun, sizeAfter]
  | cons ob obs ih =>
    simp only [List.cons_append, watchRun, sizeAfter]
    cases watchStep fns w ob with
    | error e => rfl
    | ok w' =>
      simp only
      split
      · exact ih w' ob.size
      · rfl

/-- acceptance is prefix-closed -/
theorem C12_spec_prefix (fns : List FnDecl) (a b : List Obs) (h : spec fns (a ++ b) = true) : spec fns a = true := by
  simp only [spec, watchRun_append] at h ⊢
  cases hw : watchRun fns Watch.init 0 a with
  | ok w => rfl
  | error e => simp [hw] at h

/-- **every record of an accepted history was accepted** by `watchStep` from the watch state of its predecessors and
    passed the table-size clause against the size shown by the record before it -/
theorem C12_spec_every_step (fns : List FnDecl) (pre post : List Obs) (ob : Obs)
    (h : spec fns (pre ++ ob :: post) = true) :
    ∃ w w', watchRun fns Watch.init 0 pre = .ok w ∧ watchStep fns w ob = .ok w' ∧
      sizeOk fns w (sizeAfter 0 pre) ob = true := by
  simp only [spec, watchRun_append] at h
  cases hw : watchRun fns Watch.init 0 pre with
  | error e => simp [hw] at h
  | ok w =>
    simp only [hw, watchRun] at h
    cases hs : watchStep fns w ob with
    | error e => simp [hs] at h
    | ok w' =>
      simp only [hs] at h
      refine ⟨w, w', rfl, hs, ?_⟩
      cases hsz : sizeOk fns w (sizeAfter 0 pre) ob with
      | true => rfl
      | false => simp [hsz] at h

end AsynqModel.Dedup
