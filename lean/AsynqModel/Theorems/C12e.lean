import AsynqModel.Lib.DedupEq
import AsynqModel.Theorems.C12
/-!
# C12, receivers that are `==`-equal without being the same object (audit 3, B6)

The property says "calls with ... different instances never share a task".  The code keys the in-flight table by the
argument OBJECTS compared with `==` (a dict key), the receiver of a method among them, so two distinct instances of a
class with value equality share one entry: OPEN FINDING `dedup/fail:equal-instances@call`.

* `C12_equal_instances_counterexample`: in the model of the code as it is (`stepE`, table keyed up to `==`) the call
  through the second instance is answered with the in-flight task of the first, whose body bound the FIRST instance;
  the observer `spec` rejects the model's own run, under the clause name of the finding.
* `C12_stepE_trivial` / `C12_runE_trivial`: when no two distinct tokens are `==` (`eqvId`), `stepE` IS `step` - all
  theorems of `Theorems/C12.lean` are statements about this case.
* `C12_spec_holds_partial_eq`: C12 as a whole for the model with `==` as an input, under the two hypotheses `histOk`
  (the three key conflations) and `eqvId` (this finding); `C12_equal_instances_counterexample` shows `eqvId` is needed.
* `C12_instances_disjoint_partial`: two receivers that are not `==` never produce the same table key.
-/
namespace AsynqModel.Dedup

theorem canonVal_trivial (e : Eqv) (h : eqvId e = true) (x : Nat) : canonVal e x = x := by
  induction e with
  | nil => rfl
  | cons p r ih =>
    simp only [eqvId, List.all_cons, Bool.and_eq_true, beq_iff_eq] at h
    have ih' := ih (by simpa [eqvId] using h.2)
    obtain ⟨k, v⟩ := p
    simp only [canonVal, alook] at ih' ⊢
    by_cases hk : k = x
    · have hv : k = v := h.1
      simp [hk, ← hv]
    · simp only [hk, if_false]
      exact ih'

theorem canonElem_trivial (e : Eqv) (h : eqvId e = true) (k : KeyElem) : KeyElem.canon e k = k := by
  cases k <;> simp [KeyElem.canon, canonVal_trivial e h]

theorem keyE_trivial (e : Eqv) (h : eqvId e = true) (tup : List KeyElem) (th fn : Nat) :
    keyE e tup th fn = { tup := tup, th := th, fn := fn } := by
  have : tup.map (KeyElem.canon e) = tup := by
    induction tup with
    | nil => rfl
    | cons a r ih => simp [canonElem_trivial e h, ih]
  simp [keyE, this]

/-- when no two distinct tokens are `==`, the model with `==` as an input IS the model of `Lib/Dedup.lean` -/
theorem C12_stepE_trivial (fns : List FnDecl) (e : Eqv) (h : eqvId e = true) (s : St) (op : Op) :
    stepE fns e s op = step fns s op := by
  cases op with
  | call c =>
    simp only [stepE, step]
    cases fns[c.fn]? with
    | none => rfl
    | some d =>
      simp only []
      cases d.sig.key (effArgs d c) c.kw with
      | error _ => rfl
      | ok tup =>
        simp only [keyE_trivial e h]
        cases mget s.table { tup := tup, th := c.th, fn := c.fn } with
        | none => rfl
        | some t => simp only []; cases s.tasks[t]? <;> rfl
  | dirty c =>
    simp only [stepE, step]
    cases fns[c.fn]? with
    | none => rfl
    | some d =>
      simp only []
      cases d.sig.key (effArgs d c) c.kw with
      | error _ => rfl
      | ok tup => simp only [keyE_trivial e h]
  | _ => rfl

theorem C12_runE_trivial (fns : List FnDecl) (e : Eqv) (h : eqvId e = true) (s : St) (ops : List Op) :
    runE fns e s ops = run fns s ops := by
  induction ops generalizing s with
  | nil => rfl
  | cons op ops ih => simp only [runE, run, observeE, observe, C12_stepE_trivial fns e h, ih]

/-- **C12 as a whole for the model with `==` between receivers as an input** (partial): every history on whose calls
    the default key is faithful (`histOk`) in a program where no two distinct instances are `==` (`eqvId`) is accepted
    by the observer.  Neither hypothesis can be dropped: `C12_spec_needs_histOk`, `C12_equal_instances_counterexample`. -/
theorem C12_spec_holds_partial_eq (fns : List FnDecl) (e : Eqv) (ops : List Op)
    (h : histOk fns ops = true) (he : eqvId e = true) :
    spec fns (runE fns e St.init ops) = true := by
  rw [C12_runE_trivial fns e he]
  exact C12_spec_holds_partial fns ops h

/-- a method reached through two instances that are not `==` never produces the same table key (the table key is the
    key tuple up to `==` of its elements) -/
theorem C12_instances_disjoint_partial (e : Eqv) (d : FnDecl) (c1 c2 : Spell) (i j : Nat) (t1 t2 : List KeyElem)
    (hkind : d.kind = .method) (h1 : c1.recv = .inst i) (h2 : c2.recv = .inst j)
    (hi : asPair i = none) (hj : asPair j = none) (hij : canonVal e i ≠ canonVal e j)
    (hk1 : d.sig.key (effArgs d c1) c1.kw = .ok t1) (hk2 : d.sig.key (effArgs d c2) c2.kw = .ok t2) :
    keyE e t1 c1.th c1.fn ≠ keyE e t2 c2.th c2.fn := by
  simp only [effArgs, hkind, h1, h2, Sig.key, getArgsTuple] at hk1 hk2
  split at hk1
  · contradiction
  · split at hk2
    · contradiction
    · injection hk1 with hk1; injection hk2 with hk2
      subst hk1; subst hk2
      intro hk
      simp only [keyE, Key.mk.injEq, List.map_cons, List.cons_append, List.cons.injEq, KeyElem.ofVal, hi, hj,
        KeyElem.canon, KeyElem.v.injEq] at hk
      exact hij hk.1.1

/-! ### the finding in the model -/

/-- `class P: def load(self, k)` deduplicated -/
def eqFns : List FnDecl :=
  [{ kind := .method, sig := { pos := [(0, none), (1, none)], kwonly := [], varargs := false, varkw := false } }]
/-- instance 101 == instance 100 (distinct objects) -/
def eqE : Eqv := [(101, 100)]
def eqA : Spell := { fn := 0, recv := .inst 100, args := [5], kw := [], th := 0 }
def eqB : Spell := { fn := 0, recv := .inst 101, args := [5], kw := [], th := 0 }
/-- `ta = a.load.asynq(5); tb = b.load.asynq(5)`, then the scheduler runs what it was given -/
def eqOps : List Op := [.call eqA, .call eqB, .start 0, .complete 0 (.val 0), .await 0]

/-- **counterexample to "different instances never share a task"**: with instance 101 `==` instance 100, the call
    through 101 is answered with task 0 - the task the call through 100 created (not new) -, one entry is in the table,
    the body that starts bound instance 100, and the observer rejects the model's own run under the clause name of the
    finding; with identity-compared instances the same history is accepted and the second call gets a task of its own. -/
theorem C12_equal_instances_counterexample :
    (runE eqFns eqE St.init eqOps).map (·.res) =
      [.ret 0 true, .ret 0 false, .binding { params := [100, 5], rest := [], extra := [] }, .unit, .got (some (.val 0))] ∧
    (runE eqFns eqE St.init eqOps).map (·.size) = [1, 1, 1, 0, 0] ∧
    histOk eqFns eqOps = true ∧
    spec eqFns (runE eqFns eqE St.init eqOps) = false ∧
    specClauseE eqFns eqE (runE eqFns eqE St.init eqOps) = "equal-instances@call" ∧
    ((runE eqFns [] St.init eqOps).map (·.res)).take 2 = [.ret 0 true, .ret 1 true] := by decide

/-- a dirty() through the equal instance evicts the other instance's in-flight entry: the next call through the
    FIRST instance starts a second execution while the first is in flight -/
theorem C12_equal_instances_dirty_counterexample :
    (runE eqFns eqE St.init [.call eqA, .dirty eqB, .call eqA]).map (·.res) = [.ret 0 true, .unit, .ret 1 true] ∧
    specClauseE eqFns eqE (runE eqFns eqE St.init [.call eqA, .dirty eqB, .call eqA]) = "equal-instances@dirty" := by decide

/-- the renaming does not swallow neighbours: an observation that is wrong for another reason as well (here: the shared
    answer comes with a table that GREW) keeps its own clause name -/
example :
    specClauseE eqFns eqE
      [{ op := .call eqA, res := .ret 0 true, size := 1 }, { op := .call eqB, res := .ret 0 false, size := 2 }] = "fresh@call" := by
  decide

/-- ... as does a wrong observation BEFORE the one that shows the sharing (a well-formed first call that raised) -/
example :
    specClauseE eqFns eqE
      [{ op := .call eqA, res := .typeError, size := 0 }, { op := .call eqB, res := .ret 0 false, size := 1 }] =
      "valid-call-raised@call" := by decide

/-- ... and a program without `==`-equal instances is never given the name -/
example :
    specClauseE eqFns []
      [{ op := .call eqA, res := .ret 0 true, size := 1 }, { op := .call eqB, res := .ret 0 false, size := 1 }] = "fresh@call" := by
  decide

/-! ### never-started tasks (audit 3, E12): the observer accepts the COMPLETION of a task nobody started (completed from
    outside by `set_value` / `set_error`, the round-5 `extdone` family), the next call then runs the body again; it rejects
    a resume / suspend of such a task and a start after the completion -/

example :
    spec cexFns (run cexFns St.init [.call cexCall, .complete 0 (.val 7), .await 0, .call cexCall]) = true ∧
    (run cexFns St.init [.call cexCall, .complete 0 (.val 7), .await 0, .call cexCall]).map (·.res) =
      [.ret 0 true, .unit, .got (some (.val 7)), .ret 1 true] := by decide

example :
    specClause cexFns [{ op := .call cexCall, res := .ret 0 true, size := 1 },
                       { op := .resume 0 false, res := .unit, size := 1 }] = "not-started@resume" ∧
    specClause cexFns [{ op := .call cexCall, res := .ret 0 true, size := 1 },
                       { op := .suspend 0, res := .unit, size := 1 }] = "not-started@suspend" ∧
    specClause cexFns [{ op := .call cexCall, res := .ret 0 true, size := 1 },
                       { op := .complete 0 (.val 7), res := .unit, size := 0 },
                       { op := .start 0, res := .binding { params := [1], rest := [], extra := [] }, size := 0 }] =
      "after-done@start" := by decide

end AsynqModel.Dedup
