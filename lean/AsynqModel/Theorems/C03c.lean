import AsynqModel.Proofs.P6TFinal
/-!
# C03 (continued): start order on the scheduler stack; termination of yield-only programs

1. **Start order.**  `extract_futures` walks tuples and lists backwards; for a dict-free yielded structure it returns
   the leaves in reverse written order, and the first visit of the yielding task pushes its uncomputed dependencies
   reversed again: the futures of a list / tuple yield sit on the scheduler stack in WRITTEN order, the first one on
   top, so the LIFO loop of `_execute` starts them left to right.  (The lift to a statement about `run` events of a
   whole trace is not proved.)

2. **Termination.**  For every configuration, every list of top-level computations that are yield-only
   (`Spec.bodyHasSync = false`), create no NonAsyncContext (`Spec.bodyHasNonAsync = false`) and are well-scoped
   (`P6.wsBody`), and EVERY flush oracle: if the MAX_TASK_STACK_SIZE guard never fires along the run, the run
   finishes (`runFuel n ...` is `isDone` for some `n`; a stuck state - e.g. an oracle choice that is not admissible -
   counts as finished), and if it is not stuck at that point, every task that has started is computed.
   The proof is a lexicographic measure `(M1, M2, phase, Phi, gfl)` (`Proofs/P6TMeasure.lean`, `P6TPhi.lean`,
   `P6TTerm.lean`) that decreases with every step:
   * `M1` remaining program weight: instructions of task bodies and starts of top-level computations,
   * `M2` number of unflushed non-empty batches: scheduler flushes - a flushable batch always exists when the stack
     is back at its base with the root uncomputed (`C03_flush_has_batch`: the scheduler never spins), because the
     root is settled AND every batch it waits for has been scheduled (`P6T.SettledS`),
   * `phase`: `wait_for` head / `_execute` / outside,
   * `Phi`: the potential of a scheduler pass, `Σ` over stack entries of `1`, `B^(rank+1)` (topmost entry of a flagged
     task) or `2·B^(rank+1)` where `rank` counts the predecessors in the post-order of the creation tree (awaited
     tasks have smaller rank: acyclicity) and `B` exceeds twice the number of dependencies of any task,
   * `gfl`: entering a generator frame.
-/
namespace AsynqModel.Core
open AsynqModel.Core.P6 AsynqModel.Core.P6T

/-- 1a. `extract_futures` of a dict-free structure = the leaves in reverse written order. -/
theorem C03_extract_reverse (y : RY) (h : noDict y = true) : extractFutures y = y.leaves.reverse :=
  extract_noDict y h

/-- 1b. First visit of a blocked task (`_handle_async_task`, dependencies not yet scheduled) whose dependencies are
    those of a dict-free yield `y`: the uncomputed futures of `y` are pushed in WRITTEN order, the first on top. -/
theorem C03_order_stack (s : State) (t : Nat) (y : RY) (hn : Inv.noNonAsync s = true) (hnd : noDict y = true)
    (hdeps : (s.task t).deps = extractFutures y)
    (hbl : ((s.task t).deps.any fun d => !s.computed d) = true) (hfl : (s.task t).depsSched = false) :
    (s.handleTask t).stack = (y.leaves.filter fun d => !s.computed d) ++ s.stack := by
  refine order_stack s t y ?_ hnd hdeps hbl hfl
  intro x hx
  have := List.all_eq_true.1 hn x hx
  simpa using this

/-- 1c. The same as a step of the machine: the task on top of the stack of `_execute` is blocked and not yet flagged. -/
theorem C03_order_stack_step (s : State) (root base : Nat) (rest : List Ctl) (t : Nat) (st : List Nat) (y : RY)
    (hs : s.stuck = none) (hr : s.raising = none) (hctl : s.ctl = .waitLoop root base :: rest)
    (hstk : s.stack = t :: st) (hlen : s.stack.length > base) (hmax : s.stack.length ≤ s.cfg.maxStack)
    (hk : (s.fut t).kind = .task) (hc : s.computed t = false)
    (hn : Inv.noNonAsync s = true) (hnd : noDict y = true) (hdeps : (s.task t).deps = extractFutures y)
    (hbl : ((s.task t).deps.any fun d => !s.computed d) = true) (hfl : (s.task t).depsSched = false) :
    (step s).stack = (y.leaves.filter fun d => !s.computed d) ++ t :: st := by
  rw [step_waitLoop_iter s hs hr hctl hlen]
  unfold State.executeIter
  rw [hstk]
  dsimp only
  rw [if_neg (by rw [← hstk]; omega), if_neg (by simp [hc]), hk]
  dsimp only
  rw [C03_order_stack s t y hn hnd hdeps hbl hfl, hstk]

/-- 2a. When `_execute` is back at its base with the root uncomputed, a flushable batch exists: the scheduler never
    selects "no batch" and spins. -/
theorem C03_flush_has_batch (s : State) (h : ReachWS s) (hs : s.stuck = none) (hg : s.guardFired = false)
    (root base : Nat) (rest : List Ctl) (hctl : s.ctl = .waitLoop root base :: rest)
    (hlen : s.stack.length ≤ base) (hroot : s.computed root = false) : s.flushable ≠ [] := by
  obtain ⟨P, hT, _⟩ := invTL_reach s h hs hg
  obtain ⟨_, h2⟩ := core_facts hT.core hT.a.shape
  rw [h2 root base rest hctl] at hlen
  exact flushable_ne_nil hT.b hT.sS root base rest hctl
    (List.eq_nil_of_length_eq_zero (Nat.le_zero.1 hlen)) hroot

/-- 2b. The measure decreases with every step of an unfinished run (the ghost path assignment `P` of the invariant is
    existentially quantified: it changes only when a task is spawned). -/
theorem C03_measure_decreases (s : State) (h : ReachWS s) (hs : s.stuck = none) (hnd : s.isDone = false)
    (hst : (step s).stuck = none) (hg : (step s).guardFired = false) :
    ∃ P P', Lt5 (mu (step s) P') (mu s P) := by
  obtain ⟨P, hT, _⟩ := invTL_reach s h hs (P3.guard_mono s hg)
  obtain ⟨P', _, hP⟩ := invT_step hT hs hst hg
  exact ⟨P, P', mu_step hT hs hnd hst hg hP⟩

/-- 2. TERMINATION.  Every run of yield-only, NonAsyncContext-free, well-scoped top-level computations, with any
    flush oracle, in which the MAX_TASK_STACK_SIZE guard never fires, finishes; if it is not stuck then, every task
    that has started is computed. -/
theorem C03_terminates_yieldonly (cfg : Cfg) (tops : List (Conv × Body)) (choices : List (Nat × Nat))
    (h : ∀ p ∈ tops, Spec.bodyHasSync p.2 = false ∧ Spec.bodyHasNonAsync p.2 = false ∧ wsBody p.2 = true)
    (hg : ∀ n, (runFuel n (initState cfg tops choices)).guardFired = false) :
    ∃ n, (runFuel n (initState cfg tops choices)).isDone = true ∧
      ((runFuel n (initState cfg tops choices)).stuck = none →
        ∀ t, ((runFuel n (initState cfg tops choices)).fut t).kind = .task →
          ((runFuel n (initState cfg tops choices)).task t).started = true →
          (runFuel n (initState cfg tops choices)).computed t = true) := by
  obtain ⟨n, hn⟩ := terminates cfg tops choices h hg
  refine ⟨n, hn, ?_⟩
  intro hs t hk hst
  generalize hr : runFuel n (initState cfg tops choices) = r at hn hs hk hst ⊢
  have hreach : ReachWS r := by rw [← hr]; exact reachWS_runFuel cfg tops choices h n
  obtain ⟨P, hT, hL⟩ := invTL_reach r hreach hs (by rw [← hr]; exact hg n)
  have hctl : r.ctl = [] := by
    simp [State.isDone, hs] at hn
    exact hn.1.1
  cases hc : r.computed t with
  | true => rfl
  | false => exact absurd ⟨hk, hst, out_none_of_uncomputed hc⟩ (no_started_left hT hL hctl t)

/-- 2'. The statement for the silent oracle (`choices = []`: `_select_batch_to_flush` takes the first batch of maximal
    priority, which is always admissible - `C05_flush_not_stuck`). -/
theorem C03_terminates_yieldonly_silent (cfg : Cfg) (tops : List (Conv × Body))
    (h : ∀ p ∈ tops, Spec.bodyHasSync p.2 = false ∧ Spec.bodyHasNonAsync p.2 = false ∧ wsBody p.2 = true)
    (hg : ∀ n, (runFuel n (initState cfg tops [])).guardFired = false) :
    ∃ n, (runFuel n (initState cfg tops [])).isDone = true :=
  (C03_terminates_yieldonly cfg tops [] h hg).imp fun _ hn => hn.1

/-- 2''. It suffices that the guard has not fired at the end of one finished run. -/
theorem C03_guard_never (s : State) (n : Nat) (hd : (runFuel n s).isDone = true)
    (hg : (runFuel n s).guardFired = false) : ∀ k, (runFuel k s).guardFired = false :=
  guard_never s n hd hg

/-! ## non-vacuity -/

/-- the structure `(a, [b, c])` is dict-free: its futures are extracted as `c, b, a` -/
example : noDict (.tup [.f 1, .lst [.f 2, .f 3]]) = true ∧
    extractFutures (.tup [.f 1, .lst [.f 2, .f 3]]) = [3, 2, 1] ∧
    (YS.tup [.f 1, .lst [.f 2, .f 3]] : RY).leaves = [1, 2, 3] := by decide
/-- with a dict the order differs (dict values are walked forwards): the hypothesis `noDict` is needed -/
example : extractFutures (.dict [0, 1] [.f 1, .f 2]) = [1, 2] := by decide

/-- three children yielded in a tuple: at the first visit of the root they are pushed in written order, child 1 on top -/
def C03c_prog : Body :=
  .spawn (.ret 1) [] (.spawn (.ret 2) [] (.spawn (.ret 3) []
    (.yld (.tup [.f (.own 0), .f (.own 1), .f (.own 2)]) (.ret 9) .reraise)))

def C03c_run (n : Nat) : State := runFuel n (initState {} [(.value, C03c_prog)] [])

example : (C03c_run 8).ctl = [.waitLoop 0 0] ∧ (C03c_run 8).stack = [0] ∧ ((C03c_run 8).task 0).deps = [3, 2, 1] ∧
    ((C03c_run 8).task 0).depsSched = false ∧ (C03c_run 9).stack = [1, 2, 3, 0] := by decide
/-- the children start in written order -/
example : ((C03c_run 40).trace.reverse.filterMap fun | .run t 0 _ .start => some t | _ => none) = [0, 1, 2, 3] := by
  decide

/-- a 2-level tree (two children, one batch item each) and a DAG (one item handed to two children) -/
def C03c_leaf (p : Nat) : Body := .item 0 p .ok (.yld (.f (.own 0)) (.ret 1) .reraise)
def C03c_tree : Body :=
  .spawn (C03c_leaf 1) [] (.spawn (C03c_leaf 2) [] (.yld (.tup [.f (.own 0), .f (.own 1)]) (.ret 2) .reraise))
def C03c_dag : Body :=
  .item 0 7 .ok (.spawn (.yld (.f (.inh 0)) (.ret 1) .reraise) [.own 0]
    (.spawn (.yld (.f (.inh 0)) (.ret 2) .reraise) [.own 0]
      (.yld (.lst [.f (.own 1), .f (.own 2), .f (.own 1)]) (.ret 3) .reraise)))
def C03c_tops : List (Conv × Body) := [(.value, C03c_tree), (.call, C03c_dag)]
def C03c_run2 (n : Nat) : State := runFuel n (initState {} C03c_tops [])

/-- the hypotheses of the termination theorem hold: static checks, and the guard has not fired at the end -/
example : ∃ n, (runFuel n (initState {} C03c_tops [])).isDone = true :=
  C03_terminates_yieldonly_silent {} C03c_tops (by decide)
    (C03_guard_never _ 200 (by decide) (by decide))

example : (C03c_run2 200).stuck = none ∧ (C03c_run2 200).isDone = true ∧
    ((List.range (C03c_run2 200).futs.length).all fun t =>
      !((C03c_run2 200).task t).started || (C03c_run2 200).computed t) = true := by decide

/-- the measure components on a concrete run: they decrease from the start to the end; the flush (step 23 -> 24)
    decreases `M2` -/
example : M1 (C03c_run2 0) > M1 (C03c_run2 23) ∧ M1 (C03c_run2 23) ≥ M1 (C03c_run2 24) ∧
    M2 (C03c_run2 23) = 1 ∧ M2 (C03c_run2 24) = 0 ∧ M1 (C03c_run2 200) = 0 := by decide

end AsynqModel.Core
