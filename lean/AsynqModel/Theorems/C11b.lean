import AsynqModel.Theorems.C11
/-!
# C11b  The C11 observer checks EVERY position of a recorded history

`Spec.C11` (`Batching.spec`) folds `specStep` over a recorded history, each record judged against the batch state
shown by the record before it.  An accepted history - of any length and origin, also the records of a changed
library - passed `specStep` at every position; acceptance is prefix-closed; one rejected record rejects the history.
-/
namespace AsynqModel.Batching

/-- the batch state shown by the last record of a history (`pre` if there is none) -/
def stAfter (pre : St) : List Obs → St
  | [] => pre
  | ob :: obs => stAfter ob.post obs

theorem watchRun_append (rx : Bool) (pre : St) (a b : List Obs) :
    watchRun rx pre (a ++ b) = (match watchRun rx pre a with
      | none => watchRun rx (stAfter pre a) b
      | some c => some c) := by
  induction a generalizing pre with
  | nil => simp [watchRun, stAfter]
  | cons ob obs ih =>
    simp only [List.cons_append, watchRun, stAfter]
    cases specStep rx pre ob with
    | some c => rfl
    | none => exact ih ob.post

/-- acceptance is prefix-closed -/
theorem C11_spec_prefix (k : Kind) (keep : Bool) (a b : List Obs) (h : spec k (a ++ b) keep = true) :
    spec k a keep = true := by
  simp only [spec, watchRun_append] at h ⊢
  cases hw : watchRun false (init k keep) a with
  | none => rfl
  | some c => simp [hw] at h

/-- **every record of an accepted history passed `specStep`** against the batch state shown by the record before it -/
theorem C11_spec_every_step (k : Kind) (keep : Bool) (pre post : List Obs) (ob : Obs)
    (h : spec k (pre ++ ob :: post) keep = true) : specStep false (stAfter (init k keep) pre) ob = none := by
  simp only [spec, watchRun_append] at h
  cases hw : watchRun false (init k keep) pre with
  | some c => simp [hw] at h
  | none =>
    simp only [hw, watchRun] at h
    cases hs : specStep false (stAfter (init k keep) pre) ob with
    | none => rfl
    | some c => simp [hs] at h

/-- one rejected record, anywhere, rejects the whole history -/
theorem C11_spec_rejects (k : Kind) (keep : Bool) (pre post : List Obs) (ob : Obs) (c : String)
    (hs : specStep false (stAfter (init k keep) pre) ob = some c) : spec k (pre ++ ob :: post) keep = false := by
  cases h : spec k (pre ++ ob :: post) keep with
  | false => rfl
  | true => rw [C11_spec_every_step k keep pre post ob h] at hs; cases hs

/-- non-vacuity: the hypothesis of `C11_spec_every_step` is met by EVERY history of the model, at every position -/
theorem C11_model_every_step (k : Kind) (keep : Bool) (scripts : List Script) (ops : List Op)
    (pre post : List Obs) (ob : Obs) (hsplit : run scripts (init k keep) ops = pre ++ ob :: post) :
    specStep false (stAfter (init k keep) pre) ob = none :=
  C11_spec_every_step k keep pre post ob (hsplit ▸ C11_spec_holds k keep scripts ops)

end AsynqModel.Batching
