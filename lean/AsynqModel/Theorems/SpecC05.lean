import AsynqModel.Proofs.P13Main
/-!
# The executable observer of C05 accepts every trace of the machine

`Spec.checkC05` (`Core/Spec.lean`) is the observer the checks run on the trace of the REAL scheduler; the driver also
runs it on the trace of the model (`SPECM`) - so far an empirical fact.  Here it is a theorem: on the trace of EVERY
reachable state of the machine - any configuration, any top-level computations (with synchronous calls, contexts,
NonAsyncContexts, shared futures, ill-scoped references), any flush oracle, stuck or not, guard fired or not - the
observer raises no clause:

* `flushB` / `flushE` are paired, nothing but the flush body in between ("flush-events-not-paired"),
* no batch is flushed twice, by the scheduler or by `item.value()` ("batch-flushed-twice", "flush-body-ran-twice"),
* no empty batch is flushed ("empty-batch-flushed"),
* no scheduler flush after the computation it works for has completed - the observer's target is the awaited future
  of the innermost open synchronous call, or the root task of the top-level call ("flush-after-computation-complete"),
* the flushed batch has maximal priority among the pending ones listed in the event - the observer applies this
  clause to yield-only programs only (`ctx.hasSync = false`); the machine satisfies it for all ("not-highest-priority"),
* the flush body runs once, with the items announced ("flush-items-changed", "flush-body-did-not-run"),
* every future is completed at most once ("completed-twice"),
* a batch item is completed only inside the flush body of its own batch, with the answer `itemOutcome` gives
  ("item-completed-outside-its-flush", "item-answer-differs-from-what-flush-set"),
* no item is left pending when the batch completes ("item-left-pending", "batch-done-outside-its-flush"),
* `flushE` comes after the body and the completion of the batch ("batch-not-completed-by-flush"),
* no top-level call returns inside a flush, and no event outside the vocabulary occurs ("unknown-event").

The only hypothesis: the observer is given the machine's configuration (`ctx.cfg = s.cfg`; it uses `cfg.kinds` for
`itemOutcome`).  `Spec.mkCtx cfg tops` has it.

Proof (`Proofs/P13*.lean`): the observer state after the whole trace is a function of the machine state
(`P13.obs s.trace`); `P13.Inv13` relates the two: `isDone` = `computed`; item kinds; flushed batches; no flush open at
a step boundary (a flush is one atomic step); the observer's stack of open synchronous calls = the `wait_for` frames
that sit on a generator frame (+ the running generator between `syncE` and `syncX`); its top root = `curTop`.  It holds
initially and is preserved by every case of `step`.
-/
namespace AsynqModel.Core
open AsynqModel.Core.P13

/-- The observer of C05 raises no clause on the trace of any reachable state, for any observer context that carries
    the machine's configuration. -/
theorem Spec_C05_accepts_reach (s : State) (h : Reach s) (ctx : Spec.Ctx) (hc : ctx.cfg = s.cfg) :
    Spec.spec "C05" ctx s.trace.reverse = none :=
  (specRun_none_iff Spec.checkC05 ctx s.trace).2 (inv13_of_reach h ctx hc).li.acc

/-- As assigned: for every state `s` of every run of the program `initState cfg tops choices`, with the context the
    checks build from the program (`Spec.mkCtx cfg tops`). -/
theorem Spec_C05_accepts (cfg : Cfg) (tops : List (Conv × Body)) (choices : List (Nat × Nat)) (s : State)
    (h : ReachFrom (initState cfg tops choices) s) :
    Spec.spec "C05" (Spec.mkCtx cfg tops) s.trace.reverse = none :=
  (specRun_none_iff Spec.checkC05 _ s.trace).2 (h.inv (Spec.mkCtx cfg tops) rfl).li.acc

/-- ... in particular after any number of steps -/
theorem Spec_C05_accepts_run (cfg : Cfg) (tops : List (Conv × Body)) (choices : List (Nat × Nat)) (n : Nat) :
    Spec.spec "C05" (Spec.mkCtx cfg tops) (runFuel n (initState cfg tops choices)).trace.reverse = none :=
  Spec_C05_accepts cfg tops choices _ (reachFrom_runFuel _ n)

/-- What the proof maintains besides acceptance (the simulation relation, for every reachable state): the observer's
    `isDone` is the machine's `computed`; no flush is open at a step boundary; every batch whose flush body the
    observer has seen is flushed in the machine; the observer's top root is the root of the running top-level call. -/
theorem Spec_C05_relation (s : State) (h : Reach s) :
    (∀ f, (obs s.trace).isDone f = s.computed f) ∧ (obs s.trace).inFlush = none ∧ (obs s.trace).curBody = none ∧
    (∀ k q, (k, q) ∈ (obs s.trace).flushedB → ∃ b, s.batch? k q = some b ∧ b.flushed = true) ∧
    (∀ r, s.curTop = some r → (obs s.trace).topRoot = some r) ∧
    (∀ root base rest, s.ctl = .waitLoop root base :: rest →
      (∃ t rest', (obs s.trace).syncStack = (t, root) :: rest') ∨
        ((obs s.trace).syncStack = [] ∧ (obs s.trace).topRoot = some root)) := by
  have hi := inv13_of_reach h { (default : Spec.Ctx) with cfg := s.cfg } rfl
  exact ⟨hi.li.base.outs, hi.li.inf, hi.li.cb, hi.li.fb, hi.sr.top,
    fun root base rest hctl => hi.sr.target hctl rfl⟩

/-- the observer state after the trace is what `specRun` has when it reaches the end -/
theorem Spec_C05_obs (tr : List Event) : obs tr = tr.reverse.foldl Spec.watchEvent {} := obs_eq tr

/-! ## non-vacuity -/

example : Spec.checkOf "C05" = Spec.checkC05 := rfl

/-- the observer does reject hand-made bad traces -/
example : Spec.spec "C05" (Spec.mkCtx {} []) [.flushE 0 0] = some (0, "flush-events-not-paired") := by decide
example : Spec.spec "C05" (Spec.mkCtx {} []) [.top 0 .value, .new 0 (.task none), .flushB 0 0 [] (0, 0) []] =
    some (2, "empty-batch-flushed") := by decide
example : Spec.spec "C05" (Spec.mkCtx {} []) [.flushI 0 0 [1], .flushI 0 0 [1]] =
    some (1, "flush-body-ran-twice") := by decide
example : Spec.spec "C05" (Spec.mkCtx {} []) [.new 0 (.item 0 0 0 7 .ok), .done 0 (.ok (itemVal 0 7))] =
    some (1, "item-completed-outside-its-flush") := by decide
example : Spec.spec "C05" (Spec.mkCtx {} []) [.new 0 (.item 0 0 0 7 .ok), .flushI 0 0 [0], .bdone 0 0 true] =
    some (2, "item-left-pending") := by decide
example : Spec.spec "C05" (Spec.mkCtx {} [])
    [.top 0 .value, .new 0 (.task none), .new 1 (.item 0 0 0 7 .ok), .done 0 (.ok .none), .flushB 0 0 [1] (0, 1) []] =
    some (4, "flush-after-computation-complete") := by decide
example : Spec.spec "C05" (Spec.mkCtx {} [])
    [.top 0 .value, .new 0 (.task none), .new 1 (.item 0 0 0 7 .ok),
     .flushB 0 0 [1] (0, 1) [{ kind := 1, seq := 0, n := 1, flushed := false, prio := (5, 0) }]] =
    some (3, "not-highest-priority") := by decide

/-- a concrete run (`Proofs/P1Block.lean`): two batches, the high-priority one with a raising flush body and an
    `unset` item; the run is complete, and its trace contains every kind of event the observer checks -/
example : (runFuel 100 P1.demoInit).isDone = true ∧ (runFuel 100 P1.demoInit).stuck = none ∧
    ((runFuel 100 P1.demoInit).trace.reverse.filterMap fun e => match e with
      | .flushB k q its _ _ => some (0, k, q, its.length)
      | .flushI k q its => some (1, k, q, its.length)
      | .bdone k q ok => some (2, k, q, if ok then 1 else 0)
      | .flushE k q => some (3, k, q, 0)
      | .done f _ => some (4, f, 0, 0)
      | .ret _ => some (5, 0, 0, 0)
      | _ => none) =
    [(0, 1, 0, 1), (1, 1, 0, 1), (4, 2, 0, 0), (2, 1, 0, 0), (3, 1, 0, 0),
     (0, 0, 0, 1), (1, 0, 0, 1), (4, 1, 0, 0), (2, 0, 0, 1), (3, 0, 0, 0), (4, 0, 0, 0), (5, 0, 0, 0)] := by decide

/-- the observer accepts it: by the theorem ... -/
example : Spec.spec "C05" (Spec.mkCtx P1.demoCfg [(.value, P1.demoBody)]) (runFuel 100 P1.demoInit).trace.reverse = none :=
  Spec_C05_accepts_run P1.demoCfg [(.value, P1.demoBody)] [] 100

/-- ... and by evaluation -/
example : Spec.spec "C05" (Spec.mkCtx P1.demoCfg [(.value, P1.demoBody)]) (runFuel 100 P1.demoInit).trace.reverse = none := by
  decide +kernel

/-- with the wrong configuration (the observer does not know that kind 1 raises) it objects: the hypothesis
    `ctx.cfg = s.cfg` is needed -/
example : Spec.spec "C05" (Spec.mkCtx {} [(.value, P1.demoBody)]) (runFuel 100 P1.demoInit).trace.reverse =
    some (8, "item-answer-differs-from-what-flush-set") := by decide +kernel

/-- a flush by `item.value()` inside a synchronous call (`P1.demoSync`): no scheduler bracket, accepted -/
example : Spec.spec "C05" (Spec.mkCtx {} [(.value, .item 0 1 .ok (.syncfut (.own 0) (.ret 1) (.raise 2)))])
    (runFuel 100 P1.demoSync).trace.reverse = none ∧
    Event.flushI 0 0 [1] ∈ (runFuel 100 P1.demoSync).trace ∧ Event.syncE 0 1 ∈ (runFuel 100 P1.demoSync).trace := by
  decide +kernel

/-- a nested synchronous call whose child awaits a batch item: the scheduler flush happens inside the nested
    `wait_for`, the observer's target is the child (future 1), not the root -/
def SpecC05_nested : State :=
  runFuel 200 (initState {} [(.value, .sync (.item 0 5 .ok (.yld (.f (.own 0)) (.ret 1) (.ret 2))) [] (.ret 3) (.ret 4))] [])

example : SpecC05_nested.isDone = true ∧ SpecC05_nested.stuck = none ∧
    Event.syncE 0 1 ∈ SpecC05_nested.trace ∧ Event.flushE 0 0 ∈ SpecC05_nested.trace ∧
    Spec.spec "C05" (Spec.mkCtx {} []) SpecC05_nested.trace.reverse = none := by decide +kernel

end AsynqModel.Core
