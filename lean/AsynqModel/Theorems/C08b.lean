import AsynqModel.Proofs.P23Fresh
import AsynqModel.Proofs.P23Sim
import AsynqModel.Theorems.SpecC08
import AsynqModel.Theorems.C03d
/-!
# C08 (continued): no pending batch is left scheduled when an outermost call returns; the scheduler part of the
# state at a top-level boundary is that of a fresh scheduler

Runs considered (`P23.ReachWN s`): any configuration, any flush oracle, any number of steps, every top-level
computation well-scoped (`P10.WellScoped`, harness/coregen.py `well_scoped`) and free of NonAsyncContext (static check
`Spec.bodyHasNonAsync`); `s.guardFired = false`: the MAX_TASK_STACK_SIZE guard has not fired so far.

(a) `C08_no_stale_batch`: whenever the Python stack is empty (`ctl = []`: an outermost call is about to return or has
returned) no scheduled batch is pending: `s.flushable = []` (scheduled, non-empty, unflushed = what
`_select_batch_to_flush` would keep), indeed every scheduled batch is flushed; hence every scheduler snapshot in the
trace reports `live = 0` (`P13.liveOK`), and the full observer of C08 accepts the trace with NO hypothesis on the
snapshots (`Spec_C08_accepts_nonasync_free`).  Why: a batch is scheduled only when `_execute` meets one of its
uncomputed items on the task stack; every uncomputed stack entry is the root of a `wait_for` in progress or awaited
by an uncompleted task (`P20.InvL`); an uncompleted task that awaits something has started; when no `wait_for` is in
progress no started task is uncompleted (`P20.no_started_left`); and an item is computed only by the flush body of
its own batch (`P23.K`).
NonAsyncContext-freedom is NEEDED (`SpecC08_nonasync`, Theorems/SpecC08.lean: the root is failed while suspended, its
batch stays scheduled).  `WellScoped` and `guardFired = false` are inherited from the invariants reused (`P20.Good`);
no counterexample is known for them (exhaustive search over 42 771 small programs with dangling references and
MAX_TASK_STACK_SIZE = 1, 2, 3: none).

(b) `C08_fresh_state`: at such a boundary the scheduler part of the state - task stack, active task, Python stack,
propagating exception, scheduled batches with pending items, resumed contexts, overridden scoped values
(`P23.schedPart`) - EQUALS that of an initial state; every scheduled batch is flushed, every started task is computed.
What is left of the earlier computations (the residue; none of it is scheduler state):
  1. the append-only future store `futs` (every started task computed; unstarted tasks, uncomputed lazy futures and
     the items of 3. may remain, named by no live reference), and the id counters `futs.length`, `ctxs.length`, `topIdx`;
  2. dead entries of `sbatches`: batches that were scheduled and then flushed by `item.value()` - the real
     `_batches` set keeps them too until the next `_select_batch_to_flush`; they are invisible except in the `nbatches`
     count of the snapshot (`C08b_dead_entry`);
  3. the batch table: flushed batches, and per kind the current batch, which is the ONLY unflushed batch of its kind
     (`C08_unflushed_is_current`).  It is non-empty exactly when an uncomputed batch item exists
     (`C08_leftover_iff`), i.e. when an earlier computation created a batch item that nothing it waited for awaited
     (its batch was never scheduled-and-flushed, nor flushed by `item.value()`); all items of such a batch are
     uncomputed.  That batch IS the current batch of the next computation: its next flush lists the old items too and
     its priority counts them (`C08b_leftover`), so the next computation is NOT a renaming of a fresh run then;
  4. `sv`: the scoped variables touched so far, all at their default 0 (reported as zeros in later `svals` events);
     `ctxs`: exited context objects, none resumed; the trace; the consumed part of the oracle.

`C08_fresh_equiv`: continuing from the boundary with the old scheduler and with a NEW scheduler object
(`C08b_resetSched`: empty task stack, empty `_batches`, no active task; everything else kept) gives, after any number of
steps, the same state except for dead entries of `sbatches` and the same trace except for the `nbatches` count of
the snapshots - residue 2 is invisible (`C08_dead_entries_invisible`, which holds for ANY state).

NOT PROVED: the comparison with a completely fresh PROCESS (`initState` with the remaining computations) "up to the
renaming of future ids by the offset".  As stated it is false: besides the future ids the run from the boundary
differs from the fresh run in context ids (offset `ctxs.length`), `topIdx`, the sequence numbers of the batches of
every kind used before (per-kind offsets; the oracle's choices name them), the extra zero entries of `svals`, the
`nbatches` counts, and - when residue 3 is non-empty - in item lists and priorities of flushes (`C08b_leftover`).
A true version needs all these renamings plus the hypothesis that no unflushed batch has items at the boundary; its
proof is a simulation through every helper of `step` with shifted arguments (not attempted here).  What the results
of the next computation are is already fixed by C01 (`C01_result`: every top-level call returns the outcome of
sequential evaluation, whatever ran before).  Well-scopedness matters for freshness: `C08b_dangling`.
-/
namespace AsynqModel.Core
open AsynqModel.Core.P23

/-- (a) STATE LEVEL.  In a run of well-scoped computations without NonAsyncContext whose guard has not fired, when
    the Python stack is empty no scheduled batch is pending, and every scheduled batch has been flushed. -/
theorem C08_no_stale_batch (s : State) (h : ReachWN s) (hs : s.stuck = none) (hg : s.guardFired = false)
    (hctl : s.ctl = []) :
    s.flushable = [] ∧ (∀ k q, (k, q) ∈ s.sbatches → ∃ b, s.batch? k q = some b ∧ b.flushed = true) :=
  ⟨no_stale ((goodS_reach h hg).1 hs) hctl, scheduled_flushed ((goodS_reach h hg).1 hs) hctl⟩

/-- (a) TRACE LEVEL.  Every scheduler snapshot in the trace (emitted when an outermost call returns) reports no
    scheduled, non-empty, unflushed batch - also in a stuck state (it keeps the trace of the last step). -/
theorem C08_no_stale_batch_trace (s : State) (h : ReachWN s) (hg : s.guardFired = false) :
    P13.liveOK s.trace = true :=
  (goodS_reach h hg).2

/-- (a) THE OBSERVER.  `Spec.checkC08` - every clause, "scheduler-retains-pending-batch" included - raises nothing
    on the trace of such a run: `Spec_C08_accepts` without its hypothesis `liveOK s.trace`. -/
theorem Spec_C08_accepts_nonasync_free (s : State) (h : ReachWN s) (hg : s.guardFired = false) (ctx : Spec.Ctx) :
    Spec.specRun Spec.checkC08 ctx {} 0 s.trace.reverse = none :=
  Spec_C08_accepts s h.reach hg (C08_no_stale_batch_trace s h hg) ctx

/-- the same through `Spec.spec`, with hypotheses on the program only -/
theorem Spec_C08_accepts_nonasync_free_run (cfg : Cfg) (tops : List (Conv × Body)) (choices : List (Nat × Nat))
    (h : ∀ p ∈ tops, Spec.bodyHasNonAsync p.2 = false ∧ P10.WellScoped p.2 0 0 = true) (n : Nat)
    (hg : (runFuel n (initState cfg tops choices)).guardFired = false) :
    Spec.spec "C08" (Spec.mkCtx cfg tops) (runFuel n (initState cfg tops choices)).trace.reverse = none :=
  Spec_C08_accepts_nonasync_free _ (reachWN_runFuel cfg tops choices h n) hg _

/-- (b) THE SCHEDULER PART AT A BOUNDARY IS THAT OF A FRESH SCHEDULER: task stack, active task, Python stack,
    propagating exception, pending scheduled batches, resumed contexts and overridden scoped values equal those of an
    initial state (of ANY program); every scheduled batch is flushed, every scoped value is 0, every started task is
    computed. -/
theorem C08_fresh_state (s : State) (h : ReachWN s) (hs : s.stuck = none) (hg : s.guardFired = false)
    (hctl : s.ctl = []) (cfg : Cfg) (tops : List (Conv × Body)) (choices : List (Nat × Nat)) :
    schedPart s = schedPart (initState cfg tops choices) ∧
    (∀ k q, (k, q) ∈ s.sbatches → ∃ b, s.batch? k q = some b ∧ b.flushed = true) ∧
    (∀ v, s.svGet v = 0) ∧
    (∀ t, (s.task t).started = true → s.computed t = true) := by
  obtain ⟨h1, h2, h3, h4⟩ := boundary h hg hs hctl
  exact ⟨by rw [h1, schedPart_init], h2, h3, h4⟩

/-- (b) residue 3: in every state of such a run a batch that is not flushed is the current batch of its kind (it
    carries the current sequence number, and batch keys are distinct: `C05_batches_distinct`). -/
theorem C08_unflushed_is_current (s : State) (h : ReachWN s) (hs : s.stuck = none) (hg : s.guardFired = false) :
    ∀ b ∈ s.batches, b.flushed = false → s.curBatch? b.kind = some b := by
  intro b hb hfl
  obtain ⟨cur, hcur, hseq⟩ := (goodU_reach h hg hs).uc b hb hfl
  have hc : s.curBatch? b.kind = some cur := hcur
  obtain ⟨hcm, hck⟩ := P6.curBatchL_mem hcur
  have hl := P1.bseq_lookup (P1.bseq_reach s h.reach)
  have e1 := hl b hb
  have e2 := hl cur hcm
  rw [hck, ← hseq, e1] at e2
  rw [hc]
  exact e2.symm

/-- (b) residue 3: a leftover batch - unflushed with items - exists exactly when an uncomputed batch item exists, and
    all items of an unflushed batch are uncomputed (so at a boundary: exactly when an earlier computation created an
    item that was never flushed). -/
theorem C08_leftover_iff (s : State) (h : ReachWN s) (hs : s.stuck = none) (hg : s.guardFired = false) :
    ((∃ b ∈ s.batches, b.flushed = false ∧ b.items ≠ []) ↔
      ∃ i k q p m, (s.fut i).kind = .item k q p m ∧ s.out i = none) ∧
    (∀ b ∈ s.batches, b.flushed = false → ∀ i ∈ b.items, s.computed i = false) :=
  leftover_iff ((goodS_reach h hg).1 hs)

/-! ### the next computation behaves as on a fresh scheduler object -/

/-- a new scheduler object put in place of the old one: no task on the stack, no scheduled batch, no active task;
    everything that is not scheduler state (the future store, the batch table, contexts, scoped values, counters, the
    trace, the remaining computations) is kept -/
def C08b_resetSched (s : State) : State := { s with stack := [], sbatches := [], active := none }

/-- DEAD ENTRIES ARE INVISIBLE (any state, no hypothesis).  If `x` and `s.sbatches` contain the same unflushed batches
    in the same order, the run from `s` and the run from `s` with `sbatches := x` agree, after any number of steps, on
    every field except `sbatches` and the `nbatches` counts recorded in the trace (`P23.Q []` erases both), and on the
    list of pending scheduled batches. -/
theorem C08_dead_entries_invisible (s : State) (x : List (Nat × Nat))
    (hx : x.filter (Ulive s) = s.sbatches.filter (Ulive s)) (n : Nat) :
    Q [] (runFuel n { s with sbatches := x }) = Q [] (runFuel n s) ∧
    (runFuel n { s with sbatches := x }).flushable = (runFuel n s).flushable := by
  have r : Rel s { s with sbatches := x } := ⟨rfl, hx⟩
  have := rel_runFuel r n
  exact ⟨this.q.symm, this.flushable⟩

/-- (b) C08_fresh_equiv, for the scheduler object.  At a top-level boundary of a run of well-scoped computations
    without NonAsyncContext (guard not fired), continuing with the old scheduler and continuing with a NEW scheduler
    object (`C08b_resetSched`) are indistinguishable: after any number `n` of further steps the two states have the same
    future store, batch table, control stack, task stack, active task, contexts, scoped values, pending batches,
    remaining computations, oracle, `stuck`, `guardFired`, and the same trace up to the `nbatches` count of the
    snapshots; they differ at most in dead (flushed) entries of `sbatches`. -/
theorem C08_fresh_equiv (s : State) (h : ReachWN s) (hs : s.stuck = none) (hg : s.guardFired = false)
    (hctl : s.ctl = []) (n : Nat) :
    Q [] (runFuel n (C08b_resetSched s)) = Q [] (runFuel n s) ∧
    (runFuel n (C08b_resetSched s)).trace.map nb0 = (runFuel n s).trace.map nb0 ∧
    (runFuel n (C08b_resetSched s)).futs = (runFuel n s).futs ∧
    (runFuel n (C08b_resetSched s)).batches = (runFuel n s).batches ∧
    (runFuel n (C08b_resetSched s)).flushable = (runFuel n s).flushable ∧
    (runFuel n (C08b_resetSched s)).isDone = (runFuel n s).isDone := by
  obtain ⟨h1, h2, _, _⟩ := boundary h hg hs hctl
  have hst : s.stack = [] := congrArg SchedPart.stack h1
  have hac : s.active = none := congrArg SchedPart.active h1
  have hr : C08b_resetSched s = { s with sbatches := [] } := by
    unfold C08b_resetSched
    rw [hst, hac]
  have hx : ([] : List (Nat × Nat)).filter (Ulive s) = s.sbatches.filter (Ulive s) := by
    show [] = s.sbatches.filter (Ulive s)
    symm
    rw [List.filter_eq_nil_iff]
    intro c hc
    obtain ⟨b, hb, hf⟩ := h2 c.1 c.2 hc
    unfold Ulive
    rw [hb]
    simp [hf]
  rw [hr]
  have r : Rel s { s with sbatches := [] } := ⟨rfl, hx⟩
  have rn := rel_runFuel r n
  refine ⟨rn.q.symm, q_trace rn.q, q_futs rn.q, q_batches rn.q, rn.flushable, ?_⟩
  unfold State.isDone
  rw [q_stuck rn.q, q_ctl rn.q, q_curTop rn.q, q_tops rn.q]

/-! ## non-vacuity -/

/-- the run of `Theorems/C03d.lean`: two top-level computations with nested synchronous calls, shared batch items
    and `item.value()`; the hypotheses hold, both snapshots are clean -/
example : ∀ p ∈ C03d_tops, Spec.bodyHasNonAsync p.2 = false ∧ P10.WellScoped p.2 0 0 = true := by decide

example : (C03d_run 200).isDone = true ∧ (C03d_run 200).stuck = none ∧ (C03d_run 200).guardFired = false ∧
    (C03d_run 200).ctl = [] ∧
    ((C03d_run 200).trace.filter fun e => e == Event.sched true 0 0 0 none).length = 2 := by decide

example : Spec.spec "C08" (Spec.mkCtx {} C03d_tops) (C03d_run 200).trace.reverse = none :=
  Spec_C08_accepts_nonasync_free_run {} C03d_tops [] (by decide) 200 (by decide)

example : (C03d_run 200).flushable = [] :=
  (C08_no_stale_batch _ (reachWN_runFuel {} C03d_tops [] (by decide) 200) (by decide) (by decide) (by decide)).1

/-- the first boundary of that run (the first call has returned, the second has not started): the scheduler part is
    fresh while 6 futures, 2 batches of kind 0 and the trace remain -/
example : (C03d_run 50).ctl = [] ∧ (C03d_run 50).curTop = none ∧ (C03d_run 50).tops.length = 1 ∧
    schedPart (C03d_run 50) = schedPart (initState {} [] []) ∧ (C03d_run 50).futs.length = 6 ∧
    (C03d_run 50).batches.length = 2 := by decide

/-- NonAsyncContext-freedom is needed: `SpecC08_nonasync` (Theorems/SpecC08.lean) is a reachable, non-stuck state with
    `ctl = []`, guard not fired, whose batch `(0, 0)` is still scheduled and pending -/
example : SpecC08_nonasync.ctl = [] ∧ SpecC08_nonasync.stuck = none ∧ SpecC08_nonasync.guardFired = false ∧
    SpecC08_nonasync.flushable = [(0, 0)] ∧ P13.liveOK SpecC08_nonasync.trace = false := by decide

/-- residue 3 does occur.  The first computation creates an item nobody awaits; the second creates an item of the same
    kind and awaits it: the batch flushed for the second computation lists BOTH items and has priority `(0, 2)`,
    while the same computation on a fresh scheduler flushes one item with priority `(0, 1)` - not a renaming. -/
def C08b_first : Body := .item 0 1 .ok (.ret 1)
def C08b_second : Body := .item 0 2 .ok (.yld (.f (.own 0)) (.ret 2) .reraise)
def C08b_leftover : State := runFuel 200 (initState {} [(.value, C08b_first), (.value, C08b_second)] [])
def C08b_alone : State := runFuel 200 (initState {} [(.value, C08b_second)] [])

example : (∀ p ∈ [(Conv.value, C08b_first), (Conv.value, C08b_second)],
      Spec.bodyHasNonAsync p.2 = false ∧ P10.WellScoped p.2 0 0 = true) ∧
    C08b_leftover.isDone = true ∧ C08b_leftover.stuck = none ∧ C08b_leftover.guardFired = false ∧
    Event.flushB 0 0 [1, 3] (0, 2) [] ∈ C08b_leftover.trace ∧
    Event.flushB 0 0 [1] (0, 1) [] ∈ C08b_alone.trace := by decide +kernel

/-- at the boundary between the two computations: the leftover batch is the current batch of kind 0, it is not
    scheduled, its item is uncomputed (`C08_leftover_iff`), and the scheduler part is fresh -/
example : let s := runFuel 9 (initState {} [(.value, C08b_first), (.value, C08b_second)] [])
    s.ctl = [] ∧ s.curTop = none ∧ s.tops.length = 1 ∧ s.sbatches = [] ∧
    s.batches = [{ kind := 0, seq := 0, items := [1] }] ∧ s.computed 1 = false ∧
    schedPart s = schedPart (initState {} [] []) := by decide

/-- residue 2 does occur: batch `(0, 0)` is scheduled for task 2, then flushed by `item.value()` in task 3; task 2 is
    on the stack a second time and completes without another scheduler flush, so the dead entry survives the return:
    both snapshots report `nbatches = 1`, `live = 0` -/
def C08b_dead : Body :=
  .item 0 1 .ok (.spawn (.yld (.f (.inh 0)) (.ret 5) .reraise) [.own 0]
    (.spawn (.syncfut (.inh 0) (.ret 6) .reraise) [.own 0]
      (.yld (.lst [.f (.own 1), .f (.own 2), .f (.own 1)]) (.ret 1) .reraise)))
def C08b_dead_entry : State := runFuel 300 (initState {} [(.value, C08b_dead), (.value, .ret 0)] [])

example : Spec.bodyHasNonAsync C08b_dead = false ∧ P10.WellScoped C08b_dead 0 0 = true ∧
    C08b_dead_entry.isDone = true ∧ C08b_dead_entry.stuck = none ∧ C08b_dead_entry.sbatches = [(0, 0)] ∧
    C08b_dead_entry.flushable = [] ∧
    (C08b_dead_entry.trace.filter fun e => e == Event.sched true 0 1 0 none).length = 2 := by decide

/-- `C08_fresh_equiv` on that run: at the first boundary (step 31: the first call has returned) the old scheduler
    still holds the dead entry; with a new scheduler object the second computation produces the same trace except
    for `nbatches = 0` in its snapshot -/
example : let s := runFuel 31 (initState {} [(.value, C08b_dead), (.value, .ret 0)] [])
    s.ctl = [] ∧ s.curTop = none ∧ s.tops.length = 1 ∧ s.sbatches = [(0, 0)] ∧
    Event.sched true 0 1 0 none ∈ (runFuel 100 s).trace ∧
    Event.sched true 0 0 0 none ∈ (runFuel 100 (C08b_resetSched s)).trace ∧
    (runFuel 100 (C08b_resetSched s)).trace.map nb0 = (runFuel 100 s).trace.map nb0 := by decide +kernel

/-- well-scopedness matters for (b): in the model a dangling reference resolves to future 0.  After a first
    computation future 0 is that computation's (computed) root, so the ill-scoped second computation receives its value;
    on a fresh scheduler future 0 is the task itself, which then awaits itself and never returns. -/
def C08b_dangling : Body := .yld (.f (.own 0)) (.ret 2) .reraise

example : P10.WellScoped C08b_dangling 0 0 = false ∧
    Event.ret (.ok (.node 2 [.node 7 []])) ∈
      (runFuel 100 (initState {} [(.value, .ret 7), (.value, C08b_dangling)] [])).trace ∧
    (runFuel 300 (initState {} [(.value, C08b_dangling)] [])).isDone = false := by decide +kernel

/-- (c) the `same` field of the snapshot is the literal `true` in `finishTop`: the model has one scheduler object, so
    the observer clause "scheduler-replaced" can only fire on the implementation side (`C08_clean_always`) -/
example (s : State) (f : Nat) : ∃ n nb live a rest, (s.finishTop f).trace = .svals rest :: .sched true n nb live a :: .ret
    (match s.raising with | some e => .err e | none => (s.out f).getD (.err .other)) :: s.trace :=
  ⟨_, _, _, _, _, rfl⟩

end AsynqModel.Core
