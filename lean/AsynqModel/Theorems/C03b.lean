import AsynqModel.Proofs.P11Chain
/-!
# C03 (lazy start) and C02 (unaffected tasks)

* C03 "... a task that was created but never yielded or waited on never starts ...":
  `C03_lazy_start`, `C03_never_awaited_never_runs`, `C03_never_awaited_not_started`, `C03_startable_awaited`.
* C02 "Tasks that do not depend on the failed future are unaffected":
  `C02_error_source` (where the error of a failed task comes from), `C02_received_error_source`,
  `C02_sync_returns_target`, `C02_unaffected` (one step), `C02_error_chain`, `C02_depends_on_origin`,
  `C02_unaffected_transitive` (through the reflexive-transitive closure `P11.DependsOn` of "awaited").

All theorems are about every reachable state (`Reach s`); none needs `s.stuck = none` (a stuck state is a frozen copy of
a reachable non-stuck one).  The trace `s.trace` is newest first: in `s.trace = l1 ++ e :: l2` the events of `l2`
happened before `e`.  `P11.AwaitedBy tr t f`: task `t` awaited `f` (a `yield t i y` event with `f` a leaf of `y`, or a
`syncE t f` / `syncX t f o` event is in `tr`).
-/
namespace AsynqModel.Core
open P2 P11

/-! ## C03: a task starts only after somebody awaited it -/

/-- **lazy start**: every start of a generator (`run t 0 ..`) is preceded by an event that awaits `t`: some task
    yielded a structure with leaf `t`, or some task called `t.value()` synchronously (`syncE u t`), or `t` is the root
    of a top-level computation (its `new t (task none)` event directly follows a `top idx conv` event). -/
theorem C03_lazy_start (s : State) (h : Reach s) (l1 l2 : List Event) (t : Nat) (dc : Bool) (recv : Recv)
    (htr : s.trace = l1 ++ Event.run t 0 dc recv :: l2) :
    (∃ u i y, Event.yield u i y ∈ l2 ∧ t ∈ y.leaves) ∨ (∃ u, Event.syncE u t ∈ l2) ∨
    (∃ l2a idx conv l2b, l2 = l2a ++ Event.new t (.task none) :: Event.top idx conv :: l2b) := by
  rcases (inv_reach h).1.runs l1 l2 t dc recv htr with ⟨e, he, ha⟩ | ⟨l2a, idx, conv, l2b, h2⟩
  · cases e with
    | yield u i y => exact Or.inl ⟨u, i, y, he, by simpa [awaitsEv] using ha⟩
    | syncE u f =>
      have : f = t := by simpa [awaitsEv] using ha
      subst this
      exact Or.inr (Or.inl ⟨u, he⟩)
    | _ => simp [awaitsEv] at ha
  · exact Or.inr (Or.inr ⟨l2a, idx, conv, l2b, h2⟩)

/-- **never awaited, never runs**: if no event of the trace awaits `t` - no yielded structure contains it, nobody
    called `value()` on it - and `t` is not the root of a top-level computation, then the trace has no `run t ..` event
    at all: a task that was created but never yielded or waited on never starts. -/
theorem C03_never_awaited_never_runs (s : State) (h : Reach s) (t : Nat)
    (hy : ∀ u i y, Event.yield u i y ∈ s.trace → t ∉ y.leaves) (hs : ∀ u, Event.syncE u t ∉ s.trace)
    (hroot : ∀ l1 idx conv l2, s.trace ≠ l1 ++ Event.new t (.task none) :: Event.top idx conv :: l2) :
    ∀ i dc r, Event.run t i dc r ∉ s.trace := by
  intro i dc r hm
  obtain ⟨dc', r', h0⟩ := run0_of_run h hm
  obtain ⟨l1, l2, htr⟩ := List.append_of_mem h0
  have hsub : ∀ e ∈ l2, e ∈ s.trace := fun e he => by rw [htr]; simp [he]
  rcases C03_lazy_start s h l1 l2 t dc' r' htr with ⟨u, j, y, h1, h2⟩ | ⟨u, h1⟩ | ⟨l2a, idx, conv, l2b, h1⟩
  · exact hy u j y (hsub _ h1) h2
  · exact hs u (hsub _ h1)
  · exact hroot (l1 ++ Event.run t 0 dc' r' :: l2a) idx conv l2b (by rw [htr, h1]; simp)

/-- the same with the executable test `P11.awaitedB t tr` ("some event of `tr` awaits `t`, or `t` is a top-level root") -/
theorem C03_never_awaited_never_runs_dec (s : State) (h : Reach s) (t : Nat) (hb : awaitedB t s.trace = false) :
    ∀ i dc r, Event.run t i dc r ∉ s.trace := by
  intro i dc r hm
  obtain ⟨dc', r', h0⟩ := run0_of_run h hm
  obtain ⟨l1, l2, htr⟩ := List.append_of_mem h0
  have h1 := (inv_reach h).1.runs l1 l2 t dc' r' htr
  have h2 : Awaited t s.trace := by rw [htr]; exact Awaited.mono (l1 ++ [Event.run t 0 dc' r']) h1 |> (by simpa using ·)
  rw [awaitedB_of h2] at hb; cases hb

/-- the same on the state: a task nobody awaited has not started -/
theorem C03_never_awaited_not_started (s : State) (h : Reach s) (t : Nat)
    (hy : ∀ u i y, Event.yield u i y ∈ s.trace → t ∉ y.leaves) (hs : ∀ u, Event.syncE u t ∉ s.trace)
    (hroot : ∀ l1 idx conv l2, s.trace ≠ l1 ++ Event.new t (.task none) :: Event.top idx conv :: l2) :
    (s.task t).started = false := by
  cases hst : (s.task t).started with
  | false => rfl
  | true =>
    obtain ⟨dc, r, h0⟩ := run0_of_started h hst
    exact absurd h0 (C03_never_awaited_never_runs s h t hy hs hroot 0 dc r)

/-- the state invariant behind it: everything the scheduler may start next has been awaited - every id on the task
    stack (`_tasks`), the root of every `wait_for` frame, the task of every generator frame, and every dependency of
    every task (`P11.Awaited x tr`: `tr` has an event awaiting `x` or `x` is a top-level root) -/
theorem C03_startable_awaited (s : State) (h : Reach s) :
    (∀ x ∈ s.stack, Awaited x s.trace) ∧ (∀ c ∈ s.ctl, Awaited (ctlId c) s.trace) ∧
    (∀ t, ∀ d ∈ (s.task t).deps, Awaited d s.trace) := by
  have inv := (inv_reach h).1
  exact ⟨fun x hx => inv.tracked x (Or.inl hx), fun c hc => inv.tracked _ (Or.inr (Or.inl ⟨c, hc, rfl⟩)),
    fun t d hd => inv.tracked d (Or.inr (Or.inr ⟨t, hd⟩))⟩

/-! ## C02: an error reaches a task only through a future it awaited -/

/-- **the value of a synchronous call is the outcome of its target**: what `f.value()` returned to task `t` is the
    outcome of `f` - or the RuntimeError of the MAX_TASK_STACK_SIZE guard, which has fired then -/
theorem C02_sync_returns_target (s : State) (h : Reach s) (t f : Nat) (o : Outcome)
    (hm : Event.syncX t f o ∈ s.trace) : s.out f = some o ∨ (o = .err .stackguard ∧ s.guardFired = true) :=
  (inv_reach h).2.syncx t f o hm

/-- only the stack guard's RuntimeError propagates out of `wait_for` -/
theorem C02_raising_is_guard (s : State) (h : Reach s) (e : Err) (hr : s.raising = some e) :
    e = .stackguard ∧ s.guardFired = true :=
  (inv_reach h).2.raising e hr

/-- **a received error has an awaited source** (resume): if the generator of `t` is resumed by throwing `e`
    (`run t i dc (out (err e))`), then `t` yielded a structure `y` (event `yield t (i-1) y`), all of `y` is computed,
    `e` is what `unwrap` raises for `y`, and `e` is the TypeError for a non-future in `y` or the error of a leaf of `y` -/
theorem C02_received_error_source (s : State) (h : Reach s) (t i : Nat) (dc : Bool) (e : Err)
    (hm : Event.run t i dc (.out (.err e)) ∈ s.trace) :
    ∃ j y, i = j + 1 ∧ Event.yield t j y ∈ s.trace ∧ (∀ f ∈ y.leaves, s.computed f = true) ∧
      unwrap s.out y = .error e ∧ (e = .typeerr ∨ ∃ f ∈ y.leaves, s.out f = some (.err e)) :=
  run_err_src h hm

/-- **where the error of a failed task comes from**: if task `t` has completed with error `e` then
    * `e` is the AssertionError of a NonAsyncContext (`pause`/`resume` while `t` was blocked), or
    * `t` ended at its own `raise n` statement (`e = u n`), or at a `reraise` with nothing caught (`e = u 0`), or
    * `t` ended at a `reraise` of the exception `e` it caught last, and `e` was thrown into `t`
      - at a resume: `t` had yielded `y`, and `e` is the TypeError (non-future in `y`) or the error of a leaf of `y`, or
      - by a synchronous call `f.value()`: `e` is the error of `f`, or the stack guard's RuntimeError.
    `(s.task t).body` is the statement the task ended at (the body of a completed task does not change any more). -/
theorem C02_error_source (s : State) (h : Reach s) (t : Nat) (e : Err) (hk : (s.fut t).kind = .task)
    (hd : Event.done t (.err e) ∈ s.trace) :
    e = .nonasync ∨ (∃ n, e = .u n ∧ (s.task t).body = .raise n) ∨
    (e = .u 0 ∧ (s.task t).body = .reraise ∧ (s.task t).caught = none) ∨
    ((s.task t).body = .reraise ∧ (s.task t).caught = some e ∧
      ((∃ i y, Event.yield t i y ∈ s.trace ∧ Event.run t (i + 1) true (.out (.err e)) ∈ s.trace ∧
          (e = .typeerr ∨ ∃ f ∈ y.leaves, s.out f = some (.err e))) ∨
       (∃ f, Event.syncX t f (.err e) ∈ s.trace ∧
          (s.out f = some (.err e) ∨ (e = .stackguard ∧ s.guardFired = true))))) := by
  have inv := (inv_reach h).2
  have ho := C03_done_is_final s h t _ hd
  rcases inv.fin t e hk ho with h1 | h1 | h1 | ⟨hb, hc⟩
  · exact Or.inl h1
  · exact Or.inr (Or.inl h1)
  · exact Or.inr (Or.inr (Or.inl h1))
  · refine Or.inr (Or.inr (Or.inr ⟨hb, hc, ?_⟩))
    rcases inv.caught t e hc with ⟨i, dc, hm⟩ | ⟨f, hm⟩
    · obtain ⟨j, y, rfl, hy, _, _, hsrc⟩ := run_err_src h hm
      have hdc := C03_ready s h t _ dc _ hm
      subst hdc
      exact Or.inl ⟨j, y, hy, hm, hsrc⟩
    · refine Or.inr ⟨f, hm, ?_⟩
      rcases inv.syncx t f _ hm with h2 | ⟨h2, h3⟩
      · exact Or.inl h2
      · injection h2 with h2
        exact Or.inr ⟨h2, h3⟩

/-- **unaffected**: an error never appears in a task that did not await its source.  If task `t` has completed with
    error `e`, then `t` raised it itself - a NonAsyncContext assertion, its own `raise` / bare `reraise`, the TypeError
    for yielding a non-future, or (only after the MAX_TASK_STACK_SIZE guard has fired) the guard's RuntimeError - or
    some future `f` that `t` awaited has failed with exactly `e`. -/
theorem C02_unaffected (s : State) (h : Reach s) (t : Nat) (e : Err) (hk : (s.fut t).kind = .task)
    (hd : Event.done t (.err e) ∈ s.trace) :
    (e = .nonasync ∨ e = .typeerr ∨ (e = .stackguard ∧ s.guardFired = true) ∨
      (∃ n, e = .u n ∧ (s.task t).body = .raise n) ∨
      (e = .u 0 ∧ (s.task t).body = .reraise ∧ (s.task t).caught = none)) ∨
    ∃ f, AwaitedBy s.trace t f ∧ s.out f = some (.err e) := by
  rcases C02_error_source s h t e hk hd with h1 | h1 | h1 | ⟨_, _, h1⟩
  · exact Or.inl (Or.inl h1)
  · exact Or.inl (Or.inr (Or.inr (Or.inr (Or.inl h1))))
  · exact Or.inl (Or.inr (Or.inr (Or.inr (Or.inr h1))))
  · rcases h1 with ⟨i, y, hy, _, h2 | ⟨f, hf, h2⟩⟩ | ⟨f, hm, h2 | h2⟩
    · exact Or.inl (Or.inr (Or.inl h2))
    · exact Or.inr ⟨f, Or.inl ⟨i, y, hy, hf⟩, h2⟩
    · exact Or.inr ⟨f, Or.inr (Or.inr ⟨_, hm⟩), h2⟩
    · exact Or.inl (Or.inr (Or.inr (Or.inl h2)))

/-- the contrapositive, as the property reads: a task none of whose awaited futures failed with `e`, that did not end
    at a `raise`/`reraise` statement, does not fail with `e` (for `e` a user error, a flush error, ...; the stack guard
    has not fired) -/
theorem C02_unaffected_contra (s : State) (h : Reach s) (t : Nat) (e : Err) (hk : (s.fut t).kind = .task)
    (hg : s.guardFired = false) (he : e ≠ .nonasync ∧ e ≠ .typeerr)
    (hb : (∀ n, (s.task t).body ≠ .raise n) ∧ ((s.task t).body = .reraise → (s.task t).caught ≠ none))
    (hna : ∀ f, AwaitedBy s.trace t f → s.out f ≠ some (.err e)) :
    Event.done t (.err e) ∉ s.trace := by
  intro hd
  rcases C02_unaffected s h t e hk hd with (h1 | h1 | ⟨_, h1⟩ | ⟨n, _, h1⟩ | ⟨_, h1, h2⟩) | ⟨f, h1, h2⟩
  · exact he.1 h1
  · exact he.2 h1
  · rw [hg] at h1; cases h1
  · exact hb.1 n h1
  · exact hb.2 h1 h2
  · exact hna f h1 h2

/-! ### the transitive form -/

/-- **error chain**: the error of every failed future can be traced back to its origin.  `P11.Chain s e t`: `t` has
    failed with `e` and either `t` is an origin of `e` (`P11.Origin`: not a task - a batch item, an ErrorFuture, a
    lazy future -, or a task that was failed by a NonAsyncContext, ended at its own `raise` / bare `reraise`, got the
    TypeError for a yielded non-future, or the stack guard's RuntimeError), or `t` is a task that awaited
    (`P11.AwaitedBy`) a future `f` with `Chain s e f`: every future on the path has failed with exactly `e`. -/
theorem C02_error_chain (s : State) (h : Reach s) (t : Nat) (e : Err) (ho : s.out t = some (.err e)) :
    Chain s e t :=
  (chinv_reach h).failed t e ho

/-- the exception a task caught last is the TypeError, the stack guard's error, or the error of a future it awaited,
    which has an error chain -/
theorem C02_caught_chain (s : State) (h : Reach s) (t : Nat) (e : Err) (hc : (s.task t).caught = some e) :
    e = .typeerr ∨ (e = .stackguard ∧ s.guardFired = true) ∨ ∃ f, AwaitedBy s.trace t f ∧ Chain s e f :=
  (chinv_reach h).caught t e hc

/-- **a failed future depends on an origin of its error**: `t` depends (reflexive-transitive closure of "awaited",
    `P11.DependsOn`) on a future `g` that failed with `e` on its own account -/
theorem C02_depends_on_origin (s : State) (h : Reach s) (t : Nat) (e : Err) (ho : s.out t = some (.err e)) :
    ∃ g, DependsOn s.trace t g ∧ s.out g = some (.err e) ∧ Origin s g e :=
  chain_origin (C02_error_chain s h t e ho)

/-- **tasks that do not depend on the failed future are unaffected**: if no future that `t` depends on is an origin
    of the error `e` (failed with `e` on its own account), then `t` does not fail with `e` -/
theorem C02_unaffected_transitive (s : State) (h : Reach s) (t : Nat) (e : Err)
    (hno : ∀ g, DependsOn s.trace t g → Origin s g e → s.out g ≠ some (.err e)) :
    s.out t ≠ some (.err e) ∧ Event.done t (.err e) ∉ s.trace := by
  have h1 : s.out t ≠ some (.err e) := fun ho => by
    obtain ⟨g, h1, h2, h3⟩ := C02_depends_on_origin s h t e ho
    exact hno g h1 h3 h2
  exact ⟨h1, fun hd => h1 (C03_done_is_final s h t _ hd)⟩

/-! ## non-vacuity -/

/-- a task is created (`spawn`) and never awaited: it never runs, although the program runs to completion -/
def exLazy1 : Body := .spawn (.ret 5) [] (.ret 1)
example : Reach (runFuel 40 (initState {} [(.value, exLazy1)] [])) := reach_runFuel _ _ _ _
example : (runFuel 40 (initState {} [(.value, exLazy1)] [])).stuck = none := by decide
example : (runFuel 40 (initState {} [(.value, exLazy1)] [])).isDone = true := by decide
example : Event.new 1 (.task (some 0)) ∈ (runFuel 40 (initState {} [(.value, exLazy1)] [])).trace := by decide
example : runIdx 1 (runFuel 40 (initState {} [(.value, exLazy1)] [])).trace = [] := by decide
example : ((runFuel 40 (initState {} [(.value, exLazy1)] [])).task 1).started = false := by decide
example : Event.done 0 (.ok (.node 1 [])) ∈ (runFuel 40 (initState {} [(.value, exLazy1)] [])).trace := by decide
/-- the theorem applied to this run: task 1 is not awaited, so it has no `run` event -/
example : ∀ i dc r, Event.run 1 i dc r ∉ (runFuel 40 (initState {} [(.value, exLazy1)] [])).trace :=
  C03_never_awaited_never_runs_dec _ (reach_runFuel _ _ _ _) 1 (by decide)
/-- the root itself runs: it is a top-level root (`new 0 (task none)` directly after `top 0 value`) -/
example : (runFuel 40 (initState {} [(.value, exLazy1)] [])).trace.reverse.take 3 =
    [.top 0 .value, .new 0 (.task none), .run 0 0 true .start] := by decide

/-- the same task, yielded: it starts after the `yield` event that contains it -/
def exLazy2 : Body := .spawn (.ret 5) [] (.yld (.f (.own 0)) (.ret 1) (.raise 0))
example : (runFuel 60 (initState {} [(.value, exLazy2)] [])).stuck = none := by decide
example : (runFuel 60 (initState {} [(.value, exLazy2)] [])).trace.reverse.take 6 =
    [.top 0 .value, .new 0 (.task none), .run 0 0 true .start, .new 1 (.task (some 0)), .yield 0 0 (.f 1),
     .run 1 0 true .start] := by decide

/-- the same task, called synchronously: it starts after the `syncE` event -/
def exLazy3 : Body := .spawn (.ret 5) [] (.syncfut (.own 0) (.ret 1) (.raise 0))
example : (runFuel 60 (initState {} [(.value, exLazy3)] [])).stuck = none := by decide
example : (runFuel 60 (initState {} [(.value, exLazy3)] [])).trace.reverse.take 6 =
    [.top 0 .value, .new 0 (.task none), .run 0 0 true .start, .new 1 (.task (some 0)), .syncE 0 1,
     .run 1 0 true .start] := by decide

/-- C02: the root awaits a failing child (task 1, `raise 3`), catches the error, then awaits a second child (task 2):
    task 2 is unaffected and the root, which ends at `ret`, completes normally; a root that re-raises fails with the
    error of the future it awaited -/
def exUnaff1 : Body :=
  .spawn (.raise 3) [] (.spawn (.ret 7) [] (.yld (.f (.own 0)) (.ret 0) (.yld (.f (.own 1)) (.ret 1) .reraise)))
example : (runFuel 120 (initState {} [(.value, exUnaff1)] [])).stuck = none := by decide
example : Event.done 1 (.err (.u 3)) ∈ (runFuel 120 (initState {} [(.value, exUnaff1)] [])).trace := by decide
example : Event.run 0 1 true (.out (.err (.u 3))) ∈ (runFuel 120 (initState {} [(.value, exUnaff1)] [])).trace := by
  decide
example : Event.done 2 (.ok (.node 7 [])) ∈ (runFuel 120 (initState {} [(.value, exUnaff1)] [])).trace := by decide
example : Event.done 0 (.ok (.node 1 [.node 7 []])) ∈ (runFuel 120 (initState {} [(.value, exUnaff1)] [])).trace := by
  decide

def exUnaff2 : Body := .spawn (.raise 3) [] (.yld (.f (.own 0)) (.ret 0) .reraise)
example : (runFuel 80 (initState {} [(.value, exUnaff2)] [])).stuck = none := by decide
example : Event.done 0 (.err (.u 3)) ∈ (runFuel 80 (initState {} [(.value, exUnaff2)] [])).trace := by decide
example : Event.yield 0 0 (.f 1) ∈ (runFuel 80 (initState {} [(.value, exUnaff2)] [])).trace := by decide
example : (runFuel 80 (initState {} [(.value, exUnaff2)] [])).out 1 = some (.err (.u 3)) := by decide
example : (match ((runFuel 80 (initState {} [(.value, exUnaff2)] [])).task 0).body with
    | .reraise => true | _ => false) = true ∧
    ((runFuel 80 (initState {} [(.value, exUnaff2)] [])).task 0).caught = some (.u 3) := by decide

/-- a synchronous call of a failing task: `syncX` returns the error of its target -/
def exUnaff3 : Body := .sync (.raise 4) [] (.ret 0) .reraise
example : (runFuel 80 (initState {} [(.value, exUnaff3)] [])).stuck = none := by decide
example : Event.syncX 0 1 (.err (.u 4)) ∈ (runFuel 80 (initState {} [(.value, exUnaff3)] [])).trace := by decide
example : Event.done 0 (.err (.u 4)) ∈ (runFuel 80 (initState {} [(.value, exUnaff3)] [])).trace := by decide

/-- a chain of length two: the root awaits task 1, which awaits task 2, which raises; both re-raise -/
def exChain : Body :=
  .spawn (.spawn (.raise 3) [] (.yld (.f (.own 0)) (.ret 0) .reraise)) [] (.yld (.f (.own 0)) (.ret 0) .reraise)
example : (runFuel 120 (initState {} [(.value, exChain)] [])).stuck = none := by decide
example : (runFuel 120 (initState {} [(.value, exChain)] [])).out 0 = some (.err (.u 3)) ∧
    (runFuel 120 (initState {} [(.value, exChain)] [])).out 1 = some (.err (.u 3)) ∧
    (runFuel 120 (initState {} [(.value, exChain)] [])).out 2 = some (.err (.u 3)) := by decide
example : Event.yield 0 0 (.f 1) ∈ (runFuel 120 (initState {} [(.value, exChain)] [])).trace ∧
    Event.yield 1 0 (.f 2) ∈ (runFuel 120 (initState {} [(.value, exChain)] [])).trace := by decide
example : (match ((runFuel 120 (initState {} [(.value, exChain)] [])).task 2).body with
    | .raise 3 => true | _ => false) = true := by decide

end AsynqModel.Core
