import AsynqModel.Proofs.P1Block
/-!
# C05  Each batch is flushed once, highest priority first; every item is answered

Theorems about the core machine (`AsynqModel.Core.step`).  The trace is newest first.  A *scheduler flush* is the step
`schedulerFlush` (`_continue_with_batch` + `_flush_batch`); the *flush body* of batch `(k, q)` is the event
`flushI k q items` emitted by `flushBatch` (`BatchBase.flush()`), which has two call sites: the scheduler flush and
`item.value()` inside a task step (`syncfut`).
-/
namespace AsynqModel.Core
open P1

/-! ## 1. the trace only grows; a computed future never changes -/

/-- `step` only ever prepends events -/
theorem C05_trace_mono (s : State) : ∃ es, (step s).trace = es ++ s.trace := by
  obtain ⟨es, h, _⟩ := (mild_step s).tr
  exact ⟨es, h⟩

/-- single assignment inside the scheduler: a computed future keeps its outcome -/
theorem C05_out_stable (s : State) (f : Nat) (o : Outcome) (h : s.out f = some o) : (step s).out f = some o :=
  (mild_step s).out f o h

/-! ## 2. the events of a scheduler flush form one block -/

/-- Whenever a step is a scheduler flush (innermost frame `_execute(root)`, stack exhausted, root uncomputed, nothing
    raising, something flushable) and the oracle's choice is allowed (`(step s).stuck = none`), the events it emits
    are `flushE k q :: (middle ++ [flushB k q items prio pending])` (newest first); `middle` contains exactly one
    flush body, namely `flushI k q items` with the items the batch had, no other `flushB` / `flushE`, and the
    completion event `bdone k q (!raises)` - also when the flush body raises. -/
theorem C05_flush_block (s : State) (root base : Nat) (rest : List Ctl)
    (hctl : s.ctl = .waitLoop root base :: rest) (hstack : s.stack.length ≤ base)
    (hroot : s.computed root = false) (hraise : s.raising = none) (hs : s.stuck = none)
    (hfl : s.flushable ≠ []) (hs' : (step s).stuck = none) :
    ∃ k q b middle,
      s.batch? k q = some b ∧
      (step s).trace =
        .flushE k q :: (middle ++ [.flushB k q b.items (s.batchPrio b) (s.pendingOf (s.flushable.erase (k, q)))])
          ++ s.trace ∧
      middle.filter (fun e => match e with | .flushI .. => true | _ => false) = [.flushI k q b.items] ∧
      (∀ e ∈ middle, (∀ k' q' is p pd, e ≠ .flushB k' q' is p pd) ∧ ∀ k' q', e ≠ .flushE k' q') ∧
      .bdone k q (!(s.cfg.kind k).raises) ∈ middle := by
  obtain ⟨c, b, _, _, hb, he⟩ := flush_step s root base ⟨⟨rest, hctl⟩, hs, hraise, hstack, hroot⟩ hfl hs'
  obtain ⟨mid, ht, hd⟩ := flushWith_trace s root c b hb
  have hmid : ∀ e ∈ mid, NF e = true := fun e he => isDone_NF (hd e he)
  refine ⟨c.1, c.2, b, .bdone c.1 c.2 (!(s.cfg.kind c.1).raises) :: (mid ++ [.flushI c.1 c.2 b.items]), hb, ?_, ?_,
    ?_, List.mem_cons_self⟩
  · rw [he, ht]
    simp
  · show List.filter isAnyI _ = _
    simp [List.filter_cons, isAnyI, filter_isAnyI_NF mid hmid]
  · intro e he
    have hbe : isBE e = false := by
      rcases List.mem_cons.1 he with rfl | he
      · rfl
      · rcases List.mem_append.1 he with he | he
        · exact NF_isBE (hmid e he)
        · simp only [List.mem_singleton] at he
          subst he
          rfl
    constructor
    · intro k' q' is p pd h
      subst h
      cases hbe
    · intro k' q' h
      subst h
      cases hbe

/-! ## 3. the flushed batch has maximal priority -/

/-- In that situation the flushed batch `(k, q)` is admissible: scheduled, non-empty, not flushed, and no scheduled
    non-empty unflushed batch has a strictly greater priority - for every priority configuration `s.cfg` and every
    oracle `s.choices` (whose head, if any, is the batch flushed). -/
theorem C05_max_priority (s : State) (root base : Nat) (rest : List Ctl)
    (hctl : s.ctl = .waitLoop root base :: rest) (hstack : s.stack.length ≤ base)
    (hroot : s.computed root = false) (hraise : s.raising = none) (hs : s.stuck = none)
    (hfl : s.flushable ≠ []) (hs' : (step s).stuck = none) :
    ∃ k q b middle,
      s.batch? k q = some b ∧
      (step s).trace =
        .flushE k q :: (middle ++ [.flushB k q b.items (s.batchPrio b) (s.pendingOf (s.flushable.erase (k, q)))])
          ++ s.trace ∧
      s.admissible (k, q) = true ∧
      (k, q) ∈ s.sbatches ∧ b.items ≠ [] ∧ b.flushed = false ∧
      (∀ k' q' b', (k', q') ∈ s.sbatches → s.batch? k' q' = some b' → b'.items ≠ [] → b'.flushed = false →
        prioLt (s.batchPrio b) (s.batchPrio b') = false) ∧
      (∀ c cs, s.choices = c :: cs → c = (k, q)) := by
  obtain ⟨c, b, hp, ha, hb, he⟩ := flush_step s root base ⟨⟨rest, hctl⟩, hs, hraise, hstack, hroot⟩ hfl hs'
  obtain ⟨mid, ht, _⟩ := flushWith_trace s root c b hb
  obtain ⟨hc, b1, hb1, hmax⟩ := admissible_spec s c ha
  rw [hb] at hb1
  cases hb1
  obtain ⟨hsb, b2, hb2, hne, hnf⟩ := (mem_flushable s c.1 c.2).1 hc
  rw [hb] at hb2
  cases hb2
  refine ⟨c.1, c.2, b, .bdone c.1 c.2 (!(s.cfg.kind c.1).raises) :: (mid ++ [.flushI c.1 c.2 b.items]), hb, ?_, ha,
    hsb, hne, hnf, ?_, ?_⟩
  · rw [he, ht]
    simp
  · intro k' q' b' hm hb' hne' hnf'
    exact hmax k' q' b' ((mem_flushable s k' q').2 ⟨hm, b', hb', hne', hnf'⟩) hb'
  · intro c' cs hch
    rw [pick_cons s c' cs hch] at hp
    cases hp
    rfl

/-- an oracle choice that is not admissible makes the state stuck instead (such runs are outside the model) -/
theorem C05_inadmissible_stuck (s : State) (root base : Nat) (rest : List Ctl)
    (hctl : s.ctl = .waitLoop root base :: rest) (hstack : s.stack.length ≤ base)
    (hroot : s.computed root = false) (hraise : s.raising = none) (hs : s.stuck = none)
    (hfl : s.flushable ≠ []) (c : Nat × Nat) (cs : List (Nat × Nat)) (hch : s.choices = c :: cs)
    (ha : s.admissible c = false) : (step s).stuck ≠ none :=
  flush_step_inadmissible s root base ⟨⟨rest, hctl⟩, hs, hraise, hstack, hroot⟩ hfl c cs hch ha

/-- an admissible oracle choice, and the default choice of a silent oracle (which always exists: the first batch of
    maximal priority), never make the state stuck: `_select_batch_to_flush` always finds a batch -/
theorem C05_flush_not_stuck (s : State) (root base : Nat) (rest : List Ctl)
    (hctl : s.ctl = .waitLoop root base :: rest) (hstack : s.stack.length ≤ base)
    (hroot : s.computed root = false) (hraise : s.raising = none) (hs : s.stuck = none)
    (hfl : s.flushable ≠ [])
    (hch : s.choices = [] ∨ ∃ c cs, s.choices = c :: cs ∧ s.admissible c = true) : (step s).stuck = none := by
  have hc : FlushCond s root base := ⟨⟨rest, hctl⟩, hs, hraise, hstack, hroot⟩
  rcases hch with hnil | ⟨c, cs, hch, ha⟩
  · obtain ⟨c, hd, ha⟩ := defaultChoice_some s hfl
    exact flush_step_not_stuck s root base hc hfl c (by rw [pick_nil s hnil, hd]) ha
  · exact flush_step_not_stuck s root base hc hfl c (pick_cons s c cs hch) ha

/-! ## 4. no scheduler flush once the root is computed -/

/-- `step` emits a `flushB` (performs a scheduler flush) only when the innermost frame is `_execute(root)` with
    its stack exhausted, nothing raising, and `root` - the root of the INNERMOST `wait_for`, whatever frames are
    below it - still uncomputed. -/
theorem C05_not_after_done (s : State) (es : List Event) (h : (step s).trace = es ++ s.trace)
    (k q : Nat) (items : List Nat) (prio : Nat × Nat) (pending : List PendingB)
    (hmem : Event.flushB k q items prio pending ∈ es) :
    ∃ root base rest, s.ctl = .waitLoop root base :: rest ∧ s.computed root = false ∧
      s.stack.length ≤ base ∧ s.raising = none ∧ s.stuck = none := by
  rcases step_cases s with hm | ⟨root, base, ⟨⟨rest, hctl⟩, hs, hr, hst, hroot⟩, _⟩
  · obtain ⟨es', ht, hbe, _⟩ := hm.tr
    rw [h] at ht
    have := new_events_unique ht
    subst this
    rcases hbe _ hmem with h | h <;> cases h
  · exact ⟨root, base, rest, hctl, hroot, hst, hr, hs⟩

/-- the same for the closing bracket `flushE` -/
theorem C05_not_after_done_E (s : State) (es : List Event) (h : (step s).trace = es ++ s.trace)
    (k q : Nat) (hmem : Event.flushE k q ∈ es) :
    ∃ root base rest, s.ctl = .waitLoop root base :: rest ∧ s.computed root = false ∧
      s.stack.length ≤ base ∧ s.raising = none ∧ s.stuck = none := by
  rcases step_cases s with hm | ⟨root, base, ⟨⟨rest, hctl⟩, hs, hr, hst, hroot⟩, _⟩
  · obtain ⟨es', ht, hbe, _⟩ := hm.tr
    rw [h] at ht
    have := new_events_unique ht
    subst this
    rcases hbe _ hmem with h | h <;> cases h
  · exact ⟨root, base, rest, hctl, hroot, hst, hr, hs⟩

/-! ## 5. every item is answered -/

/-- `flushBatch` (both call sites) on an existing batch whose items are allocated futures: every item is computed
    afterwards; an item that was uncomputed gets exactly the outcome the service answers for it (`itemOutcome`:
    the value, the item's error, or for a skipped item the flush body's exception / "not set"); items computed before
    keep their outcome; no other future is touched; the batch is flushed afterwards. -/
theorem C05_items_answered (s : State) (k q : Nat) (b : Batch) (hb : s.batch? k q = some b)
    (_hf : b.flushed = false) (hheap : ∀ i ∈ b.items, i < s.futs.length) :
    (∀ i ∈ b.items, (s.flushBatch k q).computed i = true) ∧
    (∀ i ∈ b.items, ∀ payload mode, s.out i = none → (s.fut i).kind = .item k q payload mode →
      (s.flushBatch k q).out i = some (itemOutcome s.cfg k payload mode)) ∧
    (∀ f o, s.out f = some o → (s.flushBatch k q).out f = some o) ∧
    (∀ f, f ∉ b.items → (s.flushBatch k q).fut f = s.fut f) ∧
    (∃ b', (s.flushBatch k q).batch? k q = some b' ∧ b'.flushed = true) :=
  ⟨fun i hi => flushBatch_computed s k q b hb i hi (hheap i hi),
   fun i hi payload mode hn hk => flushBatch_out_item s k q b hb i k q payload mode hi (hheap i hi) hn hk,
   fun f o ho => flushBatch_out_stable s k q f o ho,
   fun f hf => flushBatch_fut_notin s k q b hb f hf,
   ⟨_, flushBatch_batch?_self s k q b hb, rfl⟩⟩

/-- the side condition of `C05_items_answered` holds in every reachable state: batch items are allocated futures -/
theorem C05_items_in_heap (s : State) (h : Reach s) (k q : Nat) (b : Batch) (hb : s.batch? k q = some b) :
    ∀ i ∈ b.items, i < s.futs.length :=
  heapB_reach s h b (mem_of_batch? hb)

/-! ## 6. the flush body of a batch runs at most once -/

/-- batches have distinct (kind, seq) keys in every reachable state, so `(k, q)` names one batch record, and `batch?`
    finds exactly that record (a new batch of a kind is created only when there is none - seq 0 - or by
    `_try_switch_active_batch` from the newest one - seq + 1) -/
theorem C05_batches_distinct (s : State) (h : Reach s) :
    (s.batches.map fun b => (b.kind, b.seq)).Nodup ∧ ∀ b ∈ s.batches, s.batch? b.kind b.seq = some b :=
  ⟨bseq_nodup (bseq_reach s h), fun b hb => bseq_lookup (bseq_reach s h) b hb⟩

/-- a flush body in the trace means the batch exists and is flushed -/
theorem C05_body_flushed (s : State) (h : Reach s) (k q : Nat) (items : List Nat)
    (hmem : Event.flushI k q items ∈ s.trace) : ∃ b, s.batch? k q = some b ∧ b.flushed = true := by
  apply fl_pos
  have := fi_reach s h k q
  have hpos : 0 < cntI k q s.trace := by
    simp only [cntI]
    apply List.length_pos_of_mem (a := Event.flushI k q items)
    simp [List.mem_filter, hmem, isI]
  omega

/-- over any reachable state (stuck or not), for every batch `(k, q)`: at most one `flushI k q _` in the trace.
    (Both call sites of `flushBatch` require an unflushed batch, `flushBatch` leaves it flushed, and `batch?` keeps
    finding the same record because batches are only ever appended.) -/
theorem C05_flush_once (s : State) (h : Reach s) (_hs : s.stuck = none) :
    ∀ k q, (s.trace.filter (fun e => match e with | .flushI k' q' _ => k' == k && q' == q | _ => false)).length ≤ 1 := by
  intro k q
  show cntI k q s.trace ≤ 1
  exact Nat.le_trans (fi_reach s h k q) (fl_le_one s k q)

/-! ## non-vacuity

`demoInit`: one task creates an item of kind 0 (mode ok) and an item of kind 1 (mode unset; kind 1 has priority
`(5, 0)` and a raising flush body) and awaits both.  After 11 steps the machine is in the flush situation. -/

/-- the run is complete, not stuck, and contains two flush blocks, the high-priority kind first, each with exactly
    one flush body (chronological order) -/
example : (runFuel 100 demoInit).isDone = true ∧ (runFuel 100 demoInit).stuck = none ∧
    (runFuel 100 demoInit).trace.reverse.filterMap flushCode =
      [(0, 1, 0), (1, 1, 0), (2, 1, 0), (0, 0, 0), (1, 0, 0), (2, 0, 0)] := by decide

/-- the hypotheses of `C05_flush_block` / `C05_max_priority` / `C05_flush_not_stuck` are satisfiable (state after 11
    steps: two scheduled batches; after 16 steps: the remaining one), and the theorems apply -/
example : ∃ k q b middle, (runFuel 11 demoInit).batch? k q = some b ∧
    (step (runFuel 11 demoInit)).trace = .flushE k q :: (middle ++ [.flushB k q b.items
      ((runFuel 11 demoInit).batchPrio b)
      ((runFuel 11 demoInit).pendingOf ((runFuel 11 demoInit).flushable.erase (k, q)))]) ++ (runFuel 11 demoInit).trace ∧
    middle.filter (fun e => match e with | .flushI .. => true | _ => false) = [.flushI k q b.items] ∧
    (∀ e ∈ middle, (∀ k' q' is p pd, e ≠ .flushB k' q' is p pd) ∧ ∀ k' q', e ≠ .flushE k' q') ∧
    .bdone k q (!((runFuel 11 demoInit).cfg.kind k).raises) ∈ middle :=
  C05_flush_block (runFuel 11 demoInit) 0 0 [] (by decide) (by decide) (by decide) (by decide) (by decide)
    (by decide) (by decide)
example : (runFuel 11 demoInit).sbatches = [(0, 0), (1, 0)] ∧ (runFuel 11 demoInit).admissible (1, 0) = true ∧
    (runFuel 11 demoInit).admissible (0, 0) = false := by decide
example : (step (runFuel 16 demoInit)).stuck = none :=
  C05_flush_not_stuck (runFuel 16 demoInit) 0 0 [] (by decide) (by decide) (by decide) (by decide) (by decide)
    (by decide) (Or.inl (by decide))
/-- the flush of kind 1 raises: the block is still complete, `bdone 1 0 false` -/
example : (step (runFuel 11 demoInit)).trace.take 4 =
    [.flushE 1 0, .bdone 1 0 false, .done 2 (.err (.flushraise 1)), .flushI 1 0 [2]] := by decide

/-- `C05_inadmissible_stuck`: an oracle that insists on the low-priority batch makes the state stuck -/
example : (step (runFuel 11 demoInitBad)).stuck ≠ none :=
  C05_inadmissible_stuck (runFuel 11 demoInitBad) 0 0 [] (by decide) (by decide) (by decide) (by decide) (by decide)
    (by decide) (0, 0) [] (by decide) (by decide)

/-- `C05_not_after_done`: the step after 11 steps does emit a `flushB` (its five new events, newest first:
    `flushE`, `bdone`, `done`, `flushI`, `flushB`), and there the root 0 of the only `wait_for` is uncomputed -/
example : (step (runFuel 11 demoInit)).trace.drop 5 = (runFuel 11 demoInit).trace ∧
    ((step (runFuel 11 demoInit)).trace.take 5).filterMap flushCode = [(2, 1, 0), (1, 1, 0), (0, 1, 0)] ∧
    (runFuel 11 demoInit).ctl = [.waitLoop 0 0] ∧ (runFuel 11 demoInit).computed 0 = false := by decide

/-- `C05_items_answered`: the unflushed batch (1, 0) with item 2 (mode unset, raising flush body) -/
example : (runFuel 11 demoInit).batch? 1 0 = some { kind := 1, seq := 0, items := [2] } ∧
    (runFuel 11 demoInit).out 2 = none ∧
    ((runFuel 11 demoInit).fut 2).kind = .item 1 0 2 .unset ∧
    ((runFuel 11 demoInit).flushBatch 1 0).out 2 = some (.err (.flushraise 1)) ∧
    itemOutcome (runFuel 11 demoInit).cfg 1 2 .unset = .err (.flushraise 1) := by decide

/-- `C05_flush_once` / `C05_body_flushed`: the reachable final state has exactly one flush body per batch -/
example : Reach (runFuel 100 demoInit) ∧
    ((runFuel 100 demoInit).trace.filter
      (fun e => match e with | .flushI k' q' _ => k' == 1 && q' == 0 | _ => false)).length = 1 ∧
    ((runFuel 100 demoInit).trace.filter
      (fun e => match e with | .flushI k' q' _ => k' == 0 && q' == 0 | _ => false)).length = 1 :=
  ⟨reach_runFuel _ _ _ 100, by decide, by decide⟩

example : (runFuel 100 demoInit).batches.map (fun b => (b.kind, b.seq)) = [(0, 0), (1, 0), (1, 1), (0, 1)] := by decide

/-- the other call site of `flushBatch`: `item.value()` flushes the batch directly (one flush body, no scheduler
    bracket), and the scheduler never flushes it again -/
example : (runFuel 100 demoSync).isDone = true ∧ (runFuel 100 demoSync).stuck = none ∧
    (runFuel 100 demoSync).trace.reverse.filterMap flushCode = [(1, 0, 0)] := by decide

end AsynqModel.Core
