import AsynqModel.Proofs.P2Inv
/-!
# C02  What a task receives is exactly the `unwrap` of what it yielded (structural clauses; C01 shape)

Pure theorems about `unwrap` (asynq/async_task.py `unwrap`) and the theorem tying the value or exception sent into a
resumed generator to the structure it yielded.  Definitions used in the statements (`firstFailure`, `YS.slots`,
`slotErr`, `sameShape`, `leafVals`, `outcomeOf`) are in `Proofs/P2Unwrap.lean`.
-/
namespace AsynqModel.Core
open P2

/-- **first error wins**: `unwrap` raises `e` iff the first leaf-or-junk position, in structure order, whose lookup is not
    a value yields `e` (junk ↦ TypeError, failed future ↦ its error, uncomputed future ↦ `other`) -/
theorem C02_first_wins {α : Type} (look : α → Option Outcome) (y : YS α) (e : Err) :
    unwrap look y = .error e ↔ firstFailure look y = some e :=
  unwrap_error_iff look y e

/-- `unwrap` succeeds iff no position fails -/
theorem C02_unwrap_ok_iff {α : Type} (look : α → Option Outcome) (y : YS α) :
    (∃ v, unwrap look y = .ok v) ↔ firstFailure look y = none :=
  unwrap_ok_iff look y

/-- `firstFailure` is literally "the error of the first failing position": the positions before it hold values -/
theorem C02_first_failure_spec {α : Type} (look : α → Option Outcome) (y : YS α) (e : Err) :
    firstFailure look y = some e ↔
      ∃ pre p post, y.slots = pre ++ p :: post ∧ (∀ q ∈ pre, slotErr look q = none) ∧ slotErr look p = some e := by
  unfold firstFailure
  generalize y.slots = l
  induction l with
  | nil => simp
  | cons a l ih =>
    simp only [List.findSome?_cons]
    cases ha : slotErr look a with
    | some e' =>
      constructor
      · intro h; injection h with h; subst h; exact ⟨[], a, l, rfl, by simp, ha⟩
      · rintro ⟨pre, p, post, h1, h2, h3⟩
        cases pre with
        | nil => simp only [List.nil_append] at h1; injection h1 with h1 _; subst h1; rw [ha] at h3; exact h3
        | cons b pre =>
          simp only [List.cons_append] at h1; injection h1 with h1 _; subst h1
          have := h2 a (by simp); rw [ha] at this; cases this
    | none =>
      simp only [ih]
      constructor
      · rintro ⟨pre, p, post, h1, h2, h3⟩
        refine ⟨a :: pre, p, post, by rw [h1]; rfl, ?_, h3⟩
        intro q hq
        simp only [List.mem_cons] at hq
        rcases hq with hq | hq
        · rw [hq]; exact ha
        · exact h2 q hq
      · rintro ⟨pre, p, post, h1, h2, h3⟩
        cases pre with
        | nil => simp only [List.nil_append] at h1; injection h1 with h1 _; subst h1; rw [ha] at h3; cases h3
        | cons b pre =>
          simp only [List.cons_append] at h1; injection h1 with _ h1
          exact ⟨pre, p, post, h1, fun q hq => h2 q (by simp [hq]), h3⟩

/-- **shape (C01)**: a successful `unwrap` returns a value of the same shape as the yielded structure, and every leaf
    position holds the value looked up for that leaf (`leafVals` pairs the leaves of `y`, in structure order, with the
    values at the same positions of `v`) -/
theorem C01_shape {α : Type} (look : α → Option Outcome) (y : YS α) (v : Val) (h : unwrap look y = .ok v) :
    sameShape y v ∧ (∀ p ∈ leafVals y v, look p.1 = some (.ok p.2)) ∧ (leafVals y v).map (·.1) = y.leaves :=
  unwrap_shape look y v h

/-- `unwrap` depends only on the outcomes of the leaves -/
theorem C02_unwrap_congr {α : Type} (look look' : α → Option Outcome) (y : YS α)
    (h : ∀ r ∈ y.leaves, look r = look' r) : unwrap look y = unwrap look' y :=
  unwrap_congr look look' y h

/-- `extract_futures` (the dependencies the scheduler waits for) and the leaves have the same elements -/
theorem C02_extract_eq_leaves (y : RY) (f : Nat) : f ∈ extractFutures y ↔ f ∈ y.leaves :=
  mem_extractFutures y f

/-- **what is received is the unwrap of what was yielded** (on the step): if a step of a reachable state emits
    `run t i dc (out o)`, then the task was suspended (`pending`), `o` is `unwrap` of its last yielded structure under the
    outcomes of that very state - errors included -, `i` is the next resume index and everything it yielded is computed -/
theorem C02_received_is_unwrap (s : State) (h : Reach s) (new : List Event) (t i : Nat) (dc : Bool) (o : Outcome)
    (hnew : (step s).trace = new ++ s.trace) (hm : Event.run t i dc (.out o) ∈ new) :
    o = outcomeOf (unwrap s.out (s.task t).lastY) ∧ (s.task t).pending = true ∧ (s.task t).started = true ∧
      i = (s.task t).resumes + 1 ∧ dc = true ∧ ∀ f ∈ (s.task t).lastY.leaves, s.computed f = true := by
  have inv := pinv_reach h
  have k := step_kind s inv.items inv.genKind inv.z
  cases k with
  | quiet q c =>
    obtain ⟨n, e1, e2⟩ := q.trace
    have : new = n := List.append_cancel_right (hnew.symm.trans e1)
    subst this
    have := (e2 _ hm).1; simp [isRunYield] at this
  | push q t' r b rest h1 h2 ha hca hk hn ho hd =>
    obtain ⟨n, e1, e2⟩ := q.trace
    have : new = n := List.append_cancel_right (hnew.symm.trans e1)
    subst this
    have := (e2 _ hm).1; simp [isRunYield] at this
  | run0 t' old rest g h1 hp hs hg c hc ha =>
    have : new = [Event.run t' 0 true .start] := List.append_cancel_right (hnew.symm.trans c.trace)
    subst this
    simp only [List.mem_singleton] at hm
    injection hm with _ _ _ h4; cases h4
  | yield t' old rest g ry deps h1 hp hg hsub c hc =>
    have : new = [Event.yield t' (s.task t').resumes ry] := List.append_cancel_right (hnew.symm.trans c.trace)
    subst this
    simp only [List.mem_singleton] at hm
    cases hm
  | run t' old rest g o' h1 hp hs ho hg c hc ha =>
    have : new = [Event.run t' ((s.task t').resumes + 1) ((s.task t').lastY.leaves.all s.computed) (.out o')] :=
      List.append_cancel_right (hnew.symm.trans c.trace)
    subst this
    simp only [List.mem_singleton] at hm
    injection hm with e1 e2 e3 e4
    injection e4 with e4
    subst e1; subst e4
    have htg : t ∈ gens s.ctl := by rw [h1]; simp [gens]
    have hlv : ∀ f ∈ (s.task t).lastY.leaves, s.computed f = true := fun f hf =>
      inv.gnb t htg f (inv.leaves t hp hs f hf)
    exact ⟨ho, hp, hs, e2, by rw [e3]; exact all_of_forall hlv, hlv⟩

/-- **what is received is the unwrap of what was yielded** (on the trace): in every reachable state, every resume
    `run t (i+1) dc r` in the trace is preceded by the event `yield t i y` (nothing of `t` in between) such that every
    future in `y` is computed and `r` is `unwrap` of `y` under the outcomes of the *current* state (outcomes are written
    once, so these are the outcomes the task saw) -/
theorem C02_received_trace (s : State) (h : Reach s) (l1 l2 : List Event) (t i : Nat) (dc : Bool) (r : Recv)
    (htr : s.trace = l1 ++ Event.run t (i + 1) dc r :: l2) :
    ∃ y l2a l2b, l2 = l2a ++ Event.yield t i y :: l2b ∧ (∀ e ∈ l2a, isRY t e = false) ∧
      (∀ f ∈ y.leaves, s.computed f = true) ∧ r = .out (outcomeOf (unwrap s.out y)) := by
  have inv := pinv_reach h
  obtain ⟨y, h1, h2, h3⟩ := (allSuff_iff _ _).1 inv.ybr l1 _ l2 htr t i dc r rfl
  obtain ⟨_, l2a, l2b, h4, h5⟩ := List.find?_eq_some_iff_append.1 h1
  exact ⟨y, l2a, l2b, h4, fun e he => by simpa using h5 e he, h2, h3⟩

/-! ### non-vacuity -/

/-- a task yields a constant future and receives its value -/
def exProg1 : Body := .const 7 (.yld (.f (.own 0)) (.ret 1) (.raise 0))
/-- a task yields a tuple (value, error, junk): it receives the error of the first failing position -/
def exProg2 : Body := .errfut 3 (.const 5 (.yld (.tup [.f (.own 1), .f (.own 0), .junk]) (.ret 1) .reraise))

example : Event.run 0 1 true (.out (.ok (.a 7))) ∈ (runFuel 30 (initState {} [(.value, exProg1)] [])).trace := by decide
example : Event.run 0 1 true (.out (.err (.u 3))) ∈ (runFuel 40 (initState {} [(.value, exProg2)] [])).trace := by decide
example : Event.yield 0 0 (.tup [.f 2, .f 1, .junk]) ∈ (runFuel 40 (initState {} [(.value, exProg2)] [])).trace := by
  decide

/-- first error wins: the failed future comes before the junk, so its error is raised, not the TypeError -/
example : outcomeOf (unwrap (fun n : Nat => if n = 1 then some (.err (.u 3)) else some (.ok (.a n)))
    (.tup [.f 2, .f 1, .junk])) = .err (.u 3) := by decide
example : firstFailure (fun n : Nat => if n = 1 then some (.err (.u 3)) else some (.ok (.a n)))
    (.tup [.f 2, .f 1, .junk]) = some (.u 3) := by decide
example : firstFailure (fun n : Nat => some (.ok (.a n))) (.tup [.f 2, .junk, .f 1]) = some .typeerr := by decide
/-- shape: a dict of a list and a leaf -/
example : outcomeOf (unwrap (fun n : Nat => some (.ok (.a n))) (.dict [4, 5] [.lst [.f 1, .none], .f 2])) =
    .ok (.dict [4, 5] [.lst [.a 1, .none], .a 2]) := by decide
example : leafVals (.dict [4, 5] [.lst [.f 1, .none], .f 2] : YS Nat) (.dict [4, 5] [.lst [.a 1, .none], .a 2]) =
    [(1, .a 1), (2, .a 2)] := by decide
/-- `extract_futures` walks tuples backwards: same elements as the leaves, another order -/
example : extractFutures (.tup [.f 1, .lst [.f 2, .f 3]]) = [3, 2, 1] ∧
    (YS.leaves (.tup [.f 1, .lst [.f 2, .f 3]]) : List Nat) = [1, 2, 3] := by decide

end AsynqModel.Core
