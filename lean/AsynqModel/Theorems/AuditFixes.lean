import AsynqModel.Proofs.P24Aux
import AsynqModel.Theorems.C05
import AsynqModel.Theorems.C08
import AsynqModel.Theorems.C04
/-!
# Repairs of items 4b, 4c, 10, 11, 12 of the independent audit (audit/AUDIT-core.md)

* (11) `roundsTop_chain`, `roundsTop_depChain`, `roundsTop_tree` and the corollaries of `C04_flush_count`:
  "a chain of n dependent requests performs n flushes, a balanced tree of any size one" for ALL n, depth, fanout.
* (10) hypothesis-free variants (`..'`) of the theorems whose proofs do not use `_hs`, `_hg`, `_hroot`, `_hfl`.
* (4c) `C06_block_registered`, `C06_registered_iff_open`: the contexts of the OPEN with-blocks of a task are exactly the
  contexts REGISTERED with it (guard not fired), so the C06 theorems about `(s.task t).ctxs` speak about the blocks the
  task has entered.
* (12) `C02_error_chain_strict`, `C02_depends_on_origin_strict`, `C02_unaffected_transitive_strict` with the strict
  origins `P24.OriginS` (TypeError: the task itself yielded a non-future; NonAsyncContext error: the task was failed
  while suspended with a registered NonAsyncContext); instantiated examples of `C02_unaffected_transitive` / `_contra`.
* (4b) `C06_nonasync_only_reach`: the "only if" of the NonAsyncContext clause for reachable states.
-/
namespace AsynqModel.Core
open AsynqModel.Core.P19 AsynqModel.Core.P24

/-! ## (11) the reference count on chains and balanced trees, for all sizes -/

/-- the chain of `Theorems/C04b.lean` with `n` sequentially dependent requests has reference count `n` -/
theorem roundsTop_chain (n : Nat) (cfg : Cfg) : roundsTop cfg (C04b_chain n) = n := roundsTop_C04b_chain cfg n

/-- `harness/coregen.py: dependent_chain(n, kind)` (`P24.depChain`; `dependent_chain(0) = dependent_chain(1)`) -/
theorem roundsTop_depChain (kind n : Nat) (cfg : Cfg) : roundsTop cfg (depChain kind n) = max n 1 := by
  unfold depChain
  rw [roundsTop_chainGen]
  omega

/-- `harness/coregen.py: balanced_tree(depth = d, fanout = f, kind)` (`P24.balTree`), `d ≥ 0` levels of inner tasks
    with `f ≥ 1` children each, every leaf awaiting one item: reference count 1 whatever the size -/
theorem roundsTop_tree (d f : Nat) (hf : 0 < f) (kind : Nat) (cfg : Cfg) : roundsTop cfg (balTree kind f d) = 1 :=
  roundsTop_balTree cfg kind f hf d

/-- `f = 0` is excluded for a reason: an inner task without children yields an empty list and needs no flush -/
example : roundsTop {} (balTree 0 0 1) = 0 := by decide

/-- **a chain of `n` dependent requests performs exactly `n` flushes**: in every state of every run of the single
    computation `C04b_chain n` (any configuration, any flush oracle, either calling convention) that is not stuck
    and in which the stack guard has not fired, the `ret` event is preceded by exactly `n` scheduler flushes -/
theorem C04_chain_flushes (n : Nat) (cfg : Cfg) (conv : Conv) (choices : List (Nat × Nat)) (s : State)
    (h : ReachFrom cfg [(conv, C04b_chain n)] choices s) (hs : s.stuck = none) (hg : s.guardFired = false)
    (l1 l2 : List Event) (o : Outcome) (htr : s.trace = l1 ++ .ret o :: l2) : fcount l2 = n := by
  rw [flush_count_single 0 cfg conv _ (bodyOK_C04b_chain n) choices s h hs hg l1 l2 o htr, roundsTop_chain]

/-- the same for the generator's `dependent_chain(n, kind)`, `n ≥ 1` -/
theorem C04_depChain_flushes (kind n : Nat) (hn : 1 ≤ n) (cfg : Cfg) (conv : Conv) (choices : List (Nat × Nat))
    (s : State) (h : ReachFrom cfg [(conv, depChain kind n)] choices s) (hs : s.stuck = none)
    (hg : s.guardFired = false) (l1 l2 : List Event) (o : Outcome) (htr : s.trace = l1 ++ .ret o :: l2) :
    fcount l2 = n := by
  rw [flush_count_single kind cfg conv (depChain kind n) (bodyOK_chainGen kind (n - 1)) choices s h hs hg l1 l2 o htr,
    roundsTop_depChain]
  omega

/-- **a balanced tree of any size performs exactly one flush** -/
theorem C04_tree_one_flush (d f : Nat) (hf : 0 < f) (kind : Nat) (cfg : Cfg) (conv : Conv)
    (choices : List (Nat × Nat)) (s : State) (h : ReachFrom cfg [(conv, balTree kind f d)] choices s)
    (hs : s.stuck = none) (hg : s.guardFired = false) (l1 l2 : List Event) (o : Outcome)
    (htr : s.trace = l1 ++ .ret o :: l2) : fcount l2 = 1 := by
  rw [flush_count_single kind cfg conv _ (bodyOK_balTree kind f d) choices s h hs hg l1 l2 o htr,
    roundsTop_tree d f hf]

/-! ### non-vacuity: the definitions are the generator's, the runs end, the counts are as stated -/

/-- `dependent_chain(2, 0)` and `balanced_tree(1, 2, 0)` written out -/
example : depChain 0 2 = .item 0 2 .ok (.yld (.f (.own 0))
    (.spawn (.item 0 1 .ok (.yld (.f (.own 0)) (.ret 1) .reraise)) [] (.yld (.f (.own 1)) (.ret 2) .reraise))
    .reraise) := rfl
example : balTree 0 2 1 =
    .spawn (.item 0 0 .ok (.yld (.f (.own 0)) (.ret 1) .reraise)) []
      (.spawn (.item 0 0 .ok (.yld (.f (.own 0)) (.ret 1) .reraise)) []
        (.yld (.lst [.f (.own 0), .f (.own 1)]) (.ret 2) .reraise)) := rfl

set_option maxRecDepth 20000 in
/-- a chain of 3 and a tree of depth 2, fanout 3 (13 tasks, 9 requests) run to completion, not stuck, guard not
    fired; the traces hold 3 resp. 1 `flushB` events and one `ret` -/
example : (C04b_run {} [(.value, depChain 0 3)] 200).isDone = true ∧
    (C04b_run {} [(.value, depChain 0 3)] 200).stuck = none ∧
    (C04b_run {} [(.value, depChain 0 3)] 200).guardFired = false ∧
    ((C04b_run {} [(.value, depChain 0 3)] 200).trace.filterMap fun
      | .flushB .. => some 0 | .ret _ => some 1 | _ => none) = [1, 0, 0, 0] := by decide

set_option maxRecDepth 40000 in
example : (C04b_run {} [(.call, balTree 0 3 2)] 400).isDone = true ∧
    (C04b_run {} [(.call, balTree 0 3 2)] 400).stuck = none ∧
    (C04b_run {} [(.call, balTree 0 3 2)] 400).guardFired = false ∧
    ((C04b_run {} [(.call, balTree 0 3 2)] 400).trace.filterMap fun
      | .flushB .. => some 0 | .ret _ => some 1 | _ => none) = [1, 0] := by decide

set_option maxRecDepth 20000 in
/-- the corollary applied to the run of the chain -/
example : ∀ l1 l2 o, (C04b_run {} [(.value, depChain 0 3)] 200).trace = l1 ++ .ret o :: l2 → fcount l2 = 3 :=
  fun l1 l2 o h => C04_depChain_flushes 0 3 (by decide) {} .value [] _ (reachFrom_runFuel _ _ _ 200) (by decide)
    (by decide) l1 l2 o h

/-! ## (10) the theorems whose proofs use fewer hypotheses than their statements -/

/-- `C05_flush_once` without `s.stuck = none` -/
theorem C05_flush_once' (s : State) (h : Reach s) :
    ∀ k q, (s.trace.filter (fun e => match e with | .flushI k' q' _ => k' == k && q' == q | _ => false)).length ≤ 1 := by
  intro k q
  show P1.cntI k q s.trace ≤ 1
  exact Nat.le_trans (P1.fi_reach s h k q) (P1.fl_le_one s k q)

/-- `C08_active_invariant` without `s.stuck = none` -/
theorem C08_active_invariant' (s : State) (h : Reach s) (hg : s.guardFired = false) : Inv.active s = true :=
  (P3.reach_core s h hg).1.active

/-- `C08_active` without `s.stuck = none` -/
theorem C08_active' (s : State) (h : Reach s) (hg : s.guardFired = false) :
    ∀ t seen, Event.active t seen ∈ s.trace → seen = some t :=
  fun t seen he => (P3.reach_core s h hg).2 (.active t seen) he

/-- `C08_creator` without `s.stuck = none` -/
theorem C08_creator' (s : State) (h : Reach s) (hg : s.guardFired = false) :
    ∃ pre, (step s).trace = pre ++ s.trace ∧
      ∀ f c, Event.new f (.task c) ∈ pre →
        match s.ctl with
        | [] => c = none
        | .gen t _ :: _ => c = some t
        | _ => False := by
  obtain ⟨pre, e, hp⟩ := P3.step_ext s h hg
  exact ⟨pre, e, fun f c hm => hp _ hm⟩

/-- `C08_frames` without `s.stuck = none` -/
theorem C08_frames' (s : State) (h : Reach s) (hg : s.guardFired = false) : Inv.frames s = true :=
  P3.frames_of_core (P3.reach_core s h hg).1

/-- `C08_clean` without `s.stuck = none` and `s.guardFired = false` (it is `C08_clean_always`) -/
theorem C08_clean' (s : State) (h : Reach s) :
    ∀ same n nb live a, Event.sched same n nb live a ∈ s.trace → same = true ∧ n = 0 ∧ a = none :=
  C08_clean_always s h

/-- `C08_active_none_at_top` without `s.stuck = none` and `s.guardFired = false` -/
theorem C08_active_none_at_top' (s : State) (h : Reach s) (hctl : s.ctl = []) : s.active = none ∧ s.stack = [] :=
  C08_active_none_at_top_always s h hctl

/-- `C04_settled_at_flush` without `s.computed root = false`: whenever `_execute(root)` finds its stack back at
    the base, the root is settled (a computed root is settled by definition) -/
theorem C04_settled_at_flush' (s : State) (h : P6.ReachYO s) (hs : s.stuck = none) (hg : s.guardFired = false)
    (root base : Nat) (rest : List Ctl) (hctl : s.ctl = .waitLoop root base :: rest)
    (hlen : s.stack.length ≤ base) : P6.Settled s root := by
  cases hc : s.computed root with
  | false => exact C04_settled_at_flush s h hs hg root base rest hctl hlen hc
  | true => exact .computed hc

/-- `C04_settled_at_flush_step` without `s.flushable ≠ []` -/
theorem C04_settled_at_flush_step' (s : State) (h : P6.ReachYO s) (hs : s.stuck = none) (hg : s.guardFired = false)
    (root base : Nat) (rest : List Ctl) (hctl : s.ctl = .waitLoop root base :: rest)
    (hlen : s.stack.length ≤ base) (hroot : s.computed root = false) :
    step s = s.schedulerFlush root ∧ P6.Settled s root := by
  refine ⟨?_, C04_settled_at_flush s h hs hg root base rest hctl hlen hroot⟩
  have hr := (P3.reach_core s h.reach hg).1.raising
  unfold step
  simp [hs, hctl, hr, hroot]
  intro hlt
  omega

/-! ## (4c) open with-blocks and registrations -/

/-- **every open with-block is registered**: in a reachable state in which the MAX_TASK_STACK_SIZE guard has not
    fired, the context `c` of every open with-block of task `t` (`conts`, pushed by `withCtx`, popped by `endwith` /
    at the end of the task) is registered with `t` (`(s.task t).ctxs`, the `_contexts` of the AsyncTask) and `t` is its
    owner.  All kinds of contexts, NonAsyncContexts included. -/
theorem C06_block_registered (s : State) (h : Reach s) (hg : s.guardFired = false) (t c : Nat)
    (hc : c ∈ (s.task t).conts.map (·.1)) :
    c ∈ (s.task t).ctxs ∧ ∃ x, s.ctxs[c]? = some x ∧ x.owner = some t :=
  ⟨P24.W_reach h hg t c hc, (P16.B_reach h hg).cown t c hc⟩

/-- the registered contexts of a task are exactly the contexts of its open with-blocks; a task that has one is an
    uncomputed task -/
theorem C06_registered_iff_open (s : State) (h : Reach s) (hg : s.guardFired = false) (t c : Nat) :
    (c ∈ (s.task t).ctxs ↔ c ∈ (s.task t).conts.map (·.1)) ∧
    ((s.task t).conts ≠ [] → (s.fut t).kind = .task ∧ s.computed t = false) :=
  ⟨⟨(P16.B_reach h hg).k1w t c, P24.W_reach h hg t c⟩, (P16.B_reach h hg).ck t⟩

/-- `C06_own_code_resumed` read for with-blocks: while the generator of `t` runs (guard not fired), every context of
    an open with-block of `t` that is not a NonAsyncContext is resumed -/
theorem C06_own_block_resumed (s : State) (h : Reach s) (hg : s.guardFired = false) (t : Nat) (old : Option Nat)
    (hm : Ctl.gen t old ∈ s.ctl) (c : Nat) (hc : c ∈ (s.task t).conts.map (·.1)) :
    ∃ x, s.ctxs[c]? = some x ∧ x.owner = some t ∧ (x.kind = .nonasync ∨ x.resumed = true) := by
  have hreg := (C06_block_registered s h hg t c hc).1
  obtain ⟨x, hx, ho, hk⟩ := (P5.I_reach h).j.reg t c hreg
  refine ⟨x, hx, ho, ?_⟩
  rcases hk with hk | hk
  · exact .inl hk
  · right
    have hact : (s.task t).ctxActive = true :=
      (P2.pinv_reach h).rca t (gen_mem_gens hm)
    rw [hk, hact]; rfl

/-- **`guardFired = false` is needed**: with `MAX_TASK_STACK_SIZE = 1` the guard fires inside the synchronous call
    of the root task, which resets `active_task`; the root catches the RuntimeError and enters a with-block while
    there is no active task - the context registers nowhere: open block, empty registration list -/
def C06_regGuardProg : Body :=
  .sync (.ret 1) [] (.ret 0) (.withCtx .plain (.item 0 1 .ok (.yld (.f (.own 1)) .endwith .endwith)) (.ret 2))

theorem C06_block_registered_needs_guard :
    let s := runFuel 9 (initState { maxStack := 1 } [(.value, C06_regGuardProg)] [])
    s.guardFired = true ∧ s.stuck = none ∧ (s.task 0).conts.map (·.1) = [0] ∧ (s.task 0).ctxs = [] := by decide

/-- non-vacuity: `C06_prog` (nested overrides) after 8 steps: two open blocks, both registered, and the theorem applies -/
example : ((runFuel 8 (initState {} [(.value, C06_prog)] [])).task 0).conts.map (·.1) = [1, 0] ∧
    ((runFuel 8 (initState {} [(.value, C06_prog)] [])).task 0).ctxs = [0, 1] ∧
    (runFuel 8 (initState {} [(.value, C06_prog)] [])).guardFired = false := by decide
example : 1 ∈ ((runFuel 8 (initState {} [(.value, C06_prog)] [])).task 0).ctxs :=
  (C06_block_registered _ (reach_runFuel _ _ _ _) (by decide) 0 1 (by decide)).1

/-! ## (12) strict origins of errors -/

open AsynqModel.Core.P11 in
/-- **strict error chain**: the error of every failed future can be traced back along awaited futures that failed
    with exactly that error to a STRICT origin `P24.OriginS Reach s g e`:
    * `g` is not a task (a batch item, an ErrorFuture, a lazy future), or
    * `e` is the NonAsyncContext assertion error and task `g` was failed while it was suspended (`P24.FailedSuspended`:
      an earlier state `s0` of the run whose step completes `g` with this error, `g` being on top of the task stack,
      blocked on an uncomputed dependency, with a NonAsyncContext registered with it), or
    * `e` is the TypeError of `unwrap` and `g` ITSELF yielded a structure holding a non-future
      (`yield g i y ∈ s.trace`, `P24.hasJunk y`), or
    * `e` is the stack guard's RuntimeError and the guard has fired, or
    * `g` ended at its own `raise n` (`e = u n`) or at a bare `reraise` (`e = u 0`). -/
theorem C02_error_chain_strict (s : State) (h : Reach s) (t : Nat) (e : Err) (ho : s.out t = some (.err e)) :
    P24.ChainS Reach s e t :=
  P24.sinv_reach h t e ho

/-- a strict origin is an origin, a strict chain is a chain (`C02_error_chain`) -/
theorem C02_originS_origin (s : State) (g : Nat) (e : Err) (h : P24.OriginS Reach s g e) : P11.Origin s g e := h.origin

open AsynqModel.Core.P11 in
/-- **a failed future depends on a strict origin of its error** (strengthens `C02_depends_on_origin`, whose `Origin`
    holds for every future when `e` is the TypeError or the NonAsyncContext error) -/
theorem C02_depends_on_origin_strict (s : State) (h : Reach s) (t : Nat) (e : Err) (ho : s.out t = some (.err e)) :
    ∃ g, DependsOn s.trace t g ∧ s.out g = some (.err e) ∧ P24.OriginS Reach s g e :=
  P24.chainS_origin (C02_error_chain_strict s h t e ho)

open AsynqModel.Core.P11 in
/-- **unaffected, strict form**: if no future that `t` depends on is a STRICT origin of `e` that failed with `e`, then
    `t` does not fail with `e`.  For `e = typeerr` the hypothesis now reads "nothing `t` depends on yielded a
    non-future", for `e = nonasync` "nothing `t` depends on was failed while suspended inside a NonAsyncContext". -/
theorem C02_unaffected_transitive_strict (s : State) (h : Reach s) (t : Nat) (e : Err)
    (hno : ∀ g, DependsOn s.trace t g → P24.OriginS Reach s g e → s.out g ≠ some (.err e)) :
    s.out t ≠ some (.err e) ∧ Event.done t (.err e) ∉ s.trace := by
  have h1 : s.out t ≠ some (.err e) := fun ho => by
    obtain ⟨g, h1, h2, h3⟩ := C02_depends_on_origin_strict s h t e ho
    exact hno g h1 h3 h2
  exact ⟨h1, fun hd => h1 (C03_done_is_final s h t _ hd)⟩

/-- the TypeError case spelled out: a task fails with the TypeError of `unwrap` only if it, or a task it depends on,
    yielded a structure holding a non-future - or the error is that of a non-task future -/
theorem C02_typeerr_source (s : State) (h : Reach s) (t : Nat) (ho : s.out t = some (.err .typeerr)) :
    ∃ g, P11.DependsOn s.trace t g ∧ s.out g = some (.err .typeerr) ∧
      ((s.fut g).kind ≠ .task ∨ ∃ i y, Event.yield g i y ∈ s.trace ∧ P24.hasJunk y) := by
  obtain ⟨g, h1, h2, h3⟩ := C02_depends_on_origin_strict s h t _ ho
  refine ⟨g, h1, h2, ?_⟩
  rcases h3 with h3 | ⟨h3, _⟩ | ⟨_, h3⟩ | ⟨h3, _⟩ | ⟨n, h3, _⟩ | ⟨h3, _⟩
  · exact .inl h3
  · cases h3
  · exact .inr h3
  · cases h3
  · cases h3
  · cases h3

/-! ### examples: `C02_unaffected_transitive` and `C02_unaffected_contra` instantiated (exUnaff1, t = 2) -/

/-- the final state of `exUnaff1`: the root awaits task 1 (which raises `u 3`), catches the error, then awaits task 2 -/
def exUnaff1_final : State := runFuel 120 (initState {} [(.value, exUnaff1)] [])

/-- `C02_unaffected_transitive` instantiated: task 2 depends on nothing but itself, and it is not an origin that failed
    with `u 3` - so it does not fail with `u 3`, although its sibling did and the root received that error -/
example : exUnaff1_final.out 2 ≠ some (.err (.u 3)) ∧ Event.done 2 (.err (.u 3)) ∉ exUnaff1_final.trace :=
  C02_unaffected_transitive exUnaff1_final (reach_runFuel _ _ _ _) 2 (.u 3) (by
    intro g hd _
    have hg : g = 2 := dependsOn_self_of (by decide) hd
    subst hg
    decide)

/-- ... and the strict form, for the TypeError: task 2 yielded nothing, so it cannot fail with the TypeError - with
    `P11.Origin` the hypothesis could not have been discharged this way (`Origin s 2 typeerr` holds trivially) -/
example : exUnaff1_final.out 2 ≠ some (.err .typeerr) ∧ Event.done 2 (.err .typeerr) ∉ exUnaff1_final.trace :=
  C02_unaffected_transitive_strict exUnaff1_final (reach_runFuel _ _ _ _) 2 .typeerr (by
    intro g hd _
    have hg : g = 2 := dependsOn_self_of (by decide) hd
    subst hg
    decide)
example : P11.Origin exUnaff1_final 2 .typeerr := .inr (.inr (.inl rfl))
example : ¬ P24.OriginS Reach exUnaff1_final 2 .typeerr := by
  rintro (h | ⟨h, _⟩ | ⟨_, i, y, hm, _⟩ | ⟨h, _⟩ | ⟨n, h, _⟩ | ⟨h, _⟩)
  · exact h (by decide)
  · cases h
  · have h0 : awaitsNothing 2 exUnaff1_final.trace = true := by decide
    unfold awaitsNothing at h0
    rw [List.all_eq_true] at h0
    have := h0 _ hm
    simp at this
  · cases h
  · cases h
  · cases h

/-- `C02_unaffected_contra` instantiated: task 2 is a task, the guard has not fired, it ended at `ret 7`, and it
    awaited nothing: it does not fail with `u 3` -/
example : Event.done 2 (.err (.u 3)) ∉ exUnaff1_final.trace :=
  C02_unaffected_contra exUnaff1_final (reach_runFuel _ _ _ _) 2 (.u 3) (by decide) (by decide)
    ⟨(by intro h; cases h), (by intro h; cases h)⟩
    (by
      have hb : isRetB (exUnaff1_final.task 2).body = true := by decide
      refine ⟨fun n hn => ?_, fun hr => ?_⟩
      · rw [hn] at hb; cases hb
      · rw [hr] at hb; cases hb)
    (fun f ha => absurd ha (not_awaitedBy_of (by decide) f))

/-- the strict theorem on a run with a TypeError: the root yields `(future, future, junk)` with both futures fine
    and re-raises the TypeError; the strict origin is the root itself, which yielded the junk -/
def exJunk : Body := .const 3 (.const 5 (.yld (.tup [.f (.own 1), .f (.own 0), .junk]) (.ret 1) .reraise))
example : (runFuel 60 (initState {} [(.value, exJunk)] [])).out 0 = some (.err .typeerr) ∧
    Event.yield 0 0 (.tup [.f 2, .f 1, .junk]) ∈ (runFuel 60 (initState {} [(.value, exJunk)] [])).trace ∧
    P24.hasJunk (YS.tup [YS.f 2, YS.f 1, (YS.junk : RY)]) := by decide
example : ∃ g, P11.DependsOn (runFuel 60 (initState {} [(.value, exJunk)] [])).trace 0 g ∧
    (runFuel 60 (initState {} [(.value, exJunk)] [])).out g = some (.err .typeerr) ∧
    ((((runFuel 60 (initState {} [(.value, exJunk)] [])).fut g).kind ≠ .task) ∨
      ∃ i y, Event.yield g i y ∈ (runFuel 60 (initState {} [(.value, exJunk)] [])).trace ∧ P24.hasJunk y) :=
  C02_typeerr_source _ (reach_runFuel _ _ _ _) 0 (by decide)

/-! ## (4b) NonAsyncContext: the "only if" for reachable states -/

open AsynqModel.Core.P11 in
/-- **a task fails with the NonAsyncContext assertion error only by propagation or while suspended inside such a
    context** (every reachable state, no further hypothesis).  If `done t (err nonasync)` is in the trace then `t` is a
    task and
    * `t` awaited a future `f` that failed with this error (ordinary propagation: `t` re-raised what it received), or
    * `P24.FailedSuspended Reach s t`: there is an earlier state `s0` of the run in which `t` is uncomputed, on top of the
      scheduler's task stack inside `_execute`, blocked on an uncomputed dependency, with a NonAsyncContext registered
      with it (`P24.SuspNA s0 t`), and the step out of `s0` fails `t` with this error. -/
theorem C06_nonasync_only_any (s : State) (h : Reach s) (t : Nat) (hd : Event.done t (.err .nonasync) ∈ s.trace) :
    (s.fut t).kind = .task ∧
    ((∃ f, AwaitedBy s.trace t f ∧ s.out f = some (.err .nonasync)) ∨ P24.FailedSuspended Reach s t) := by
  have ho := C03_done_is_final s h t _ hd
  have hk := P24.na_task h t ho
  refine ⟨hk, ?_⟩
  cases C02_error_chain_strict s h t _ ho with
  | origin _ hor =>
    rcases hor with h1 | ⟨_, h1⟩ | ⟨h1, _⟩ | ⟨h1, _⟩ | ⟨n, h1, _⟩ | ⟨h1, _⟩
    · exact absurd hk h1
    · exact .inr h1
    · cases h1
    · cases h1
    · cases h1
    · cases h1
  | link _ _ ha hc => exact .inl ⟨_, ha, hc.out⟩

/-- the NonAsyncContext registered with the failed task is its OWN: the task is its owner (every reachable state; the
    context was created by `with` while this task was the active one) -/
theorem C06_suspNA_own_context (s0 : State) (h : Reach s0) (t : Nat) (hs : P24.SuspNA s0 t) :
    ∃ c x, c ∈ (s0.task t).ctxs ∧ s0.ctxs[c]? = some x ∧ x.kind = .nonasync ∧ x.owner = some t := by
  obtain ⟨_, _, _, ⟨c, hc, hna⟩⟩ := hs
  obtain ⟨x, hx, ho, _⟩ := (P5.I_reach h).j.reg t c hc
  refine ⟨c, x, hc, hx, ?_, ho⟩
  unfold State.ctxIsNonAsync at hna
  rw [hx] at hna
  simpa using hna

open AsynqModel.Core.P11 in
/-- **C06, NonAsyncContext "only if", at Reach level** (well-scoped computations, guard not fired): if
    `done t (err nonasync)` is in the trace then either `t` received that error from a future `f` it awaited, or at
    the moment of the failure - the state `s0` of the run whose step emits the event - `t` was suspended
    (`pending`, started, blocked on an uncomputed dependency, on top of the task stack) with a registered
    NonAsyncContext of its own. -/
theorem C06_nonasync_only_reach (s : State) (h : P10.WSReach s) (hg : s.guardFired = false) (t : Nat)
    (hd : Event.done t (.err .nonasync) ∈ s.trace) :
    (∃ f, AwaitedBy s.trace t f ∧ s.out f = some (.err .nonasync)) ∨
    (∃ s0, P10.WSReach s0 ∧ P24.StepsTo (step s0) s ∧ P24.SuspendedInNonAsync s0 t) := by
  have hr := h.reach
  have ho := C03_done_is_final s hr t _ hd
  have hk := P24.na_task hr t ho
  cases P24.sinv_wsreach h t _ ho with
  | origin _ hor =>
    rcases hor with h1 | ⟨_, s0, hws0, hst, h2, h3, h4⟩ | ⟨h1, _⟩ | ⟨h1, _⟩ | ⟨n, h1, _⟩ | ⟨h1, _⟩
    · exact absurd hk h1
    · have hg0 : s0.guardFired = false := P3.guard_mono s0 (P24.guard_of_stepsTo hst hg)
      exact .inr ⟨s0, hws0, hst, suspended_facts hws0 hg0 h2 h3 h4⟩
    · cases h1
    · cases h1
    · cases h1
    · cases h1
  | link _ _ ha hc => exact .inl ⟨_, ha, hc.out⟩

/-! ### non-vacuity -/

/-- `C06_progNA` (a task suspended on a batch item inside a NonAsyncContext): the second disjunct, with `s0` the state
    after 9 steps -/
example : Event.done 0 (.err .nonasync) ∈ (runFuel 100 (initState {} [(.value, C06_progNA)] [])).trace ∧
    (runFuel 100 (initState {} [(.value, C06_progNA)] [])).guardFired = false ∧
    P10.WellScoped C06_progNA 0 0 = true := by decide
example : P24.SuspNA (runFuel 9 (initState {} [(.value, C06_progNA)] [])) 0 :=
  ⟨⟨0, 0, [], [], by decide, by decide⟩, by decide, ⟨1, by decide, by decide⟩, ⟨0, by decide, by decide⟩⟩
example : (runFuel 9 (initState {} [(.value, C06_progNA)] [])).out 0 = none ∧
    (step (runFuel 9 (initState {} [(.value, C06_progNA)] []))).out 0 = some (.err .nonasync) ∧
    ((runFuel 9 (initState {} [(.value, C06_progNA)] [])).task 0).pending = true := by decide

/-- a root that awaits such a task and re-raises: the first disjunct (ordinary propagation from future 1) -/
def C06_naProp : Body := .spawn C06_progNA [] (.yld (.f (.own 0)) (.ret 0) .reraise)
example : Event.done 0 (.err .nonasync) ∈ (runFuel 100 (initState {} [(.value, C06_naProp)] [])).trace ∧
    Event.yield 0 0 (.f 1) ∈ (runFuel 100 (initState {} [(.value, C06_naProp)] [])).trace ∧
    (runFuel 100 (initState {} [(.value, C06_naProp)] [])).out 1 = some (.err .nonasync) := by decide
/-- the theorem applied to both runs -/
example := C06_nonasync_only_any _ (reach_runFuel {} [(.value, C06_naProp)] [] 100) 0 (by decide)
example := C06_nonasync_only_reach (runFuel 100 (initState {} [(.value, C06_progNA)] []))
  (wsreach_of_reachFrom_c06 (by intro p hp; simp at hp; subst hp; decide) (P13.reachFrom_runFuel _ 100)) (by decide) 0
  (by decide)

end AsynqModel.Core
