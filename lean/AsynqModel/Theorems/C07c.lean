import AsynqModel.Proofs.P22Final
import AsynqModel.Proofs.P22Block
import AsynqModel.Proofs.P22Uniq
import AsynqModel.Proofs.P22Erase
/-!
# C07 / C01, third part: "a scoped value read inside a task equals what the same code would read sequentially" -
# against a SEQUENTIAL REFERENCE SEMANTICS of scoped values (audit item 5 of `audit/AUDIT-core.md`)

The frozen reference evaluator `Seq.evalBody` ignores `.read`; `Spec_C07_read_value` compares the machine with the
observer's own reconstruction (innermost open override along the unique-awaiter chain).  Here the missing reference
is supplied (`Proofs/P22Seq.lean`, no frozen file is touched) and the machine is proved to agree with it.

## the reference: `P22.SeqSV`
A plain sequential, depth-first evaluator (nested function calls) that threads an environment of scoped values:
`withCtx (.override var val) b k` runs `b` in the environment extended by `var ↦ val` and `k` in the environment it
had BEFORE the block; `spawn` only creates the callee; the callee RUNS TO COMPLETION AT THE POINT OF ITS FIRST AWAIT
(the first `yld` of its creator containing it, the `sync` call creating it, the first `syncfut` on it), in the
environment of the awaiting code AT THAT POINT - so a child spawned inside a with-block but first awaited after the
block was left does NOT see the override: this is what asynq does (contexts follow the awaiter, not the lexical
position of the `spawn`), see `C07c_progA` below; a task that is never awaited never runs.
`SeqSV.runBody` makes the decisions of `Seq.evalBody` (values do not depend on scoped values) and returns the
actions of one task body (`read var val`, `call i child inh E`); `SeqSV.log` expands the calls depth-first: the
sequential log of `(creation path, var, value)`; `SeqSV.CalledAt cfg top [] [] π b inh E`: the sequential evaluation of
`top` calls, at creation path `π`, the task `b` in environment `E`.

## the correspondence between machine tasks and sequential positions
Creation order differs between the two evaluators (the machine interleaves siblings, the reference runs each callee
to completion), so tasks are identified by their CREATION PATH: the root of a top-level computation has path `[]`, the
`i`-th future created by the task with path `π` has path `π ++ [i]` (`P22.IsPath s r π t`, read off the ghost lists
`own`); the root `r` of the `k`-th computation is the `k`-th `.new _ (.task none)` event of the trace (`P22.roots`).

## the theorem
`C07_reads_sequential`: for tree-shaped (`Spec.bodyShares = false`), well-scoped, NonAsync-free programs, stack guard
not fired, in EVERY reachable state, under EVERY flush oracle: the `(var, value)` sequence of the `.read t` events of a
task `t` with creation path `π` is a PREFIX of the reads the reference gives to the task it calls at path `π` - and it
is the WHOLE sequence once `t` is finished; a task that has read nothing and has not started is the other case (the
reference runs a task iff it is awaited; the machine starts a task only after it was awaited).
`C07_reads_sequential_at` is the same with the executable `SeqSV.readsAt`; `C07_reads_complete` is the converse (every
task the reference calls is run by the machine, with the same path, and has read the same reads once the computation
is finished): per-task sequences keyed by the path, both ways, i.e. the same multiset of reads (`SeqSV.log` is the
depth-first concatenation of the per-task sequences).  `C07_read_env`: the value of every single read is the value of
the sequential environment of the running task.  `C07_block_restores`: the per-block form of "back to what it was
before".  `C07_reference_conservative`: the reference returns what `Seq.evalBody` returns.

Hypotheses, each with a witness below:
* tree-shaped: `C07c_shared` - a task handed to a child and awaited there runs in the child's dynamic extent; the
  reference (a callee belongs to its creator) gives it no reads;
* `guardFired = false`: `C07c_guard` - the guard throws the task stack away, an override stays resumed and the NEXT
  computation reads it;
* NonAsync-free: `C07c_na` - a task failed by `NonAsyncContext.pause()` while suspended is finished without having
  executed the rest of its body (the prefix clause survives, the equality clause does not);
* well-scoped: inherited from the lemmas used (`SpecC07_bad`: an ill-scoped program builds an await cycle).
-/
namespace AsynqModel.Core
open AsynqModel.Core.P22 AsynqModel.Core.P22.SeqSV

/-- **C07_reads_sequential**: every scoped value a task reads is the value the sequential reference evaluator reads
    at the corresponding position - per task (identified by its creation path), in order, under every flush order. -/
theorem C07_reads_sequential (cfg : Cfg) (tops : List (Conv × Body)) (choices : List (Nat × Nat)) (s : State)
    (h : P13.ReachFrom (initState cfg tops choices) s)
    (hws : ∀ p ∈ tops, P10.WellScoped p.2 0 0 = true) (htree : ∀ p ∈ tops, Spec.bodyShares p.2 = false)
    (hna : ∀ p ∈ tops, Spec.bodyHasNonAsync p.2 = false) (hs : s.stuck = none) (hg : s.guardFired = false)
    (k r : Nat) (hr : (roots s.trace)[k]? = some r) (conv : Conv) (body : Body) (hb : tops[k]? = some (conv, body))
    (π : Path) (t : Nat) (hp : IsPath s r π t) (hk : (s.fut t).kind = .task) :
    (mreads t s.trace = [] ∧ s.computed t = false ∧ (s.task t).started = false) ∨
    ∃ b inh E, CalledAt cfg body [] [] π b inh E ∧
      mreads t s.trace <+: (reads (acts cfg b inh E)).map rdVal ∧
      (s.computed t = true → mreads t s.trace = (reads (acts cfg b inh E)).map rdVal) := by
  have hn := noNonAsync_of_static h hws hna hs hg
  obtain ⟨g, hS⟩ := sim_reach (reachW_of_reachFrom h hws) (fun p hp => ns_of_shares (htree p hp)) hs hg hn
  exact reads_prefix hS hr hb hp hk

/-- the same with the executable form of the reference (`SeqSV.readsAt cfg body π`: the reads of the task the sequential
    evaluation of `body` calls at creation path `π`, `[]` if it calls none; a task body calls each of its futures at
    most once - `SeqSV.acts_nodup` - so the path determines the callee: `SeqSV.calledAt_iff_taskAt`) -/
theorem C07_reads_sequential_at (cfg : Cfg) (tops : List (Conv × Body)) (choices : List (Nat × Nat)) (s : State)
    (h : P13.ReachFrom (initState cfg tops choices) s)
    (hws : ∀ p ∈ tops, P10.WellScoped p.2 0 0 = true) (htree : ∀ p ∈ tops, Spec.bodyShares p.2 = false)
    (hna : ∀ p ∈ tops, Spec.bodyHasNonAsync p.2 = false) (hs : s.stuck = none) (hg : s.guardFired = false)
    (k r : Nat) (hr : (roots s.trace)[k]? = some r) (conv : Conv) (body : Body) (hb : tops[k]? = some (conv, body))
    (π : Path) (t : Nat) (hp : IsPath s r π t) (hk : (s.fut t).kind = .task) :
    mreads t s.trace <+: (readsAt cfg body π).map rdVal ∧
    (s.computed t = true → mreads t s.trace = (readsAt cfg body π).map rdVal) := by
  rcases C07_reads_sequential cfg tops choices s h hws htree hna hs hg k r hr conv body hb π t hp hk with
    ⟨h1, h2, _⟩ | ⟨b, inh, E, hc, h1, h2⟩
  · rw [h1]
    exact ⟨List.nil_prefix, fun hc => by rw [h2] at hc; cases hc⟩
  · have := (calledAt_iff_taskAt cfg body [] [] π b inh E).1 hc
    unfold readsAt
    rw [this]
    exact ⟨h1, h2⟩

/-- **C07_reads_complete** (the converse, for the multiset reading of the statement): once the root of the `k`-th
    computation is finished, EVERY task the sequential evaluation calls - at any creation path `π` - exists in the
    machine with that creation path, is finished, and has read exactly the reads of the reference.  With
    `C07_reads_sequential_at` (every machine task reads a prefix of / exactly the reference reads of its path, a task
    the reference does not call reads nothing) the `.read` events of the machine and the entries of the sequential log
    are the same multiset, task by task in the same order. -/
theorem C07_reads_complete (cfg : Cfg) (tops : List (Conv × Body)) (choices : List (Nat × Nat)) (s : State)
    (h : P13.ReachFrom (initState cfg tops choices) s)
    (hws : ∀ p ∈ tops, P10.WellScoped p.2 0 0 = true) (htree : ∀ p ∈ tops, Spec.bodyShares p.2 = false)
    (hna : ∀ p ∈ tops, Spec.bodyHasNonAsync p.2 = false) (hs : s.stuck = none) (hg : s.guardFired = false)
    (k r : Nat) (hr : (roots s.trace)[k]? = some r) (conv : Conv) (body : Body) (hb : tops[k]? = some (conv, body))
    (hdone : s.computed r = true) (π : Path) (x : Body × List Outcome × SvEnv)
    (hx : taskAt cfg body [] [] π = some x) :
    ∃ t, IsPath s r π t ∧ (s.fut t).kind = .task ∧ s.computed t = true ∧
      mreads t s.trace = (readsAt cfg body π).map rdVal := by
  obtain ⟨b, inh, E⟩ := x
  have hn := noNonAsync_of_static h hws hna hs hg
  obtain ⟨g, hS⟩ := sim_reach (reachW_of_reachFrom h hws) (fun p hp => ns_of_shares (htree p hp)) hs hg hn
  have hc := (calledAt_iff_taskAt cfg body [] [] π b inh E).2 hx
  obtain ⟨t, it, hp, hk, _, _, _, _, hct⟩ := calls_complete hS hr hb hdone hc
  exact ⟨t, hp, hk, hct,
    (C07_reads_sequential_at cfg tops choices s h hws htree hna hs hg k r hr conv body hb π t hp hk).2 hct⟩

/-- the reference evaluator is a conservative extension of the frozen one: forgetting the environment and the log,
    `SeqSV.runBody` is `Seq.evalBody` (so the outcome the reference computes for a top-level computation is
    `evalTop`, the outcome the machine is proved to return - C01) -/
theorem C07_reference_conservative (cfg : Cfg) (body : Body) :
    (eraseRes (runBody cfg body [] [] {}).2).outcome = evalTop cfg body :=
  runBody_outcome cfg body [] []

/-- the same for a run with fuel -/
theorem C07_reads_sequential_run (cfg : Cfg) (tops : List (Conv × Body)) (choices : List (Nat × Nat)) (n : Nat)
    (hws : ∀ p ∈ tops, P10.WellScoped p.2 0 0 = true) (htree : ∀ p ∈ tops, Spec.bodyShares p.2 = false)
    (hna : ∀ p ∈ tops, Spec.bodyHasNonAsync p.2 = false)
    (hs : (runFuel n (initState cfg tops choices)).stuck = none)
    (hg : (runFuel n (initState cfg tops choices)).guardFired = false)
    (k r : Nat) (hr : (roots (runFuel n (initState cfg tops choices)).trace)[k]? = some r) (conv : Conv) (body : Body)
    (hb : tops[k]? = some (conv, body)) (π : Path) (t : Nat)
    (hp : IsPath (runFuel n (initState cfg tops choices)) r π t)
    (hk : ((runFuel n (initState cfg tops choices)).fut t).kind = .task) :
    (mreads t (runFuel n (initState cfg tops choices)).trace = [] ∧
      (runFuel n (initState cfg tops choices)).computed t = false ∧
      ((runFuel n (initState cfg tops choices)).task t).started = false) ∨
    ∃ b inh E, CalledAt cfg body [] [] π b inh E ∧
      mreads t (runFuel n (initState cfg tops choices)).trace <+: (reads (acts cfg b inh E)).map rdVal ∧
      ((runFuel n (initState cfg tops choices)).computed t = true →
        mreads t (runFuel n (initState cfg tops choices)).trace = (reads (acts cfg b inh E)).map rdVal) :=
  C07_reads_sequential cfg tops choices _ (P13.reachFrom_runFuel _ n) hws htree hna hs hg k r hr conv body hb π t hp hk

/-- the value of every single read: while the code of task `t` runs, every scoped variable holds the value of the
    sequential environment of `t` - the environment `t` was called in (recorded by the ghost `g`), extended by the
    overrides of its open with-blocks -/
theorem C07_read_env (cfg : Cfg) (tops : List (Conv × Body)) (choices : List (Nat × Nat)) (s : State)
    (h : P13.ReachFrom (initState cfg tops choices) s)
    (hws : ∀ p ∈ tops, P10.WellScoped p.2 0 0 = true) (htree : ∀ p ∈ tops, Spec.bodyShares p.2 = false)
    (hna : ∀ p ∈ tops, Spec.bodyHasNonAsync p.2 = false) (hs : s.stuck = none) (hg : s.guardFired = false) :
    ∃ g, Sim cfg tops s g ∧ ∀ t old rest ip, s.ctl = .gen t old :: rest → g t = some ip →
      ∀ var, s.svGet var = SeqSV.get (envOf s ip.E (cids (s.task t))) var := by
  have hn := noNonAsync_of_static h hws hna hs hg
  have hW := reachW_of_reachFrom h hws
  obtain ⟨g, hS⟩ := sim_reach hW (fun p hp => ns_of_shares (htree p hp)) hs hg hn
  exact ⟨g, hS, fun t old rest ip hctl hip var =>
    running_env hS (P17.wsreach_of_reachW hW) hg (P7.na_of_noNonAsync hn) hctl hip var⟩

/-! ## "back to what it was before", per block -/

theorem C07c_reachFrom_stepN {s0 x : State} (h : P13.ReachFrom s0 x) : ∀ n, P13.ReachFrom s0 (stepN n x)
  | 0 => h
  | n + 1 => P13.ReachFrom.step (C07c_reachFrom_stepN h n)

/-- **C07_block_restores** (`C07_restored_at_top` only says `svGet var = 0` after the whole computation - the model has
    no non-default value outside a computation; this is the per-block statement): let `s1` (reached after `m` steps) be
    about to execute `with c: b` in task `t` - the context object it creates is number `s1.ctxs.length` - and let
    `s2`, `n` steps after the block was entered, be about to execute the `endwith` of THAT block (the innermost open
    block of `t` is context `s1.ctxs.length`).  Then after the `endwith` step EVERY scoped variable - in particular the
    overridden one - holds the value it had in `s1`, just before the matching `withCtx`; whatever happened in between
    (suspensions of `t` with pause / resume of its contexts, flushes, other tasks entering and leaving their blocks,
    nested blocks of `t`).  Moreover the continuation and the enclosing blocks of `t` are those of `s1` (LIFO). -/
theorem C07_block_restores (cfg : Cfg) (tops : List (Conv × Body)) (choices : List (Nat × Nat))
    (hws : ∀ p ∈ tops, P10.WellScoped p.2 0 0 = true) (htree : ∀ p ∈ tops, Spec.bodyShares p.2 = false)
    (hna : ∀ p ∈ tops, Spec.bodyHasNonAsync p.2 = false) (m n : Nat)
    (t : Nat) (old1 : Option Nat) (rest1 : List Ctl)
    (hctl1 : (stepN m (initState cfg tops choices)).ctl = .gen t old1 :: rest1)
    (hp1 : ((stepN m (initState cfg tops choices)).task t).pending = false) (c : CtxKind) (b k : Body)
    (hb1 : ((stepN m (initState cfg tops choices)).task t).body = .withCtx c b k)
    (hs : (step (stepN n (step (stepN m (initState cfg tops choices))))).stuck = none)
    (hg : (step (stepN n (step (stepN m (initState cfg tops choices))))).guardFired = false)
    (old2 : Option Nat) (rest2 : List Ctl)
    (hctl2 : (stepN n (step (stepN m (initState cfg tops choices)))).ctl = .gen t old2 :: rest2)
    (hp2 : ((stepN n (step (stepN m (initState cfg tops choices)))).task t).pending = false)
    (hb2 : ((stepN n (step (stepN m (initState cfg tops choices)))).task t).body = .endwith)
    (k2 : Body) (cs : List (Nat × Body))
    (hc2 : ((stepN n (step (stepN m (initState cfg tops choices)))).task t).conts =
      ((stepN m (initState cfg tops choices)).ctxs.length, k2) :: cs) :
    (∀ var, (step (stepN n (step (stepN m (initState cfg tops choices))))).svGet var =
      (stepN m (initState cfg tops choices)).svGet var) ∧
    k2 = k ∧ cs = ((stepN m (initState cfg tops choices)).task t).conts := by
  have hW0 : P4.ReachW cfg tops choices (initState cfg tops choices) :=
    reachW_of_reachFrom P13.ReachFrom.init hws
  have hW1 := reachW_stepN hW0 m
  have hrf : P13.ReachFrom (initState cfg tops choices)
      (step (stepN n (step (stepN m (initState cfg tops choices))))) :=
    P13.ReachFrom.step (C07c_reachFrom_stepN (P13.ReachFrom.step (C07c_reachFrom_stepN P13.ReachFrom.init m)) n)
  have hn := noNonAsync_of_static hrf hws hna hs hg
  exact block_restores hW1 (fun p hp => ns_of_shares (htree p hp)) hctl1 hp1 hb1 n hs hg hn hctl2 hp2 hb2 hc2

/-- two nested overrides of the same variable: outside 5, inside 7; the task is suspended on a batch item inside the
    inner block (its contexts are paused - variable 1 is 0 - and resumed) -/
def C07c_nest : Body :=
  .withCtx (.override 1 5)
    (.withCtx (.override 1 7)
      (.item 0 1 .ok (.yld (.f (.own 0)) (.read 1 .endwith) (.raise 0)))
      (.read 1 .endwith))
    (.read 1 (.ret 0))

def C07c_st (n : Nat) : State := stepN n (initState {} [(.value, C07c_nest)] [])

/-- state 5 is about to enter the inner block (context 1), with variable 1 = 5; state 16 = 10 steps after the entry is
    about to leave it, with variable 1 = 7; in between the variable was also 0 (state 12: the task is suspended);
    after the `endwith` step the variable is 5 again - not the default 0 -/
example : (C07c_st 5).ctl = [.gen 0 none, .waitLoop 0 0] ∧ ((C07c_st 5).task 0).pending = false ∧
    (C07c_st 5).ctxs.length = 1 ∧ (C07c_st 5).svGet 1 = 5 ∧ (C07c_st 12).svGet 1 = 0 ∧
    (match ((C07c_st 5).task 0).body with | .withCtx (.override 1 7) _ _ => true | _ => false) = true ∧
    (match ((C07c_st 16).task 0).body with | .endwith => true | _ => false) = true ∧
    ((C07c_st 16).task 0).conts.map (·.1) = [1, 0] ∧ (C07c_st 16).svGet 1 = 7 ∧ (C07c_st 17).svGet 1 = 5 ∧
    (C07c_st 17).stuck = none ∧ (C07c_st 17).guardFired = false := by decide

example : C07c_st 16 = stepN 10 (step (C07c_st 5)) ∧ C07c_st 17 = step (C07c_st 16) := ⟨rfl, rfl⟩

/-! ## the reference evaluator: examples -/

/-- a child that reads variable 1, blocks on a batch item, and reads again -/
def C07c_child : Body := .read 1 (.item 0 1 .ok (.yld (.f (.own 0)) (.read 1 (.ret 1)) (.raise 0)))

/-- two children are spawned INSIDE an override block; the first is awaited inside the block, the second after the
    block was left -/
def C07c_progA : Body :=
  .withCtx (.override 1 5)
    (.spawn C07c_child [] (.spawn C07c_child [] (.yld (.f (.own 0)) (.read 1 .endwith) (.read 1 .endwith))))
    (.read 1 (.yld (.f (.own 1)) (.read 1 (.ret 0)) (.raise 1)))

/-- the sequential log: the child awaited inside the block (path `[0]`) reads the override, the child awaited after
    the block (path `[1]`) reads the default although it was spawned inside the block -/
example : log {} C07c_progA =
    [([0], 1, 5), ([0], 1, 5), ([], 1, 5), ([], 1, 0), ([1], 1, 0), ([1], 1, 0), ([], 1, 0)] := by decide

def C07c_runA : State := runFuel 300 (initState {} [(.value, C07c_progA)] [])

/-- ... and so does the machine (futures 1 and 2 are the two children, future 0 the root); the hypotheses of the
    theorem hold for this run -/
example : C07c_runA.isDone = true ∧ C07c_runA.stuck = none ∧ C07c_runA.guardFired = false ∧
    roots C07c_runA.trace = [0] ∧ (C07c_runA.task 0).own = [1, 2] ∧
    mreads 1 C07c_runA.trace = (readsAt {} C07c_progA [0]).map rdVal ∧
    mreads 2 C07c_runA.trace = (readsAt {} C07c_progA [1]).map rdVal ∧
    mreads 0 C07c_runA.trace = (readsAt {} C07c_progA []).map rdVal ∧
    mreads 2 C07c_runA.trace = [(1, .a 0), (1, .a 0)] := by decide

/-- the sequential evaluation calls exactly the tasks at the paths `[]`, `[0]`, `[1]`; the own futures `[0, 0]` and
    `[1, 0]` are batch items -/
example : (taskAt {} C07c_progA [] [] [0]).isSome = true ∧ (taskAt {} C07c_progA [] [] [1]).isSome = true ∧
    (taskAt {} C07c_progA [] [] [2]).isSome = false ∧ (taskAt {} C07c_progA [] [] [0, 0]).isSome = false := by decide

example : P10.WellScoped C07c_progA 0 0 = true ∧ Spec.bodyShares C07c_progA = false ∧
    Spec.bodyHasNonAsync C07c_progA = false := by decide

/-- the theorem applied to the second child (creation path `[1]`) -/
example : (mreads 2 C07c_runA.trace = [] ∧ C07c_runA.computed 2 = false ∧ (C07c_runA.task 2).started = false) ∨
    ∃ b inh E, CalledAt {} C07c_progA [] [] [1] b inh E ∧
      mreads 2 C07c_runA.trace <+: (reads (acts {} b inh E)).map rdVal ∧
      (C07c_runA.computed 2 = true → mreads 2 C07c_runA.trace = (reads (acts {} b inh E)).map rdVal) :=
  C07_reads_sequential_run {} [(.value, C07c_progA)] [] 300 (by intro p hp; simp at hp; subst hp; decide)
    (by intro p hp; simp at hp; subst hp; decide) (by intro p hp; simp at hp; subst hp; decide) (by decide) (by decide)
    0 0 (by decide) .value C07c_progA rfl [1] 2
    (IsPath.step (π := []) (i := 1) IsPath.root (by decide) (by decide)) (by decide)

/-! ## the hypotheses are needed -/

/-- tree shape: `X` is handed to `Y`, which awaits it inside its override: the machine runs `X` in the dynamic extent
    of `Y` (it reads 11 twice), the reference - a callee belongs to its creator - never runs it -/
def C07c_X : Body := .read 1 (.item 0 1 .ok (.yld (.f (.own 0)) (.read 1 (.ret 9)) (.raise 0)))
def C07c_Y : Body := .withCtx (.override 1 11) (.yld (.f (.inh 0)) (.read 1 .endwith) (.raise 0)) (.ret 1)
def C07c_shared : Body := .spawn C07c_X [] (.spawn C07c_Y [.own 0] (.yld (.f (.own 1)) (.read 1 (.ret 0)) (.raise 1)))

example : let s := runFuel 300 (initState {} [(.value, C07c_shared)] [])
    s.isDone = true ∧ s.stuck = none ∧ s.guardFired = false ∧ P10.WellScoped C07c_shared 0 0 = true ∧
    Spec.bodyHasNonAsync C07c_shared = false ∧ Spec.bodyShares C07c_shared = true ∧
    (s.task 0).own = [1, 2] ∧ mreads 1 s.trace = [(1, .a 11), (1, .a 11)] ∧ readsAt {} C07c_shared [0] = [] := by decide

/-- the stack guard: with `MAX_TASK_STACK_SIZE = 1` the guard resets the scheduler while the override of the first
    computation is resumed; the root of the SECOND computation (future 2) reads 5, sequentially it reads 0 -/
def C07c_guardP : Body :=
  .withCtx (.override 1 5)
    (.spawn (.read 1 (.ret 1)) [] (.yld (.f (.own 0)) (.read 1 .endwith) (.read 1 .endwith)))
    (.read 1 (.ret 0))
def C07c_after : Body := .read 1 (.ret 7)

example : let s := runFuel 200 (initState { maxStack := 1 } [(.value, C07c_guardP), (.value, C07c_after)] [])
    s.isDone = true ∧ s.stuck = none ∧ s.guardFired = true ∧ roots s.trace = [0, 2] ∧
    mreads 2 s.trace = [(1, .a 5)] ∧ readsAt { maxStack := 1 } C07c_after [] = [(1, 0)] := by decide

/-- NonAsyncContext: the child is suspended inside a NonAsyncContext, `pause()` raises, the task is finished (failed)
    without having executed a single read; sequentially it reads three times -/
def C07c_naChild : Body :=
  .withCtx (.override 1 9)
    (.withCtx .nonasync (.item 0 1 .ok (.yld (.f (.own 0)) (.read 1 .endwith) (.read 1 .endwith))) (.read 1 .endwith))
    (.read 1 (.ret 1))
def C07c_na : Body :=
  .spawn C07c_naChild [] (.item 0 2 .ok (.yld (.tup [.f (.own 0), .f (.own 1)]) (.read 1 (.ret 0)) (.read 1 (.ret 1))))

example : let s := runFuel 400 (initState {} [(.value, C07c_na)] [])
    s.isDone = true ∧ s.stuck = none ∧ s.guardFired = false ∧ Spec.bodyShares C07c_na = false ∧
    Spec.bodyHasNonAsync C07c_na = true ∧ s.computed 1 = true ∧ mreads 1 s.trace = [] ∧
    readsAt {} C07c_na [0] = [(1, 9), (1, 9), (1, 0)] := by decide

end AsynqModel.Core
