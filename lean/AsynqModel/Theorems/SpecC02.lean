import AsynqModel.Proofs.P14Exact
import AsynqModel.Theorems.C01
import AsynqModel.Theorems.C02
import AsynqModel.Theorems.C03
/-!
# SPECM for C01 / C02: the delivery observer accepts every trace of the machine

The checks judge the trace of the real scheduler with the executable observer `Spec.checkDelivery`
(`Spec.spec "C02"`; property C01 uses the same observer plus the scoped-read clause, which is not covered here).
The driver also evaluates the observer on the trace of the model (SPECM).  These theorems say that SPECM can never
report a violation: on every trace the machine can produce, the observer finds

* (a) for every `run t i dc (out o)` event the entry `lastYield t = (i-1, y)`, `dc = true`, and `o` equal to
  `unwrap` of `y` under the outcomes it has collected from the earlier `done` / `new const` / `new errfut` events;
* (b) for every `ret o` event, `o = evalTop cfg body` for the computation announced by the last `top` event;
* (c) no `bad` event.

(a) and (c) hold for every reachable state of every program (`Spec_C02_accepts_delivery`, `Spec_C02_only_ret`,
`Spec_C02_no_bad`); (b) needs what `C01_result` needs: a well-scoped program, the stack guard has not fired, no
NonAsyncContext was created (`Spec_C02_accepts`).  No `s.stuck = none` hypothesis is needed: a stuck state repeats
the trace of the last non-stuck one.

The proof is a simulation between the observer's state and the machine state (`P14.K`, `P14.KC`, exposed by
`Spec_C02_watch_agrees`), preserved by the events of every step.
-/
namespace AsynqModel.Core
open P14

/-- **SPECM = none for C02** (clauses (a), (b), (c)): the observer of property C02 accepts the trace of every state
    of a well-scoped run in which the stack guard has not fired and no NonAsyncContext was created. -/
theorem Spec_C02_accepts {cfg : Cfg} {tops : List (Conv × Body)} {choices : List (Nat × Nat)} (s : State)
    (h : P4.ReachW cfg tops choices s) (hg : s.guardFired = false) (hn : Inv.noNonAsync s = true) :
    Spec.spec "C02" (Spec.mkCtx cfg tops) s.trace.reverse = none :=
  (spec_C02_iff _ _).2 (K_reachW h hg hn).ok

/-- clauses (a) and (c) for **every** reachable state of **every** program (ill-scoped, guard fired, NonAsyncContext:
    all allowed) and every observer context: the delivery observer without its `.ret` clause accepts the trace. -/
theorem Spec_C02_accepts_delivery (c : Spec.Ctx) (s : State) (h : Reach s) :
    Spec.specRun P14.checkDeliveryNoRet c {} 0 s.trace.reverse = none :=
  (specRun_noRet_iff _ _).2 (K_reach c h).ok

/-- the same in terms of the executable `Spec.spec "C02"`: whatever it reports on a trace of the machine is one of the
    two messages of the `.ret` clause - never a delivery clause, never `unknown-event` -/
theorem Spec_C02_only_ret (c : Spec.Ctx) (s : State) (h : Reach s) (i : Nat) (msg : String)
    (hv : Spec.spec "C02" c s.trace.reverse = some (i, msg)) :
    msg = "result-differs-from-sequential" ∨ msg = "ret-without-top" := by
  unfold Spec.spec at hv
  rw [checkOf_C02] at hv
  exact only_ret c _ _ _ (Spec_C02_accepts_delivery c s h) i msg hv

/-- clause (c) on its own: the machine never emits an event outside the vocabulary -/
theorem Spec_C02_no_bad (s : State) (h : Reach s) (m : String) : Event.bad m ∉ s.trace := by
  intro hm
  obtain ⟨tr', hc⟩ := okTr_mem (K_reach default h).ok hm
  cases hc

/-- the simulation relation behind the theorems, for every reachable state: after reading the whole trace the
    observer's table of outcomes is exactly the machine's (`done` events are emitted by `complete`, constant futures are
    computed at creation, outcomes are written once), and for every started task that is suspended at a yield its
    `lastYield` entry is the task's resume counter and `_last_value` -/
theorem Spec_C02_watch_agrees (s : State) (h : Reach s) :
    (∀ f, (s.trace.reverse.foldl Spec.watchEvent {}).out f = s.out f) ∧
    (∀ t, (s.task t).pending = true → (s.task t).started = true → s.out t = none →
      (s.trace.reverse.foldl Spec.watchEvent {}).lastYield.lookup t = some ((s.task t).resumes, (s.task t).lastY)) := by
  rw [← wOf_eq_foldl]
  exact ⟨watch_out_eq h, (K_reach default h).ly⟩

/-! ### non-vacuity -/

/-- the observer rejects a hand-made trace in which a task receives a value different from what it yielded
    (it yielded the constant future 1 = 7 and is sent 8) ... -/
example : Spec.spec "C02" (Spec.mkCtx {} [(.value, exProg1)])
    [.top 0 .value, .new 0 (.task none), .run 0 0 true .start, .new 1 (.const 7), .yield 0 0 (.f 1),
     .run 0 1 true (.out (.ok (.a 8)))] = some (5, "wrong-value-delivered") := by decide
/-- ... a wrong exception, a resume before the awaited futures are done, a resume without a yield, ... -/
example : Spec.spec "C02" (Spec.mkCtx {} [(.value, exProg1)])
    [.top 0 .value, .new 0 (.task none), .run 0 0 true .start, .new 1 (.errfut 3), .yield 0 0 (.f 1),
     .run 0 1 true (.out (.err (.u 4)))] = some (5, "wrong-exception-delivered") := by decide
example : Spec.spec "C02" (Spec.mkCtx {} [(.value, exProg1)])
    [.top 0 .value, .new 0 (.task none), .run 0 0 true .start, .new 1 (.const 7), .yield 0 0 (.f 1),
     .run 0 1 false (.out (.ok (.a 7)))] = some (5, "delivered-before-siblings-finished") := by decide
example : Spec.spec "C02" (Spec.mkCtx {} [(.value, exProg1)])
    [.top 0 .value, .new 0 (.task none), .run 0 0 true .start, .run 0 1 true (.out (.ok .none))] =
    some (3, "resume-without-yield") := by decide
/-- ... a result that differs from sequential evaluation, and an event outside the vocabulary -/
example : Spec.spec "C02" (Spec.mkCtx {} [(.value, exProg1)])
    [.top 0 .value, .new 0 (.task none), .run 0 0 true .start, .new 1 (.const 7), .yield 0 0 (.f 1),
     .run 0 1 true (.out (.ok (.a 7))), .done 0 (.ok (.node 1 [.a 7])), .ret (.ok (.node 1 [.a 8]))] =
    some (7, "result-differs-from-sequential") := by decide
example : Spec.spec "C02" (Spec.mkCtx {} [(.value, exProg1)]) [.top 0 .value, .bad "x"] = some (1, "unknown-event") := by
  decide

/-- it accepts the traces of concrete runs (as `Spec_C02_accepts` says): a value, the first error of a tuple, a batch
    item, and the DAG-shaped example of C01 under two flush orders (two computations, `.value` and `.call`) -/
example : Spec.spec "C02" (Spec.mkCtx {} [(.value, exProg1)])
    (runFuel 30 (initState {} [(.value, exProg1)] [])).trace.reverse = none := by decide
example : Spec.spec "C02" (Spec.mkCtx {} [(.value, exProg2)])
    (runFuel 40 (initState {} [(.value, exProg2)] [])).trace.reverse = none := by decide
example : Spec.spec "C02" (Spec.mkCtx {} [(.value, exProg4)])
    (runFuel 60 (initState {} [(.value, exProg4)] [])).trace.reverse = none := by decide
example : Spec.spec "C02" (Spec.mkCtx {} C01_exTops) (C01_exRun []).trace.reverse = none :=
  Spec_C02_accepts _ (C01_exReach []) (by decide) (by decide)
example : Spec.spec "C02" (Spec.mkCtx {} C01_exTops) (C01_exRun [(1, 0), (2, 0)]).trace.reverse = none :=
  Spec_C02_accepts _ (C01_exReach _) (by decide) (by decide)

/-- the events the clauses talk about occur in these traces: resumes with a value and with an error, results -/
example : Event.run 0 1 true (.out (.ok (.a 7))) ∈ (runFuel 30 (initState {} [(.value, exProg1)] [])).trace ∧
    Event.ret (.ok (.node 1 [.a 7])) ∈ (runFuel 30 (initState {} [(.value, exProg1)] [])).trace := by decide
example : Event.run 0 1 true (.out (.err (.u 5))) ∈ (C01_exRun []).trace := by decide
example : P4.results (C01_exRun []).trace =
    [(1, .call, evalTop {} C01_exProg), (0, .value, evalTop {} C01_exProg)] := by rfl

/-- the run of `exProg1` is finished, not stuck, and the final observer table holds the machine's outcomes -/
example : (runFuel 30 (initState {} [(.value, exProg1)] [])).isDone = true ∧
    (runFuel 30 (initState {} [(.value, exProg1)] [])).stuck = none ∧
    (P14.wOf (runFuel 30 (initState {} [(.value, exProg1)] [])).trace).outs =
      [(0, .ok (.node 1 [.a 7])), (1, .ok (.a 7))] := by decide

/-- the hypotheses of `Spec_C02_accepts` about the program cannot be dropped: for the ill-scoped program of
    `C01_agree_needs_scoping` the observer reports the `.ret` clause on the machine's own trace (in accordance with
    `Spec_C02_only_ret`) -/
example : Spec.spec "C02" (Spec.mkCtx {} C01_badTops) (runFuel 300 (initState {} C01_badTops [])).trace.reverse =
    some (18, "result-differs-from-sequential") := by decide

end AsynqModel.Core
