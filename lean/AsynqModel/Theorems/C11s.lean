import AsynqModel.Lib.BatchServices
import AsynqModel.Proofs.Batching9
/-!
# C11 for several services, free-standing batches and a debug option switched in mid-flight

`AsynqModel.Lib.BatchServices` interleaves the histories of several services (harness subclasses of BatchBase and
built-in DebugBatches under different names - any dictionary key -, possibly on different threads), lets the client
construct batch objects that do not hold the active slot (`newBatch`), and lets KEEP_DEPENDENCIES change between two
operations (`setKeep`).  The theorems say that the observer `watchM` / `specM` - the single-service statement of C11
(`specStep`) applied to every service against the snapshot its own previous observation left - accepts every such
history of the model, for all service lists, all script tables and all interleavings.
-/
namespace AsynqModel.Batching

@[simp] theorem addBatch_active (s : St) : s.addBatch.active = s.active := rfl
@[simp] theorem addBatch_kind (s : St) : s.addBatch.kind = s.kind := rfl
@[simp] theorem addBatch_keep (s : St) : s.addBatch.keep = s.keep := rfl
@[simp] theorem addBatch_items (s : St) : s.addBatch.items = s.items := rfl
@[simp] theorem addBatch_len (s : St) : s.addBatch.batches.length = s.batches.length + 1 := by
  show s.pushBatch.batches.length = _
  simp
@[simp] theorem addBatch_bout (s : St) (c : Nat) : s.addBatch.bout c = s.bout c := by
  show s.pushBatch.bout c = _
  simp
@[simp] theorem addBatch_bitems (s : St) (c : Nat) : s.addBatch.bitems c = s.bitems c := by
  show s.pushBatch.bitems c = _
  simp
@[simp] theorem addBatch_runs (s : St) (c : Nat) : s.addBatch.runs c = s.runs c := by
  show s.pushBatch.runs c = _
  simp
@[simp] theorem addBatch_iout (s : St) (i : Nat) : s.addBatch.iout i = s.iout i := rfl
@[simp] theorem addBatch_ibatch (s : St) (i : Nat) : s.addBatch.ibatch i = s.ibatch i := rfl

theorem bitems_out_of_range (s : St) (b : Nat) (h : s.batches.length ≤ b) : s.bitems b = [] := by
  simp [St.bitems, List.getElem?_eq_none_iff.mpr h]
theorem runs_out_of_range (s : St) (b : Nat) (h : s.batches.length ≤ b) : s.runs b = 0 := by
  simp [St.runs, List.getElem?_eq_none_iff.mpr h]

/-- **a free-standing batch keeps the invariant**: after the client has constructed a batch object directly, the
    active batch is the same pending batch as before, the new batch is pending and empty, its body has not run, and
    every item is where it was -/
theorem C11_free_batch_good (s : St) (hg : Good s) : Good s.addBatch := by
  obtain ⟨h1, h2, h3, h4⟩ := hg
  refine ⟨by simp; omega, by simpa using h2, fun i hi => ?_, fun b hb => ?_⟩
  · have ⟨a, b, c⟩ := h3 i (by simpa using hi)
    exact ⟨by simp; omega, by simpa using b, by simpa using c⟩
  · by_cases hlt : b < s.batches.length
    · simpa using h4 b hlt
    · have hge : s.batches.length ≤ b := Nat.le_of_not_lt hlt
      simp [bitems_out_of_range s b hge, runs_out_of_range s b hge]

/-- **switching KEEP_DEPENDENCIES keeps the invariant** (it does not mention the option) -/
theorem C11_keep_switch_good (s : St) (k : Bool) (hg : Good s) : Good (s.withKeep k) := hg

def AllGood (sts : List St) : Prop := ∀ s, s ∈ sts → Good s

theorem allGood_set {sts : List St} {v : Nat} {t : St} (h : AllGood sts) (ht : Good t) : AllGood (sts.set v t) := by
  intro s hs
  rcases List.mem_or_eq_of_mem_set hs with h1 | h1
  · exact h s h1
  · exact h1 ▸ ht

theorem allGood_withKeep {sts : List St} (k : Bool) (h : AllGood sts) : AllGood (sts.map (·.withKeep k)) := by
  intro s hs
  obtain ⟨t, ht, rfl⟩ := List.mem_map.mp hs
  exact C11_keep_switch_good t k (h t ht)

theorem allGood_initM (kinds : List Kind) (keep : Bool) : AllGood (initM kinds keep) := by
  intro s hs
  obtain ⟨k, _, rfl⟩ := List.mem_map.mp hs
  exact good_init k keep

/-- **the inductive step for interleaved histories**: whatever the snapshots of the services (inside the invariant)
    and whatever comes next - an operation on any service, a free-standing batch, a switch of the option - the
    invariant holds again for every service afterwards -/
theorem C11_services_step (scriptss : List (List Script)) (sts : List St) (hg : AllGood sts) (m : MOp) :
    AllGood (stepM scriptss sts m).1 := by
  cases m with
  | op v o =>
    simp only [stepM]
    cases e : sts[v]? with
    | none => exact hg
    | some s =>
      have hs : Good s := hg s (List.mem_of_getElem? e)
      exact allGood_set hg (good_of_specStep (step_ok (rx := false) _ s hs o))
  | newBatch v =>
    simp only [stepM]
    cases e : sts[v]? with
    | none => exact hg
    | some s => exact allGood_set hg (C11_free_batch_good s (hg s (List.mem_of_getElem? e)))
  | setKeep k => exact allGood_withKeep k hg

theorem watchM_ok (scriptss : List (List Script)) (ms : List MOp) :
    ∀ sts, AllGood sts → watchM sts (runM scriptss sts ms) = none := by
  induction ms with
  | nil => intro sts _; rfl
  | cons m ms ih =>
    intro sts hg
    have hnext := C11_services_step scriptss sts hg m
    cases m with
    | op v o =>
      simp only [runM, stepM] at hnext ⊢
      cases e : sts[v]? with
      | none =>
        simp only [e] at hnext ⊢
        simp only [watchM]
        exact ih sts hg
      | some s =>
        simp only [e] at hnext ⊢
        have hs : Good s := hg s (List.mem_of_getElem? e)
        have h := step_ok (rx := false) (scriptss.getD v []) s hs o
        simp only [watchM, e, h]
        exact ih _ hnext
    | newBatch v =>
      simp only [runM, stepM] at hnext ⊢
      cases e : sts[v]? with
      | none =>
        simp only [e] at hnext ⊢
        simp only [watchM]
        exact ih sts hg
      | some s =>
        simp only [e] at hnext ⊢
        simp only [watchM, e, ne_eq, not_true_eq_false, if_false]
        exact ih _ hnext
    | setKeep k =>
      simp only [runM, stepM] at hnext ⊢
      simp only [watchM]
      exact ih _ hnext

/-- **C11 for several services as a whole**: for every list of services (harness subclass / DebugBatch, in any mix),
    both initial settings of KEEP_DEPENDENCIES, all flush scripts of every service and every interleaved history -
    operations on any service, free-standing batch objects, switches of the option in mid-flight - the observations of
    the model are accepted by the observer `specM`, the function the check evaluates on the implementation's
    observations. -/
theorem C11_services_spec_holds (kinds : List Kind) (keep : Bool) (scriptss : List (List Script)) (ms : List MOp) :
    specM kinds keep (runM scriptss (initM kinds keep) ms) = true := by
  simp [specM, watchM_ok scriptss ms (initM kinds keep) (allGood_initM kinds keep)]

/-- **no item left pending, in any service**: every reachable tuple of snapshots is inside the invariant -/
theorem C11_services_no_item_left_pending (kinds : List Kind) (keep : Bool) (scriptss : List (List Script))
    (ms : List MOp) : AllGood (finalM scriptss (initM kinds keep) ms) := by
  suffices h : ∀ sts, AllGood sts → AllGood (finalM scriptss sts ms) from h _ (allGood_initM kinds keep)
  induction ms with
  | nil => intro sts h; exact h
  | cons m ms ih => intro sts h; exact ih _ (C11_services_step scriptss sts h m)

/-- **services do not interfere**: an operation on service v (or a batch object constructed for it) leaves the
    snapshot of every other service exactly as it was -/
theorem C11_services_independent (scriptss : List (List Script)) (sts : List St) (v w : Nat) (hvw : v ≠ w) (o : Op) :
    (stepM scriptss sts (.op v o)).1[w]? = sts[w]? ∧ (stepM scriptss sts (.newBatch v)).1[w]? = sts[w]? := by
  constructor
  · simp only [stepM]
    cases e : sts[v]? with
    | none => rfl
    | some s => simp [List.getElem?_set_ne hvw]
  · simp only [stepM]
    cases e : sts[v]? with
    | none => rfl
    | some s => simp [List.getElem?_set_ne hvw]

/-- **a free-standing batch is an ordinary batch**: with the invariant, every per-operation theorem of
    `Theorems/C11.lean` applies to the snapshot after `newBatch`; in particular flushing it (or cancelling it) finishes
    it and does NOT create a fresh batch, because it does not hold the slot: the active batch and the number of batches
    stay -/
theorem C11_free_batch_keeps_slot (scripts : List Script) (s : St) (hg : Good s) (x : Option Nat) :
    let s1 := s.addBatch
    let b := s.batches.length
    ((step scripts s1 (.flush b)).1.bout b).isSome ∧ (step scripts s1 (.flush b)).1.active = s.active ∧
    (step scripts s1 (.flush b)).1.batches.length = s.batches.length + 1 ∧
    (step scripts s1 (.cancel b x)).1.bout b = some (.err (errOfCancel x)) ∧
    (step scripts s1 (.cancel b x)).1.active = s.active ∧
    (step scripts s1 (.cancel b x)).1.batches.length = s.batches.length + 1 := by
  intro s1 b
  have hg1 : Good s1 := C11_free_batch_good s hg
  have hb : b < s1.batches.length := by simp [s1, b]
  have hp : s1.bout b = none := by
    show s.addBatch.bout s.batches.length = none
    rw [addBatch_bout]
    simp [St.bout]
  have hne : ¬ (some b = some s1.active) := by
    have := hg.1
    simp [s1, b]; omega
  have hslot : ∀ post : St, slotOk s1 post (some b) = true →
      post.active = s.active ∧ post.batches.length = s.batches.length + 1 := by
    intro post h
    simp only [slotOk, hne, if_false, Bool.and_eq_true, beq_iff_eq] at h
    exact ⟨by simpa [s1] using h.2, by simpa [s1] using h.1⟩
  have ⟨_, h2, _⟩ := specStep_unpack (step_ok (rx := false) scripts s1 hg1 (.flush b))
  have f := flushedOk_of_fateClause h2 (fate_flush hb hp)
  have ⟨_, h2c, _⟩ := specStep_unpack (step_ok (rx := false) scripts s1 hg1 (.cancel b x))
  have c := cancelledOk_of_fateClause h2c
    (show fate s1 (.cancel b x) = .cancelled b (errOfCancel x) by simp [fate, St.pendingBatch, hb, hp])
  exact ⟨f.finished, (hslot _ f.slot).1, (hslot _ f.slot).2, c.outcome, (hslot _ c.slot).1, (hslot _ c.slot).2⟩

/-! ## non-vacuity -/

/-- two services (a harness subclass and a DebugBatch) interleaved, a free-standing batch of service 0 that gets an
    item and is flushed while the active batch stays, and KEEP_DEPENDENCIES switched on between `add` and `flush` -/
def demoM : List MOp :=
  [.op 0 (.add 1 none none), .op 1 (.add 2 none none), .newBatch 0, .op 0 (.addTo 1 5), .setKeep true,
   .op 0 (.flush 1), .op 1 (.flush 0), .setKeep false, .op 0 (.flush 0), .op 0 (.isEmpty 0), .op 0 (.isEmpty 1),
   .op 1 (.isEmpty 0), .op 0 (.add 3 none none), .op 1 (.itemValue 0)]

example : specM [.user, .debug] false (runM [[[.setAll], [.setAll]], []] (initM [.user, .debug] false) demoM) = true := by
  decide

/-- the free-standing batch 1 of service 0 is flushed under KEEP_DEPENDENCIES (items kept, slot kept: still batch 0);
    batch 0 of service 0 is flushed after the option was switched off again (items cleared, fresh batch 2) -/
example : ((finalM [[[.setAll], [.setAll]], []] (initM [.user, .debug] false) demoM)[0]?).map
    (fun s => (s.active, s.batches.map (·.items), s.batches.map (·.out), s.keep)) =
    some (2, [[], [1], [2]], [some (.val 0), some (.val 0), none], false) := by decide

/-- the observer rejects a free-standing batch that takes the slot ... -/
example : specMClause [.user] false [.newBatch 0 [] (init .user).pushBatch] = "new-batch-keeps-slot@newBatch" := by decide

/-- ... an operation on one service that flushes the batch of another one (seen at the other's next observation) ... -/
example : specMClause [.debug, .debug] false
    [.op 0 ⟨.add 1 none none, .created 0, [.created 0 0 none],
        { kind := .debug, active := 0, batches := [⟨none, [0], 0⟩], items := [⟨0, 1, none, none, none⟩] }⟩,
     .op 1 ⟨.flush 0, .unit, [.announce 0 [] 1],
        { kind := .debug, active := 1, batches := [⟨some (.val 0), [], 0⟩, ⟨none, [], 0⟩], items := [] }⟩,
     .op 0 ⟨.isFlushed 0, .bool true, [],
        { kind := .debug, active := 1, batches := [⟨some (.val 0), [], 0⟩, ⟨none, [], 0⟩],
          items := [⟨0, 1, none, none, some (.val 1)⟩] }⟩] = "query@isFlushed" := by decide

/-- ... a DebugBatch that is still registered as the active batch of its name while it is flushed (what a lookup under
    a different key than the one the batch was registered under does): the request issued by the item's handler joins
    the batch being flushed, which is finished by then ... -/
example : specMClause [.debug] false
    [.op 0 ⟨.add 1 (some 4) none, .created 0, [.created 0 0 none],
        { kind := .debug, active := 0, batches := [⟨none, [0], 0⟩], items := [⟨0, 1, some 4, none, none⟩] }⟩,
     .op 0 ⟨.flush 0, .unit, [.item 0 (.val 1) false, .created 1 0 (some 0), .item 1 (.val 4) false, .announce 0 [] 0],
        { kind := .debug, active := 0, batches := [⟨some (.val 0), [], 0⟩],
          items := [⟨0, 1, some 4, none, some (.val 1)⟩, ⟨0, 4, none, none, some (.val 4)⟩] }⟩]
    = "no-add-after-finish@flush" := by decide

/-- ... flushing a free-standing DebugBatch 1 that completes, with its `_result`, item 0 of the still pending ACTIVE
    batch 0 (second audit, M1) ... -/
example : specMClause [.debug] false
  [.op 0 ⟨.add 1 none none, .created 0, [.created 0 0 none],
      { kind := .debug, active := 0, batches := [⟨none, [0], 0⟩], items := [⟨0, 1, none, none, none⟩] }⟩,
   .newBatch 0 [] { kind := .debug, active := 0, batches := [⟨none, [0], 0⟩, ⟨none, [], 0⟩], items := [⟨0, 1, none, none, none⟩] },
   .op 0 ⟨.flush 1, .unit, [.item 0 (.val 1) false, .announce 1 [] 0],
     { kind := .debug, active := 0, batches := [⟨none, [0], 0⟩, ⟨some (.val 0), [], 0⟩],
       items := [⟨0, 1, none, none, some (.val 1)⟩] }⟩] = "item-of-other-batch@flush" := by decide

/-- ... and a flush that uses the setting KEEP_DEPENDENCIES had when the batch was created, not the current one -/
example : specMClause [.user] false
    [.op 0 ⟨.add 1 none none, .created 0, [.created 0 0 none],
        { kind := .user, active := 0, batches := [⟨none, [0], 0⟩], items := [⟨0, 1, none, none, none⟩] }⟩,
     .setKeep true,
     .op 0 ⟨.flush 0, .unit, [.body 0 1, .bodyEnd 0 none none, .item 0 (.err .notSet) false, .announce 0 [] 1],
        { kind := .user, keep := true, active := 1, batches := [⟨some (.val 0), [], 1⟩, ⟨none, [], 0⟩],
          items := [⟨0, 1, none, none, some (.err .notSet)⟩] }⟩] = "keep-dependencies@flush" := by decide

end AsynqModel.Batching
