import AsynqModel.Proofs.P28Hooks
import AsynqModel.Theorems.C06c
/-!
  Theorems about the context-history model WITH hook-issued operations and revisits (Lib/ContextsHooks.lean; second audit of
  the core, item 12).  The model is tied to the real library by harness/checks/ctxhist.py (cases with a "hooks" field: real
  AsyncContext subclasses whose resume() / pause() call `member.__enter__()` / `member.__exit__()`, tasks suspended on several
  real batches at once), replayed by driver mode `ctxhist` with a `(hooks ...)` header (Drv/Contexts.lean `handleH`).
-/
namespace AsynqModel.Contexts
open AsynqModel.Core.P28

/-- **C06h_reduces_to_plain**: without hook actions (`hd = []`, or all scripts empty) and without `revisit`, the extended model
    IS the plain model of Lib/Contexts.lean: same observations, same final state, for every configuration, state and history.
    (So every C06c theorem about `run` is a theorem about `runH`.) -/
theorem C06h_reduces_to_plain (cfg : Cfg) (defs : List Kind) (hd : HDefs) (h : ∀ c, hdefOf hd c = {}) (ops : List Op) :
    ∀ s : St, runH cfg defs hd s (ops.map .base) = (run cfg defs s ops).map Obs.toH ∧
      finalStateH cfg defs hd s (ops.map .base) = finalState cfg defs s ops := by
  induction ops with
  | nil => intro s; exact ⟨rfl, rfl⟩
  | cons op rest ih =>
    intro s
    have hs : stepH cfg defs hd s (.base op) = ((step cfg defs s op).1, (step cfg defs s op).2.toH) := by
      unfold stepH step
      rw [stepCoreH_plain cfg defs hd h]
      rfl
    simp only [List.map_cons, runH, run, finalStateH, finalState, hs]
    exact ⟨by rw [(ih _).1], (ih _).2⟩

theorem C06h_reduces_to_plain_nil (cfg : Cfg) (defs : List Kind) (s : St) (ops : List Op) :
    runH cfg defs [] s (ops.map .base) = (run cfg defs s ops).map Obs.toH :=
  (C06h_reduces_to_plain cfg defs [] noHooks_nil ops s).1

/-- **C06h_hook_enter_registered**: what a hook-issued `member.__enter__()` registers depends on WHO calls the hook.
    (a) a hook called by the scheduler (suspension, continuation, revisit: no task is active, in the model `phase ≠ running`)
        registers NOTHING with the task: the member is resumed, but the task will not pause it - only the hook that entered
        it can leave it;
    (b) a hook called from `c.__enter__()` / `c.__exit__()` of the RUNNING body registers the member with the task (if its
        `__enter__` succeeds): from then on the task itself pauses and resumes it. -/
theorem C06h_hook_enter_registered (cfg : Cfg) (defs : List Kind) (s : St) (m : Nat) :
    (s.phase ≠ .running → (memberOp cfg defs s (.enter m)).1.reg = s.reg) ∧
    (s.phase = .running → m < defs.length → (memberOp cfg defs s (.enter m)).2.2 = none →
      m ∈ (memberOp cfg defs s (.enter m)).1.reg) := by
  constructor
  · intro hp
    unfold memberOp
    simp only []
    split
    · exact (enterOp_reg_phase cfg defs s m hp).1
    · rfl
  · intro hp hm hnone
    have h1 : m ∈ (enterS1 s m).reg := by
      simp only [enterS1, hp, beq_self_eq_true, Bool.true_and]
      by_cases hc : m ∈ s.reg
      · simp [hc]
      · simp [hc]
    have e1 : (memberOp cfg defs s (.enter m)).1 = (enterOp cfg defs s m).1 := by simp [memberOp, hm]
    have e2 : (memberOp cfg defs s (.enter m)).2.2 = escToOpt (enterOp cfg defs s m).2.2 := by simp [memberOp, hm]
    rw [e2] at hnone
    rw [e1]
    unfold enterOp at hnone ⊢
    split
    · exact h1
    · rename_i hasync
      rw [if_neg hasync] at hnone
      have hr := resumeCtx_reg defs (enterS1 s m) m
      generalize resumeCtx defs (enterS1 s m) m = r at hr hnone
      obtain ⟨s2, calls, e⟩ := r
      simp only [] at hr
      cases e with
      | none => simp only [afterResume]; rw [hr]; exact h1
      | some x =>
        exfalso
        have hx : (afterResume cfg (s.phase == Phase.running) (s2, calls, some x) m).2.2 = .exc x := by
          simp only [afterResume]; split <;> rfl
        rw [hx] at hnone
        simp [escToOpt] at hnone

/-- a scheduler operation (suspend / continue / revisit) never lets anything out: what it reports is `none` or `skip` -/
theorem C06h_sched_esc (cfg : Cfg) (defs : List Kind) (hd : HDefs) (s : St) (op : HOp) (hop : isSchedOpH op = true) :
    (stepCoreH cfg defs hd s op).2.2 = .none ∨ (stepCoreH cfg defs hd s op).2.2 = .skip := by
  cases op with
  | revisit =>
    simp only [stepCoreH]
    by_cases hph : (s.phase != .suspended) = true
    · rw [if_pos hph]; exact Or.inr rfl
    · rw [if_neg hph]
      generalize resumeContextsH cfg defs hd s = r
      obtain ⟨s1, c1⟩ := r
      simp only []
      by_cases hst : (s1.status != .none) = true
      · rw [if_pos hst]; exact Or.inl rfl
      · rw [if_neg hst]; exact Or.inl rfl
  | base bop =>
    cases bop with
    | enter c => simp [isSchedOpH] at hop
    | exit c => simp [isSchedOpH] at hop
    | finish ok => simp [isSchedOpH] at hop
    | suspend =>
      simp only [stepCoreH]
      by_cases hph : (s.phase != .running) = true
      · rw [if_pos hph]; exact Or.inr rfl
      · rw [if_neg hph]; exact Or.inl rfl
    | continue_ =>
      simp only [stepCoreH]
      by_cases hph : (s.phase != .suspended) = true
      · rw [if_pos hph]; exact Or.inr rfl
      · rw [if_neg hph]; exact Or.inl rfl

/-- **C06h_no_crash**: IN THE MANUAL-BLOCK MODEL (every block of the task is operated by hand: `c.__enter__()` /
    `c.__exit__(None, None, None)` calls, no `with` statement of the generator is open when the task is failed, so failing it
    - `acceptError` - only stores the outcome) no suspension, continuation or revisit ever lets an exception out of the
    scheduler - WHATEVER the hooks do (enter or leave anything from resume() and from pause(), raise), for every set of hook
    scripts, every history, from every state.  This is NOT a statement about tasks with real with-blocks: there two raising
    hooks DO let an error out of the real library (`generator.close()` runs the `__exit__`s, what they raise escapes from
    `AsyncTask._computed`): `C06w_close_escape_counterexample` (Theorems/C06w.lean, Lib/ContextsWith.lean), the OPEN C08
    finding `fail:hook-error-escapes-scheduler@continue`.  Both loops walk over a copy of the task's contexts and keep every hook's exception to themselves (the
    first one of a resume loop / the last one of a pause loop becomes the task's failure).  Before /repo commit 28d2b07 this
    needed the hypothesis `noExitOnResume hd` (the resume loop walked over the live dict: `C06h_resume_walks_copy`). -/
theorem C06h_no_crash (cfg : Cfg) (defs : List Kind) (hd : HDefs) (ops : List HOp) :
    ∀ s : St, specH (runH cfg defs hd s ops) = true := by
  induction ops with
  | nil => intro s; rfl
  | cons op rest ih =>
    intro s
    have hrest := ih (stepH cfg defs hd s op).1
    simp only [specH, runH, List.all_cons, Bool.and_eq_true] at hrest ⊢
    refine ⟨?_, hrest⟩
    by_cases hop : isSchedOpH op = true
    · have hesc : (stepH cfg defs hd s op).2.esc = (stepCoreH cfg defs hd s op).2.2 := rfl
      rcases C06h_sched_esc cfg defs hd s op hop with h1 | h1
      · simp [escapesH, hesc, h1]
      · simp [escapesH, hesc, h1]
    · have hopp : (stepH cfg defs hd s op).2.op = op := rfl
      simp [escapesH, hopp, hop]

/-- **C06h_resume_walks_copy** (the history that showed the live-dict defect, reproduced on the real library as
    harness/checks/ctxhist.py LIVE_DICT_DEMOS): context 0's resume() leaves context 1, which the task has registered AFTER 0.
    Before /repo commit 28d2b07 the continuation raised RuntimeError("OrderedDict mutated during iteration") out of the
    scheduler and left the task uncomputed.  Now `_resume_contexts` walks over a copy [0, 1, 2]: R0 - whose hook leaves 1 (P1,
    unregistered) -, then 1 STILL gets its resume() from the library (R1: it is in the copy), then R2; nothing escapes, the task
    goes on and finishes ok; 1 is no longer registered ([0, 2]), so the next suspension pauses 2 and 0 only - the mirror image
    of `C06h_pause_walks_copy`. -/
theorem C06h_resume_walks_copy :
    let defs : List Kind := [.plain [] [], .plain [] [], .plain [] []]
    let hd : HDefs := [{ onR := [.exit 1] }, {}, {}]
    let ops : List HOp := [.base (.enter 1), .base (.enter 0), .base (.enter 1), .base (.enter 2), .base .suspend, .base .continue_,
      .base (.finish true)]
    wfH defs hd = true ∧ noExitOnResume hd = false ∧
    (runH (codeCfg false) defs hd (init defs 1) ops).map (fun ob => (ob.calls.map unflag, ob.esc, ob.status)) =
      [([(true, 1)], .none, .none), ([(true, 0), (false, 1)], .none, .none), ([(true, 1)], .none, .none),
       ([(true, 2)], .none, .none), ([(false, 2), (false, 1), (false, 0)], .none, .none),
       ([(true, 0), (false, 1), (true, 1), (true, 2)], .none, .none), ([], .none, .ok)] ∧
    (finalStateH (codeCfg false) defs hd (init defs 1) ops).reg = [0, 2] ∧
    (finalStateH (codeCfg false) defs hd (init defs 1) ops).status = .ok ∧
    (runH (codeCfg false) defs hd (init defs 1) (ops.take 6 ++ [.base .suspend])).getLast?.map (fun ob => ob.calls.map unflag) =
      some [(false, 2), (false, 0)] := by
  decide

/-- **C06h_composite_pause_order**: a composite context (0; its resume() enters the members 1, 2, its pause() leaves them in
    reverse) between a plain context (3) and nothing, entered by the running body, suspended twice:
      * entry: R0, then inside it R1 R2 - the members are registered with the task, after the composite;
      * FIRST suspension: the library walks over a copy of [3, 0, 1, 2] in reverse: P2 P1 (paused BY THE LIBRARY), P0 - whose
        hook leaves 1 and 2: no second pause (the task's contexts are already inactive), they are unregistered for good - P3;
      * continuation: R3 R0 and, inside R0, R1 R2 (entered while no task is active: not registered);
      * LATER suspensions: P0 and, inside it, P2 P1 (paused BY THE COMPOSITE - after its own pause, not before), then P3;
      * every context's calls alternate R P R P ..., everything is paused at the end, only [3, 0] stay registered. -/
theorem C06h_composite_pause_order :
    let defs : List Kind := [.plain [] [], .plain [] [], .plain [] [], .plain [] []]
    let hd : HDefs := [{ onR := [.enter 1, .enter 2], onP := [.exit 2, .exit 1] }, {}, {}, {}]
    let ops : List HOp := [.base (.enter 3), .base (.enter 0), .base .suspend, .base .continue_, .base .suspend, .base .continue_,
      .base (.exit 0), .base (.exit 3)]
    wfH defs hd = true ∧
    (runH (codeCfg false) defs hd (init defs 1) ops).map (fun ob => (ob.calls.map unflag, ob.esc)) =
      [([(true, 3)], .none), ([(true, 0), (true, 1), (true, 2)], .none),
       ([(false, 2), (false, 1), (false, 0), (false, 3)], .none),
       ([(true, 3), (true, 0), (true, 1), (true, 2)], .none),
       ([(false, 0), (false, 2), (false, 1), (false, 3)], .none),
       ([(true, 3), (true, 0), (true, 1), (true, 2)], .none),
       ([(false, 0), (false, 2), (false, 1)], .none), ([(false, 3)], .none)] ∧
    (finalStateH (codeCfg false) defs hd (init defs 1) (ops.take 3)).reg = [3, 0] ∧
    (finalStateH (codeCfg false) defs hd (init defs 1) ops).reg = [] := by
  decide

/-- the pause loop works on a SNAPSHOT: a context that an earlier pause() hook has left (and thereby unregistered) still gets
    its pause() from the library (here 1, left by the hook of 0, which was entered later) -/
theorem C06h_pause_walks_copy :
    let defs : List Kind := [.plain [] [], .plain [] []]
    let hd : HDefs := [{ onP := [.exit 1] }, {}]
    let ops : List HOp := [.base (.enter 1), .base (.enter 0), .base .suspend, .base .continue_]
    (runH (codeCfg false) defs hd (init defs 1) ops).map (fun ob => (ob.calls.map unflag, ob.esc, ob.status)) =
      [([(true, 1)], .none, .none), ([(true, 0)], .none, .none), ([(false, 0), (false, 1)], .none, .none),
       ([(true, 0)], .none, .none)] := by
  decide

/-- **C06h_revisit**: one suspension on two batches: R P flush R P flush R (scheduler.py:172/166); a `revisit` is the resume
    part of a continuation followed at once by the pause part of a suspension -/
theorem C06h_revisit_example :
    let defs : List Kind := [.plain [] [], .ov 0 5]
    let ops : List HOp := [.base (.enter 0), .base (.enter 1), .base .suspend, .revisit, .base .continue_]
    (runH (codeCfg false) defs [] (init defs 1) ops).map (fun ob => (ob.calls.map unflag, ob.vals)) =
      [([(true, 0)], [100]), ([], [5]), ([(false, 0)], [100]), ([(true, 0), (false, 0)], [100]), ([(true, 0)], [5])] := by
  decide

/-- a resume() that raises at the revisit fails the suspended task there: no pause follows (a computed task is popped) -/
theorem C06h_revisit_resume_error_fails_task :
    let defs : List Kind := [.plain [2] [], .plain [] []]
    let ops : List HOp := [.base (.enter 0), .base (.enter 1), .base .suspend, .revisit, .revisit]
    (runH (codeCfg false) defs [] (init defs 1) ops).map (fun ob => (ob.calls.map unflag, ob.esc, ob.status)) =
      [([(true, 0)], .none, .none), ([(true, 1)], .none, .none), ([(false, 1), (false, 0)], .none, .none),
       ([(true, 0), (true, 1)], .none, .err (.hookR 0)), ([], .skip, .err (.hookR 0))] := by
  decide

/-! ## what the observer `spec` of Lib/Contexts.lean claims after a misuse (second audit, item 12): NOTHING - precisely -/

/-- the misuses: entering a block that is open, leaving a block that is not open -/
def misuse (defs : List Kind) (w : W) (ob : Obs) : Bool :=
  match ob.op with
  | .enter c => decide (c < defs.length) && isOpen w c
  | .exit c => decide (c < defs.length) && !isOpen w c
  | _ => false

/-- **C06h_observer_silent_after_misuse**: at the first misuse the observer stops: the misusing observation and EVERYTHING
    after it is accepted unseen.  `C06c_spec_holds_repaired` therefore claims: the observations BEFORE the first misuse are
    as the observer's picture demands (`C06h_spec_is_about_the_prefix`).  What holds after a misuse is stated on the
    machine's state instead (they hold in EVERY state `s`): C06c_suspend_pauses_all_in_reverse_entry_order,
    C06c_continue_resumes_all_in_entry_order, C06c_exit_pauses_iff_resumed, C06c_exit_not_entered, C06c_enter_twice_keeps_place. -/
theorem C06h_observer_silent_after_misuse (defs : List Kind) (nvars : Nat) (w : W) (hw : w.stopped = false) (ob : Obs)
    (hm : misuse defs w ob = true) (rest : List Obs) :
    watchRun defs nvars w (ob :: rest) = .ok { w with stopped := true } := by
  have hstep : watchStep defs nvars w ob = .ok { w with stopped := true } := by
    unfold misuse at hm
    unfold watchStep
    simp only [hw, Bool.false_eq_true, if_false]
    split at hm
    · rename_i c heq
      simp only [Bool.and_eq_true, decide_eq_true_eq] at hm
      simp [heq, Nat.not_le.mpr hm.1, hm.2]
    · rename_i c heq
      simp only [Bool.and_eq_true, decide_eq_true_eq] at hm
      have h2 := hm.2
      simp only [Bool.not_eq_true'] at h2
      simp [heq, Nat.not_le.mpr hm.1, h2]
    · simp at hm
  simp only [watchRun, hstep]
  exact watchRun_stopped defs nvars _ rfl rest

theorem watchRun_append (defs : List Kind) (nvars : Nat) (pre : List Obs) :
    ∀ (w w' : W) (post : List Obs), watchRun defs nvars w pre = .ok w' →
      watchRun defs nvars w (pre ++ post) = watchRun defs nvars w' post := by
  induction pre with
  | nil => intro w w' post h; simp only [watchRun] at h; cases h; rfl
  | cons ob r ih =>
    intro w w' post h
    simp only [List.cons_append, watchRun] at h ⊢
    split at h
    · rename_i w1 heq
      exact ih w1 w' post h
    · simp at h

/-- **C06h_spec_is_about_the_prefix**: a history whose prefix `pre` is accepted without a misuse and whose next observation is
    a misuse is accepted - whatever `post` is: `spec` judges `pre` and only `pre`. -/
theorem C06h_spec_is_about_the_prefix (defs : List Kind) (nvars : Nat) (pre post : List Obs) (ob : Obs) (w : W)
    (hpre : watchRun defs nvars {} pre = .ok w) (hw : w.stopped = false) (hm : misuse defs w ob = true) :
    spec defs nvars (pre ++ ob :: post) = true := by
  unfold spec
  rw [watchRun_append defs nvars pre {} w (ob :: post) hpre,
    C06h_observer_silent_after_misuse defs nvars w hw ob hm post]

/-- non-vacuity, and the measure of the vacuity: after `exit 0` of a block never entered the observer accepts a history in
    which the task's block is resumed twice in a row and a variable takes a value no override ever had -/
example :
    let defs : List Kind := [.plain [] [], .ov 0 1]
    spec defs 1 [{ op := .exit 0, calls := [], esc := .exc .attrError, vals := [100], status := .none },
      { op := .enter 0, calls := [⟨true, 0, false⟩, ⟨true, 0, false⟩], esc := .none, vals := [77], status := .none }] = true := by
  decide

/-- `C06h_no_crash` (manual-block model) is not vacuous: a free set of scripts (resume() leaves and enters, pause() enters) and a history with
    revisits in which every scheduler operation is executed -/
example :
    let defs : List Kind := [.plain [] [], .plain [] [], .plain [] []]
    let hd : HDefs := [{ onR := [.exit 1, .enter 2], onP := [.enter 1] }, {}, {}]
    let ops : List HOp := [.base (.enter 1), .base (.enter 0), .base (.enter 1), .base .suspend, .revisit, .base .continue_]
    specH (runH (codeCfg false) defs hd (init defs 1) ops) = true ∧
    (runH (codeCfg false) defs hd (init defs 1) ops).all (fun ob => ob.esc != .skip) = true := by decide

end AsynqModel.Contexts
