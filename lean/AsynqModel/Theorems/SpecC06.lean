import AsynqModel.Proofs.P16Main
import AsynqModel.Theorems.C06b
/-!
# The executable observer of C06 accepts every trace of the machine (SPECM = none for C06)

`Spec.checkC06` (`Core/Spec.lean`) is the observer the checks run on the trace of the REAL scheduler; the driver also
runs it on the trace of the model (`SPECM`).  Here this is a theorem: on the trace of every state of every run of
WELL-SCOPED top-level computations in which the MAX_TASK_STACK_SIZE guard has not fired - any configuration, any
flush oracle, stuck or not, with synchronous calls, shared futures, NonAsyncContexts - the observer raises no clause:

* `.ctx true c`  : the context is known, not already resumed, not left ("unknown-context", "resume-twice",
                   "resume-after-exit");
* `.ctx false c` : known and resumed ("pause-twice");
* `.ctxX c`      : known and paused ("exit-without-pause");
* `.run u ..`    : every open AsyncContext of `u` is resumed ("own-context-paused-while-task-runs"), and every other
                   open, resumed AsyncContext belongs to a task that - according to what the observer has seen:
                   the structures yielded last and the open synchronous calls - waits for `u`
                   ("context-active-while-unrelated-task-runs");
* `.flushB ..`   : at a flush for the outermost `wait_for` no uncomputed, suspended task has an open
                   NonAsyncContext ("task-suspended-for-flush-inside-nonasync-context") and no context is resumed;
                   at a flush inside a synchronous call the contexts of the callers are resumed
                   ("caller-context-paused-during-its-call") and every other resumed context belongs to a task waiting
                   for a caller ("context-active-during-flush");
* `.done t (.err .nonasync)` : `t` is running (ordinary propagation) or suspended on something uncomputed inside a
                   NonAsyncContext ("nonasync-failure-without-suspension");
* `.ret _`       : no context is resumed ("context-left-active");  no `.bad` event ("unknown-event").

Hypotheses.  `guardFired = false` is NECESSARY (`Spec_C06_needs_guard`: after the guard has thrown the task stack away
a context stays resumed and the observer reports "context-left-active" on the model's own trace).  Well-scopedness
(`P10.WellScoped`, harness/coregen.py `well_scoped`) is what the proof uses for the two clauses that mention
`awaitsStar` (the await graph is acyclic: the DFS-chain invariant `P12.J`, and the fuel of the observer's bounded
search suffices); the clauses about `.ctx` / `.ctxX` events need no well-scopedness (`Spec_C06_accepts_ctx`).
No `noNonAsync` hypothesis: the machine invariants of `Proofs/P7*`, `P12*` that assumed it are re-proved without
(`P16.B_reach`, `P16.J_reach'`).

Proof (`Proofs/P16*.lean`): two simulation relations between the observer state after the trace and the machine
state - `P16.R` (the observer's table of contexts = the machine's contexts: kind, owner, `resumed` flag, open iff
registered with the owner) maintained through every context operation, and `P16.U` (suspended tasks, known tasks,
dependencies vs. yielded structure) maintained through every helper of `step` - and the translation of the machine's
await relation `P12.awaitsStar` into the observer's bounded search (`P16.PathFacts.obs_awaits`).
-/
namespace AsynqModel.Core
open AsynqModel.Core.P13 AsynqModel.Core.P16

theorem wsreach_of_reachFrom_c06 {cfg : Cfg} {tops : List (Conv × Body)} {choices : List (Nat × Nat)} {s : State}
    (hws : ∀ p, p ∈ tops → P10.WellScoped p.2 0 0 = true) (h : ReachFrom (initState cfg tops choices) s) :
    P10.WSReach s := by
  induction h with
  | init => exact .init cfg tops choices hws
  | step _ ih => exact .step ih

/-- **SPECM = none for C06**, as assigned: for every state `s` of every run of the well-scoped computations `tops`
    in which the stack guard has not fired, the observer of property C06, with the context the checks build from the
    program, accepts the trace of `s`. -/
theorem Spec_C06_accepts (cfg : Cfg) (tops : List (Conv × Body)) (choices : List (Nat × Nat)) (s : State)
    (h : ReachFrom (initState cfg tops choices) s) (hws : ∀ p, p ∈ tops → P10.WellScoped p.2 0 0 = true)
    (hg : s.guardFired = false) :
    Spec.spec "C06" (Spec.mkCtx cfg tops) s.trace.reverse = none :=
  (specRun_none_iff Spec.checkC06 _ s.trace).2 (acc_C06 (wsreach_of_reachFrom_c06 hws h) hg)

/-- the same for every reachable state of well-scoped computations and EVERY observer context (`checkC06` does not look
    at its context) -/
theorem Spec_C06_accepts_reach (s : State) (h : P10.WSReach s) (hg : s.guardFired = false) (ctx : Spec.Ctx) :
    Spec.spec "C06" ctx s.trace.reverse = none :=
  (specRun_none_iff Spec.checkC06 _ s.trace).2 (acc_C06 h hg)

/-- ... in particular after any number of steps -/
theorem Spec_C06_accepts_run (cfg : Cfg) (tops : List (Conv × Body)) (choices : List (Nat × Nat)) (n : Nat)
    (hws : ∀ p, p ∈ tops → P10.WellScoped p.2 0 0 = true)
    (hg : (runFuel n (initState cfg tops choices)).guardFired = false) :
    Spec.spec "C06" (Spec.mkCtx cfg tops) (runFuel n (initState cfg tops choices)).trace.reverse = none :=
  Spec_C06_accepts cfg tops choices _ (reachFrom_runFuel _ n) hws hg

/-- The clauses about `.ctx` / `.ctxX` events (resume-twice, resume-after-exit, pause-twice, unknown-context,
    exit-without-pause) for EVERY program, well-scoped or not: `P16.chkA` is `checkC06` restricted to these events. -/
theorem Spec_C06_accepts_ctx (s : State) (h : Reach s) (hg : s.guardFired = false) (ctx : Spec.Ctx) :
    Spec.specRun P16.chkA ctx {} 0 s.trace.reverse = none :=
  (specRun_none_iff P16.chkA _ s.trace).2 (R_reach h hg).acc

/-- `chkA` and `chkB` together are `checkC06`: each event is judged by exactly one of them -/
theorem Spec_C06_split (ctx : Spec.Ctx) (w : Spec.Watch) (e : Event) :
    Spec.checkC06 ctx w e = none ↔ P16.chkA ctx w e = none ∧ P16.chkB ctx w e = none :=
  checkC06_split ctx w e

/-- The simulation relation behind the theorem (for every reachable state, stack guard not fired): the observer knows
    exactly the contexts of the machine; its entry for context `c` has the machine's kind, owner and `resumed` flag, is
    open iff `c` is still registered with its owner, and a context that was left is not resumed. -/
theorem Spec_C06_watch_agrees (s : State) (h : Reach s) (hg : s.guardFired = false) :
    ((obs s.trace).ctxs.map (·.1) = (List.range s.ctxs.length).reverse) ∧
    (∀ c x, (obs s.trace).ctx? c = some x → ∃ y, s.ctxs[c]? = some y ∧ x.kind = y.kind ∧ y.owner = some x.owner ∧
      x.resumed = y.resumed ∧ (x.isOpen = true ↔ c ∈ (s.task x.owner).ctxs)) ∧
    (∀ c x, (obs s.trace).ctx? c = some x → x.isOpen = false → x.resumed = false) := by
  have r : R default s none := R_reach h hg
  refine ⟨r.keys, fun c x hx => ?_, r.closed⟩
  obtain ⟨y, h1, h2, h3, h4, h5⟩ := r.rel c x hx
  exact ⟨y, h1, h2, h3, h4, h5 (by simp)⟩

/-- Two machine invariants re-proved WITHOUT the hypothesis "no NonAsyncContext" of `P7.K` / `P12.J_reach`:
    a task with a registered context is an uncomputed task, and an uncomputed task whose contexts are active waits
    (`P12.awaitsStar`) for the future on top of the scheduler's task stack. -/
theorem C06_registered_live (s : State) (h : Reach s) (hg : s.guardFired = false) (t : Nat)
    (hc : (s.task t).ctxs ≠ []) : (s.fut t).kind = .task ∧ s.computed t = false :=
  (B_reach h hg).live hc

theorem C06_active_awaits_top (s : State) (h : P10.WSReach s) (hg : s.guardFired = false) (o : Nat)
    (hk : (s.fut o).kind = .task) (ha : (s.task o).ctxActive = true) (hc : s.computed o = false) :
    ∃ top stk, s.stack = top :: stk ∧ P12.awaitsStar s o top := by
  have j := J_reach' h hg
  cases hst : s.stack with
  | nil => exact absurd hst (P12.active_stack_ne j hk ha hc)
  | cons top stk => exact ⟨top, stk, rfl, P12.active_awaits_top j hst hk ha hc⟩

/-! ## the hypotheses -/

/-- a task enters a context, creates a child and awaits it -/
def SpecC06_guardProg : Body :=
  .withCtx .plain (.spawn (.ret 1) [] (.yld (.f (.own 0)) .endwith (.raise 0))) (.ret 0)

/-- **`guardFired = false` cannot be dropped**: with `MAX_TASK_STACK_SIZE = 1` the guard fires when the child is pushed,
    the task stack is thrown away with the context resumed, and the observer reports "context-left-active" on the
    trace of the model.  (The program is well-scoped.) -/
theorem Spec_C06_needs_guard :
    let cfg : Cfg := { maxStack := 1 }
    let s := runFuel 100 (initState cfg [(.value, SpecC06_guardProg)] [])
    P10.WellScoped SpecC06_guardProg 0 0 = true ∧ s.guardFired = true ∧ s.stuck = none ∧
    Spec.spec "C06" (Spec.mkCtx cfg [(.value, SpecC06_guardProg)]) s.trace.reverse = some (7, "context-left-active") := by
  decide

/-! ## non-vacuity -/

example : Spec.checkOf "C06" = Spec.checkC06 := rfl

/-- the observer does reject hand-made bad traces: one per clause -/
example : Spec.spec "C06" (Spec.mkCtx {} []) [.ctx true 0] = some (0, "unknown-context") := by decide
example : Spec.spec "C06" (Spec.mkCtx {} []) [.ctxN 0 0 .plain, .ctx true 0, .ctx true 0] = some (2, "resume-twice") := by
  decide
example : Spec.spec "C06" (Spec.mkCtx {} []) [.ctxN 0 0 .plain, .ctxX 0, .ctx true 0] = some (2, "resume-after-exit") := by
  decide
example : Spec.spec "C06" (Spec.mkCtx {} []) [.ctxN 0 0 .plain, .ctx false 0] = some (1, "pause-twice") := by decide
example : Spec.spec "C06" (Spec.mkCtx {} []) [.ctxN 0 0 .plain, .ctx true 0, .ctxX 0] = some (2, "exit-without-pause") := by
  decide
example : Spec.spec "C06" (Spec.mkCtx {} [])
    [.new 0 (.task none), .run 0 0 true .start, .ctxN 0 0 .plain, .ctx true 0, .ctx false 0, .run 0 1 true (.out (.ok .none))] =
    some (5, "own-context-paused-while-task-runs") := by decide
example : Spec.spec "C06" (Spec.mkCtx {} [])
    [.new 0 (.task none), .new 1 (.task none), .run 0 0 true .start, .ctxN 0 0 .plain, .ctx true 0, .run 1 0 true .start] =
    some (5, "context-active-while-unrelated-task-runs") := by decide
example : Spec.spec "C06" (Spec.mkCtx {} [])
    [.new 0 (.task none), .run 0 0 true .start, .ctxN 0 0 .plain, .ctx true 0, .flushB 0 0 [1] (0, 1) []] =
    some (4, "context-active-during-flush") := by decide
example : Spec.spec "C06" (Spec.mkCtx {} [])
    [.new 0 (.task none), .run 0 0 true .start, .ctxN 0 0 .nonasync, .new 1 (.item 0 0 0 5 .ok), .yield 0 0 (.f 1),
     .flushB 0 0 [1] (0, 1) []] = some (5, "task-suspended-for-flush-inside-nonasync-context") := by decide
example : Spec.spec "C06" (Spec.mkCtx {} [])
    [.new 0 (.task none), .run 0 0 true .start, .ctxN 0 0 .plain, .ctx true 0, .new 1 (.task (some 0)), .syncE 0 1,
     .ctx false 0, .flushB 0 0 [2] (0, 1) []] = some (7, "caller-context-paused-during-its-call") := by decide
example : Spec.spec "C06" (Spec.mkCtx {} [])
    [.new 0 (.task none), .run 0 0 true .start, .new 1 (.const 3), .yield 0 0 (.f 1), .done 0 (.err .nonasync)] =
    some (4, "nonasync-failure-without-suspension") := by decide
example : Spec.spec "C06" (Spec.mkCtx {} []) [.ctxN 0 0 .plain, .ctx true 0, .ret (.ok .none)] =
    some (2, "context-left-active") := by decide
example : Spec.spec "C06" (Spec.mkCtx {} []) [.bad "x"] = some (0, "unknown-event") := by decide

/-- the observer accepts the traces of concrete runs - by the theorem: nested overrides with a suspension (C06_prog),
    siblings with contexts of their own (C06b_prog), a nested synchronous call that flushes (C06b_sync), and a task
    that is failed by `NonAsyncContext.pause()` (C06_progNA) -/
example : Spec.spec "C06" (Spec.mkCtx {} [(.value, C06_prog)])
    (runFuel 200 (initState {} [(.value, C06_prog)] [])).trace.reverse = none :=
  Spec_C06_accepts_run {} _ [] 200 (by intro p hp; simp at hp; subst hp; decide) (by decide)
example : Spec.spec "C06" (Spec.mkCtx {} [(.value, C06b_prog)]) (C06b_state 60).trace.reverse = none :=
  Spec_C06_accepts_run {} _ [] 60 (by intro p hp; simp at hp; subst hp; decide) (by decide)
example : Spec.spec "C06" (Spec.mkCtx {} [(.value, C06b_sync)]) (C06b_syncState 60).trace.reverse = none :=
  Spec_C06_accepts_run {} _ [] 60 (by intro p hp; simp at hp; subst hp; decide) (by decide)
example : Spec.spec "C06" (Spec.mkCtx {} [(.value, C06_progNA)])
    (runFuel 100 (initState {} [(.value, C06_progNA)] [])).trace.reverse = none :=
  Spec_C06_accepts_run {} _ [] 100 (by intro p hp; simp at hp; subst hp; decide) (by decide)

/-- ... and the events the clauses talk about occur in these traces: resumes and pauses, an exit, a `run` while another
    task's context is paused, a scheduler flush inside a synchronous call, a NonAsync failure, results -/
example : Event.ctx true 1 ∈ (C06b_state 60).trace ∧ Event.ctx false 1 ∈ (C06b_state 60).trace ∧
    Event.ctxX 1 ∈ (C06b_state 60).trace ∧ Event.run 2 0 true .start ∈ (C06b_state 60).trace ∧
    ((C06b_state 60).trace.any fun e => match e with | .flushB 0 0 [3, 4] _ _ => true | _ => false) = true := by decide
example : Event.syncE 0 1 ∈ (C06b_syncState 60).trace ∧
    ((C06b_syncState 60).trace.any fun e => match e with | .flushB 0 0 [2] _ _ => true | _ => false) = true := by decide
example : Event.done 0 (.err .nonasync) ∈ (runFuel 100 (initState {} [(.value, C06_progNA)] [])).trace ∧
    Event.ret (.err .nonasync) ∈ (runFuel 100 (initState {} [(.value, C06_progNA)] [])).trace := by decide

/-- the final observer table of `C06b_prog`: three contexts, all left, none resumed -/
example : ((obs (C06b_state 60).trace).ctxs.map fun p => (p.1, p.2.owner, p.2.resumed, p.2.isOpen)) =
    [(2, 2, false, false), (1, 1, false, false), (0, 0, false, false)] := by decide

end AsynqModel.Core
