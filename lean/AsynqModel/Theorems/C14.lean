import AsynqModel.Lib.Tools
import AsynqModel.Proofs.Tools
/-!
# C14  Collection helpers equal their built-in counterparts, in one batching round

Theorems about the model `AsynqModel.Tools` of asynq/tools.py, for EVERY element type, input list, iterable kind
(list, tuple, one-shot iterator, any other re-iterable container), async key / predicate function (`Env`), kind of
function OBJECT (`FnObj.fn truthy eqNone`: whatever `bool(f)` and `f == None` answer) and kind of retried body
(`BodyKind`: runs when scheduled / runs eagerly inside `fn.asynq(..)`).  The right-hand sides are core `List` functions only
(`List.map`, `List.filter`, `List.mergeSort` - a stable sort -, `List.find?`/`List.all`, `List.partition`).
-/
namespace AsynqModel.Tools

variable {α : Type} (env : Env α)

/-! ## per helper -/

/-- amap = `List.map`, for a list, a tuple and a one-shot iterator -/
theorem C14_amap (s : Src α) (h : s.kind ≠ .nonIter) :
    (amap env s).res = .ok (.vals (List.map env.key s.items)) := by
  obtain ⟨kind, items⟩ := s
  cases kind <;> simp_all [amap, amapCore, Src.iterate]

/-- afilter = `List.filter` with the predicate, whatever truth value the predicate OBJECT has; with function
    `None` (and only then) = filter on the elements' own truthiness -/
theorem C14_afilter (t e : Bool) (s : Src α) (h : s.kind ≠ .nonIter) :
    (afilter env (.fn t e) s).res = .ok (.elems (List.filter env.pred s.items)) ∧
    (afilter env .none s).res = .ok (.elems (List.filter env.truthy s.items)) := by
  obtain ⟨kind, items⟩ := s
  cases kind <;> simp_all [afilter, Src.iterate, compress_map]

/-- afilterfalse = `List.filter` with the negated predicate -/
theorem C14_afilterfalse (s : Src α) (h : s.kind ≠ .nonIter) :
    (afilterfalse env s).res = .ok (.elems (List.filter (fun x => !env.pred x) s.items)) := by
  obtain ⟨kind, items⟩ := s
  cases kind <;> simp only [afilterfalse, Src.iterate, compress_map_not] <;> simp at h

/-- asorted with a key = THE stable sort by that key (`List.mergeSort` on the key order); `reverse=True` is the
    stable sort by descending key (equal keys keep their input order, they are not reversed) -/
theorem C14_asorted_stable (t e : Bool) (rev : Bool) (s : Src α) (h : s.kind ≠ .nonIter) :
    (asorted env (.fn t e) rev s).res =
      .ok (.elems (s.items.mergeSort fun a b => if rev then env.key b ≤ env.key a else env.key a ≤ env.key b)) := by
  change _ = Res.ok (.elems (stableSort env.key rev s.items))
  obtain ⟨kind, items⟩ := s
  cases kind <;> simp only [asorted, amapCore, Src.iterate, sortedPairs_eq, Bool.false_eq_true, if_false,
    FnObj.isNone_fn] <;> simp at h

/-- asorted without key: TypeError exactly when two or more values are compared and one is not orderable,
    otherwise the stable sort by the values' own order -/
theorem C14_asorted_nokey (rev : Bool) (s : Src α) (h : s.kind ≠ .nonIter) :
    (asorted env .none rev s).res =
      if unorderable env s.items then .raised .typeError
      else .ok (.elems (s.items.mergeSort fun a b =>
        if rev then selfKey env b ≤ selfKey env a else selfKey env a ≤ selfKey env b)) := by
  change _ = if unorderable env s.items then _ else Res.ok (.elems (stableSort (selfKey env) rev s.items))
  obtain ⟨kind, items⟩ := s
  cases kind <;> simp only [asorted, Src.iterate, selfKeys_eq, if_true, FnObj.isNone_none] <;>
    first
    | (simp at h; done)
    | (cases unorderable env items <;> simp [sortedPairs_eq])

/-- what "first extreme" means: everything before the result is strictly worse, nothing after it is better -/
theorem C14_firstExt_is_first (k : α → Int) (xs : List α) (m : α) (h : firstExt false k xs = some m) :
    ∃ p q, xs = p ++ m :: q ∧ (∀ y ∈ p, k y < k m) ∧ (∀ y ∈ q, k y ≤ k m) := by
  cases xs with
  | nil => simp [firstExt] at h
  | cons x xs =>
    rw [← pyExt_eq_firstExt_max] at h
    simp only [pyExt, Option.some.injEq] at h
    obtain ⟨p, q, heq, hp, hq⟩ := pyExtGo_decomp k xs [] x [] (by simp) (by simp)
    rw [h] at heq hp hq
    exact ⟨p, q, by simpa using heq, hp, hq⟩

/-- amax / amin with a key (an async function object of ANY truth value), given one iterable of any kind: the
    first maximum / minimum (enumerate-based tie-break = first extreme wins); ValueError on an empty input, after
    the (empty) round of key calls -/
theorem C14_amax_amin_first (isMin t e : Bool) (s : Src α) (h : s.kind ≠ .nonIter) :
    (amaxmin env isMin false (.fn t e) (.one s)).res =
      match firstExt isMin env.key s.items with
      | some m => .ok (.elem m)
      | none => .raised .valueError := by
  obtain ⟨kind, items⟩ := s
  cases kind <;> simp only [amaxmin, maxIterable, amapCore, Src.iterate, Bool.false_eq_true, if_false,
      FnObj.isNone_fn] <;>
    first
    | (simp at h; done)
    | (rcases pyExt_enumerate_cases isMin env.key items with ⟨h1, h2⟩ | ⟨p, h1, h2⟩ <;> simp only [h1, h2])

theorem C14_amax_first (t e : Bool) (s : Src α) (h : s.kind ≠ .nonIter) :
    (amaxmin env false false (.fn t e) (.one s)).res =
      match s.items.find? (fun x => s.items.all fun y => env.key y ≤ env.key x) with
      | some m => .ok (.elem m)
      | none => .raised .valueError := by
  simpa [firstExt] using C14_amax_amin_first env false t e s h

theorem C14_amin_first (t e : Bool) (s : Src α) (h : s.kind ≠ .nonIter) :
    (amaxmin env true false (.fn t e) (.one s)).res =
      match s.items.find? (fun x => s.items.all fun y => env.key x ≤ env.key y) with
      | some m => .ok (.elem m)
      | none => .raised .valueError := by
  simpa [firstExt] using C14_amax_amin_first env true t e s h

/-- positional form `amax(a, b, c, ..)` (two or more arguments) = the single-iterable form on the tuple -/
theorem C14_amax_varargs (isMin : Bool) (keyNone : FnObj) (a b : α) (xs : List α) :
    amaxmin env isMin false keyNone (.elems (a :: b :: xs)) = amaxmin env isMin false keyNone (.one ⟨.tuple, a :: b :: xs⟩) :=
  amaxmin_varargs env isMin keyNone a b xs

/-- the error cases: unexpected keyword, no argument, one non-iterable argument -> TypeError (before anything
    is called); empty iterable -> ValueError -/
theorem C14_amax_errors (isMin : Bool) (keyNone : FnObj) (args : MaxArgs α) (x : α) (s : Src α) (h : s.kind ≠ .nonIter)
    (he : s.items = []) :
    amaxmin env isMin true keyNone args = ⟨.raised .typeError, [], 0⟩ ∧
    amaxmin env isMin false keyNone (.elems []) = ⟨.raised .typeError, [], 0⟩ ∧
    amaxmin env isMin false keyNone (.elems [x]) = ⟨.raised .typeError, [], 0⟩ ∧
    (amaxmin env isMin false keyNone (.one s)).res = .raised .valueError := by
  obtain ⟨kind, items⟩ := s
  simp only at he
  subst he
  refine ⟨by simp [amaxmin], by simp [amaxmin, maxIterable], ?_, ?_⟩
  · cases keyNone <;> simp [amaxmin, maxIterable, Src.iterate]
  · cases keyNone <;> cases kind <;>
      simp_all [amaxmin, maxIterable, Src.iterate, selfKeys, unorderable, pyExt, amapCore, enumFrom]

/-- asift = `List.partition`, for a list, a tuple and a one-shot iterator -/
theorem C14_asift (s : Src α) (h : s.kind ≠ .nonIter) :
    (asift env s).res = .ok (.pair (s.items.partition env.pred).1 (s.items.partition env.pred).2) := by
  obtain ⟨kind, items⟩ := s
  cases kind <;> simp_all [asift, Src.iterate, siftLoop_zip_map_partition]

/-! ## aretry -/

/-- the body runs exactly `min (k+1) max_tries` times when the first `k` attempts raise a listed exception
    (`k` = `leadingListed`, counted up to `max_tries`), it sleeps between two attempts only - for a body that
    runs when its task is scheduled AND for one that runs (and raises) eagerly inside `fn.asynq(..)` -/
theorem C14_aretry_count (maxTries : Nat) (hm : 0 < maxTries) (listed : List Nat) (script : List Attempt)
    (blocking : Bool) (kind : BodyKind) :
    let r : Run α := aretry maxTries listed script blocking kind
    let n := min (leadingListed listed (scriptAt script) maxTries 0 + 1) maxTries
    totalRuns r.rounds = n ∧ r.rounds.length = n ∧ r.sleeps = n - 1 := by
  have := retryLoop_spec (α := α) listed (scriptAt script) maxTries blocking kind maxTries 0 hm (by omega)
  have hn : 0 < min (leadingListed listed (scriptAt script) maxTries 0 + 1) maxTries := by omega
  simp only [aretry, Nat.ne_of_gt hm, if_false, this, totalRuns_retryRounds _ _ _ _ hn,
    length_retryRounds _ _ _ _ hn]
  simp

/-- its outcome is the outcome of the last attempt that ran: the value returned, an exception that is not
    listed (propagated immediately, no further attempt), or the listed exception of attempt `max_tries` -/
theorem C14_aretry_result (maxTries : Nat) (hm : 0 < maxTries) (listed : List Nat) (script : List Attempt)
    (blocking : Bool) (kind : BodyKind) :
    (aretry (α := α) maxTries listed script blocking kind).res =
      attemptRes (scriptAt script) (min (leadingListed listed (scriptAt script) maxTries 0 + 1) maxTries - 1) := by
  have := retryLoop_spec (α := α) listed (scriptAt script) maxTries blocking kind maxTries 0 hm (by omega)
  simp only [aretry, Nat.ne_of_gt hm, if_false, this]
  simp

/-- an exception that is not listed stops the loop at once: if attempt `k` (after `k` listed failures) raises
    an unlisted class, exactly `k+1` attempts ran and that exception is the outcome -/
theorem C14_aretry_unlisted_immediately (listed : List Nat) (script : Nat → Attempt) (maxTries : Nat) (blocking : Bool)
    (kind : BodyKind) (todo i cls : Nat) (hs : script i = .raise cls) (hl : isListed listed cls = false) :
    retryLoop (α := α) listed script maxTries blocking kind (todo + 1) i =
      ⟨.raised (.user cls i), [[attemptBlocks kind blocking (.raise cls)]], 0⟩ := by
  simp [retryLoop, hs, hl]

/-- the KIND of the retried body does not matter for what aretry does: same outcome, same number of runs of the
    body, same sleeps, whether the body raises when its task is scheduled or already inside `fn.asynq(..)` -/
theorem C14_aretry_body_kind (maxTries : Nat) (listed : List Nat) (script : List Attempt) (b b' : Bool) :
    let l : Run α := aretry maxTries listed script b .lazy
    let e : Run α := aretry maxTries listed script b' .eager
    e.res = l.res ∧ totalRuns e.rounds = totalRuns l.rounds ∧ e.sleeps = l.sleeps := by
  by_cases hm : maxTries = 0
  · subst hm; simp [aretry]
  · have hl := retryLoop_spec (α := α) listed (scriptAt script) maxTries b .lazy maxTries 0 (by omega) (by omega)
    have he := retryLoop_spec (α := α) listed (scriptAt script) maxTries b' .eager maxTries 0 (by omega) (by omega)
    have hn : 0 < min (leadingListed listed (scriptAt script) maxTries 0 + 1) maxTries := by omega
    simp only [aretry, hm, if_false, hl, he, totalRuns_retryRounds _ _ _ _ hn]
    simp

/-- the flushes of the retried body: a body that blocks when scheduled flushes once per attempt; an eager body
    flushes once, for the batch item of the attempt that returned (none if the last attempt raised) -/
theorem C14_aretry_flushes (maxTries : Nat) (hm : 0 < maxTries) (listed : List Nat) (script : List Attempt)
    (blocking : Bool) :
    let n := min (leadingListed listed (scriptAt script) maxTries 0 + 1) maxTries
    (observe (aretry (α := α) maxTries listed script blocking .lazy)).flushes
        = (if blocking then List.replicate n 1 else []) ∧
    (observe (aretry (α := α) maxTries listed script blocking .eager)).flushes
        = (match scriptAt script (n - 1) with
           | .ret _ => if blocking then [1] else []
           | .raise _ => []) := by
  have hl := retryLoop_spec (α := α) listed (scriptAt script) maxTries blocking .lazy maxTries 0 hm (by omega)
  have he := retryLoop_spec (α := α) listed (scriptAt script) maxTries blocking .eager maxTries 0 hm (by omega)
  have hn : 0 < min (leadingListed listed (scriptAt script) maxTries 0 + 1) maxTries := by omega
  simp only [aretry, Nat.ne_of_gt hm, if_false, hl, he, observe, flushSizes_retryRounds,
    retryFlushes_lazy _ _ _ hn]
  refine ⟨by simp, ?_⟩
  simp only [Nat.zero_add]
  cases scriptAt script (min (leadingListed listed (scriptAt script) maxTries 0 + 1) maxTries - 1) <;>
    cases blocking <;> simp [retryFlushes, attemptBlocks]

/-! ## the function object -/

/-- the key / predicate OBJECT is only ever asked `is None`: an async function object that is falsy (a callable
    memo table with `__len__`, `__bool__`) or claims to equal `None` is treated exactly like any other function -/
theorem C14_fn_object_irrelevant (t e : Bool) (isMin badKw rev : Bool) (s : Src α) (args : MaxArgs α) :
    afilter env (.fn t e) s = afilter env (.fn true false) s ∧
    asorted env (.fn t e) rev s = asorted env (.fn true false) rev s ∧
    amaxmin env isMin badKw (.fn t e) args = amaxmin env isMin badKw (.fn true false) args := by
  refine ⟨?_, ?_, ?_⟩ <;> simp [afilter, asorted, amaxmin]

/-- in particular a FALSY key is still a key: all per-element key calls are made, in one round -/
theorem C14_falsy_key_is_called (isMin e : Bool) (s : Src α) (h : s.kind ≠ .nonIter) :
    (amaxmin env isMin false (.fn false e) (.one s)).rounds = [s.items.map env.blocks] := by
  obtain ⟨kind, items⟩ := s
  cases kind <;> simp [amaxmin, maxIterable, amapCore, Src.iterate] <;>
    first
    | (simp at h; done)
    | ((repeat' split) <;> simp)

/-! ## one round -/

/-- every collection helper issues ALL its per-element calls in a single `yield` (or makes none at all): the
    log of yields is empty or is the one round holding a task for every element of the input -/
theorem C14_one_round (c : Call α) (h : c.isRetry = false) :
    (run env c).rounds = [] ∨ (run env c).rounds = [c.items.map env.blocks] := by
  cases c with
  | aretry => simp [Call.isRetry] at h
  | amap s => obtain ⟨kind, items⟩ := s; cases kind <;> simp [run, amap, amapCore, Src.iterate, Call.items]
  | afilter n s =>
    obtain ⟨kind, items⟩ := s; cases kind <;> cases n <;> simp [run, afilter, Src.iterate, Call.items]
  | afilterfalse s => obtain ⟨kind, items⟩ := s; cases kind <;> simp [run, afilterfalse, Src.iterate, Call.items]
  | asorted kn rev s =>
    obtain ⟨kind, items⟩ := s
    cases kind <;> cases kn <;> simp [run, asorted, amapCore, Src.iterate, Call.items] <;> split <;> simp
  | asift s => obtain ⟨kind, items⟩ := s; cases kind <;> simp [run, asift, Src.iterate, Call.items]
  | amaxmin isMin badKw kn args =>
    cases badKw
    · cases args with
      | one s =>
        obtain ⟨kind, items⟩ := s
        cases kind <;> cases kn <;> simp [run, amaxmin, maxIterable, amapCore, Src.iterate, Call.items] <;>
          (repeat' split) <;> simp
      | elems xs =>
        match xs with
        | [] => simp [run, amaxmin, maxIterable]
        | [x] => cases kn <;> simp [run, amaxmin, maxIterable, Src.iterate]
        | a :: b :: xs =>
          cases kn <;> simp [run, amaxmin, maxIterable, amapCore, Src.iterate, Call.items] <;>
            (repeat' split) <;> simp
    · simp [run, amaxmin]

/-- hence at most one flush of the shared batch per invocation, and it holds every blocking per-element call -/
theorem C14_one_flush (c : Call α) (h : c.isRetry = false) :
    (observe (run env c)).flushes = [] ∨ (observe (run env c)).flushes = oneFlush env c.items := by
  rcases C14_one_round env c h with h | h
  · left; simp [observe, h, flushSizes]
  · right; simp only [observe, h, flushSizes_one]

/-! ## the property as a whole -/

/-- **C14**: for every element type, every async key / predicate / truthiness / blocking behaviour (`env`) and
    every invocation `c` of a helper (any input list, iterable kind, call form, flag, retry script), what the
    model of the code does is exactly what the built-in counterpart demands: same result or same exception,
    every key call made once, one flush. -/
theorem C14_spec_holds (c : Call α) : observe (run env c) = expected env c := by
  cases c with
  | amap s => exact amap_obs env s
  | afilter n s => exact afilter_obs env n s
  | afilterfalse s => exact afilterfalse_obs env s
  | asorted kn rev s => exact asorted_obs env kn rev s
  | amaxmin isMin badKw kn args => exact amaxmin_obs env isMin badKw kn args
  | asift s => exact asift_obs env s
  | aretry m l sc b k => exact aretry_obs env m l sc b k

/-- the same, through the Boolean observer the check evaluates on the implementation's observations -/
theorem C14_spec_true [DecidableEq α] (c : Call α) : spec env c (observe (run env c)) = true := by
  simp [spec, C14_spec_holds env c]

/-! ## non-vacuity -/

section examples
/-- elements are numbers, the key is the tens digit, the predicate "odd", everything blocks -/
def exEnv : Env Nat := ⟨fun x => x / 10, fun x => x % 2 == 1, fun x => x != 0, fun x => some x, fun _ => true⟩

-- equal keys keep their order, also with reverse (21 before 25, 11 before 13)
example : (asorted exEnv (.fn true false) true ⟨.iterator, [11, 25, 13, 21]⟩).res = .ok (.elems [25, 21, 11, 13]) := by decide
-- ... which is NOT the reversed ascending sort (seeded mutation C14-1)
example : (pySorted exEnv.key false [11, 25, 13, 21]).reverse ≠ pySorted exEnv.key true [11, 25, 13, 21] := by decide
-- first maximum / first minimum among ties
example : (amaxmin exEnv false false (.fn true false) (.elems [11, 25, 13, 21])).res = .ok (.elem 25) := by decide
example : (amaxmin exEnv true false (.fn true false) (.one ⟨.iterator, [25, 11, 13, 21]⟩)).res = .ok (.elem 11) := by decide
-- one round, one flush of four items
example : (observe (run exEnv (.asorted (.fn true false) false ⟨.list, [11, 25, 13, 21]⟩))).flushes = [4] := by decide
-- the observer is not trivially true: two flushes for one invocation are rejected, so is a wrong tie-break
example : spec exEnv (.amap ⟨.list, [11, 25]⟩) ⟨.ok (.vals [1, 2]), [1, 1], 2, 0⟩ = false := by decide
example : spec exEnv (.amaxmin false false (.fn true false) (.elems [11, 13])) ⟨.ok (.elem 13), [2], 2, 0⟩ = false := by decide
-- aretry: two listed failures then a value, max_tries 5 -> 3 runs; max_tries 2 -> 2 runs and the error
example : observe (aretry (α := Nat) 5 [1] [.raise 1, .raise 4, .ret 9] false .lazy) = ⟨.ok (.val 9), [], 3, 2⟩ := by decide
example : observe (aretry (α := Nat) 2 [1] [.raise 1, .raise 4, .ret 9] true .lazy) = ⟨.raised (.user 4 1), [1, 1], 2, 1⟩ := by
  decide
-- an unlisted exception is not retried
example : observe (aretry (α := Nat) 5 [1] [.raise 1, .raise 2, .ret 9] false .lazy) = ⟨.raised (.user 2 1), [], 2, 1⟩ := by
  decide
-- a FALSY key object is a key: amax by the tens digit, not `max` of the values (seeded mutation C14-6), and the
-- observer rejects the natural-order answer that makes no key call
example : (amaxmin exEnv false false (.fn false false) (.one ⟨.list, [31, 47, 12, 28]⟩)).res = .ok (.elem 47) := by decide
example : spec exEnv (.amaxmin false false (.fn false false) (.one ⟨.list, [39, 41]⟩)) ⟨.ok (.elem 41), [2], 2, 0⟩ = true := by
  decide
example : spec exEnv (.amaxmin false false (.fn false false) (.one ⟨.list, [41, 39]⟩)) ⟨.ok (.elem 41), [], 0, 0⟩ = false := by
  decide
-- a re-iterable container that is neither list nor tuple
example : (observe (run exEnv (.amaxmin true false (.fn true true) (.one ⟨.reiter, [25, 11, 13]⟩)))) = ⟨.ok (.elem 11), [3], 3, 0⟩ := by
  decide
-- an EAGER body: one listed failure then a value -> 2 runs, one flush (the batch item of the good attempt); the
-- observer rejects the single run of a retry loop that lets the eager failure escape (seeded mutation C14-7)
example : observe (aretry (α := Nat) 3 [1] [.raise 1, .ret 9] true .eager) = ⟨.ok (.val 9), [1], 2, 1⟩ := by decide
example : spec exEnv (.aretry 3 [1] [.raise 1, .ret 9] true .eager) ⟨.raised (.user 1 0), [], 1, 0⟩ = false := by decide
end examples

end AsynqModel.Tools
