import AsynqModel.Lib.Tools
import AsynqModel.Proofs.Tools
/-!
# C14  Collection helpers equal their built-in counterparts, in one batching round

Theorems about the model `AsynqModel.Tools` of asynq/tools.py, for EVERY element type, input list, iterable kind
and async key / predicate function (`Env`).  The right-hand sides are core `List` functions only
(`List.map`, `List.filter`, `List.mergeSort` - a stable sort -, `List.find?`/`List.all`, `List.partition`).
-/
namespace AsynqModel.Tools

variable {α : Type} (env : Env α)

/-! ## per helper -/

/-- amap = `List.map`, for a list, a tuple and a one-shot iterator -/
theorem C14_amap (s : Src α) (h : s.kind ≠ .nonIter) :
    (amap env s).res = .ok (.vals (List.map env.key s.items)) := by
  obtain ⟨kind, items⟩ := s
  cases kind <;> simp_all [amap, amapCore, Src.iterate]

/-- afilter = `List.filter` with the predicate; with function `None` = filter on the elements' own truthiness -/
theorem C14_afilter (s : Src α) (h : s.kind ≠ .nonIter) :
    (afilter env false s).res = .ok (.elems (List.filter env.pred s.items)) ∧
    (afilter env true s).res = .ok (.elems (List.filter env.truthy s.items)) := by
  obtain ⟨kind, items⟩ := s
  cases kind <;> simp_all [afilter, Src.iterate, compress_map]

/-- afilterfalse = `List.filter` with the negated predicate -/
theorem C14_afilterfalse (s : Src α) (h : s.kind ≠ .nonIter) :
    (afilterfalse env s).res = .ok (.elems (List.filter (fun x => !env.pred x) s.items)) := by
  obtain ⟨kind, items⟩ := s
  cases kind <;> simp only [afilterfalse, Src.iterate, compress_map_not] <;> simp at h

/-- asorted with a key = THE stable sort by that key (`List.mergeSort` on the key order); `reverse=True` is the
    stable sort by descending key (equal keys keep their input order, they are not reversed) -/
theorem C14_asorted_stable (rev : Bool) (s : Src α) (h : s.kind ≠ .nonIter) :
    (asorted env false rev s).res =
      .ok (.elems (s.items.mergeSort fun a b => if rev then env.key b ≤ env.key a else env.key a ≤ env.key b)) := by
  change _ = Res.ok (.elems (stableSort env.key rev s.items))
  obtain ⟨kind, items⟩ := s
  cases kind <;> simp only [asorted, amapCore, Src.iterate, sortedPairs_eq, Bool.false_eq_true, if_false] <;> simp at h

/-- asorted without key: TypeError exactly when two or more values are compared and one is not orderable,
    otherwise the stable sort by the values' own order -/
theorem C14_asorted_nokey (rev : Bool) (s : Src α) (h : s.kind ≠ .nonIter) :
    (asorted env true rev s).res =
      if unorderable env s.items then .raised .typeError
      else .ok (.elems (s.items.mergeSort fun a b =>
        if rev then selfKey env b ≤ selfKey env a else selfKey env a ≤ selfKey env b)) := by
  change _ = if unorderable env s.items then _ else Res.ok (.elems (stableSort (selfKey env) rev s.items))
  obtain ⟨kind, items⟩ := s
  cases kind <;> simp only [asorted, Src.iterate, selfKeys_eq, if_true] <;>
    first
    | (simp at h; done)
    | (cases unorderable env items <;> simp [sortedPairs_eq])

/-- what "first extreme" means: everything before the result is strictly worse, nothing after it is better -/
theorem C14_firstExt_is_first (k : α → Int) (xs : List α) (m : α) (h : firstExt false k xs = some m) :
    ∃ p q, xs = p ++ m :: q ∧ (∀ y ∈ p, k y < k m) ∧ (∀ y ∈ q, k y ≤ k m) := by
  cases xs with
  | nil => simp [firstExt] at h
  | cons x xs =>
    rw [← pyExt_eq_firstExt_max] at h
    simp only [pyExt, Option.some.injEq] at h
    obtain ⟨p, q, heq, hp, hq⟩ := pyExtGo_decomp k xs [] x [] (by simp) (by simp)
    rw [h] at heq hp hq
    exact ⟨p, q, by simpa using heq, hp, hq⟩

/-- amax / amin with a key, given one iterable of any kind: the first maximum / minimum (enumerate-based
    tie-break = first extreme wins); ValueError on an empty input, after the (empty) round of key calls -/
theorem C14_amax_amin_first (isMin : Bool) (s : Src α) (h : s.kind ≠ .nonIter) :
    (amaxmin env isMin false false (.one s)).res =
      match firstExt isMin env.key s.items with
      | some m => .ok (.elem m)
      | none => .raised .valueError := by
  obtain ⟨kind, items⟩ := s
  cases kind <;> simp only [amaxmin, maxIterable, amapCore, Src.iterate, Bool.false_eq_true, if_false] <;>
    first
    | (simp at h; done)
    | (rcases pyExt_enumerate_cases isMin env.key items with ⟨h1, h2⟩ | ⟨p, h1, h2⟩ <;> simp only [h1, h2])

theorem C14_amax_first (s : Src α) (h : s.kind ≠ .nonIter) :
    (amaxmin env false false false (.one s)).res =
      match s.items.find? (fun x => s.items.all fun y => env.key y ≤ env.key x) with
      | some m => .ok (.elem m)
      | none => .raised .valueError := by
  simpa [firstExt] using C14_amax_amin_first env false s h

theorem C14_amin_first (s : Src α) (h : s.kind ≠ .nonIter) :
    (amaxmin env true false false (.one s)).res =
      match s.items.find? (fun x => s.items.all fun y => env.key x ≤ env.key y) with
      | some m => .ok (.elem m)
      | none => .raised .valueError := by
  simpa [firstExt] using C14_amax_amin_first env true s h

/-- positional form `amax(a, b, c, ..)` (two or more arguments) = the single-iterable form on the tuple -/
theorem C14_amax_varargs (isMin keyNone : Bool) (a b : α) (xs : List α) :
    amaxmin env isMin false keyNone (.elems (a :: b :: xs)) = amaxmin env isMin false keyNone (.one ⟨.tuple, a :: b :: xs⟩) :=
  amaxmin_varargs env isMin keyNone a b xs

/-- the error cases: unexpected keyword, no argument, one non-iterable argument -> TypeError (before anything
    is called); empty iterable -> ValueError -/
theorem C14_amax_errors (isMin keyNone : Bool) (args : MaxArgs α) (x : α) (s : Src α) (h : s.kind ≠ .nonIter)
    (he : s.items = []) :
    amaxmin env isMin true keyNone args = ⟨.raised .typeError, [], 0⟩ ∧
    amaxmin env isMin false keyNone (.elems []) = ⟨.raised .typeError, [], 0⟩ ∧
    amaxmin env isMin false keyNone (.elems [x]) = ⟨.raised .typeError, [], 0⟩ ∧
    (amaxmin env isMin false keyNone (.one s)).res = .raised .valueError := by
  obtain ⟨kind, items⟩ := s
  simp only at he
  subst he
  refine ⟨by simp [amaxmin], by simp [amaxmin, maxIterable], ?_, ?_⟩
  · cases keyNone <;> simp [amaxmin, maxIterable, Src.iterate]
  · cases keyNone <;> cases kind <;>
      simp_all [amaxmin, maxIterable, Src.iterate, selfKeys, unorderable, pyExt, amapCore, enumFrom]

/-- asift = `List.partition`, for a list, a tuple and a one-shot iterator -/
theorem C14_asift (s : Src α) (h : s.kind ≠ .nonIter) :
    (asift env s).res = .ok (.pair (s.items.partition env.pred).1 (s.items.partition env.pred).2) := by
  obtain ⟨kind, items⟩ := s
  cases kind <;> simp_all [asift, Src.iterate, siftLoop_zip_map_partition]

/-! ## aretry -/

/-- the body runs exactly `min (k+1) max_tries` times when the first `k` attempts raise a listed exception
    (`k` = `leadingListed`, counted up to `max_tries`), it sleeps between two attempts only -/
theorem C14_aretry_count (maxTries : Nat) (hm : 0 < maxTries) (listed : List Nat) (script : List Attempt)
    (blocking : Bool) :
    let r : Run α := aretry maxTries listed script blocking
    let n := min (leadingListed listed (scriptAt script) maxTries 0 + 1) maxTries
    totalRuns r.rounds = n ∧ r.rounds.length = n ∧ r.sleeps = n - 1 := by
  have := retryLoop_spec (α := α) listed (scriptAt script) maxTries blocking maxTries 0 hm (by omega)
  simp only [aretry, Nat.ne_of_gt hm, if_false, this, totalRuns_replicate, List.length_replicate]
  simp

/-- its outcome is the outcome of the last attempt that ran: the value returned, an exception that is not
    listed (propagated immediately, no further attempt), or the listed exception of attempt `max_tries` -/
theorem C14_aretry_result (maxTries : Nat) (hm : 0 < maxTries) (listed : List Nat) (script : List Attempt)
    (blocking : Bool) :
    (aretry (α := α) maxTries listed script blocking).res =
      attemptRes (scriptAt script) (min (leadingListed listed (scriptAt script) maxTries 0 + 1) maxTries - 1) := by
  have := retryLoop_spec (α := α) listed (scriptAt script) maxTries blocking maxTries 0 hm (by omega)
  simp only [aretry, Nat.ne_of_gt hm, if_false, this]
  simp

/-- an exception that is not listed stops the loop at once: if attempt `k` (after `k` listed failures) raises
    an unlisted class, exactly `k+1` attempts ran and that exception is the outcome -/
theorem C14_aretry_unlisted_immediately (listed : List Nat) (script : Nat → Attempt) (maxTries : Nat) (blocking : Bool)
    (todo i cls : Nat) (hs : script i = .raise cls) (hl : isListed listed cls = false) :
    retryLoop (α := α) listed script maxTries blocking (todo + 1) i = ⟨.raised (.user cls i), [[blocking]], 0⟩ := by
  simp [retryLoop, hs, hl]

/-! ## one round -/

/-- every collection helper issues ALL its per-element calls in a single `yield` (or makes none at all): the
    log of yields is empty or is the one round holding a task for every element of the input -/
theorem C14_one_round (c : Call α) (h : c.isRetry = false) :
    (run env c).rounds = [] ∨ (run env c).rounds = [c.items.map env.blocks] := by
  cases c with
  | aretry => simp [Call.isRetry] at h
  | amap s => obtain ⟨kind, items⟩ := s; cases kind <;> simp [run, amap, amapCore, Src.iterate, Call.items]
  | afilter n s =>
    obtain ⟨kind, items⟩ := s; cases kind <;> cases n <;> simp [run, afilter, Src.iterate, Call.items]
  | afilterfalse s => obtain ⟨kind, items⟩ := s; cases kind <;> simp [run, afilterfalse, Src.iterate, Call.items]
  | asorted kn rev s =>
    obtain ⟨kind, items⟩ := s
    cases kind <;> cases kn <;> simp [run, asorted, amapCore, Src.iterate, Call.items] <;> split <;> simp
  | asift s => obtain ⟨kind, items⟩ := s; cases kind <;> simp [run, asift, Src.iterate, Call.items]
  | amaxmin isMin badKw kn args =>
    cases badKw
    · cases args with
      | one s =>
        obtain ⟨kind, items⟩ := s
        cases kind <;> cases kn <;> simp [run, amaxmin, maxIterable, amapCore, Src.iterate, Call.items] <;>
          (repeat' split) <;> simp
      | elems xs =>
        match xs with
        | [] => simp [run, amaxmin, maxIterable]
        | [x] => cases kn <;> simp [run, amaxmin, maxIterable, Src.iterate]
        | a :: b :: xs =>
          cases kn <;> simp [run, amaxmin, maxIterable, amapCore, Src.iterate, Call.items] <;>
            (repeat' split) <;> simp
    · simp [run, amaxmin]

/-- hence at most one flush of the shared batch per invocation, and it holds every blocking per-element call -/
theorem C14_one_flush (c : Call α) (h : c.isRetry = false) :
    (observe (run env c)).flushes = [] ∨ (observe (run env c)).flushes = oneFlush env c.items := by
  rcases C14_one_round env c h with h | h
  · left; simp [observe, h, flushSizes]
  · right; simp only [observe, h, flushSizes_one]

/-! ## the property as a whole -/

/-- **C14**: for every element type, every async key / predicate / truthiness / blocking behaviour (`env`) and
    every invocation `c` of a helper (any input list, iterable kind, call form, flag, retry script), what the
    model of the code does is exactly what the built-in counterpart demands: same result or same exception,
    every key call made once, one flush. -/
theorem C14_spec_holds (c : Call α) : observe (run env c) = expected env c := by
  cases c with
  | amap s => exact amap_obs env s
  | afilter n s => exact afilter_obs env n s
  | afilterfalse s => exact afilterfalse_obs env s
  | asorted kn rev s => exact asorted_obs env kn rev s
  | amaxmin isMin badKw kn args => exact amaxmin_obs env isMin badKw kn args
  | asift s => exact asift_obs env s
  | aretry m l sc b => exact aretry_obs env m l sc b

/-- the same, through the Boolean observer the check evaluates on the implementation's observations -/
theorem C14_spec_true [DecidableEq α] (c : Call α) : spec env c (observe (run env c)) = true := by
  simp [spec, C14_spec_holds env c]

/-! ## non-vacuity -/

section examples
/-- elements are numbers, the key is the tens digit, the predicate "odd", everything blocks -/
def exEnv : Env Nat := ⟨fun x => x / 10, fun x => x % 2 == 1, fun x => x != 0, fun x => some x, fun _ => true⟩

-- equal keys keep their order, also with reverse (21 before 25, 11 before 13)
example : (asorted exEnv false true ⟨.iterator, [11, 25, 13, 21]⟩).res = .ok (.elems [25, 21, 11, 13]) := by decide
-- ... which is NOT the reversed ascending sort (seeded mutation C14-1)
example : (pySorted exEnv.key false [11, 25, 13, 21]).reverse ≠ pySorted exEnv.key true [11, 25, 13, 21] := by decide
-- first maximum / first minimum among ties
example : (amaxmin exEnv false false false (.elems [11, 25, 13, 21])).res = .ok (.elem 25) := by decide
example : (amaxmin exEnv true false false (.one ⟨.iterator, [25, 11, 13, 21]⟩)).res = .ok (.elem 11) := by decide
-- one round, one flush of four items
example : (observe (run exEnv (.asorted false false ⟨.list, [11, 25, 13, 21]⟩))).flushes = [4] := by decide
-- the observer is not trivially true: two flushes for one invocation are rejected, so is a wrong tie-break
example : spec exEnv (.amap ⟨.list, [11, 25]⟩) ⟨.ok (.vals [1, 2]), [1, 1], 2, 0⟩ = false := by decide
example : spec exEnv (.amaxmin false false false (.elems [11, 13])) ⟨.ok (.elem 13), [2], 2, 0⟩ = false := by decide
-- aretry: two listed failures then a value, max_tries 5 -> 3 runs; max_tries 2 -> 2 runs and the error
example : observe (aretry (α := Nat) 5 [1] [.raise 1, .raise 4, .ret 9] false) = ⟨.ok (.val 9), [], 3, 2⟩ := by decide
example : observe (aretry (α := Nat) 2 [1] [.raise 1, .raise 4, .ret 9] true) = ⟨.raised (.user 4 1), [1, 1], 2, 1⟩ := by
  decide
-- an unlisted exception is not retried
example : observe (aretry (α := Nat) 5 [1] [.raise 1, .raise 2, .ret 9] false) = ⟨.raised (.user 2 1), [], 2, 1⟩ := by
  decide
end examples

end AsynqModel.Tools
