import AsynqModel.Lib.Tools
import AsynqModel.Proofs.Tools
/-!
# C14  Collection helpers equal their built-in counterparts, in one batching round

Theorems about the model `AsynqModel.Tools` of asynq/tools.py, for EVERY element type, input list, iterable kind
(list, tuple, one-shot iterator, any other re-iterable container), async key / predicate function (`Env`), kind of
function OBJECT (`FnObj.fn truthy eqNone`: whatever `bool(f)` and `f == None` answer) and kind of retried body
(`BodyKind`: runs when scheduled / runs eagerly inside `fn.asynq(..)`).  The right-hand sides are core `List` functions only
(`List.map`, `List.filter`, `List.mergeSort` - a stable sort -, `List.find?`/`List.all`, `List.partition`).

Layout: per helper / aretry / one round / the property as a whole (the HEADLINE theorems); then a section
"by construction" with facts that follow from the shape of the model alone and whose content is the correspondence
with the real code, not the Lean proof; then necessity witnesses for the hypotheses and non-vacuity examples.

Restriction of the statement: amax / amin are covered for calls without `default=` (`Call.inStatement`); the
built-ins accept that keyword, amax / amin refuse it (`C14_default_kw_outside_statement`).
-/
namespace AsynqModel.Tools

variable {α : Type} (env : Env α)

/-! ## per helper -/

/-- amap = `List.map`, for a list, a tuple and a one-shot iterator -/
theorem C14_amap (s : Src α) (h : s.kind ≠ .nonIter) :
    (amap env s).res = .ok (.vals (List.map env.key s.items)) := by
  obtain ⟨kind, items⟩ := s
  cases kind <;> simp_all [amap, amapCore, Src.iterate]

/-- afilter = `List.filter` with the predicate, whatever truth value the predicate OBJECT has; with function
    `None` (and only then) = filter on the elements' own truthiness -/
theorem C14_afilter (t e : Bool) (s : Src α) (h : s.kind ≠ .nonIter) :
    (afilter env (.fn t e) s).res = .ok (.elems (List.filter env.pred s.items)) ∧
    (afilter env .none s).res = .ok (.elems (List.filter env.truthy s.items)) := by
  obtain ⟨kind, items⟩ := s
  cases kind <;> simp_all [afilter, Src.iterate, compress_map]

/-- afilterfalse = `List.filter` with the negated predicate -/
theorem C14_afilterfalse (s : Src α) (h : s.kind ≠ .nonIter) :
    (afilterfalse env s).res = .ok (.elems (List.filter (fun x => !env.pred x) s.items)) := by
  obtain ⟨kind, items⟩ := s
  cases kind <;> simp only [afilterfalse, Src.iterate, compress_map_not] <;> simp at h

/-- asorted with a key = THE stable sort by that key (`List.mergeSort` on the key order); `reverse=True` is the
    stable sort by descending key (equal keys keep their input order, they are not reversed) -/
theorem C14_asorted_stable (t e : Bool) (rev : Bool) (s : Src α) (h : s.kind ≠ .nonIter) :
    (asorted env (.fn t e) rev s).res =
      .ok (.elems (s.items.mergeSort fun a b => if rev then env.key b ≤ env.key a else env.key a ≤ env.key b)) := by
  change _ = Res.ok (.elems (stableSort env.key rev s.items))
  obtain ⟨kind, items⟩ := s
  cases kind <;> simp only [asorted, amapCore, Src.iterate, sortedPairs_eq, Bool.false_eq_true, if_false,
    FnObj.isNone_fn] <;> simp at h

/-- "stable, reverse honoured" in the property's own words, without reference to `List.mergeSort` (adopted from the
    second audit): the result of the sort `C14_asorted_stable` names (`stableSort`, the same term) is a permutation of
    the input, ordered by the key (descending with `reverse`), and two elements with EQUAL keys stand in the order
    they had in the input - also with `reverse=True` -/
theorem C14_asorted_in_words (k : α → Int) (rev : Bool) (xs : List α) :
    (stableSort k rev xs).Perm xs ∧
    (stableSort k rev xs).Pairwise (fun a b => if rev then k b ≤ k a else k a ≤ k b) ∧
    (∀ a b, k a = k b → [a, b].Sublist xs → [a, b].Sublist (stableSort k rev xs)) := by
  unfold stableSort
  have htrans : ∀ a b c : α, (if rev = true then decide (k b ≤ k a) else decide (k a ≤ k b)) = true →
      (if rev = true then decide (k c ≤ k b) else decide (k b ≤ k c)) = true →
      (if rev = true then decide (k c ≤ k a) else decide (k a ≤ k c)) = true := by
    intro a b c; cases rev <;> simp <;> omega
  have htotal : ∀ a b : α, ((if rev = true then decide (k b ≤ k a) else decide (k a ≤ k b)) ||
      (if rev = true then decide (k a ≤ k b) else decide (k b ≤ k a))) = true := by
    intro a b; cases rev <;> simp <;> omega
  refine ⟨List.mergeSort_perm _ _, ?_, ?_⟩
  · have := List.pairwise_mergeSort htrans htotal xs
    cases rev <;> simpa using this
  · intro a b hab h
    exact List.pair_sublist_mergeSort htrans htotal (by cases rev <;> simp [hab]) h

/-- asorted without key: TypeError exactly when two or more values are compared and one is not orderable,
    otherwise the stable sort by the values' own order -/
theorem C14_asorted_nokey (rev : Bool) (s : Src α) (h : s.kind ≠ .nonIter) :
    (asorted env .none rev s).res =
      if unorderable env s.items then .raised .typeError
      else .ok (.elems (s.items.mergeSort fun a b =>
        if rev then selfKey env b ≤ selfKey env a else selfKey env a ≤ selfKey env b)) := by
  change _ = if unorderable env s.items then _ else Res.ok (.elems (stableSort (selfKey env) rev s.items))
  obtain ⟨kind, items⟩ := s
  cases kind <;> simp only [asorted, Src.iterate, selfKeys_eq, if_true, FnObj.isNone_none] <;>
    first
    | (simp at h; done)
    | (cases unorderable env items <;> simp [sortedPairs_eq])

/-- what "first extreme" means: everything before the result is strictly worse, nothing after it is better -/
theorem C14_firstExt_is_first (k : α → Int) (xs : List α) (m : α) (h : firstExt false k xs = some m) :
    ∃ p q, xs = p ++ m :: q ∧ (∀ y ∈ p, k y < k m) ∧ (∀ y ∈ q, k y ≤ k m) := by
  cases xs with
  | nil => simp [firstExt] at h
  | cons x xs =>
    rw [← pyExt_eq_firstExt_max] at h
    simp only [pyExt, Option.some.injEq] at h
    obtain ⟨p, q, heq, hp, hq⟩ := pyExtGo_decomp k xs [] x [] (by simp) (by simp)
    rw [h] at heq hp hq
    exact ⟨p, q, by simpa using heq, hp, hq⟩

/-- the same for `min`: everything before the result is strictly larger, nothing after it is smaller -/
theorem C14_firstExt_min_is_first (k : α → Int) (xs : List α) (m : α) (h : firstExt true k xs = some m) :
    ∃ p q, xs = p ++ m :: q ∧ (∀ y ∈ p, k m < k y) ∧ (∀ y ∈ q, k m ≤ k y) := by
  rw [firstExt_min_neg] at h
  obtain ⟨p, q, he, hp, hq⟩ := C14_firstExt_is_first (fun x => - k x) xs m h
  exact ⟨p, q, he, fun y hy => by have := hp y hy; omega, fun y hy => by have := hq y hy; omega⟩

/-- amax / amin with a key (an async function object of ANY truth value), given one iterable of any kind: the
    first maximum / minimum (enumerate-based tie-break = first extreme wins); ValueError on an empty input, after
    the (empty) round of key calls -/
theorem C14_amax_amin_first (isMin t e : Bool) (s : Src α) (h : s.kind ≠ .nonIter) :
    (amaxmin env isMin .none (.fn t e) (.one s)).res =
      match firstExt isMin env.key s.items with
      | some m => .ok (.elem m)
      | none => .raised .valueError := by
  obtain ⟨kind, items⟩ := s
  cases kind <;> simp only [amaxmin, maxIterable, amapCore, Src.iterate, Bool.false_eq_true, if_false,
      FnObj.isNone_fn, ExtraKw.none_bne] <;>
    first
    | (simp at h; done)
    | (rcases pyExt_enumerate_cases isMin env.key items with ⟨h1, h2⟩ | ⟨p, h1, h2⟩ <;> simp only [h1, h2])

theorem C14_amax_first (t e : Bool) (s : Src α) (h : s.kind ≠ .nonIter) :
    (amaxmin env false .none (.fn t e) (.one s)).res =
      match s.items.find? (fun x => s.items.all fun y => env.key y ≤ env.key x) with
      | some m => .ok (.elem m)
      | none => .raised .valueError := by
  simpa [firstExt] using C14_amax_amin_first env false t e s h

theorem C14_amin_first (t e : Bool) (s : Src α) (h : s.kind ≠ .nonIter) :
    (amaxmin env true .none (.fn t e) (.one s)).res =
      match s.items.find? (fun x => s.items.all fun y => env.key x ≤ env.key y) with
      | some m => .ok (.elem m)
      | none => .raised .valueError := by
  simpa [firstExt] using C14_amax_amin_first env true t e s h

/-- positional form `amax(a, b, c, ..)` with a key (two or more arguments): the first maximum / minimum of the
    arguments in the order they were written -/
theorem C14_amax_varargs_first (isMin t e : Bool) (a b : α) (xs : List α) :
    (amaxmin env isMin .none (.fn t e) (.elems (a :: b :: xs))).res =
      match firstExt isMin env.key (a :: b :: xs) with
      | some m => .ok (.elem m)
      | none => .raised .valueError := by
  rw [amaxmin_varargs]
  exact C14_amax_amin_first env isMin t e ⟨.tuple, a :: b :: xs⟩ (by simp)

/-- the error cases, the same as max / min: a keyword nobody knows, no argument, one non-iterable argument ->
    TypeError (before anything is called); empty iterable -> ValueError -/
theorem C14_amax_errors (isMin : Bool) (keyNone : FnObj) (args : MaxArgs α) (x : α) (s : Src α) (h : s.kind ≠ .nonIter)
    (he : s.items = []) :
    amaxmin env isMin .unknown keyNone args = ⟨.raised .typeError, [], 0⟩ ∧
    amaxmin env isMin .none keyNone (.elems []) = ⟨.raised .typeError, [], 0⟩ ∧
    amaxmin env isMin .none keyNone (.elems [x]) = ⟨.raised .typeError, [], 0⟩ ∧
    (amaxmin env isMin .none keyNone (.one s)).res = .raised .valueError := by
  obtain ⟨kind, items⟩ := s
  simp only at he
  subst he
  refine ⟨by simp [amaxmin], by simp [amaxmin, maxIterable], ?_, ?_⟩
  · cases keyNone <;> simp [amaxmin, maxIterable, Src.iterate]
  · cases keyNone <;> cases kind <;>
      simp_all [amaxmin, maxIterable, Src.iterate, selfKeys, unorderable, pyExt, amapCore, enumFrom]

/-- asift = `List.partition`, for a list, a tuple and a one-shot iterator -/
theorem C14_asift (s : Src α) (h : s.kind ≠ .nonIter) :
    (asift env s).res = .ok (.pair (s.items.partition env.pred).1 (s.items.partition env.pred).2) := by
  obtain ⟨kind, items⟩ := s
  cases kind <;> simp_all [asift, Src.iterate, siftLoop_zip_map_partition]

/-! ## aretry -/

/-- the body runs exactly `min (k+1) max_tries` times, `k` = `leadingListed` = the number of leading attempts that
    raise a listed exception (counted up to `max_tries`; in plain words: `C14_aretry_runs`); it sleeps between two
    attempts only - for a body that runs when its task is scheduled AND for one that runs (and raises) eagerly
    inside `fn.asynq(..)`.  No hypothesis on `max_tries`: with `max_tries = 0` the decorator itself refuses
    (AssertionError) and nothing runs, which is `min (k+1) 0`. -/
theorem C14_aretry_count (maxTries : Nat) (listed : List Nat) (script : List Attempt)
    (blocking : Bool) (kind : BodyKind) :
    let r : Run α := aretry maxTries listed script blocking kind
    let n := min (leadingListed listed (scriptAt script) maxTries 0 + 1) maxTries
    totalRuns r.rounds = n ∧ r.rounds.length = n ∧ r.sleeps = n - 1 := by
  by_cases hm : 0 < maxTries
  · have := retryLoop_spec (α := α) listed (scriptAt script) maxTries blocking kind maxTries 0 hm (by omega)
    have hn : 0 < min (leadingListed listed (scriptAt script) maxTries 0 + 1) maxTries := by omega
    simp only [aretry, Nat.ne_of_gt hm, if_false, this, totalRuns_retryRounds _ _ _ _ hn,
      length_retryRounds _ _ _ _ hn]
    simp
  · have : maxTries = 0 := by omega
    subst this; simp [aretry, totalRuns]

/-- the sentence of the property text, hypotheses spelled out on the attempts themselves: if the first `k`
    attempts raise a listed exception (only the first `max_tries` of them matter) and attempt number `k` - if the
    loop gets that far - does not (it returns, or raises something that is not listed), the body runs exactly
    `min (k+1) max_tries` times and aretry sleeps once between two consecutive runs -/
theorem C14_aretry_runs (maxTries k : Nat) (listed : List Nat) (script : List Attempt) (blocking : Bool)
    (kind : BodyKind)
    (hl : ∀ j, j < k → j < maxTries → ∃ c, scriptAt script j = .raise c ∧ isListed listed c = true)
    (hstop : k < maxTries → ∀ c, scriptAt script k = .raise c → isListed listed c = false) :
    let r : Run α := aretry maxTries listed script blocking kind
    totalRuns r.rounds = min (k + 1) maxTries ∧ r.sleeps = min (k + 1) maxTries - 1 := by
  have hc := C14_aretry_count (α := α) maxTries listed script blocking kind
  by_cases hk : k < maxTries
  · have hlead : leadingListed listed (scriptAt script) maxTries 0 = k :=
      leadingListed_eq listed (scriptAt script) k maxTries 0 hk
        (fun j hj => by simpa using hl j hj (by omega))
        (fun c h => hstop hk c (by simpa using h))
    simp only [hlead] at hc
    exact ⟨hc.1, hc.2.2⟩
  · have hlead : leadingListed listed (scriptAt script) maxTries 0 = maxTries :=
      leadingListed_all listed (scriptAt script) maxTries 0
        (fun j hj => by simpa using hl j (by omega) hj)
    simp only [hlead] at hc
    have h1 : min (maxTries + 1) maxTries = min (k + 1) maxTries := by omega
    rw [h1] at hc
    exact ⟨hc.1, hc.2.2⟩

/-- its outcome is the outcome of the last attempt that ran: the value returned, an exception that is not
    listed (propagated immediately, no further attempt), or the listed exception of attempt `max_tries` -/
theorem C14_aretry_result (maxTries : Nat) (hm : 0 < maxTries) (listed : List Nat) (script : List Attempt)
    (blocking : Bool) (kind : BodyKind) :
    (aretry (α := α) maxTries listed script blocking kind).res =
      attemptRes (scriptAt script) (min (leadingListed listed (scriptAt script) maxTries 0 + 1) maxTries - 1) := by
  have := retryLoop_spec (α := α) listed (scriptAt script) maxTries blocking kind maxTries 0 hm (by omega)
  simp only [aretry, Nat.ne_of_gt hm, if_false, this]
  simp

/-- "re-raises anything else immediately": if, after `k` listed failures, attempt `k` (`k < max_tries`) raises a
    class that is not listed, THAT exception object is the outcome, exactly `k+1` attempts ran and aretry slept
    `k` times - no further attempt, no sleep after the last one (adopted from the independent audit) -/
theorem C14_aretry_unlisted_immediately (maxTries : Nat) (listed : List Nat) (script : List Attempt) (blocking : Bool)
    (kind : BodyKind) (k cls : Nat) (hk : k < maxTries)
    (hl : ∀ j, j < k → ∃ c, scriptAt script j = .raise c ∧ isListed listed c = true)
    (hs : scriptAt script k = .raise cls) (hu : isListed listed cls = false) :
    let r : Run α := aretry maxTries listed script blocking kind
    r.res = .raised (.user cls k) ∧ totalRuns r.rounds = k + 1 ∧ r.sleeps = k := by
  have hlead : leadingListed listed (scriptAt script) maxTries 0 = k :=
    leadingListed_eq listed (scriptAt script) k maxTries 0 hk (by simpa using hl)
      (fun c h => by simp only [Nat.zero_add] at h; rw [hs] at h; cases h; exact hu)
  have hc := C14_aretry_count (α := α) maxTries listed script blocking kind
  have hr := C14_aretry_result (α := α) maxTries (by omega) listed script blocking kind
  simp only [hlead] at hc hr
  have hmin : min (k + 1) maxTries = k + 1 := by omega
  rw [hmin] at hc hr
  refine ⟨?_, hc.1, by simpa using hc.2.2⟩
  simp only [Nat.add_sub_cancel] at hr
  simp [hr, attemptRes, hs]

/-- a value after `k < max_tries` listed failures is returned: `k+1` runs, `k` sleeps -/
theorem C14_aretry_returns (maxTries : Nat) (listed : List Nat) (script : List Attempt) (blocking : Bool)
    (kind : BodyKind) (k : Nat) (v : Int) (hk : k < maxTries)
    (hl : ∀ j, j < k → ∃ c, scriptAt script j = .raise c ∧ isListed listed c = true)
    (hs : scriptAt script k = .ret v) :
    let r : Run α := aretry maxTries listed script blocking kind
    r.res = .ok (.val v) ∧ totalRuns r.rounds = k + 1 ∧ r.sleeps = k := by
  have hlead : leadingListed listed (scriptAt script) maxTries 0 = k :=
    leadingListed_eq listed (scriptAt script) k maxTries 0 hk (by simpa using hl)
      (fun c h => by simp only [Nat.zero_add] at h; rw [hs] at h; cases h)
  have hc := C14_aretry_count (α := α) maxTries listed script blocking kind
  have hr := C14_aretry_result (α := α) maxTries (by omega) listed script blocking kind
  simp only [hlead] at hc hr
  have hmin : min (k + 1) maxTries = k + 1 := by omega
  rw [hmin] at hc hr
  refine ⟨?_, hc.1, by simpa using hc.2.2⟩
  simp only [Nat.add_sub_cancel] at hr
  simp [hr, attemptRes, hs]

/-- when the first `max_tries` attempts all raise listed exceptions, the body ran `max_tries` times, the LAST
    attempt's exception object is re-raised, and there is no sleep after it -/
theorem C14_aretry_exhausted (maxTries : Nat) (hm : 0 < maxTries) (listed : List Nat) (script : List Attempt)
    (blocking : Bool) (kind : BodyKind)
    (hl : ∀ j, j < maxTries → ∃ c, scriptAt script j = .raise c ∧ isListed listed c = true) :
    let r : Run α := aretry maxTries listed script blocking kind
    (∃ c, scriptAt script (maxTries - 1) = .raise c ∧ r.res = .raised (.user c (maxTries - 1))) ∧
      totalRuns r.rounds = maxTries ∧ r.sleeps = maxTries - 1 := by
  have hlead : leadingListed listed (scriptAt script) maxTries 0 = maxTries :=
    leadingListed_all listed (scriptAt script) maxTries 0 (by simpa using hl)
  have hc := C14_aretry_count (α := α) maxTries listed script blocking kind
  have hr := C14_aretry_result (α := α) maxTries hm listed script blocking kind
  simp only [hlead] at hc hr
  have hmin : min (maxTries + 1) maxTries = maxTries := by omega
  rw [hmin] at hc hr
  obtain ⟨c, hc1, _⟩ := hl (maxTries - 1) (by omega)
  exact ⟨⟨c, hc1, by simp [hr, attemptRes, hc1]⟩, hc.1, hc.2.2⟩

/-- the KIND of the retried body does not matter for what aretry does: same outcome, same number of runs of the
    body, same sleeps, whether the body raises when its task is scheduled or already inside `fn.asynq(..)` -/
theorem C14_aretry_body_kind (maxTries : Nat) (listed : List Nat) (script : List Attempt) (b b' : Bool) :
    let l : Run α := aretry maxTries listed script b .lazy
    let e : Run α := aretry maxTries listed script b' .eager
    e.res = l.res ∧ totalRuns e.rounds = totalRuns l.rounds ∧ e.sleeps = l.sleeps := by
  by_cases hm : maxTries = 0
  · subst hm; simp [aretry]
  · have hl := retryLoop_spec (α := α) listed (scriptAt script) maxTries b .lazy maxTries 0 (by omega) (by omega)
    have he := retryLoop_spec (α := α) listed (scriptAt script) maxTries b' .eager maxTries 0 (by omega) (by omega)
    have hn : 0 < min (leadingListed listed (scriptAt script) maxTries 0 + 1) maxTries := by omega
    simp only [aretry, hm, if_false, hl, he, totalRuns_retryRounds _ _ _ _ hn]
    simp

/-- the flushes of the retried body: a body that blocks when scheduled flushes once per attempt; an eager body
    flushes once, for the batch item of the attempt that returned (none if the last attempt raised) -/
theorem C14_aretry_flushes (maxTries : Nat) (hm : 0 < maxTries) (listed : List Nat) (script : List Attempt)
    (blocking : Bool) :
    let n := min (leadingListed listed (scriptAt script) maxTries 0 + 1) maxTries
    (observe (aretry (α := α) maxTries listed script blocking .lazy)).flushes
        = (if blocking then List.replicate n 1 else []) ∧
    (observe (aretry (α := α) maxTries listed script blocking .eager)).flushes
        = (match scriptAt script (n - 1) with
           | .ret _ => if blocking then [1] else []
           | .raise _ => []) := by
  have hl := retryLoop_spec (α := α) listed (scriptAt script) maxTries blocking .lazy maxTries 0 hm (by omega)
  have he := retryLoop_spec (α := α) listed (scriptAt script) maxTries blocking .eager maxTries 0 hm (by omega)
  have hn : 0 < min (leadingListed listed (scriptAt script) maxTries 0 + 1) maxTries := by omega
  simp only [aretry, Nat.ne_of_gt hm, if_false, hl, he, observe, flushSizes_retryRounds,
    retryFlushes_lazy _ _ _ hn]
  refine ⟨by simp, ?_⟩
  simp only [Nat.zero_add]
  cases scriptAt script (min (leadingListed listed (scriptAt script) maxTries 0 + 1) maxTries - 1) <;>
    cases blocking <;> simp [retryFlushes, attemptBlocks]

/-! ## the function object -/

/-- a FALSY key is still a key (the object is only asked `is None`): all per-element key calls are made, in one
    round; an instance of `C14_one_round`, kept because seeded change C14-6 is exactly its negation -/
theorem C14_falsy_key_is_called (isMin e : Bool) (s : Src α) (h : s.kind ≠ .nonIter) :
    (amaxmin env isMin .none (.fn false e) (.one s)).rounds = [s.items.map env.blocks] := by
  obtain ⟨kind, items⟩ := s
  cases kind <;> simp [amaxmin, maxIterable, amapCore, Src.iterate] <;>
    first
    | (simp at h; done)
    | ((repeat' split) <;> simp)

/-! ## one round -/

/-- every collection helper issues ALL its per-element calls in a single `yield`: when the invocation has an
    async function to call and gets as far as iterating its input (`Call.perElement`), the log of yields is
    EXACTLY the one round holding a task for every element of the input, in input order; otherwise it is empty.
    (No disjunction: a helper that made no call where calls are due does not satisfy this.) -/
theorem C14_one_round (c : Call α) (h : c.isRetry = false) :
    (run env c).rounds = if c.perElement then [c.items.map env.blocks] else [] := by
  cases c with
  | aretry => simp [Call.isRetry] at h
  | amap s =>
    obtain ⟨kind, items⟩ := s
    cases kind <;> simp [run, amap, amapCore, Src.iterate, Call.items, Call.perElement]
  | afilter n s =>
    obtain ⟨kind, items⟩ := s
    cases kind <;> cases n <;> simp [run, afilter, Src.iterate, Call.items, Call.perElement]
  | afilterfalse s =>
    obtain ⟨kind, items⟩ := s
    cases kind <;> simp [run, afilterfalse, Src.iterate, Call.items, Call.perElement]
  | asorted kn rev s =>
    obtain ⟨kind, items⟩ := s
    cases kind <;> cases kn <;> simp [run, asorted, amapCore, Src.iterate, Call.items, Call.perElement] <;>
      split <;> simp
  | asift s =>
    obtain ⟨kind, items⟩ := s
    cases kind <;> simp [run, asift, Src.iterate, Call.items, Call.perElement]
  | amaxmin isMin kw kn args =>
    cases kw
    · cases args with
      | one s =>
        obtain ⟨kind, items⟩ := s
        cases kind <;> cases kn <;>
          simp [run, amaxmin, maxIterable, amapCore, Src.iterate, Call.items, Call.perElement, argItems] <;>
          (repeat' split) <;> simp
      | elems xs =>
        match xs with
        | [] => simp [run, amaxmin, maxIterable, Call.perElement, argItems]
        | [x] => cases kn <;> simp [run, amaxmin, maxIterable, Src.iterate, Call.perElement, argItems]
        | a :: b :: xs =>
          cases kn <;>
            simp [run, amaxmin, maxIterable, amapCore, Src.iterate, Call.items, Call.perElement, argItems] <;>
            (repeat' split) <;> simp
    · simp [run, amaxmin, Call.perElement]
    · simp [run, amaxmin, Call.perElement]

/-- hence exactly one flush of the shared batch per invocation, holding every blocking per-element call (no
    flush iff no per-element call blocks), and none at all for an invocation that makes no per-element calls -/
theorem C14_one_flush (c : Call α) (h : c.isRetry = false) :
    (observe (run env c)).flushes = if c.perElement then oneFlush env c.items else [] := by
  simp only [observe, C14_one_round env c h]
  cases c.perElement
  · simp [flushSizes]
  · simp only [if_true, flushSizes_one]

/-- ... and every per-element call is made exactly once: as many runs of the async function as elements -/
theorem C14_each_called_once (c : Call α) (h : c.isRetry = false) :
    (observe (run env c)).runs = if c.perElement then c.items.length else 0 := by
  simp only [observe, C14_one_round env c h]
  cases c.perElement <;> simp [totalRuns]

/-! ## the property as a whole -/

/-- **C14**: for every element type, every async key / predicate / truthiness / blocking behaviour (`env`) and
    every invocation `c` of a helper inside the statement (any input list, iterable kind, call form, flag, retry
    script; amax / amin without `default=`), what the model of the code does is exactly what the built-in
    counterpart demands: same result or same exception, every key call made once, one flush. -/
theorem C14_spec_holds (c : Call α) (h : c.inStatement = true) : observe (run env c) = expected env c := by
  cases c with
  | amap s => exact amap_obs env s
  | afilter n s => exact afilter_obs env n s
  | afilterfalse s => exact afilterfalse_obs env s
  | asorted kn rev s => exact asorted_obs env kn rev s
  | amaxmin isMin kw kn args =>
    exact amaxmin_obs env isMin kw kn args (by intro hk; subst hk; simp [Call.inStatement] at h)
  | asift s => exact asift_obs env s
  | aretry m l sc b k => exact aretry_obs env m l sc b k

/-- the same, through the Boolean observer the check evaluates on the implementation's observations -/
theorem C14_spec_true [DecidableEq α] (c : Call α) (h : c.inStatement = true) :
    spec env c (observe (run env c)) = true := by
  simp [spec, C14_spec_holds env c h]

/-- the observer is as tight as an observer can be: for a call inside the statement it accepts ONE observation,
    the model's - any other result, exception instance, number of calls, flush list or number of sleeps is
    rejected -/
theorem C14_spec_only_model [DecidableEq α] (c : Call α) (h : c.inStatement = true) (o : Obs α) :
    spec env c o = true ↔ o = observe (run env c) := by
  simp [spec, C14_spec_holds env c h]

/-- the verdict the driver prints (`specClause`, which names the clause) and the observer the theorems are about
    (`spec`) agree: "ok" exactly when `spec` holds (adopted from the independent audit) -/
theorem C14_specClause_ok_iff [DecidableEq α] (c : Call α) (o : Obs α) :
    specClause env c o = "ok" ↔ spec env c o = true := by
  unfold specClause spec
  cases o with | mk r f n s =>
  generalize expected env c = e
  cases e with | mk r' f' n' s' =>
  simp only
  by_cases h1 : r = r' <;> by_cases h2 : n = n' <;> by_cases h3 : f = f' <;> by_cases h4 : s = s' <;>
    simp [h1, h2, h3, h4, bne, Obs.mk.injEq] <;> decide

/-! ## by construction
Facts that hold by the shape of the model alone (one unfolding): they DESCRIBE how tools.py is modelled, their
content is the correspondence between that model and the real code (the harness measures `bool(f)` and
`f == None` of the function object and drives every kind; it calls both forms of amax / amin), not the proof. -/

/-- the key / predicate OBJECT is only ever asked `is None`: the model has no branch on `FnObj.fn`'s fields -/
theorem C14_fn_object_irrelevant (t e : Bool) (isMin rev : Bool) (kw : ExtraKw) (s : Src α) (args : MaxArgs α) :
    afilter env (.fn t e) s = afilter env (.fn true false) s ∧
    asorted env (.fn t e) rev s = asorted env (.fn true false) rev s ∧
    amaxmin env isMin kw (.fn t e) args = amaxmin env isMin kw (.fn true false) args := by
  refine ⟨?_, ?_, ?_⟩ <;> simp [afilter, asorted, amaxmin]

/-- positional form `amax(a, b, c, ..)` (two or more arguments) = the single-iterable form on the tuple
    (`iterable = args`, tools.py:110) -/
theorem C14_amax_varargs (isMin : Bool) (keyNone : FnObj) (a b : α) (xs : List α) :
    amaxmin env isMin .none keyNone (.elems (a :: b :: xs)) = amaxmin env isMin .none keyNone (.one ⟨.tuple, a :: b :: xs⟩) :=
  amaxmin_varargs env isMin .none keyNone a b xs

/-- `default=` is refused like any other keyword, before anything is looked at or called (tools.py:103-104) -/
theorem C14_default_kw_refused (isMin : Bool) (keyNone : FnObj) (args : MaxArgs α) :
    amaxmin env isMin .dflt keyNone args = ⟨.raised .typeError, [], 0⟩ := by
  simp [amaxmin]

/-! ## the hypotheses are needed -/

/-- `Call.inStatement` is needed in `C14_spec_holds`: with `default=` the built-ins answer (the default object
    for an empty input, the extreme otherwise) where amax / amin raise TypeError - for EVERY element type,
    environment, key object and input of one of the re-iterable kinds.  This is why calls with `default=` are
    outside the statement; the difference itself is documented behaviour of the library, not a finding. -/
theorem C14_default_kw_outside_statement (isMin : Bool) (key : FnObj) (kind : IterKind) (xs : List α)
    (hk : kind ≠ .nonIter) (ho : key = .none → unorderable env xs = false) :
    observe (run env (.amaxmin isMin .dflt key (.one ⟨kind, xs⟩))) ≠
      expected env (.amaxmin isMin .dflt key (.one ⟨kind, xs⟩)) := by
  have hrun : observe (run env (.amaxmin isMin .dflt key (.one ⟨kind, xs⟩))) = noCalls (.raised .typeError) := by
    simp [run, amaxmin, observe, noCalls, flushSizes, totalRuns]
  rw [hrun]
  intro hEq
  have hres := congrArg Obs.res hEq
  simp only [expected, argItems, hk, if_false, MaxArgs.isVarargs, Bool.and_false, Bool.false_eq_true,
    reduceCtorEq, if_true, noCalls] at hres
  by_cases hkey : key = .none
  · simp only [hkey, if_true, ho hkey, Bool.false_eq_true, if_false] at hres
    cases hf : firstExt isMin (selfKey env) xs <;> simp [hf] at hres
  · simp only [hkey, if_false] at hres
    cases hf : firstExt isMin env.key xs <;> simp [hf, perElem] at hres

/-! ## non-vacuity -/

section examples
/-- elements are numbers, the key is the tens digit, the predicate "odd", everything blocks -/
def exEnv : Env Nat := ⟨fun x => x / 10, fun x => x % 2 == 1, fun x => x != 0, fun x => some x, fun _ => true⟩

-- equal keys keep their order, also with reverse (21 before 25, 11 before 13)
example : (asorted exEnv (.fn true false) true ⟨.iterator, [11, 25, 13, 21]⟩).res = .ok (.elems [25, 21, 11, 13]) := by decide
-- ... which is NOT the reversed ascending sort (seeded mutation C14-1)
example : (pySorted exEnv.key false [11, 25, 13, 21]).reverse ≠ pySorted exEnv.key true [11, 25, 13, 21] := by decide
-- first maximum / first minimum among ties
example : (amaxmin exEnv false .none (.fn true false) (.elems [11, 25, 13, 21])).res = .ok (.elem 25) := by decide
example : (amaxmin exEnv true .none (.fn true false) (.one ⟨.iterator, [25, 11, 13, 21]⟩)).res = .ok (.elem 11) := by decide
-- one round, one flush of four items
example : (observe (run exEnv (.asorted (.fn true false) false ⟨.list, [11, 25, 13, 21]⟩))).flushes = [4] := by decide
-- the observer is not trivially true: two flushes for one invocation are rejected, so is a wrong tie-break
example : spec exEnv (.amap ⟨.list, [11, 25]⟩) ⟨.ok (.vals [1, 2]), [1, 1], 2, 0⟩ = false := by decide
example : spec exEnv (.amaxmin false .none (.fn true false) (.elems [11, 13])) ⟨.ok (.elem 13), [2], 2, 0⟩ = false := by decide
-- aretry: two listed failures then a value, max_tries 5 -> 3 runs; max_tries 2 -> 2 runs and the error
example : observe (aretry (α := Nat) 5 [1] [.raise 1, .raise 4, .ret 9] false .lazy) = ⟨.ok (.val 9), [], 3, 2⟩ := by decide
example : observe (aretry (α := Nat) 2 [1] [.raise 1, .raise 4, .ret 9] true .lazy) = ⟨.raised (.user 4 1), [1, 1], 2, 1⟩ := by
  decide
-- an unlisted exception is not retried
example : observe (aretry (α := Nat) 5 [1] [.raise 1, .raise 2, .ret 9] false .lazy) = ⟨.raised (.user 2 1), [], 2, 1⟩ := by
  decide
-- a FALSY key object is a key: amax by the tens digit, not `max` of the values (seeded mutation C14-6), and the
-- observer rejects the natural-order answer that makes no key call
example : (amaxmin exEnv false .none (.fn false false) (.one ⟨.list, [31, 47, 12, 28]⟩)).res = .ok (.elem 47) := by decide
example : spec exEnv (.amaxmin false .none (.fn false false) (.one ⟨.list, [39, 41]⟩)) ⟨.ok (.elem 41), [2], 2, 0⟩ = true := by
  decide
example : spec exEnv (.amaxmin false .none (.fn false false) (.one ⟨.list, [41, 39]⟩)) ⟨.ok (.elem 41), [], 0, 0⟩ = false := by
  decide
-- a re-iterable container that is neither list nor tuple
example : (observe (run exEnv (.amaxmin true .none (.fn true true) (.one ⟨.reiter, [25, 11, 13]⟩)))) = ⟨.ok (.elem 11), [3], 3, 0⟩ := by
  decide
-- an EAGER body: one listed failure then a value -> 2 runs, one flush (the batch item of the good attempt); the
-- observer rejects the single run of a retry loop that lets the eager failure escape (seeded mutation C14-7)
example : observe (aretry (α := Nat) 3 [1] [.raise 1, .ret 9] true .eager) = ⟨.ok (.val 9), [1], 2, 1⟩ := by decide
example : spec exEnv (.aretry 3 [1] [.raise 1, .ret 9] true .eager) ⟨.raised (.user 1 0), [], 1, 0⟩ = false := by decide
-- ## the observer rejects every wrong observation the independent audit probed (tests/C14_t1.lean, part D)
-- one key call too many; no flush although the key calls block; a sleep in a collection helper
example : spec exEnv (.amap ⟨.list, [11, 25]⟩) ⟨.ok (.vals [1, 2]), [2], 2, 0⟩ = true := by decide
example : spec exEnv (.amap ⟨.list, [11, 25]⟩) ⟨.ok (.vals [1, 2]), [2], 3, 0⟩ = false := by decide
example : spec exEnv (.amap ⟨.list, [11, 25]⟩) ⟨.ok (.vals [1, 2]), [], 2, 0⟩ = false := by decide
example : spec exEnv (.amap ⟨.list, [11, 25]⟩) ⟨.ok (.vals [1, 2]), [2], 2, 1⟩ = false := by decide
-- an unstable sort (21 before 25 although 25 came first and the keys are equal)
-- (`List.mergeSort` does not reduce under `decide`: go through `C14_spec_only_model`, then compute the model)
example : spec exEnv (.asorted (.fn true false) false ⟨.list, [25, 21, 11]⟩) ⟨.ok (.elems [11, 21, 25]), [3], 3, 0⟩ = false := by
  rw [Bool.eq_false_iff]; intro h; rw [C14_spec_only_model exEnv _ rfl] at h; revert h; decide
example : spec exEnv (.asorted (.fn true false) false ⟨.list, [25, 21, 11]⟩) ⟨.ok (.elems [11, 25, 21]), [3], 3, 0⟩ = true := by
  rw [C14_spec_only_model exEnv _ rfl]; decide
-- amax(5): TypeError, not 5; amax([], key=f): ValueError with no call
example : spec exEnv (.amaxmin false .none .none (.elems [5])) ⟨.ok (.elem 5), [], 0, 0⟩ = false := by decide
example : spec exEnv (.amaxmin false .none (.fn true false) (.one ⟨.list, []⟩)) ⟨.raised .valueError, [], 0, 0⟩ = true := by decide
-- aretry re-raises the LAST attempt's exception object (not the first one's), and does not sleep after it
example : spec exEnv (.aretry 3 [1] [.raise 1, .raise 1, .raise 1, .ret 4] true .lazy) ⟨.raised (.user 1 2), [1, 1, 1], 3, 2⟩ = true := by
  decide
example : spec exEnv (.aretry 3 [1] [.raise 1, .raise 1, .raise 1, .ret 4] true .lazy) ⟨.raised (.user 1 0), [1, 1, 1], 3, 2⟩ = false := by
  decide
example : spec exEnv (.aretry 3 [1] [.raise 1, .raise 1, .raise 1, .ret 4] true .lazy) ⟨.raised (.user 1 2), [1, 1, 1], 3, 3⟩ = false := by
  decide
-- the old asift defect (one-shot iterator partitioned into two empty lists)
example : spec exEnv (.asift ⟨.iterator, [11, 12, 13]⟩) ⟨.ok (.pair [] []), [3], 3, 0⟩ = false := by decide
-- the clause the driver names for each of them
example : specClause exEnv (.amap ⟨.list, [11, 25]⟩) ⟨.ok (.vals [1, 2]), [2], 3, 0⟩ = "calls" := by decide
example : specClause exEnv (.amap ⟨.list, [11, 25]⟩) ⟨.ok (.vals [1, 2]), [], 2, 0⟩ = "one-round" := by decide
example : specClause exEnv (.amap ⟨.list, [11, 25]⟩) ⟨.ok (.vals [1, 2]), [2], 2, 1⟩ = "sleeps" := by decide

-- ## one round, undisjoined: what `C14_one_round` / `C14_one_flush` say on concrete calls
example : (run exEnv (.asorted (.fn false true) true ⟨.iterator, [11, 25, 13]⟩)).rounds = [[true, true, true]] := by decide
example : (Call.asorted (.fn false true) true (⟨.iterator, [11, 25, 13]⟩ : Src Nat)).perElement = true := by decide
-- no function, a malformed call, a non-iterable: no per-element call is due, and none is made
example : (Call.afilter .none (⟨.list, [11, 25]⟩ : Src Nat)).perElement = false := by decide
example : (Call.amaxmin false .none (.fn true false) (.elems [5] : MaxArgs Nat)).perElement = false := by decide
example : (Call.amap (⟨.nonIter, []⟩ : Src Nat)).perElement = false := by decide
-- a helper that made NO call where calls are due is not a model of `C14_one_flush`: the flush list must be [2]
example : (observe (run exEnv (.amaxmin true .none (.fn false false) (.elems [41, 39])))).flushes = [2] := by decide

-- ## aretry in plain words (`C14_aretry_runs` and its three outcomes), hypotheses satisfiable
example : let r : Run Nat := aretry 5 [1] [.raise 1, .raise 4, .raise 2] false .lazy
    r.res = .raised (.user 2 2) ∧ totalRuns r.rounds = 3 ∧ r.sleeps = 2 :=
  C14_aretry_unlisted_immediately 5 [1] [.raise 1, .raise 4, .raise 2] false .lazy 2 2 (by decide)
    (by intro j hj; match j, hj with
      | 0, _ => exact ⟨1, rfl, rfl⟩
      | 1, _ => exact ⟨4, rfl, rfl⟩) rfl rfl
example : isListed [1] 2 = false ∧ isListed [1] 4 = true ∧ isListed [2] 4 = false := by decide
-- k = 2 listed failures (class 4 derives from the listed class 1), then an unlisted class: 3 runs, 2 sleeps
example : observe (aretry (α := Nat) 5 [1] [.raise 1, .raise 4, .raise 2] false .lazy) = ⟨.raised (.user 2 2), [], 3, 2⟩ := by
  decide
-- k = 7 >= max_tries = 3: min (k+1) max_tries = 3 runs, the third exception object comes out
example : observe (aretry (α := Nat) 3 [1] (List.replicate 7 (.raise 1)) true .eager) = ⟨.raised (.user 1 2), [], 3, 2⟩ := by
  decide

-- ## the hypotheses are needed (machine-checked witnesses)
-- `0 < max_tries` in `C14_aretry_result` / `C14_aretry_flushes` (not in `C14_aretry_count`): max_tries = 0 is refused
example : (aretry (α := Nat) 0 [1] [.ret 3] true .eager).res ≠
    attemptRes (scriptAt [.ret 3]) (min (leadingListed [1] (scriptAt [.ret 3]) 0 0 + 1) 0 - 1) := by decide
-- `0 < max_tries` in the EAGER half of `C14_aretry_flushes` (the lazy half holds without it)
example : (observe (aretry (α := Nat) 0 [1] [.ret 3] true .eager)).flushes = [] ∧
    (match scriptAt [.ret 3] (min (leadingListed [1] (scriptAt [.ret 3]) 0 0 + 1) 0 - 1) with
     | .ret _ => if true then [1] else []
     | .raise _ => ([] : List Nat)) = [1] := by decide
-- `hstop` in `C14_aretry_runs` / `hu` in `C14_aretry_unlisted_immediately`: if attempt k raises a LISTED class too, the
-- loop goes on (k = 1: min (k+1) 5 = 2, but 3 runs); `hl`: an earlier attempt that returns ends the loop before k
example : totalRuns (aretry (α := Nat) 5 [1] [.raise 1, .raise 1, .ret 2] false .lazy).rounds = 3 := by decide
example : totalRuns (aretry (α := Nat) 5 [1] [.ret 7, .raise 1, .ret 2] false .lazy).rounds = 1 := by decide
-- `s.kind ≠ .nonIter` in the per-helper theorems: a non-iterable input is a TypeError, not `map` of anything
example : (amap exEnv ⟨.nonIter, [11]⟩).res = .raised .typeError := by decide
-- `k < max_tries` in `C14_aretry_unlisted_immediately`: an unlisted failure the loop never reaches is not raised
example : (aretry (α := Nat) 2 [1] [.raise 1, .raise 1, .raise 2] false .lazy).res = .raised (.user 1 1) := by decide
-- `Call.inStatement` in `C14_spec_holds`: `amax([], default=d)` - max answers d, amax raises TypeError
example : expected exEnv (.amaxmin false .dflt .none (.one ⟨.list, []⟩)) = ⟨.ok .dflt, [], 0, 0⟩ := by decide
example : observe (run exEnv (.amaxmin false .dflt .none (.one ⟨.list, []⟩))) = ⟨.raised .typeError, [], 0, 0⟩ := by decide
example : spec exEnv (.amaxmin false .dflt (.fn true false) (.one ⟨.list, [11, 25]⟩))
    (observe (run exEnv (.amaxmin false .dflt (.fn true false) (.one ⟨.list, [11, 25]⟩)))) = false := by decide
-- ... while `max(a, b, default=d)` is a TypeError for the built-in as well
example : expected exEnv (.amaxmin false .dflt .none (.elems [11, 25])) = ⟨.raised .typeError, [], 0, 0⟩ := by decide
-- the hypotheses of `C14_default_kw_outside_statement` are satisfiable
example : unorderable exEnv [11, 25] = false := by decide
-- ## further necessity witnesses (adopted from the second audit, tests/C14_a2.lean)
-- `isRetry = false` in `C14_one_round` / `C14_one_flush` / `C14_each_called_once`: aretry yields once per attempt
example : (run exEnv (.aretry 2 [1] [.raise 1, .ret 3] true .lazy)).rounds ≠ [] := by decide
/-- element 0 is not orderable (None), nothing blocks -/
def exEnv2 : Env Nat := ⟨fun x => x, fun _ => true, fun _ => true, fun x => if x = 0 then none else some x, fun _ => false⟩
-- `ho` in `C14_default_kw_outside_statement`: without key, unorderable values are a TypeError for max(.., default=d) too
example : observe (run exEnv2 (.amaxmin false .dflt .none (.one ⟨.list, [0, 1]⟩))) =
    expected exEnv2 (.amaxmin false .dflt .none (.one ⟨.list, [0, 1]⟩)) := by decide
-- `hk` there: a non-iterable argument is a TypeError for both
example : observe (run exEnv2 (.amaxmin false .dflt .none (.one ⟨.nonIter, [0, 1]⟩))) =
    expected exEnv2 (.amaxmin false .dflt .none (.one ⟨.nonIter, [0, 1]⟩)) := by decide
-- `Call.inStatement` is a little stronger than needed: max(a, b, default=d) is refused by the built-in as well (harmless)
example : observe (run exEnv2 (.amaxmin false .dflt .none (.elems [1, 2]))) =
    expected exEnv2 (.amaxmin false .dflt .none (.elems [1, 2])) := by decide
-- `C14_asorted_in_words`: its third clause has instances (equal keys 2 for 25 and 21, in that input order)
example : [25, 21].Sublist [11, 25, 13, 21] ∧ exEnv.key 25 = exEnv.key 21 := by decide
end examples

end AsynqModel.Tools
