import AsynqModel.Theorems.C19
/-!
# C19b  The C19 observer checks EVERY position of a recorded history

`Spec.C19` (`Mock.spec`) folds `watchStep`, the shape clause and the frame clause over a recorded history.  This file
proves that an accepted history - of any length and origin, also the records of a changed library - is accepted at
every position: every record went through `watchStep` from the watch state built by its predecessors, has the right
shape, and, if its operation never writes to a host, shows the store of the record before it.  Acceptance is
prefix-closed, and one rejected record rejects the whole history.
-/
namespace AsynqModel.Mock

/-- the store shown by the last record of a history (`last` if there is none) -/
def lastAfter (last : List (Option Tok)) : List Obs → List (Option Tok)
  | [] => last
  | ob :: obs => lastAfter ob.peeks obs

theorem watchRun_append (env : Env) (w : Watch) (last : List (Option Tok)) (a b : List Obs) :
    watchRun env w last (a ++ b) = (match watchRun env w last a with
      | .ok w' => watchRun env w' (lastAfter last a) b
      | .error e => .error e) := by
  induction a generalizing w last with
  | nil => simp [watchRun, lastAfter]
  | cons ob obs ih =>
    simp only [List.cons_append, watchRun, lastAfter]
    cases watchStep env w ob with
    | error e => rfl
    | ok w' =>
      simp only
      split
      · rfl
      · split
        · rfl
        · exact ih w' ob.peeks

/-- acceptance is prefix-closed -/
theorem C19_spec_prefix (env : Env) (a b : List Obs) (h : spec env (a ++ b) = true) : spec env a = true := by
  simp only [spec, watchRun_append] at h ⊢
  cases hw : watchRun env watchInit (initPeeks env) a with
  | ok w => rfl
  | error e => simp [hw] at h

/-- **every record of an accepted history was accepted** by `watchStep` from the watch state of its predecessors, has
    the right shape, and a read-only operation shows the store of the record before it -/
theorem C19_spec_every_step (env : Env) (pre post : List Obs) (ob : Obs) (h : spec env (pre ++ ob :: post) = true) :
    ∃ w w', watchRun env watchInit (initPeeks env) pre = .ok w ∧ watchStep env w ob = .ok w' ∧ shapeOk env ob = true ∧
      (ob.op.readOnly = true → ob.peeks = lastAfter (initPeeks env) pre) := by
  simp only [spec, watchRun_append] at h
  cases hw : watchRun env watchInit (initPeeks env) pre with
  | error e => simp [hw] at h
  | ok w =>
    simp only [hw, watchRun] at h
    cases hs : watchStep env w ob with
    | error e => simp [hs] at h
    | ok w' =>
      simp only [hs] at h
      refine ⟨w, w', rfl, hs, ?_, ?_⟩
      · cases hsh : shapeOk env ob with
        | true => rfl
        | false => simp [hsh] at h
      · intro hro
        cases hsh : shapeOk env ob with
        | false => simp [hsh] at h
        | true =>
          by_cases hp : ob.peeks = lastAfter (initPeeks env) pre
          · exact hp
          · have : (ob.peeks != lastAfter (initPeeks env) pre) = true := by simpa using hp
            simp [hsh, hro, this] at h

end AsynqModel.Mock
