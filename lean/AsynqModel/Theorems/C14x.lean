import AsynqModel.Lib.ToolsX
import AsynqModel.Theorems.C14
/-!
# C14, second layer: keys / predicates that raise, asyncio mode, eager functions, attribute-happy function objects,
# generator-protocol exception classes

Theorems about `AsynqModel.Tools.observeX` (Lib/ToolsX.lean) for EVERY element type, environment, call, failure
table `fails`, finishing times `delay`, engine (`Mode`), kind of function (lazy / eager) and `fnAuto`.

Restriction of the statement (besides `Call.inStatement`): the CLASS DOMAIN `Ext.ordinary` - the exception that
decides is not StopIteration / GeneratorExit (or a subclass).  CPython gives these classes a meaning inside
generators and the library follows it; `C14_stopIteration_outside_statement`, `C14_generatorExit_outside_statement`
and `C14_aretry_special_outside_statement` show that the model (= the code) leaves the built-ins' behaviour there.

The asyncio engine has a TIME dimension: `gather` lets the event loop complete the tasks in order of finishing time
(`completionOrder`), waits for the last one (`waitAll`) and reads in list order (`readResults`);
`C14_gather_ignores_time` proves that the times do not matter, `C14_race_depends_on_time` that they would for
`asyncio.gather` (`raceGather`).
-/
namespace AsynqModel.Tools

variable {α : Type} (env : Env α)

/-! ## delivery of a yielded list: list order, not time -/

theorem unwrapList_eq (ds : List Done) : unwrapList ds = ds.findSome? (·.err) := by
  induction ds with
  | nil => rfl
  | cons d ds ih =>
    cases h : d.err <;> simp [unwrapList, h, ih]

/-- every task finishes, so the waiter is released, with every outcome stored -/
theorem waitAll_all (evs st : List (Nat × Done)) : waitAll evs.length evs st = some (st ++ evs) := by
  induction evs generalizing st with
  | nil => simp [waitAll]
  | cons e es ih => simp [waitAll, ih]

theorem length_insertByTime (p : Nat × Done) (l : List (Nat × Done)) : (insertByTime p l).length = l.length + 1 := by
  induction l with
  | nil => rfl
  | cons q qs ih =>
    simp only [insertByTime]
    split <;> simp [ih]

theorem length_completionOrder (k : Nat) (ds : List Done) : (completionOrder k ds).length = ds.length := by
  induction ds generalizing k with
  | nil => rfl
  | cons d ds ih => simp [completionOrder, length_insertByTime, ih]

theorem mem_insertByTime (p q : Nat × Done) (l : List (Nat × Done)) : q ∈ insertByTime p l ↔ q = p ∨ q ∈ l := by
  induction l with
  | nil => simp [insertByTime]
  | cons r rs ih =>
    simp only [insertByTime]
    split
    · simp
    · simp only [List.mem_cons, ih]
      constructor
      · rintro (h | h | h) <;> simp [h]
      · rintro (h | h | h) <;> simp [h]

theorem key_ge_completionOrder (k : Nat) (ds : List Done) (q : Nat × Done) (h : q ∈ completionOrder k ds) : k ≤ q.1 := by
  induction ds generalizing k with
  | nil => simp [completionOrder] at h
  | cons d ds ih =>
    simp only [completionOrder, mem_insertByTime] at h
    rcases h with h | h
    · subst h; exact Nat.le_refl _
    · have := ih (k + 1) h; omega

/-- the time decides WHERE a finished task stands in the queue, not what is stored on it -/
theorem lookup_insertByTime_ne (j : Nat) (p : Nat × Done) (l : List (Nat × Done)) (h : j ≠ p.1) :
    (insertByTime p l).lookup j = l.lookup j := by
  obtain ⟨i, d⟩ := p
  have hji : (j == i) = false := by simpa using h
  induction l with
  | nil => simp [insertByTime, List.lookup, hji]
  | cons q qs ih =>
    obtain ⟨i', d'⟩ := q
    simp only [insertByTime]
    split
    · simp [List.lookup, hji]
    · simp only [List.lookup]
      cases j == i' <;> simp [ih]

theorem lookup_insertByTime_self (p : Nat × Done) (l : List (Nat × Done)) (h : ∀ q ∈ l, q.1 ≠ p.1) :
    (insertByTime p l).lookup p.1 = some p.2 := by
  obtain ⟨i, d⟩ := p
  induction l with
  | nil => simp [insertByTime, List.lookup]
  | cons q qs ih =>
    obtain ⟨i', d'⟩ := q
    simp only [insertByTime]
    split
    · simp [List.lookup]
    · have hne : (i == i') = false := by
        have := h (i', d') (by simp)
        simpa using fun e : i = i' => this e.symm
      simp only [List.lookup, hne]
      exact ih (fun q hq => h q (by simp [hq]))

/-- whatever the finishing times: when the waiter is released, the outcome of `tasks[j]` is stored on `tasks[j]` -/
theorem lookup_completionOrder (ds : List Done) (k j : Nat) (d : Done) (h : ds[j]? = some d) :
    (completionOrder k ds).lookup (k + j) = some d := by
  induction ds generalizing k j with
  | nil => simp at h
  | cons d0 ds ih =>
    simp only [completionOrder]
    cases j with
    | zero =>
      simp only [List.getElem?_cons_zero, Option.some.injEq] at h
      subst h
      exact lookup_insertByTime_self (k, d0) _ (fun q hq => by
        have := key_ge_completionOrder (k + 1) ds q hq
        simp only; omega)
    | succ j =>
      simp only [List.getElem?_cons_succ] at h
      rw [lookup_insertByTime_ne _ _ _ (by simp only; omega)]
      have := ih (k + 1) j h
      rwa [show k + 1 + j = k + (j + 1) by omega] at this

theorem readResults_eq (store : List (Nat × Done)) (ds : List Done) (k : Nat)
    (h : ∀ j d, ds[j]? = some d → store.lookup (k + j) = some d) :
    readResults store k ds = ds.findSome? (·.err) := by
  induction ds generalizing k with
  | nil => rfl
  | cons d ds ih =>
    have h0 := h 0 d (by simp)
    simp only [Nat.add_zero] at h0
    simp only [readResults, h0, Option.bind_some, List.findSome?_cons]
    cases d.err with
    | some c => rfl
    | none =>
      exact ih (k + 1) (fun j d' hj => by
        have := h (j + 1) d' (by simpa using hj)
        rwa [show k + (j + 1) = k + 1 + j by omega] at this)

/-- `_gather` raises the error of the first failed task IN LIST ORDER - for every assignment of finishing times.
    (A statement with content: `gather` processes the tasks in order of time.) -/
theorem gather_eq (ds : List Done) : gather ds = ds.findSome? (·.err) := by
  unfold gather
  have hw := waitAll_all (completionOrder 0 ds) []
  rw [length_completionOrder] at hw
  rw [hw]
  simp only [List.nil_append]
  exact readResults_eq _ ds 0 (fun j d hj => lookup_completionOrder ds 0 j d hj)

/-- both engines deliver a yielded list the same way: the exception of the first failed task IN LIST ORDER -/
theorem C14_yield_list_order (m : Mode) (ds : List Done) : yieldErr m ds = ds.findSome? (·.err) := by
  cases m
  · exact unwrapList_eq ds
  · exact gather_eq ds

/-- WHEN the tasks finish does not matter to what the yield raises: any two assignments of finishing times to the
    same outcomes give the same exception, although the event loop of the model completes the tasks in a different
    order (the hand-written `_gather` waits for all of them and reads the results in list order) -/
theorem C14_gather_ignores_time (m : Mode) (ds ds' : List Done) (h : ds.map (·.out) = ds'.map (·.out)) :
    yieldErr m ds = yieldErr m ds' := by
  rw [C14_yield_list_order, C14_yield_list_order]
  induction ds generalizing ds' with
  | nil => cases ds' <;> simp_all
  | cons d ds ih =>
    cases ds' with
    | nil => simp at h
    | cons d' ds' =>
      simp only [List.map_cons, List.cons.injEq] at h
      have he : d.err = d'.err := by simp [Done.err, h.1]
      simp only [List.findSome?_cons, he]
      cases d'.err
      · exact ih ds' h.2
      · rfl

/-- CONTRAST: a reader that is woken by the first FAILURE IN TIME (`asyncio.gather`, seeded change C14-8) does
    depend on the finishing times - the same two failing tasks, finishing in the two possible orders -/
theorem C14_race_depends_on_time :
    ∃ ds ds' : List Done, ds.map (·.out) = ds'.map (·.out) ∧ raceGather ds ≠ raceGather ds' ∧
      gather ds = gather ds' :=
  ⟨[⟨.err 1, 1⟩, ⟨.err 2, 0⟩], [⟨.err 1, 0⟩, ⟨.err 2, 1⟩], by decide, by decide, by decide⟩

/-! ## the class domain -/

theorem ordinaryCls_iff (c : Nat) : ordinaryCls c = true ↔ clsKind c = .ordinary := by
  simp [ordinaryCls]

theorem firstBad_cons (fails : α → Option Nat) (a : α) (as : List α) :
    firstBad fails (a :: as) = match fails a with
      | some c => some c
      | none => firstBad fails as := by
  simp only [firstBad, List.findSome?_cons]
  cases fails a <;> rfl

/-- an ordinary first failure is what the yield raises, under either engine, whatever comes later -/
theorem yieldErr_tasks_ord (m : Mode) (x : Ext α) (hm : x.mode = m) (xs : List α) (c : Nat)
    (hf : firstBad x.fails xs = some c) (ho : clsKind c = .ordinary) :
    yieldErr m (xs.map (taskOf x)) = some c := by
  rw [C14_yield_list_order]
  induction xs with
  | nil => simp [firstBad] at hf
  | cons a as ih =>
    rw [firstBad_cons] at hf
    cases h : x.fails a with
    | none =>
      simp only [h] at hf
      have herr : (taskOf x a).err = none := by simp [taskOf, taskOut, Done.err, h]
      simp only [List.map_cons, List.findSome?_cons, herr]
      exact ih hf
    | some c' =>
      simp only [h, Option.some.injEq] at hf
      subst hf
      have herr : (taskOf x a).err = some c' := by simp [taskOf, taskOut, Done.err, h, ho]
      simp only [List.map_cons, List.findSome?_cons, herr]

/-- a StopIteration first failure comes out as RuntimeError -/
theorem yieldErr_tasks_stop (m : Mode) (x : Ext α) (xs : List α) (c : Nat)
    (hf : firstBad x.fails xs = some c) (ho : clsKind c = .stopIteration) :
    yieldErr m (xs.map (taskOf x)) = some runtimeErrorCls := by
  rw [C14_yield_list_order]
  induction xs with
  | nil => simp [firstBad] at hf
  | cons a as ih =>
    rw [firstBad_cons] at hf
    cases h : x.fails a with
    | none =>
      simp only [h] at hf
      have herr : (taskOf x a).err = none := by simp [taskOf, taskOut, Done.err, h]
      simp only [List.map_cons, List.findSome?_cons, herr]
      exact ih hf
    | some c' =>
      simp only [h, Option.some.injEq] at hf
      subst hf
      have herr : (taskOf x a).err = some runtimeErrorCls := by simp [taskOf, taskOut, Done.err, h, ho]
      simp only [List.map_cons, List.findSome?_cons, herr]

theorem yieldErr_tasks_none (m : Mode) (x : Ext α) (xs : List α) (hf : firstBad x.fails xs = none) :
    yieldErr m (xs.map (taskOf x)) = none ∧ xs.any (lostAt x) = false := by
  rw [C14_yield_list_order]
  induction xs with
  | nil => simp
  | cons a as ih =>
    rw [firstBad_cons] at hf
    cases h : x.fails a with
    | none =>
      simp only [h] at hf
      have := ih hf
      have herr : (taskOf x a).err = none := by simp [taskOf, taskOut, Done.err, h]
      have hlost : lostAt x a = false := by simp [lostAt, taskOf, taskOut, h]
      simp only [List.map_cons, List.findSome?_cons, herr, List.any_cons, hlost, Bool.false_or]
      exact this
    | some c' => simp [h] at hf

theorem issueEager_eq (fails : α → Option Nat) (xs : List α) (n : Nat) :
    issueEager fails xs n =
      match firstBad fails xs with
      | some c => (some c, n + (xs.takeWhile fun a => (fails a).isNone).length + 1)
      | none => (none, n + xs.length) := by
  induction xs generalizing n with
  | nil => simp [issueEager, firstBad]
  | cons a as ih =>
    cases h : fails a
    · simp only [issueEager, h, ih, firstBad, List.findSome?_cons, List.takeWhile_cons, Option.isNone_none,
        if_true, List.length_cons]
      cases List.findSome? fails as <;> simp <;> omega
    · simp [issueEager, h, firstBad, List.findSome?_cons, List.takeWhile_cons]

/-- with ordinary classes aretry's loop seen through the generator protocol IS the loop of the first layer -/
theorem retryLoopX_eq (m : Mode) (listed : List Nat) (script : Nat → Attempt) (maxTries : Nat) (blocking : Bool)
    (kind : BodyKind) (todo i : Nat)
    (h : ∀ j, i ≤ j → j < i + todo → ∀ cls, script j = .raise cls → clsKind cls = .ordinary) :
    retryLoopX (α := α) m listed script maxTries blocking kind todo i =
      retryLoop listed script maxTries blocking kind todo i := by
  induction todo generalizing i with
  | zero => rfl
  | succ t ih =>
    have hi := h i (Nat.le_refl _) (by omega)
    have hrec := ih (i + 1) (fun j h1 h2 => h j (by omega) (by omega))
    unfold retryLoopX retryLoop
    cases hs : script i with
    | ret v => simp [seen]
    | raise cls =>
      have ho := hi cls hs
      simp only [seen, ho, hrec, leaves]

theorem ordinary_retry (x : Ext α) (mt : Nat) (l : List Nat) (sc : List Attempt) (b : Bool) (k : BodyKind)
    (ho : x.ordinary (.aretry mt l sc b k) = true) (j : Nat) (hj : j < mt) (cls : Nat)
    (hs : scriptAt sc j = .raise cls) : clsKind cls = .ordinary := by
  simp only [Ext.ordinary, List.all_eq_true, List.mem_range] at ho
  have := ho j hj
  rw [hs] at this
  exact (ordinaryCls_iff cls).mp this

theorem runX_eq (x : Ext α) (m : Mode) (c : Call α) (ho : x.ordinary c = true) : runX env m c = run env c := by
  cases c with
  | aretry mt l sc b k =>
    simp only [runX, run, aretryX, aretry]
    split
    · rfl
    · exact retryLoopX_eq m l (scriptAt sc) mt b k mt 0
        (fun j _ h2 cls hs => ordinary_retry x mt l sc b k ho j (by omega) cls hs)
  | _ => rfl

theorem ordinary_nonretry (x : Ext α) (c : Call α) (hr : c.isRetry = false) :
    x.ordinary c = (match firstBad x.fails c.items with
      | some cls => ordinaryCls cls
      | none => true) := by
  cases c <;> first | rfl | simp [Call.isRetry] at hr

theorem perElement_not_retry (c : Call α) (hp : c.perElement = true) : c.isRetry = false := by
  cases c <;> simp_all [Call.perElement, Call.isRetry]

/-- a call that makes per-element calls is inside the statement (adopted from the second audit) -/
theorem perElement_inStatement (c : Call α) (hp : c.perElement = true) : c.inStatement = true := by
  cases c <;> simp_all [Call.perElement, Call.inStatement]

/-- the second layer inside the class domain, in closed form -/
def observeOrd (env : Env α) (x : Ext α) (c : Call α) : Obs α :=
  let o := observe (run env c)
  let o := if x.mode = .asyncio then { o with flushes := [] } else o
  if !c.perElement then o
  else match firstBad x.fails c.items with
    | none => o
    | some cls =>
      if x.eager then
        { res := .raised (.user cls 0), flushes := [],
          runs := (c.items.takeWhile fun a => (x.fails a).isNone).length + 1, sleeps := 0 }
      else { o with res := .raised (.user cls 0) }

theorem observeX_ord (x : Ext α) (c : Call α) (ho : x.ordinary c = true) : observeX env x c = observeOrd env x c := by
  unfold observeX observeOrd
  rw [runX_eq env x x.mode c ho]
  cases hp : c.perElement
  · simp
  · simp only [Bool.not_true, Bool.false_eq_true, if_false]
    rw [ordinary_nonretry x c (perElement_not_retry c hp)] at ho
    cases he : x.eager
    · simp only [Bool.false_eq_true, if_false]
      cases hf : firstBad x.fails c.items with
      | none =>
        have := yieldErr_tasks_none x.mode x c.items hf
        simp [this.1, this.2]
      | some cls =>
        simp only [hf] at ho
        simp [yieldErr_tasks_ord x.mode x rfl c.items cls hf ((ordinaryCls_iff cls).mp ho)]
    · simp only [if_true, issueEager_eq]
      cases hf : firstBad x.fails c.items with
      | none => simp
      | some cls =>
        simp only [hf] at ho
        simp [eagerRes, (ordinaryCls_iff cls).mp ho]

/-! ## the property as a whole, second layer -/

/-- **C14 with keys that may raise, under either engine, for lazy and eager functions**: for every call inside the
    statement and the class domain the model's observation is the one the built-in counterpart demands
    (`expectedX`): the exception class of the FIRST bad element in input order where the key raises for some
    element, the plain `expected` otherwise (without flushes under asyncio, where no batch takes part). -/
theorem C14x_spec_holds (x : Ext α) (c : Call α) (h : c.inStatement = true) (ho : x.ordinary c = true) :
    observeX env x c = expectedX env x c := by
  rw [observeX_ord env x c ho]
  unfold observeOrd expectedX
  rw [C14_spec_holds env c h]
  cases hp : c.perElement
  · simp
  · simp only [Bool.not_true, Bool.false_eq_true, if_false]
    cases he : x.eager <;> cases firstBad x.fails c.items <;> simp

theorem C14x_spec_true [DecidableEq α] (x : Ext α) (c : Call α) (h : c.inStatement = true)
    (ho : x.ordinary c = true) : specX env x c (observeX env x c) = true := by
  unfold specX
  rw [C14x_spec_holds env x c h ho]
  split <;> simp

/-- the verdict the driver prints and the observer agree -/
theorem C14x_specClause_ok_iff [DecidableEq α] (x : Ext α) (c : Call α) (o : Obs α) :
    specClauseX env x c o = "ok" ↔ specX env x c o = true := by
  unfold specClauseX specX
  cases o with | mk r f n s =>
  generalize expectedX env x c = e
  cases e with | mk r' f' n' s' =>
  cases keyFails x c
  · simp only [Bool.false_eq_true, if_false]
    by_cases h1 : r = r' <;> by_cases h2 : n = n' <;> by_cases h3 : f = f' <;> by_cases h4 : s = s' <;>
      simp [h1, h2, h3, h4, bne, Obs.mk.injEq] <;> decide
  · simp only [if_true]
    by_cases h1 : r = r' <;> simp [h1, bne] <;> decide

/-- where no key fails the observer accepts ONE observation, the model's -/
theorem C14x_spec_only_model [DecidableEq α] (x : Ext α) (c : Call α) (h : c.inStatement = true)
    (ho : x.ordinary c = true) (o : Obs α) (hk : keyFails x c = false) :
    specX env x c o = true ↔ o = observeX env x c := by
  simp [specX, hk, C14x_spec_holds env x c h ho]

/-- where a key fails the observer accepts exactly the observations with the demanded exception class -/
theorem C14x_spec_failing [DecidableEq α] (x : Ext α) (c : Call α) (o : Obs α) (hk : keyFails x c = true) :
    specX env x c o = true ↔ ∃ cls, firstBad x.fails c.items = some cls ∧ o.res = .raised (.user cls 0) := by
  have hp : c.perElement = true := by
    simp only [keyFails, Bool.and_eq_true] at hk; exact hk.1
  have hb : (firstBad x.fails c.items).isSome = true := by
    simp only [keyFails, Bool.and_eq_true] at hk; exact hk.2
  obtain ⟨cls, hcls⟩ := Option.isSome_iff_exists.mp hb
  simp only [specX, hk, if_true, expectedX, hp, Bool.not_true, Bool.false_eq_true, if_false, hcls, beq_iff_eq]
  constructor
  · intro h; exact ⟨cls, rfl, h⟩
  · rintro ⟨c', h1, h2⟩; cases h1; exact h2

/-- the sentence in plain words: if the key / predicate raises for the element `e` an exception of the ordinary
    class `cls` and raises for no element BEFORE it in the input, the helper raises an exception of class `cls` -
    whatever comes after `e` (also elements that raise generator-protocol classes), for every assignment of
    finishing times (the event loop of the model completes the calls in that order), under either engine, for a
    lazy or an eager function -/
theorem C14_first_bad_element_wins (x : Ext α) (c : Call α) (hp : c.perElement = true)
    (p q : List α) (e : α) (cls : Nat) (hi : c.items = p ++ e :: q)
    (hgood : ∀ y ∈ p, x.fails y = none) (hbad : x.fails e = some cls) (hord : ordinaryCls cls = true) :
    (observeX env x c).res = .raised (.user cls 0) := by
  have hfb : firstBad x.fails c.items = some cls := by
    rw [hi, firstBad]
    clear hi
    induction p with
    | nil => simp [List.findSome?_cons, hbad]
    | cons y p ih =>
      have hy := hgood y (by simp)
      simp only [List.cons_append, List.findSome?_cons, hy]
      exact ih (fun z hz => hgood z (by simp [hz]))
  have ho : x.ordinary c = true := by
    rw [ordinary_nonretry x c (perElement_not_retry c hp), hfb]; exact hord
  rw [C14x_spec_holds env x c (perElement_inStatement c hp) ho]
  simp [expectedX, hp, hfb]

theorem ordinary_mode_delay (x : Ext α) (c : Call α) (m : Mode) (d : α → Nat) :
    Ext.ordinary { x with mode := m, delay := d } c = x.ordinary c := by
  cases c <;> rfl

/-- inside the class domain the engine does not matter for the outcome and the number of calls:
    `helper.asyncio(..)` under an event loop gives what `helper(..)` gives, for ALL finishing times of the
    per-element calls (there is no flush to speak of under asyncio) -/
theorem C14_engine_irrelevant (x : Ext α) (c : Call α) (d d' : α → Nat) (ho : x.ordinary c = true) :
    let a := observeX env { x with mode := .asynq, delay := d } c
    let b := observeX env { x with mode := .asyncio, delay := d' } c
    b.res = a.res ∧ b.runs = a.runs ∧ b.sleeps = a.sleeps ∧ b.flushes = [] := by
  simp only
  rw [observeX_ord env _ c (by rw [ordinary_mode_delay]; exact ho),
    observeX_ord env _ c (by rw [ordinary_mode_delay]; exact ho)]
  simp only [observeOrd]
  cases c.perElement
  · simp
  · cases x.eager <;> cases firstBad x.fails c.items <;> simp

/-- with a lazy function every per-element call is made, once, also when some of them raise (they are issued
    together before any of them runs); an eager function that raises stops the issuing at that element, exactly
    where the built-in stops.  No restriction on the classes: also a StopIteration / GeneratorExit is one call. -/
theorem C14_failing_key_calls (x : Ext α) (c : Call α) (hp : c.perElement = true)
    (hf : (firstBad x.fails c.items).isSome = true) :
    (observeX env x c).runs =
      if x.eager then (c.items.takeWhile fun a => (x.fails a).isNone).length + 1 else c.items.length := by
  obtain ⟨cls, hcls⟩ := Option.isSome_iff_exists.mp hf
  have hr := perElement_not_retry c hp
  have h1 := C14_each_called_once env c hr
  rw [hp] at h1
  simp only [if_true] at h1
  have hrun : runX env x.mode c = run env c := by cases c <;> first | rfl | simp [Call.isRetry] at hr
  unfold observeX
  rw [hrun]
  simp only [hp, Bool.not_true, Bool.false_eq_true, if_false]
  cases he : x.eager
  · simp only [Bool.false_eq_true, if_false]
    generalize yieldErr x.mode (c.items.map (taskOf x)) = y
    generalize c.items.any (lostAt x) = b
    cases y <;> cases b <;> cases x.mode <;> simp [h1]
  · simp only [if_true, issueEager_eq, hcls]
    simp

/-- the plain case (asynq scheduler, lazy function, nothing raises; ordinary classes in an aretry script) is the
    first layer: every theorem of Theorems/C14.lean speaks about `observeX .. Ext.plain` -/
theorem C14x_plain (c : Call α) (ho : (Ext.plain : Ext α).ordinary c = true) :
    observeX env Ext.plain c = observe (run env c) := by
  rw [observeX_ord env _ c ho]
  simp only [observeOrd, Ext.plain]
  cases c.perElement
  · simp
  · have : firstBad (fun (_ : α) => (none : Option Nat)) c.items = none := by
      unfold firstBad
      induction c.items with
      | nil => rfl
      | cons a as ih => simp [List.findSome?_cons, ih]
    simp [this]

/-! ## the class domain is needed -/

/-- `Ext.ordinary` is needed (StopIteration): for EVERY environment, engine, kind of function and call that makes
    per-element calls, if the first bad element raises a StopIteration (subclass) the helper raises RuntimeError -
    `sorted` / `max` / `min` raise the StopIteration itself, `list(map(..))` / `filter` silently stop there -/
theorem C14_stopIteration_outside_statement (x : Ext α) (c : Call α) (hp : c.perElement = true)
    (cls : Nat) (hf : firstBad x.fails c.items = some cls) (hk : clsKind cls = .stopIteration) :
    (observeX env x c).res = .raised (.user runtimeErrorCls 0) ∧
    (expectedX env x c).res = .raised (.user cls 0) ∧ x.ordinary c = false := by
  have hr := perElement_not_retry c hp
  refine ⟨?_, by simp [expectedX, hp, hf], ?_⟩
  · unfold observeX
    cases hl : x.eager
    · simp only [hp, Bool.not_true, Bool.false_eq_true, if_false,
        yieldErr_tasks_stop x.mode x c.items cls hf hk]
    · simp only [hp, Bool.not_true, Bool.false_eq_true, if_false, if_true, issueEager_eq, hf, eagerRes, hk]
  · rw [ordinary_nonretry x c hr, hf]
    simp [ordinaryCls, hk]

/-! ## by construction -/

/-- tools.py reads one attribute of the function object, `.asynq`: what else the object answers (a MagicMock says
    yes to `is_pure_async_fn`, `fn`, `asyncio`, ..) has no branch in the model.  Content = the correspondence run,
    which measures `fnAuto` and drives `asynq.mock.patch` replacements through every helper. -/
theorem C14_fn_attributes_irrelevant (x : Ext α) (c : Call α) (b : Bool) :
    observeX env { x with fnAuto := b } c = observeX env x c := rfl

/-! ## non-vacuity, necessity of the hypotheses -/

section examples
-- element 10 needs one round trip and then fails with class 1, element 20 fails at once with class 2
def exX (m : Mode) (eager : Bool) : Ext Nat :=
  { fails := fun a => if a = 10 then some 1 else if a = 20 then some 2 else none
    delay := fun a => if a = 20 then 0 else 1, mode := m, eager := eager, fnAuto := false }

/-- element 10 raises a StopIteration subclass (7), element 20 a GeneratorExit subclass (8) -/
def exS (m : Mode) (eager : Bool) : Ext Nat :=
  { fails := fun a => if a = 10 then some 7 else if a = 20 then some 8 else none
    delay := fun _ => 0, mode := m, eager := eager, fnAuto := false }

/-- `Ext.ordinary` is needed (GeneratorExit): under the asynq scheduler the per-element task of the bad element ends
    with the value None - amap hands back a list with None in it, afilter drops the element, asorted / amax compare
    None with a key (TypeError) - while `map` / `filter` / `sorted` / `max` raise the GeneratorExit; under asyncio
    the GeneratorExit comes through.  So the ENGINES DIFFER: the hypothesis of `C14_engine_irrelevant` is needed too. -/
theorem C14_generatorExit_outside_statement :
    (observeX exEnv (exS .asynq false) (.amap ⟨.list, [31, 20, 47]⟩)).res = .ok (.optVals [some 3, none, some 4]) ∧
    (observeX exEnv (exS .asynq false) (.afilter (.fn true false) ⟨.list, [31, 20, 47]⟩)).res = .ok (.elems [31, 47]) ∧
    (observeX exEnv (exS .asynq false) (.asift ⟨.list, [31, 20, 47]⟩)).res = .ok (.pair [31, 47] [20]) ∧
    (observeX exEnv (exS .asynq false) (.amaxmin false .none (.fn true false) (.elems [31, 20, 47]))).res
      = .raised .typeError ∧
    (observeX exEnv (exS .asyncio false) (.amap ⟨.list, [31, 20, 47]⟩)).res = .raised (.user 8 0) ∧
    (expectedX exEnv (exS .asynq false) (.amap ⟨.list, [31, 20, 47]⟩)).res = .raised (.user 8 0) ∧
    (exS .asynq false).ordinary (.amap ⟨.list, [31, 20, 47]⟩) = false := by decide

/-- the class domain is needed for aretry: a lazy body that raises a LISTED GeneratorExit subclass is run once and
    aretry returns None (the property: 3 runs, the value 5); a listed StopIteration subclass comes out of the body's
    task as RuntimeError, which is not listed: one run.  An eager body raises inside aretry's `try` and is retried. -/
theorem C14_aretry_special_outside_statement :
    observeX exEnv (exS .asynq false) (.aretry 4 [8] [.raise 8, .raise 8, .ret 5] false .lazy) = ⟨.ok .none, [], 1, 0⟩ ∧
    expectedX exEnv (exS .asynq false) (.aretry 4 [8] [.raise 8, .raise 8, .ret 5] false .lazy) = ⟨.ok (.val 5), [], 3, 2⟩ ∧
    observeX exEnv (exS .asynq false) (.aretry 4 [7] [.raise 7, .raise 7, .ret 5] false .lazy)
      = ⟨.raised (.user 9 0), [], 1, 0⟩ ∧
    observeX exEnv (exS .asynq false) (.aretry 4 [7] [.raise 7, .raise 7, .ret 5] false .eager) = ⟨.ok (.val 5), [], 3, 2⟩ ∧
    observeX exEnv (exS .asyncio false) (.aretry 4 [8] [.raise 8, .raise 8, .ret 5] false .lazy)
      = ⟨.raised (.user 8 0), [], 1, 0⟩ ∧
    (exS .asynq false).ordinary (.aretry 4 [8] [.raise 8, .raise 8, .ret 5] false .lazy) = false := by decide

-- the first bad element in input order decides, under both engines
example : (observeX exEnv (exX .asynq false) (.amap ⟨.list, [31, 10, 20]⟩)) = ⟨.raised (.user 1 0), [3], 3, 0⟩ := by decide
example : (observeX exEnv (exX .asyncio false) (.amap ⟨.list, [31, 10, 20]⟩)) = ⟨.raised (.user 1 0), [], 3, 0⟩ := by decide
example : (observeX exEnv (exX .asyncio false) (.amaxmin false .none (.fn true false) (.elems [31, 20, 10]))).res
    = .raised (.user 2 0) := by decide
-- an eager function stops at the first bad element: two bodies ran, nothing was yielded
example : (observeX exEnv (exX .asynq true) (.asift ⟨.iterator, [31, 10, 20]⟩)) = ⟨.raised (.user 1 0), [], 2, 0⟩ := by decide
-- no per-element call, no failure: afilter(None, ..), asorted without key
example : (observeX exEnv (exX .asyncio false) (.afilter .none ⟨.list, [0, 10, 20]⟩)) = ⟨.ok (.elems [10, 20]), [], 0, 0⟩ := by
  decide
-- THE TIME DIMENSION IS LIVE: the event loop completes element 20 (time 0) before 31 and 10 (time 1) ..
example : (completionOrder 0 ([31, 10, 20].map (taskOf (exX .asyncio false)))).map (·.1) = [2, 0, 1] := by decide
-- .. a reader woken by the first failure in time (`asyncio.gather`, seeded change C14-8) raises class 2 ..
example : raceGather ([31, 10, 20].map (taskOf (exX .asyncio false))) = some 2 := by decide
-- .. the library's `_gather` raises class 1, and the observer rejects class 2 and a value
example : gather ([31, 10, 20].map (taskOf (exX .asyncio false))) = some 1 := by decide
example : specX exEnv (exX .asyncio false) (.amap ⟨.list, [31, 10, 20]⟩) ⟨.raised (.user 2 0), [], 3, 0⟩ = false := by decide
example : specX exEnv (exX .asyncio false) (.amap ⟨.list, [31, 10, 20]⟩) ⟨.ok (.vals [3, 1, 2]), [], 3, 0⟩ = false := by decide
example : specX exEnv (exX .asyncio false) (.amap ⟨.list, [31, 10, 20]⟩) ⟨.raised (.user 1 0), [], 3, 0⟩ = true := by decide
-- a waiter that is released before the last task is done would read an empty slot: `waitAll` with a counter that is
-- too small stores only the first completions (here: only element 20's), the failure of element 10 is not seen
example : (waitAll 1 (completionOrder 0 ([31, 10, 20].map (taskOf (exX .asyncio false)))) []).map
    (fun st => readResults st 0 ([31, 10, 20].map (taskOf (exX .asyncio false)))) = some (some 2) := by decide
-- without a failing key the whole observation counts: a key call through a detour that breaks for attribute-happy
-- function objects (seeded change C14-9: TypeError instead of the values) is rejected
example : specX exEnv (exX .asynq true) (.amap ⟨.list, [31, 47]⟩) ⟨.raised .typeError, [], 2, 0⟩ = false := by decide
example : specX exEnv (exX .asynq true) (.amap ⟨.list, [31, 47]⟩) ⟨.ok (.vals [3, 4]), [2], 2, 0⟩ = true := by decide
example : specClauseX exEnv (exX .asyncio false) (.amap ⟨.list, [31, 47]⟩) ⟨.ok (.vals [3, 4]), [2], 2, 0⟩ = "one-round" := by
  decide
-- the observer rejects what the code does with the generator-protocol classes (so a case with such a class, were it
-- generated, would be reported): RuntimeError where StopIteration is due, a list with None where GeneratorExit is due
example : specX exEnv (exS .asynq false) (.amap ⟨.list, [31, 10]⟩) ⟨.raised (.user 9 0), [2], 2, 0⟩ = false := by decide
example : specX exEnv (exS .asynq false) (.amap ⟨.list, [31, 20]⟩) ⟨.ok (.optVals [some 3, none]), [2], 2, 0⟩ = false := by decide
-- the hypotheses of `C14_first_bad_element_wins` are satisfiable
example : (observeX exEnv (exX .asyncio false) (.asorted (.fn false true) true ⟨.reiter, [31, 10, 47, 20]⟩)).res
    = .raised (.user 1 0) :=
  C14_first_bad_element_wins exEnv _ _ rfl [31] [47, 20] 10 1 rfl (by decide) rfl rfl
-- .. an ordinary first failure wins also over LATER generator-protocol failures
example : (observeX exEnv { exS .asynq false with fails := fun a => if a = 31 then some 3 else if a = 20 then some 8 else none }
    (.amap ⟨.list, [31, 20]⟩)).res = .raised (.user 3 0) := by decide
-- `hp` (the invocation makes per-element calls) is needed: afilter(None, ..) calls nothing, nothing can fail
example : (observeX exEnv (exX .asynq false) (.afilter .none ⟨.list, [10]⟩)).res ≠ .raised (.user 1 0) := by decide
-- `hord` is needed: a first bad element of class StopIteration gives RuntimeError (general: `C14_stopIteration_outside_statement`)
example : (observeX exEnv (exS .asynq false) (.amap ⟨.list, [31, 10]⟩)).res = .raised (.user 9 0) := by decide
example : (observeX exEnv (exS .asyncio true) (.amap ⟨.list, [31, 10]⟩)).res = .raised (.user 9 0) := by decide
-- the hypotheses of `C14_stopIteration_outside_statement` are satisfiable
example : (observeX exEnv (exS .asyncio false) (.asorted (.fn true false) false ⟨.list, [31, 10, 20]⟩)).res
    = .raised (.user runtimeErrorCls 0) :=
  (C14_stopIteration_outside_statement exEnv _ _ rfl 7 (by decide) rfl).1
-- `ho` in `C14x_plain`: an aretry script with a GeneratorExit is not the first layer's loop
example : observeX exEnv Ext.plain (.aretry 3 [1] [.raise 8, .ret 5] false .lazy) ≠
    observe (run exEnv (.aretry 3 [1] [.raise 8, .ret 5] false .lazy)) := by decide
-- an eager function that raises GeneratorExit inside the comprehension: the helper's own task ends with None
example : observeX exEnv (exS .asynq true) (.afilter (.fn true false) ⟨.list, [31, 20, 47]⟩) = ⟨.ok .none, [], 2, 0⟩ := by decide
example : observeX exEnv (exS .asynq true) (.asorted (.fn true false) false ⟨.list, [31, 20, 47]⟩)
    = ⟨.raised .typeError, [], 2, 0⟩ := by decide
-- `hk` (no failing key) in `C14x_spec_only_model`: with a failing key the observer looks at the exception class only
example : specX exEnv (exX .asyncio false) (.amap ⟨.list, [31, 10, 20]⟩) ⟨.raised (.user 1 0), [7], 99, 4⟩ = true := by decide
-- `hgood` in `C14_first_bad_element_wins`: a bad element BEFORE `e` wins (class 1 of element 10, not class 2 of 20)
example : (observeX exEnv (exX .asynq false) (.amap ⟨.list, [10, 20]⟩)).res = .raised (.user 1 0) := by decide
-- `hf` / `hp` in `C14_failing_key_calls`: without a failing element an eager function runs once per element (not one
-- more); afilter(None, ..) calls nothing
example : (observeX exEnv (exX .asynq true) (.amap ⟨.list, [31, 47]⟩)).runs = 2 := by decide
example : (observeX exEnv (exX .asynq false) (.afilter .none ⟨.list, [10, 31]⟩)).runs = 0 := by decide
-- `h` (same outcomes) in `C14_gather_ignores_time`: other outcomes, another exception
example : yieldErr .asyncio [⟨.err 1, 0⟩] ≠ yieldErr .asyncio [⟨.err 2, 0⟩] := by decide
end examples

end AsynqModel.Tools
