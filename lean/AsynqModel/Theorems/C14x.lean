import AsynqModel.Lib.ToolsX
import AsynqModel.Theorems.C14
/-!
# C14, second layer: keys / predicates that raise, asyncio mode, eager functions, attribute-happy function objects

Theorems about `AsynqModel.Tools.observeX` (Lib/ToolsX.lean) for EVERY element type, environment, call, failure
table `fails`, finishing times `delay`, engine (`Mode`), kind of function (lazy / eager) and `fnAuto`.
-/
namespace AsynqModel.Tools

variable {α : Type} (env : Env α)

/-! ## delivery of a yielded list: list order, not time -/

theorem unwrapList_eq (ds : List Done) : unwrapList ds = ds.findSome? (·.err) := by
  induction ds with
  | nil => rfl
  | cons d ds ih =>
    cases h : d.err <;> simp [unwrapList, h, List.findSome?_cons, ih]

theorem gather_eq (ds : List Done) : gather ds = ds.findSome? (·.err) := by
  induction ds with
  | nil => rfl
  | cons d ds ih =>
    unfold gather at ih ⊢
    cases h : d.err <;> simp [List.find?_cons, List.findSome?_cons, h, ih]

/-- both engines deliver a yielded list the same way: the exception of the first failed task IN LIST ORDER -/
theorem C14_yield_list_order (m : Mode) (ds : List Done) : yieldErr m ds = ds.findSome? (·.err) := by
  cases m
  · exact unwrapList_eq ds
  · exact gather_eq ds

theorem yieldErr_tasks (m : Mode) (x : Ext α) (xs : List α) : yieldErr m (xs.map (taskOf x)) = firstBad x.fails xs := by
  rw [C14_yield_list_order, firstBad]
  induction xs with
  | nil => rfl
  | cons a as ih => cases h : x.fails a <;> simp [List.findSome?_cons, taskOf, h, ih]

/-- WHEN the tasks finish does not matter to what the yield raises (the hand-written `_gather` waits for all of
    them and reads the results in list order): any two assignments of finishing times give the same exception -/
theorem C14_gather_ignores_time (m : Mode) (ds ds' : List Done) (h : ds.map (·.err) = ds'.map (·.err)) :
    yieldErr m ds = yieldErr m ds' := by
  rw [C14_yield_list_order, C14_yield_list_order]
  induction ds generalizing ds' with
  | nil => cases ds' <;> simp_all
  | cons d ds ih =>
    cases ds' with
    | nil => simp at h
    | cons d' ds' =>
      simp only [List.map_cons, List.cons.injEq] at h
      simp only [List.findSome?_cons, h.1]
      cases d'.err
      · exact ih ds' h.2
      · rfl

theorem issueEager_eq (fails : α → Option Nat) (xs : List α) (n : Nat) :
    issueEager fails xs n =
      match firstBad fails xs with
      | some c => (some c, n + (xs.takeWhile fun a => (fails a).isNone).length + 1)
      | none => (none, n + xs.length) := by
  induction xs generalizing n with
  | nil => simp [issueEager, firstBad]
  | cons a as ih =>
    cases h : fails a
    · simp only [issueEager, h, ih, firstBad, List.findSome?_cons, List.takeWhile_cons, Option.isNone_none,
        if_true, List.length_cons]
      cases List.findSome? fails as <;> simp <;> omega
    · simp [issueEager, h, firstBad, List.findSome?_cons, List.takeWhile_cons]

/-! ## the property as a whole, second layer -/

/-- **C14 with keys that may raise, under either engine, for lazy and eager functions**: for every call inside the
    statement the model's observation is the one the built-in counterpart demands (`expectedX`): the exception
    class of the FIRST bad element in input order where the key raises for some element, the plain `expected`
    otherwise (without flushes under asyncio, where no batch takes part). -/
theorem C14x_spec_holds (x : Ext α) (c : Call α) (h : c.inStatement = true) :
    observeX env x c = expectedX env x c := by
  unfold observeX expectedX
  rw [C14_spec_holds env c h]
  cases hp : c.perElement
  · simp
  · simp only [Bool.not_true, Bool.false_eq_true, if_false]
    cases he : x.eager
    · simp only [Bool.false_eq_true, if_false, yieldErr_tasks]
      cases firstBad x.fails c.items <;> simp
    · simp only [if_true, issueEager_eq]
      cases firstBad x.fails c.items <;> simp

theorem C14x_spec_true [DecidableEq α] (x : Ext α) (c : Call α) (h : c.inStatement = true) :
    specX env x c (observeX env x c) = true := by
  unfold specX
  rw [C14x_spec_holds env x c h]
  split <;> simp

/-- the verdict the driver prints and the observer agree -/
theorem C14x_specClause_ok_iff [DecidableEq α] (x : Ext α) (c : Call α) (o : Obs α) :
    specClauseX env x c o = "ok" ↔ specX env x c o = true := by
  unfold specClauseX specX
  cases o with | mk r f n s =>
  generalize expectedX env x c = e
  cases e with | mk r' f' n' s' =>
  cases keyFails x c
  · simp only [Bool.false_eq_true, if_false]
    by_cases h1 : r = r' <;> by_cases h2 : n = n' <;> by_cases h3 : f = f' <;> by_cases h4 : s = s' <;>
      simp [h1, h2, h3, h4, bne, Obs.mk.injEq] <;> decide
  · simp only [if_true]
    by_cases h1 : r = r' <;> simp [h1, bne] <;> decide

/-- where no key fails the observer accepts ONE observation, the model's -/
theorem C14x_spec_only_model [DecidableEq α] (x : Ext α) (c : Call α) (h : c.inStatement = true) (o : Obs α)
    (hk : keyFails x c = false) : specX env x c o = true ↔ o = observeX env x c := by
  simp [specX, hk, C14x_spec_holds env x c h]

/-- where a key fails the observer accepts exactly the observations with the demanded exception class -/
theorem C14x_spec_failing [DecidableEq α] (x : Ext α) (c : Call α) (o : Obs α) (hk : keyFails x c = true) :
    specX env x c o = true ↔ ∃ cls, firstBad x.fails c.items = some cls ∧ o.res = .raised (.user cls 0) := by
  have hp : c.perElement = true := by
    simp only [keyFails, Bool.and_eq_true] at hk; exact hk.1
  have hb : (firstBad x.fails c.items).isSome = true := by
    simp only [keyFails, Bool.and_eq_true] at hk; exact hk.2
  obtain ⟨cls, hcls⟩ := Option.isSome_iff_exists.mp hb
  simp only [specX, hk, if_true, expectedX, hp, Bool.not_true, Bool.false_eq_true, if_false, hcls, beq_iff_eq]
  constructor
  · intro h; exact ⟨cls, rfl, h⟩
  · rintro ⟨c', h1, h2⟩; cases h1; exact h2

/-- the sentence in plain words: if the key / predicate raises for the element `e` (class `cls`) and for no
    element BEFORE it in the input, the helper raises an exception of class `cls` - whatever comes after `e`,
    whenever the calls finish, under either engine, for a lazy or an eager function -/
theorem C14_first_bad_element_wins (x : Ext α) (c : Call α) (hs : c.inStatement = true) (hp : c.perElement = true)
    (p q : List α) (e : α) (cls : Nat) (hi : c.items = p ++ e :: q)
    (hgood : ∀ y ∈ p, x.fails y = none) (hbad : x.fails e = some cls) :
    (observeX env x c).res = .raised (.user cls 0) := by
  have hfb : firstBad x.fails c.items = some cls := by
    rw [hi, firstBad]
    clear hi
    induction p with
    | nil => simp [List.findSome?_cons, hbad]
    | cons y p ih =>
      have hy := hgood y (by simp)
      simp only [List.cons_append, List.findSome?_cons, hy]
      exact ih (fun z hz => hgood z (by simp [hz]))
  rw [C14x_spec_holds env x c hs]
  simp [expectedX, hp, hfb]

/-- the engine does not matter for the outcome and the number of calls: `helper.asyncio(..)` under an event loop
    gives what `helper(..)` gives, for all finishing times of the per-element calls (there is no flush to speak of
    under asyncio) -/
theorem C14_engine_irrelevant (x : Ext α) (c : Call α) (d d' : α → Nat) :
    let a := observeX env { x with mode := .asynq, delay := d } c
    let b := observeX env { x with mode := .asyncio, delay := d' } c
    b.res = a.res ∧ b.runs = a.runs ∧ b.sleeps = a.sleeps ∧ b.flushes = [] := by
  simp only [observeX]
  cases c.perElement
  · simp
  · cases x.eager
    · simp only [Bool.not_true, Bool.false_eq_true, if_false, yieldErr_tasks]
      cases firstBad x.fails c.items <;> simp
    · simp only [Bool.not_true, Bool.false_eq_true, if_false, if_true, issueEager_eq]
      cases firstBad x.fails c.items <;> simp

/-- with a lazy function every per-element call is made, once, also when some of them raise (they are issued
    together before any of them runs); an eager function that raises stops the issuing at that element, exactly
    where the built-in stops -/
theorem C14_failing_key_calls (x : Ext α) (c : Call α) (hs : c.inStatement = true) (hp : c.perElement = true)
    (hf : (firstBad x.fails c.items).isSome = true) :
    (observeX env x c).runs =
      if x.eager then (c.items.takeWhile fun a => (x.fails a).isNone).length + 1 else c.items.length := by
  obtain ⟨cls, hcls⟩ := Option.isSome_iff_exists.mp hf
  rw [C14x_spec_holds env x c hs]
  have h1 := C14_each_called_once env c (by cases c <;> simp_all [Call.isRetry, Call.perElement])
  rw [C14_spec_holds env c hs, hp] at h1
  simp only [if_true] at h1
  cases he : x.eager <;> cases hm : x.mode <;> simp [expectedX, hp, hcls, h1, he, hm]

/-- the plain case (asynq scheduler, lazy function, nothing raises) is the first layer: every theorem of
    Theorems/C14.lean speaks about `observeX .. Ext.plain` -/
theorem C14x_plain (c : Call α) : observeX env Ext.plain c = observe (run env c) := by
  simp only [observeX, Ext.plain]
  cases c.perElement
  · simp
  · simp only [Bool.not_true, Bool.false_eq_true, if_false, yieldErr_tasks, firstBad]
    have : List.findSome? (fun (_ : α) => (none : Option Nat)) c.items = none := by
      induction c.items with
      | nil => rfl
      | cons a as ih => simp [List.findSome?_cons, ih]
    simp [this]

/-! ## by construction -/

/-- tools.py reads one attribute of the function object, `.asynq`: what else the object answers (a MagicMock says
    yes to `is_pure_async_fn`, `fn`, `asyncio`, ..) has no branch in the model.  Content = the correspondence run,
    which measures `fnAuto` and drives `asynq.mock.patch` replacements through every helper. -/
theorem C14_fn_attributes_irrelevant (x : Ext α) (c : Call α) (b : Bool) :
    observeX env { x with fnAuto := b } c = observeX env x c := rfl

/-! ## non-vacuity -/

section examples
-- element 10 needs one round trip and then fails with class 1, element 20 fails at once with class 2
def exX (m : Mode) (eager : Bool) : Ext Nat :=
  { fails := fun a => if a = 10 then some 1 else if a = 20 then some 2 else none
    delay := fun a => if a = 20 then 0 else 1, mode := m, eager := eager, fnAuto := false }

-- the first bad element in input order decides, under both engines
example : (observeX exEnv (exX .asynq false) (.amap ⟨.list, [31, 10, 20]⟩)) = ⟨.raised (.user 1 0), [3], 3, 0⟩ := by decide
example : (observeX exEnv (exX .asyncio false) (.amap ⟨.list, [31, 10, 20]⟩)) = ⟨.raised (.user 1 0), [], 3, 0⟩ := by decide
example : (observeX exEnv (exX .asyncio false) (.amaxmin false .none (.fn true false) (.elems [31, 20, 10]))).res
    = .raised (.user 2 0) := by decide
-- an eager function stops at the first bad element: two bodies ran, nothing was yielded
example : (observeX exEnv (exX .asynq true) (.asift ⟨.iterator, [31, 10, 20]⟩)) = ⟨.raised (.user 1 0), [], 2, 0⟩ := by decide
-- no per-element call, no failure: afilter(None, ..), asorted without key
example : (observeX exEnv (exX .asyncio false) (.afilter .none ⟨.list, [0, 10, 20]⟩)) = ⟨.ok (.elems [10, 20]), [], 0, 0⟩ := by
  decide
-- a gather that reports the failure that happens first IN TIME (seeded change C14-8) raises class 2 here, and
-- the observer rejects that observation; it also rejects a result where an exception is due
example : firstInTime ([31, 10, 20].map (taskOf (exX .asyncio false))) = some 2 := by decide
example : gather ([31, 10, 20].map (taskOf (exX .asyncio false))) = some 1 := by decide
example : specX exEnv (exX .asyncio false) (.amap ⟨.list, [31, 10, 20]⟩) ⟨.raised (.user 2 0), [], 3, 0⟩ = false := by decide
example : specX exEnv (exX .asyncio false) (.amap ⟨.list, [31, 10, 20]⟩) ⟨.ok (.vals [3, 1, 2]), [], 3, 0⟩ = false := by decide
example : specX exEnv (exX .asyncio false) (.amap ⟨.list, [31, 10, 20]⟩) ⟨.raised (.user 1 0), [], 3, 0⟩ = true := by decide
-- without a failing key the whole observation counts: a key call through a detour that breaks for attribute-happy
-- function objects (seeded change C14-9: TypeError instead of the values) is rejected
example : specX exEnv (exX .asynq true) (.amap ⟨.list, [31, 47]⟩) ⟨.raised .typeError, [], 2, 0⟩ = false := by decide
example : specX exEnv (exX .asynq true) (.amap ⟨.list, [31, 47]⟩) ⟨.ok (.vals [3, 4]), [2], 2, 0⟩ = true := by decide
example : specClauseX exEnv (exX .asyncio false) (.amap ⟨.list, [31, 47]⟩) ⟨.ok (.vals [3, 4]), [2], 2, 0⟩ = "one-round" := by
  decide
-- the hypotheses of `C14_first_bad_element_wins` are satisfiable
example : (observeX exEnv (exX .asyncio false) (.asorted (.fn false true) true ⟨.reiter, [31, 10, 47, 20]⟩)).res
    = .raised (.user 1 0) :=
  C14_first_bad_element_wins exEnv _ _ rfl rfl [31] [47, 20] 10 1 rfl (by decide) rfl
end examples

end AsynqModel.Tools
