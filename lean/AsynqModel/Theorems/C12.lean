import AsynqModel.Lib.Dedup
import AsynqModel.Proofs.Dedup
import AsynqModel.Proofs.DedupSim
import AsynqModel.Proofs.DedupCall
import AsynqModel.Proofs.DedupInv
/-!
# C12  deduplicate: one in-flight execution per key, shared by all callers

Theorems about the model `AsynqModel.Dedup` (get_args_tuple as written in qcore + the table operations of
DeduplicateDecorator) for every list of function declarations, every signature and every history of operations
(calls with arbitrary spellings from arbitrary threads / receivers, dirty(), body start / resume (send or throw) /
suspend / completion in ANY order - the scheduler is an input).

The property is FALSE of the code in one situation, which the `_partial` theorems exclude by a decidable
hypothesis and `C12_key_normal_counterexample` exhibits:
* `Sig.ok`: a signature with `*args` AND keyword-only parameters makes the default key conflate different calls.
(A second defect - the completion callback of an old, dirtied task evicted the newer task's entry - has been
repaired in the code; the model has the repaired callback and `C12_completion_keeps_newer` states the repair.)
-/
namespace AsynqModel.Dedup

/-- **C12 as a whole** (partial): for all function declarations with faithful signatures and EVERY history
    of operations, the observations of the model are accepted by the observer `spec` - the same
    Boolean function the check evaluates on the observations of the real implementation.  `spec` says: a
    well-formed call from outside the running body returns the in-flight, undirtied task of the same
    (function, thread, binding) if there is one, and otherwise a brand-new task; a body receives what its
    creating call bound; a well-formed call / dirty never raises; ill-formed calls create nothing. -/
theorem C12_spec_holds_partial (fns : List FnDecl) (ops : List Op)
    (hsig : sigsOk fns = true) :
    spec fns (run fns St.init ops) = true := by
  obtain ⟨w', h⟩ := watchRun_ok fns hsig ops St.init Watch.init (Or.inr (rel_init fns))
  simp [spec, h]

/-- **key normalisation** (partial): on every signature that does not combine `*args` with keyword-only
    parameters, two spellings that bind have equal keys iff they bind the same parameter values -/
theorem C12_key_normal_partial (s : Sig) (hs : s.ok = true) (a1 a2 : List Nat) (k1 k2 : List (Nat × Nat))
    (b1 b2 : Binding) (hb1 : s.bind a1 k1 = .ok b1) (hb2 : s.bind a2 k2 = .ok b2) :
    s.key a1 k1 = s.key a2 k2 ↔ b1 = b2 := by
  obtain ⟨t1, ht1⟩ := key_ok_of_bind s a1 k1 b1 hb1
  obtain ⟨t2, ht2⟩ := key_ok_of_bind s a2 k2 b2 hb2
  rw [ht1, ht2]
  have := key_eq_iff_bind_eq s hs a1 a2 k1 k2 b1 b2 t1 t2 hb1 hb2 ht1 ht2
  constructor
  · intro h; injection h with h; exact this.mp h
  · intro h; rw [this.mpr h]

/-- `def f(p0, *rest, p1=0)`: `f(1, 2)` (rest=(2,), p1=0) and `f(1, p1=2)` (rest=(), p1=2) bind differently
    but get the same key `(1, 2)` -/
def cexSig : Sig := { pos := [(0, none)], kwonly := [(1, some 0)], varargs := true, varkw := false }

theorem C12_key_normal_counterexample :
    cexSig.bind [1, 2] [] = .ok { params := [1, 0], rest := [2], extra := [] } ∧
    cexSig.bind [1] [(1, 2)] = .ok { params := [1, 2], rest := [], extra := [] } ∧
    cexSig.key [1, 2] [] = cexSig.key [1] [(1, 2)] ∧ cexSig.key [1, 2] [] = .ok [.v 1, .v 2] := by
  decide

/-- the keygetter never raises on a call that binds -/
theorem C12_valid_call_has_key (s : Sig) (args : List Nat) (kw : List (Nat × Nat)) (b : Binding)
    (hb : s.bind args kw = .ok b) : ∃ tup, s.key args kw = .ok tup :=
  key_ok_of_bind s args kw b hb

/-- the completion of any task leaves the entry of its key in place when that entry holds a DIFFERENT task
    (the task was dirtied and a newer one is in flight): for all states, tasks and outcomes -/
theorem C12_completion_keeps_newer (fns : List FnDecl) (s : St) (t t' : Nat) (task : Task) (o : Outc)
    (ht : s.tasks[t]? = some task) (hm : mget s.table task.key = some t') (hne : t' ≠ t) :
    (step fns s (.complete t o)).1.table = s.table := by
  simp only [step, ht]
  split
  · rfl
  · simp [setTask, hm, hne]

def cexFns : List FnDecl := [{ kind := .func, sig := { pos := [(0, none)], kwonly := [], varargs := false, varkw := false } }]
def cexCall : Spell := { fn := 0, recv := .none, args := [1], kw := [], th := 0 }
def cexOps : List Op := [.call cexCall, .dirty cexCall, .call cexCall, .complete 0 (.val 0), .call cexCall]

/-- while the task stored for a key is not running, a call with that key returns that very task and changes nothing -/
theorem C12_inflight_shared (fns : List FnDecl) (s : St) (c : Spell) (d : FnDecl) (tup : List KeyElem) (t : Nat) (task : Task)
    (hd : fns[c.fn]? = some d) (hk : d.sig.key (effArgs d c) c.kw = .ok tup)
    (hm : mget s.table { tup := tup, th := c.th, fn := c.fn } = some t)
    (ht : s.tasks[t]? = some task) (hr : task.running = false) :
    step fns s (.call c) = (s, .ret t false) := by
  simp [step, hd, hk, hm, ht, hr]

/-- the escape hatch: a well-formed call made while the stored task is running gets a new private task;
    the table is left alone -/
theorem C12_running_escape_private (fns : List FnDecl) (s : St) (c : Spell) (d : FnDecl) (tup : List KeyElem)
    (t : Nat) (task : Task) (b : Binding)
    (hd : fns[c.fn]? = some d) (hk : d.sig.key (effArgs d c) c.kw = .ok tup) (hb : d.sig.bind (effArgs d c) c.kw = .ok b)
    (hm : mget s.table { tup := tup, th := c.th, fn := c.fn } = some t)
    (ht : s.tasks[t]? = some task) (hr : task.running = true) :
    (step fns s (.call c)).2 = .ret s.tasks.length true ∧ (step fns s (.call c)).1.table = s.table ∧
    ((step fns s (.call c)).1.tasks[s.tasks.length]?).map (·.reg) = some false := by
  simp [step, hd, hk, hm, ht, hr, create, hb]

/-- after the registered task that holds the entry of a key completes (with a value or an error), the next well-formed call with that
    key creates and registers a new task -/
theorem C12_rerun_after_complete (fns : List FnDecl) (s : St) (c : Spell) (d : FnDecl) (tup : List KeyElem)
    (t : Nat) (task : Task) (o : Outc) (b : Binding)
    (hd : fns[c.fn]? = some d) (hk : d.sig.key (effArgs d c) c.kw = .ok tup) (hb : d.sig.bind (effArgs d c) c.kw = .ok b)
    (ht : s.tasks[t]? = some task) (hkey : task.key = { tup := tup, th := c.th, fn := c.fn })
    (hreg : task.reg = true) (ho : task.out = none)
    (hm : mget s.table { tup := tup, th := c.th, fn := c.fn } = some t) :
    let s1 := (step fns s (.complete t o)).1
    (step fns s1 (.call c)).2 = .ret s.tasks.length true ∧
    mget (step fns s1 (.call c)).1.table { tup := tup, th := c.th, fn := c.fn } = some s.tasks.length := by
  simp [step, hd, hk, ht, ho, hreg, hkey, hm, setTask, mget_merase, create, hb, mget_mset]

/-- after `dirty()` with a spelling of the call, the next well-formed call creates and registers a new task -/
theorem C12_rerun_after_dirty (fns : List FnDecl) (s : St) (c c' : Spell) (d : FnDecl) (tup : List KeyElem) (b : Binding)
    (hd : fns[c.fn]? = some d) (hk : d.sig.key (effArgs d c) c.kw = .ok tup) (hb : d.sig.bind (effArgs d c) c.kw = .ok b)
    (hf : c'.fn = c.fn) (hth : c'.th = c.th) (hk' : d.sig.key (effArgs d c') c'.kw = .ok tup) :
    let s1 := (step fns s (.dirty c')).1
    (step fns s1 (.call c)).2 = .ret s.tasks.length true ∧
    mget (step fns s1 (.call c)).1.table { tup := tup, th := c.th, fn := c.fn } = some s.tasks.length := by
  simp [step, hd, hk, hf, hth, hk', mget_merase, create, hb, mget_mset]

/-- calls, dirty() and completions only ever touch the table entry of their own key: the entry of any other key -
    in particular of another function, another thread or another argument tuple - is unchanged, so a task is
    never handed to a call with a different key -/
theorem C12_disjoint (fns : List FnDecl) (s : St) (c : Spell) (d : FnDecl) (tup : List KeyElem) (k' : Key)
    (hd : fns[c.fn]? = some d) (hk : d.sig.key (effArgs d c) c.kw = .ok tup)
    (hne : k'.fn ≠ c.fn ∨ k'.th ≠ c.th ∨ k'.tup ≠ tup) :
    mget (step fns s (.call c)).1.table k' = mget s.table k' ∧
    mget (step fns s (.dirty c)).1.table k' = mget s.table k' ∧
    (∀ t task o, s.tasks[t]? = some task → task.key = { tup := tup, th := c.th, fn := c.fn } →
      mget (step fns s (.complete t o)).1.table k' = mget s.table k') := by
  have hkne : ¬ k' = { tup := tup, th := c.th, fn := c.fn } := by
    intro e; subst e; simp at hne
  refine ⟨?_, ?_, ?_⟩
  · simp only [step, hd, hk]
    cases hm : mget s.table { tup := tup, th := c.th, fn := c.fn } with
    | none =>
      simp only [create]
      split
      · rfl
      · simp [mget_mset, hkne]
    | some t =>
      simp only []
      split
      · rfl
      · split
        · simp only [create]
          split <;> rfl
        · rfl
  · simp [step, hd, hk, mget_merase, hkne]
  · intro t task o ht hkey
    simp only [step, ht]
    split
    · rfl
    · split
      · simp [setTask, mget_merase, hkey, hkne]
      · rfl

/-- a method reached through two different instances never produces the same key -/
theorem C12_instances_disjoint (d : FnDecl) (c1 c2 : Spell) (i j : Nat) (t1 t2 : List KeyElem)
    (hkind : d.kind = .method) (h1 : c1.recv = .inst i) (h2 : c2.recv = .inst j) (hij : i ≠ j)
    (hk1 : d.sig.key (effArgs d c1) c1.kw = .ok t1) (hk2 : d.sig.key (effArgs d c2) c2.kw = .ok t2) :
    t1 ≠ t2 := by
  simp only [effArgs, hkind, h1, h2, Sig.key, getArgsTuple] at hk1 hk2
  split at hk1
  · contradiction
  · split at hk2
    · contradiction
    · injection hk1 with hk1; injection hk2 with hk2
      subst hk1; subst hk2
      simp [hij]


/-! ### thread identity, leftover entries, number of keys in flight (round 3)

The theorems below need NO hypothesis on the signatures and speak about the table of the model alone. -/

/-- **a shared task was created under the caller's own key**: after EVERY history, when a call is answered with an
    already existing task, that task was created by a call with exactly the same key - same argument tuple, same
    function and same THREAD token - it is registered and it has not completed.  In particular a thread never
    receives a task that another thread (for instance an earlier, finished thread whose ident or name the OS
    recycled) left in flight, and a completed task is never handed out again. -/
theorem C12_shared_task_has_callers_key (fns : List FnDecl) (ops : List Op) (c : Spell) (t : Nat)
    (h : (step fns (finalState fns St.init ops) (.call c)).2 = .ret t false) :
    ∃ d tup task, fns[c.fn]? = some d ∧ d.sig.key (effArgs d c) c.kw = .ok tup ∧
      (finalState fns St.init ops).tasks[t]? = some task ∧
      task.key = { tup := tup, th := c.th, fn := c.fn } ∧ task.reg = true ∧ task.out = none := by
  have hwf := wf_final fns ops St.init wf_init
  generalize finalState fns St.init ops = s at h hwf
  simp only [step] at h
  split at h
  · simp at h
  · rename_i d hd
    split at h
    · simp at h
    · rename_i tup hk
      split at h
      · simp only [create] at h
        split at h <;> simp at h
      · rename_i t0 hm
        split at h
        · simp at h
        · rename_i task0 ht0
          split at h
          · simp only [create] at h
            split at h <;> simp at h
          · simp only [Res.ret.injEq, and_true] at h
            subst h
            obtain ⟨a, ha, hka, hra, hoa⟩ := hwf _ _ hm
            exact ⟨d, tup, a, hd, hk, ha, hka, hra, hoa⟩

/-- the end of a thread runs no code: state and table are unchanged (entries of the finished thread stay) -/
theorem C12_thread_end_noop (fns : List FnDecl) (s : St) (th : Nat) :
    step fns s (.threadEnd th) = (s, .unit) := rfl

/-- **no capacity**: the entry of a key survives ANY NUMBER of operations that work on other keys (calls that create
    arbitrarily many other in-flight tasks, dirty() and completions of other keys, scheduling of any task, ends of
    threads) -/
theorem C12_entry_survives_others (fns : List FnDecl) (s : St) (k : Key) (ops : List Op)
    (h : avoids fns k s ops = true) :
    mget (finalState fns s ops).table k = mget s.table k :=
  avoids_keeps fns k ops s h

/-- **sharing does not depend on how much else is in flight**: if after some history the table holds task `t` for the
    key of call `c`, then after any further history of ANY length that does not work on that key, `c` is still
    answered with `t` (unless `t`'s body is executing at that moment) and nothing changes -/
theorem C12_shared_after_any_fanout (fns : List FnDecl) (ops0 ops : List Op) (c : Spell) (d : FnDecl)
    (tup : List KeyElem) (t : Nat)
    (hd : fns[c.fn]? = some d) (hk : d.sig.key (effArgs d c) c.kw = .ok tup)
    (hm : mget (finalState fns St.init ops0).table { tup := tup, th := c.th, fn := c.fn } = some t)
    (hav : avoids fns { tup := tup, th := c.th, fn := c.fn } (finalState fns St.init ops0) ops = true)
    (hr : ∀ task, (finalState fns (finalState fns St.init ops0) ops).tasks[t]? = some task → task.running = false) :
    step fns (finalState fns (finalState fns St.init ops0) ops) (.call c) =
      (finalState fns (finalState fns St.init ops0) ops, .ret t false) := by
  have hwf := wf_final fns ops _ (wf_final fns ops0 St.init wf_init)
  have hm' := avoids_keeps fns _ ops _ hav
  rw [hm] at hm'
  obtain ⟨task, ht, _, _, _⟩ := hwf _ _ hm'
  exact C12_inflight_shared fns _ c d tup t task hd hk hm' ht (hr task ht)

/-! non-vacuity -/

/-- a history with sharing, two spellings, a private re-entrant task, completion and re-creation satisfies the
    hypothesis -/
def exFns : List FnDecl := [{ kind := .func, sig := { pos := [(0, none), (1, some 1)], kwonly := [], varargs := false, varkw := false } }]
def exC1 : Spell := { fn := 0, recv := .none, args := [1], kw := [], th := 0 }
def exC2 : Spell := { fn := 0, recv := .none, args := [], kw := [(1, 1), (0, 1)], th := 0 }
def exOps : List Op := [.call exC1, .call exC2, .start 0, .call exC1, .suspend 0, .call exC2, .complete 0 (.val 0), .call exC1]

example :
    sigsOk exFns = true ∧
    (run exFns St.init exOps).map (·.res) =
      [.ret 0 true, .ret 0 false, .binding { params := [1, 1], rest := [], extra := [] }, .ret 1 true, .unit,
       .ret 0 false, .unit, .ret 2 true] := by
  decide

/-- the former stale-completion history: the completion of the old task 0 leaves task 1 registered, the last call
    gets task 1, and the observer accepts -/
example :
    (run cexFns St.init cexOps).map (·.res) = [.ret 0 true, .unit, .ret 1 true, .unit, .ret 1 false] ∧
    spec cexFns (run cexFns St.init cexOps) = true := by
  decide

/-- the observer is not trivially true: it rejects that history if the last call gets a third task -/
example :
    spec cexFns [{ op := .call cexCall, res := .ret 0 true, size := 1 }, { op := .dirty cexCall, res := .unit, size := 0 },
      { op := .call cexCall, res := .ret 1 true, size := 1 }, { op := .complete 0 (.val 0), res := .unit, size := 0 },
      { op := .call cexCall, res := .ret 2 true, size := 1 }] = false := by
  decide

/-- the observer is not trivially true: it rejects a history in which the second caller gets its own task -/
example :
    spec cexFns [{ op := .call cexCall, res := .ret 0 true, size := 1 }, { op := .call cexCall, res := .ret 1 true, size := 1 }] = false := by
  decide

/-- threads and fan-out: thread 1 leaves key (1) in flight and ends; a later thread 4 (a different token) gets its own
    task; three more keys go in flight; thread 4 asks again and shares its own task 1 -/
def thC (th v : Nat) : Spell := { fn := 0, recv := .none, args := [v], kw := [], th := th }
def thOps : List Op := [.call (thC 1 1), .threadEnd 1, .call (thC 4 1), .call (thC 4 2), .call (thC 4 3), .call (thC 0 1),
  .call (thC 4 1)]

example :
    (run cexFns St.init thOps).map (·.res) =
      [.ret 0 true, .unit, .ret 1 true, .ret 2 true, .ret 3 true, .ret 4 true, .ret 1 false] ∧
    spec cexFns (run cexFns St.init thOps) = true ∧
    avoids cexFns { tup := [.v 1], th := 1, fn := 0 } (finalState cexFns St.init [.call (thC 1 1)]) (thOps.drop 1) = true := by
  decide

/-- the observer rejects the history in which the later thread 4 is handed the task of the finished thread 1 -/
example :
    spec cexFns [{ op := .call (thC 1 1), res := .ret 0 true, size := 1 }, { op := .threadEnd 1, res := .unit, size := 1 },
      { op := .call (thC 4 1), res := .ret 0 false, size := 1 }] = false := by
  decide

end AsynqModel.Dedup
