import AsynqModel.Lib.Dedup
import AsynqModel.Proofs.Dedup
import AsynqModel.Proofs.DedupSim
import AsynqModel.Proofs.DedupCall
import AsynqModel.Proofs.DedupInv
/-!
# C12  deduplicate: one in-flight execution per key, shared by all callers

Theorems about the model `AsynqModel.Dedup` (get_args_tuple as written in qcore + the table operations of
DeduplicateDecorator) for every list of function declarations, every signature and every history of operations
(calls with arbitrary spellings from arbitrary threads / receivers, dirty(), body start / resume (send or throw) /
suspend / completion in ANY order - the scheduler is an input).

The property is FALSE of the code in three situations, all of them conflations of the default key, which the
`_partial` theorems exclude by the decidable PER-CALL hypothesis `callOk` / `histOk` (a condition on the arguments of
each call, not on whole signatures: `C12_histOk_per_call`) and the `_counterexample` theorems exhibit:
* `*args` together with keyword-only parameters (`C12_key_normal_counterexample`; recorded open finding);
* positional-only parameters together with `**kwargs`: a keyword that has the name of a positional-only parameter
  is dropped from the key or taken for the parameter (`C12_key_posonly_counterexample`);
* `*args` together with `**kwargs` when an overflow positional is a `(name, value)` 2-tuple: it is the same key
  element as the keyword `name=value` (`C12_key_pair_counterexample`).
`C12_spec_needs_histOk` shows that the hypothesis cannot be dropped: the model's own run fails the observer in each.
(A fourth defect - the completion callback of an old, dirtied task evicted the newer task's entry - has been
repaired in the code; the model has the repaired callback and `C12_completion_keeps_newer` states the repair.)
-/
namespace AsynqModel.Dedup

/-- **C12 as a whole** (partial): for all function declarations and EVERY history of operations whose calls and
    dirty() are ones on which the default key is faithful (`histOk`, a condition on each call: no overflow
    positional when the signature combines `*args` with keyword-only parameters, no keyword named like a
    positional-only parameter when it combines positional-only parameters with `**kwargs`, and no positional
    argument of a `*args` + `**kwargs` function that is a `(name, value)` 2-tuple), the observations of the
    model are accepted by the observer `spec` - the same Boolean function the check evaluates on the observations
    of the real implementation.  `spec` says: a well-formed call returns either the in-flight, undirtied task of
    the same (function, thread, binding), or - if there is none, or if the body of that task may be executing - a
    brand-new task; a body starts once and receives what its creating call bound; a well-formed call / dirty never
    raises; ill-formed calls create nothing and are answered, if with a task, with an in-flight task of the same
    function and thread; an ill-formed dirty() that raises changes nothing; nothing happens to unknown or completed
    tasks and nothing is resumed / suspended that never started; EVERY READER of a task (`await`) receives exactly
    the outcome its body ended with; an asyncio-mode `.asynq()` is answered with a coroutine and touches nothing;
    `len(tasks)` moves within bounds, and exactly (+1 / +0 / unchanged) wherever the observer knows the entry. -/
theorem C12_spec_holds_partial (fns : List FnDecl) (ops : List Op)
    (h : histOk fns ops = true) :
    spec fns (run fns St.init ops) = true := by
  obtain ⟨w', hw⟩ := watchRun_ok fns ops h St.init Watch.init (rel_init fns) nodup_init
  have hw' : watchRun fns Watch.init 0 (run fns St.init ops) = .ok w' := hw
  simp [spec, hw']

/-- the same for every history over declarations all of whose signatures are faithful whatever the arguments -/
theorem C12_spec_holds_sigs (fns : List FnDecl) (ops : List Op) (hsig : sigsOk fns = true) :
    spec fns (run fns St.init ops) = true :=
  C12_spec_holds_partial fns ops (histOk_of_sigsOk fns hsig ops)

/-- **key normalisation** (partial): for two spellings that bind and on which the default key is faithful
    (`callOk`), the keys are equal iff they bind the same parameter values -/
theorem C12_key_normal_partial (s : Sig) (a1 a2 : List Nat) (k1 k2 : List (Nat × Nat))
    (h1 : callOk s a1 k1 = true) (h2 : callOk s a2 k2 = true)
    (b1 b2 : Binding) (hb1 : s.bind a1 k1 = .ok b1) (hb2 : s.bind a2 k2 = .ok b2) :
    s.key a1 k1 = s.key a2 k2 ↔ b1 = b2 := by
  obtain ⟨t1, ht1⟩ := key_ok_of_bind s a1 k1 b1 hb1
  obtain ⟨t2, ht2⟩ := key_ok_of_bind s a2 k2 b2 hb2
  rw [ht1, ht2]
  have := key_eq_iff_bind_eq s a1 a2 k1 k2 h1 h2 b1 b2 t1 t2 hb1 hb2 ht1 ht2
  constructor
  · intro h; injection h with h; exact this.mp h
  · intro h; rw [this.mpr h]

/-- `def f(p0, *rest, p1=0)`: `f(1, 2)` (rest=(2,), p1=0) and `f(1, p1=2)` (rest=(), p1=2) bind differently
    but get the same key `(1, 2)` -/
def cexSig : Sig := { pos := [(0, none)], kwonly := [(1, some 0)], varargs := true, varkw := false }

theorem C12_key_normal_counterexample :
    cexSig.bind [1, 2] [] = .ok { params := [1, 0], rest := [2], extra := [] } ∧
    cexSig.bind [1] [(1, 2)] = .ok { params := [1, 2], rest := [], extra := [] } ∧
    cexSig.key [1, 2] [] = cexSig.key [1] [(1, 2)] ∧ cexSig.key [1, 2] [] = .ok [.v 1, .v 2] := by
  decide

/-- `def g(p0, /, **extra)`: `g(1, p0=2)` (extra={p0: 2}) and `g(1)` (extra={}) bind differently but get the same
    key `(1,)` - the keyword is dropped because its name is in `arg_names` -/
def poSig : Sig := { pos := [(0, none)], kwonly := [], varargs := false, varkw := true, posonly := 1 }

theorem C12_key_posonly_counterexample :
    poSig.bind [1] [(0, 2)] = .ok { params := [1], rest := [], extra := [(0, 2)] } ∧
    poSig.bind [1] [] = .ok { params := [1], rest := [], extra := [] } ∧
    poSig.key [1] [(0, 2)] = poSig.key [1] [] ∧ poSig.key [1] [] = .ok [.v 1] := by
  decide

/-- `def f(*rest, **extra)`: `f(("p6", 1))` (rest=(("p6", 1),)) and `f(p6=1)` (extra={p6: 1}) bind differently but
    get the same key `(("p6", 1),)` -/
def pairSig : Sig := { pos := [], kwonly := [], varargs := true, varkw := true }

theorem C12_key_pair_counterexample :
    pairSig.bind [pairTok 6 1] [] = .ok { params := [], rest := [pairTok 6 1], extra := [] } ∧
    pairSig.bind [] [(6, 1)] = .ok { params := [], rest := [], extra := [(6, 1)] } ∧
    pairSig.key [pairTok 6 1] [] = pairSig.key [] [(6, 1)] ∧ pairSig.key [] [(6, 1)] = .ok [.kw 6 1] := by
  decide

def fnsOf (s : Sig) : List FnDecl := [{ kind := .func, sig := s }]
def spOf (args : List Nat) (kw : List (Nat × Nat)) : Spell := { fn := 0, recv := .none, args := args, kw := kw, th := 0 }

/-- **the hypothesis of `C12_spec_holds_partial` cannot be dropped**: for each of the three conflations the
    model's own run of two calls (the second is answered with the first one's task) is rejected by the observer,
    and `histOk` is false of these histories -/
theorem C12_spec_needs_histOk :
    (spec (fnsOf cexSig) (run (fnsOf cexSig) St.init [.call (spOf [1, 2] []), .call (spOf [1] [(1, 2)])]) = false ∧
      histOk (fnsOf cexSig) [.call (spOf [1, 2] []), .call (spOf [1] [(1, 2)])] = false) ∧
    (spec (fnsOf poSig) (run (fnsOf poSig) St.init [.call (spOf [1] [(0, 2)]), .call (spOf [1] [])]) = false ∧
      histOk (fnsOf poSig) [.call (spOf [1] [(0, 2)]), .call (spOf [1] [])] = false) ∧
    (spec (fnsOf pairSig) (run (fnsOf pairSig) St.init [.call (spOf [pairTok 6 1] []), .call (spOf [] [(6, 1)])]) = false ∧
      histOk (fnsOf pairSig) [.call (spOf [pairTok 6 1] []), .call (spOf [] [(6, 1)])] = false) := by
  decide

/-- the keygetter never raises on a call that binds -/
theorem C12_valid_call_has_key (s : Sig) (args : List Nat) (kw : List (Nat × Nat)) (b : Binding)
    (hb : s.bind args kw = .ok b) : ∃ tup, s.key args kw = .ok tup :=
  key_ok_of_bind s args kw b hb

/-! ### single branches of `step` (BY CONSTRUCTION of the model - not headline claims)

`C12_completion_keeps_newer`, `C12_inflight_shared`, `C12_running_escape_private`, `C12_rerun_after_dirty` below each
restate ONE branch of `step` for an arbitrary (not necessarily reachable) state: they are true by construction of the
model and say nothing about the code by themselves; what ties those branches to the code is the correspondence (the
generated histories reach every one of them: features shared-*, new-inside, re-created-same-spelling, dirty-removed-entry).
They are listed under BY_CONSTRUCTION in harness/checks/c12.py.  The statements with content about whole histories
are `C12_spec_holds_partial`, `C12_rerun_after_complete`, `C12_one_creation_per_period`, `C12_shared_while_calm`,
`C12_shared_task_has_callers_key`, `C12_same_outcome_for_all_callers`. -/

/-- the completion of any task leaves the entry of its key in place when that entry holds a DIFFERENT task
    (the task was dirtied and a newer one is in flight): for all states, tasks and outcomes -/
theorem C12_completion_keeps_newer (fns : List FnDecl) (s : St) (t t' : Nat) (task : Task) (o : Outc)
    (ht : s.tasks[t]? = some task) (hm : mget s.table task.key = some t') (hne : t' ≠ t) :
    (step fns s (.complete t o)).1.table = s.table := by
  simp only [step, ht]
  split
  · rfl
  · simp [setTask, hm, hne]

def cexFns : List FnDecl := [{ kind := .func, sig := { pos := [(0, none)], kwonly := [], varargs := false, varkw := false } }]
def cexCall : Spell := { fn := 0, recv := .none, args := [1], kw := [], th := 0 }
def cexOps : List Op := [.call cexCall, .dirty cexCall, .call cexCall, .complete 0 (.val 0), .call cexCall]

/-- while the task stored for a key is not running, a call with that key returns that very task and changes nothing -/
theorem C12_inflight_shared (fns : List FnDecl) (s : St) (c : Spell) (d : FnDecl) (tup : List KeyElem) (t : Nat) (task : Task)
    (hd : fns[c.fn]? = some d) (hk : d.sig.key (effArgs d c) c.kw = .ok tup)
    (hm : mget s.table { tup := tup, th := c.th, fn := c.fn } = some t)
    (ht : s.tasks[t]? = some task) (hr : task.running = false) :
    step fns s (.call c) = (s, .ret t false) := by
  simp [step, hd, hk, hm, ht, hr]

/-- the escape hatch: a well-formed call made while the stored task is running gets a new private task;
    the table is left alone -/
theorem C12_running_escape_private (fns : List FnDecl) (s : St) (c : Spell) (d : FnDecl) (tup : List KeyElem)
    (t : Nat) (task : Task) (b : Binding)
    (hd : fns[c.fn]? = some d) (hk : d.sig.key (effArgs d c) c.kw = .ok tup) (hb : d.sig.bind (effArgs d c) c.kw = .ok b)
    (hm : mget s.table { tup := tup, th := c.th, fn := c.fn } = some t)
    (ht : s.tasks[t]? = some task) (hr : task.running = true) :
    (step fns s (.call c)).2 = .ret s.tasks.length true ∧ (step fns s (.call c)).1.table = s.table ∧
    ((step fns s (.call c)).1.tasks[s.tasks.length]?).map (·.reg) = some false := by
  simp [step, hd, hk, hm, ht, hr, create, hb]

/-- after the task that holds the entry of a key completes (with a value or an error), the next well-formed call
    with that key creates and registers a new task - for every reachable state (no assumption on the task: that it
    is registered, uncompleted and was created under this key follows from the invariant of the table) -/
theorem C12_rerun_after_complete (fns : List FnDecl) (ops : List Op) (c : Spell) (d : FnDecl) (tup : List KeyElem)
    (t : Nat) (o : Outc) (b : Binding)
    (hd : fns[c.fn]? = some d) (hk : d.sig.key (effArgs d c) c.kw = .ok tup) (hb : d.sig.bind (effArgs d c) c.kw = .ok b)
    (hm : mget (finalState fns St.init ops).table { tup := tup, th := c.th, fn := c.fn } = some t) :
    let s := finalState fns St.init ops
    let s1 := (step fns s (.complete t o)).1
    (step fns s1 (.call c)).2 = .ret s.tasks.length true ∧
    mget (step fns s1 (.call c)).1.table { tup := tup, th := c.th, fn := c.fn } = some s.tasks.length := by
  have hwf := wf_final fns ops St.init wf_init
  generalize finalState fns St.init ops = s at hm hwf
  obtain ⟨task, ht, hkey, hreg, ho⟩ := hwf _ _ hm
  simp [step, hd, hk, ht, ho, hreg, hkey, hm, setTask, mget_merase, create, hb, mget_mset]

/-- after `dirty()` with a spelling of the call, the next well-formed call creates and registers a new task -/
theorem C12_rerun_after_dirty (fns : List FnDecl) (s : St) (c c' : Spell) (d : FnDecl) (tup : List KeyElem) (b : Binding)
    (hd : fns[c.fn]? = some d) (hk : d.sig.key (effArgs d c) c.kw = .ok tup) (hb : d.sig.bind (effArgs d c) c.kw = .ok b)
    (hf : c'.fn = c.fn) (hth : c'.th = c.th) (hk' : d.sig.key (effArgs d c') c'.kw = .ok tup) :
    let s1 := (step fns s (.dirty c')).1
    (step fns s1 (.call c)).2 = .ret s.tasks.length true ∧
    mget (step fns s1 (.call c)).1.table { tup := tup, th := c.th, fn := c.fn } = some s.tasks.length := by
  simp [step, hd, hk, hf, hth, hk', mget_merase, create, hb, mget_mset]

/-- calls, dirty() and completions only ever touch the table entry of their own key: the entry of any other key -
    in particular of another function, another thread or another argument tuple - is unchanged, so a task is
    never handed to a call with a different key -/
theorem C12_disjoint (fns : List FnDecl) (s : St) (c : Spell) (d : FnDecl) (tup : List KeyElem) (k' : Key)
    (hd : fns[c.fn]? = some d) (hk : d.sig.key (effArgs d c) c.kw = .ok tup)
    (hne : k'.fn ≠ c.fn ∨ k'.th ≠ c.th ∨ k'.tup ≠ tup) :
    mget (step fns s (.call c)).1.table k' = mget s.table k' ∧
    mget (step fns s (.dirty c)).1.table k' = mget s.table k' ∧
    (∀ t task o, s.tasks[t]? = some task → task.key = { tup := tup, th := c.th, fn := c.fn } →
      mget (step fns s (.complete t o)).1.table k' = mget s.table k') := by
  have hkne : ¬ k' = { tup := tup, th := c.th, fn := c.fn } := by
    intro e; subst e; simp at hne
  refine ⟨?_, ?_, ?_⟩
  · simp only [step, hd, hk]
    cases hm : mget s.table { tup := tup, th := c.th, fn := c.fn } with
    | none =>
      simp only [create]
      split
      · rfl
      · simp [mget_mset, hkne]
    | some t =>
      simp only []
      split
      · rfl
      · split
        · simp only [create]
          split <;> rfl
        · rfl
  · simp [step, hd, hk, mget_merase, hkne]
  · intro t task o ht hkey
    simp only [step, ht]
    split
    · rfl
    · split
      · simp [setTask, mget_merase, hkey, hkne]
      · rfl

/-- a method reached through two different instances never produces the same key -/
theorem C12_instances_disjoint (d : FnDecl) (c1 c2 : Spell) (i j : Nat) (t1 t2 : List KeyElem)
    (hkind : d.kind = .method) (h1 : c1.recv = .inst i) (h2 : c2.recv = .inst j) (hij : i ≠ j)
    (hk1 : d.sig.key (effArgs d c1) c1.kw = .ok t1) (hk2 : d.sig.key (effArgs d c2) c2.kw = .ok t2) :
    t1 ≠ t2 := by
  simp only [effArgs, hkind, h1, h2, Sig.key, getArgsTuple] at hk1 hk2
  split at hk1
  · contradiction
  · split at hk2
    · contradiction
    · injection hk1 with hk1; injection hk2 with hk2
      subst hk1; subst hk2
      intro e
      simp only [List.map_cons, List.cons_append, List.cons.injEq] at e
      exact hij (ofVal_inj i j e.1)

/-! ### thread identity, leftover entries, number of keys in flight (round 3)

The theorems below need NO hypothesis on the signatures and speak about the table of the model alone. -/

/-- **a shared task was created under the caller's own key**: after EVERY history, when a call is answered with an
    already existing task, that task was created by a call with exactly the same key - same argument tuple, same
    function and same THREAD token - it is registered and it has not completed.  In particular a thread never
    receives a task that another thread (for instance an earlier, finished thread whose ident or name the OS
    recycled) left in flight, and a completed task is never handed out again. -/
theorem C12_shared_task_has_callers_key (fns : List FnDecl) (ops : List Op) (c : Spell) (t : Nat)
    (h : (step fns (finalState fns St.init ops) (.call c)).2 = .ret t false) :
    ∃ d tup task, fns[c.fn]? = some d ∧ d.sig.key (effArgs d c) c.kw = .ok tup ∧
      (finalState fns St.init ops).tasks[t]? = some task ∧
      task.key = { tup := tup, th := c.th, fn := c.fn } ∧ task.reg = true ∧ task.out = none := by
  have hwf := wf_final fns ops St.init wf_init
  generalize finalState fns St.init ops = s at h hwf
  simp only [step] at h
  split at h
  · simp at h
  · rename_i d hd
    split at h
    · simp at h
    · rename_i tup hk
      split at h
      · simp only [create] at h
        split at h <;> simp at h
      · rename_i t0 hm
        split at h
        · simp at h
        · rename_i task0 ht0
          split at h
          · simp only [create] at h
            split at h <;> simp at h
          · simp only [Res.ret.injEq, and_true] at h
            subst h
            obtain ⟨a, ha, hka, hra, hoa⟩ := hwf _ _ hm
            exact ⟨d, tup, a, hd, hk, ha, hka, hra, hoa⟩

/-- (holds by construction of the model: `step` has no code for the end of a thread, as tools.py has none; what
    ties it to the code is the correspondence - `threadEnd` observations with the size of the table are diffed.
    Not counted among the property theorems.) -/
theorem C12_thread_end_noop (fns : List FnDecl) (s : St) (th : Nat) :
    step fns s (.threadEnd th) = (s, .unit) := rfl

/-- (holds by construction of the model, like `C12_thread_end_noop`: an event of another feature - the function used in
    asyncio mode, a debug / profiling option switched in mid-flight, asynq.mock.patch entered and left, a copy of a
    receiver or of a bound wrapper, a garbage collection - has no code path into `DeduplicateDecorator.tasks`; the
    correspondence ties it to the code: `outside` observations carry `len(tasks)` and are followed by ordinary calls.
    Its consequences ARE theorems: `outside` events are operations of the histories that `C12_spec_holds_partial`,
    `C12_entry_kept_while_calm`, `C12_one_creation_per_period`, `C12_shared_while_calm`, `C12_body_starts_once`
    quantify over; see `C12_inflight_survives_outside`.) -/
theorem C12_outside_noop (fns : List FnDecl) (s : St) (n : Nat) :
    step fns s (.outside n) = (s, .unit) := rfl

/-- **no capacity**: the entry of a key survives ANY NUMBER of operations that work on other keys (calls that create
    arbitrarily many other in-flight tasks, dirty() and completions of other keys, scheduling of any task, ends of
    threads) -/
theorem C12_entry_survives_others (fns : List FnDecl) (s : St) (k : Key) (ops : List Op)
    (h : avoids fns k s ops = true) :
    mget (finalState fns s ops).table k = mget s.table k :=
  avoids_keeps fns k ops s h

/-- **the in-flight period**: the entry `k ↦ t0` stays in place through ANY history of ANY length that contains no
    dirty() of `k` and no completion of `t0` - calls of `k` itself (from any spelling), calls / dirty() / completions
    of any number of other keys, starting / resuming / suspending any task (`t0` included) and ends of threads are
    all allowed.  (`avoids` implies `calm` on reachable states: `avoids_calm`.) -/
theorem C12_entry_kept_while_calm (fns : List FnDecl) (s : St) (k : Key) (t0 : Nat) (ops : List Op)
    (hm : mget s.table k = some t0) (h : calm fns k t0 ops = true) :
    mget (finalState fns s ops).table k = some t0 :=
  calm_keeps fns k t0 ops s hm h

theorem callKey_some (fns : List FnDecl) (c : Spell) (k : Key) (h : callKey fns c = some k) :
    ∃ d tup, fns[c.fn]? = some d ∧ d.sig.key (effArgs d c) c.kw = .ok tup ∧ k = { tup := tup, th := c.th, fn := c.fn } := by
  simp only [callKey] at h
  split at h
  · contradiction
  · rename_i d hd
    split at h
    · contradiction
    · rename_i tup hk
      injection h with h
      exact ⟨d, tup, hd, hk, h.symm⟩

/-- **one creation per in-flight period**: let the table hold `t0` for key `k` after some history, and let any
    further history contain no dirty() of `k` and no completion of `t0`.  Then EVERY call with key `k` anywhere in
    that further history finds the entry `k ↦ t0` and
    * is answered with `t0` itself, changing nothing, whenever the body of `t0` is not executing at that moment;
    * otherwise (issued while the body of `t0` is executing) leaves the table alone, and a task it creates is NOT
      registered.
    So no second task is ever registered for `k` during the period: outside callers all share the one execution. -/
theorem C12_one_creation_per_period (fns : List FnDecl) (ops0 pre post : List Op) (c : Spell) (k : Key) (t0 : Nat)
    (hm : mget (finalState fns St.init ops0).table k = some t0)
    (hcalm : calm fns k t0 (pre ++ .call c :: post) = true)
    (hk : callKey fns c = some k) :
    let s1 := finalState fns (finalState fns St.init ops0) pre
    mget s1.table k = some t0 ∧
    ∃ task, s1.tasks[t0]? = some task ∧
      (task.running = false → step fns s1 (.call c) = (s1, .ret t0 false)) ∧
      (task.running = true → (step fns s1 (.call c)).1.table = s1.table ∧
        ∀ t, (step fns s1 (.call c)).2 = .ret t true →
          t = s1.tasks.length ∧ ((step fns s1 (.call c)).1.tasks[t]?).map (·.reg) = some false) := by
  intro s1
  have hwf : TableWf s1 := wf_final fns pre _ (wf_final fns ops0 St.init wf_init)
  have hm1 : mget s1.table k = some t0 := calm_keeps fns k t0 pre _ hm (calm_prefix fns k t0 pre _ hcalm)
  obtain ⟨task, ht, _, _, _⟩ := hwf _ _ hm1
  obtain ⟨d, tup, hd, hkey, hkeq⟩ := callKey_some fns c k hk
  subst hkeq
  refine ⟨hm1, task, ht, ?_, ?_⟩
  · intro hr
    simp [step, hd, hkey, hm1, ht, hr]
  · intro hr
    refine ⟨call_keeps_entry fns s1 c _ t0 hk hm1, ?_⟩
    intro t hres
    simp only [step, hd, hkey, hm1, ht, hr, ↓reduceIte, create] at hres ⊢
    split at hres
    · simp at hres
    · simp only [Res.ret.injEq, and_true] at hres
      subst hres
      simp

/-- **sharing does not depend on how much else is in flight or on how the call is spelled**: if after some history
    the table holds task `t0` for the key of call `c`, then after any further history of ANY length without a
    dirty() of that key and without the completion of `t0`, `c` is still answered with `t0` (unless `t0`'s body is
    executing at that moment) and nothing changes -/
theorem C12_shared_while_calm (fns : List FnDecl) (ops0 ops : List Op) (c : Spell) (k : Key) (t0 : Nat)
    (hm : mget (finalState fns St.init ops0).table k = some t0)
    (hcalm : calm fns k t0 ops = true)
    (hk : callKey fns c = some k)
    (hr : ∀ task, (finalState fns (finalState fns St.init ops0) ops).tasks[t0]? = some task → task.running = false) :
    step fns (finalState fns (finalState fns St.init ops0) ops) (.call c) =
      (finalState fns (finalState fns St.init ops0) ops, .ret t0 false) := by
  have hc : calm fns k t0 (ops ++ .call c :: []) = true := by
    simp only [calm, List.all_append, List.all_cons, List.all_nil, Bool.and_true, Bool.and_eq_true] at hcalm ⊢
    exact ⟨hcalm, rfl⟩
  obtain ⟨_, task, ht, h1, _⟩ := C12_one_creation_per_period fns ops0 ops [] c k t0 hm hc hk
  exact h1 (hr task ht)

/-- (BY CONSTRUCTION: the guard `task.started` is written into `step (.start t)` because a Python generator starts
    once - that is CPython / the scheduler, not tools.py; this theorem only restates the guard over histories.  What
    the CHECK contributes to "the body runs once" is the observer clause `started-twice` judged on the real log and
    `C12_one_creation_per_period` - one registered task per in-flight period.)
    In every history, from every state, at most one `start t` operation is answered with a binding. -/
theorem C12_body_starts_once (fns : List FnDecl) (s : St) (ops : List Op) (t : Nat) :
    bodyStarts t (run fns s ops) ≤ 1 :=
  starts_once fns t ops s

/-- **all callers receive the same value or error**: in EVERY history, from every state, any two readers of one task
    (callers that awaited it, `.value()`, completion subscribers - whichever spelling or thread their calls had) that
    receive an outcome receive the SAME outcome - the one the body ended with; a task is never completed twice.
    Together with `C12_one_creation_per_period` (the outside callers of a period all hold ONE task): they all
    receive the same value or error. -/
theorem C12_same_outcome_for_all_callers (fns : List FnDecl) (ops : List Op) :
    ∀ (s : St) (t : Nat) (o1 o2 : Outc) (ob1 ob2 : Obs), ob1 ∈ run fns s ops → ob2 ∈ run fns s ops →
      ob1.op = .await t → ob1.res = .got (some o1) → ob2.op = .await t → ob2.res = .got (some o2) → o1 = o2 := by
  induction ops with
  | nil => intro s t o1 o2 ob1 ob2 h1; simp [run] at h1
  | cons op ops ih =>
    intro s t o1 o2 ob1 ob2 h1 h2 ha1 hr1 ha2 hr2
    have hrun : run fns s (op :: ops) = (observe fns s op).2 :: run fns (step fns s op).1 ops := rfl
    rw [hrun, List.mem_cons] at h1 h2
    -- a reader at the head of the history fixes what every later reader receives
    have head : ∀ (ob ob' : Obs) (o o' : Outc), ob = (observe fns s op).2 → ob.op = .await t → ob.res = .got (some o) →
        ob' ∈ run fns (step fns s op).1 ops → ob'.op = .await t → ob'.res = .got (some o') → o = o' := by
      intro ob ob' o o' e ha hr hmem ha' hr'
      subst e
      have e' : op = .await t := ha
      subst e'
      obtain ⟨hout, hst⟩ := await_reads fns s t o hr
      rw [hst] at hmem
      have := awaits_after fns t o ops s hout ob' hmem ha'
      rw [hr'] at this
      injection this with this; injection this with this; exact this.symm
    rcases h1 with e1 | h1 <;> rcases h2 with e2 | h2
    · subst e1; subst e2
      rw [hr1] at hr2
      injection hr2 with hr2; injection hr2
    · exact head ob1 ob2 o1 o2 e1 ha1 hr1 h2 ha2 hr2
    · exact (head ob2 ob1 o2 o1 e2 ha2 hr2 h1 ha1 hr1).symm
    · exact ih _ t o1 o2 ob1 ob2 h1 h2 ha1 hr1 ha2 hr2

/-- (BY CONSTRUCTION of the model, as tools.py:355-356 is one line: in asyncio mode `.asynq()` returns
    `self.fn.asyncio(...)` before a key is made.)  An asyncio-mode call is answered with a coroutine - never a task -
    and leaves the table and every task alone: asyncio mode is NOT deduplicated (two such calls with one key are two
    coroutines, each runs the body); the statement of C12 speaks of the task an `.asynq()` call returns and is not
    claimed for asyncio mode.  Content: the correspondence (`aioCall` observations: the real answer is a coroutine,
    a new object for every call, `len(tasks)` unchanged). -/
theorem C12_asyncio_mode_unshared (fns : List FnDecl) (s : St) (c : Spell) :
    step fns s (.aioCall c) = (s, .coro) := rfl

/-- **the hypothesis is per call** (weaker than the former whole-signature `Sig.flat`): a history over a signature
    that is OPEN to a conflation satisfies `histOk` as long as no call has the offending shape - `sigsOk` fails for
    these declarations, `histOk` holds, and so `C12_spec_holds_partial` applies to them -/
theorem C12_histOk_per_call :
    (sigsOk (fnsOf poSig) = false ∧ poSig.flat = false ∧
      histOk (fnsOf poSig) [.call (spOf [1] []), .call (spOf [1] [(5, 3)]), .dirty (spOf [1] [(5, 3)]), .call (spOf [2] [])] = true) ∧
    (sigsOk (fnsOf cexSig) = false ∧ cexSig.flat = false ∧
      histOk (fnsOf cexSig) [.call (spOf [1] []), .call (spOf [1] [(1, 2)]), .call (spOf [] [(0, 1)]), .dirty (spOf [1] [(1, 2)])] = true) := by
  decide

/-- a flat signature satisfies the per-call condition for every call -/
theorem C12_flat_implies_per_call (s : Sig) (args : List Nat) (kw : List (Nat × Nat)) (h : s.flat = true) :
    callFlat s args kw = true := callFlat_of_flat s args kw h


/-! ## non-vacuity, and what the observer rejects -/

/-- a history with sharing, two spellings, a private re-entrant task, completion and re-creation satisfies the
    hypothesis -/
def exFns : List FnDecl := [{ kind := .func, sig := { pos := [(0, none), (1, some 1)], kwonly := [], varargs := false, varkw := false } }]
def exC1 : Spell := { fn := 0, recv := .none, args := [1], kw := [], th := 0 }
def exC2 : Spell := { fn := 0, recv := .none, args := [], kw := [(1, 1), (0, 1)], th := 0 }
def exOps : List Op := [.call exC1, .call exC2, .start 0, .call exC1, .suspend 0, .call exC2, .complete 0 (.val 0), .call exC1]

example :
    sigsOk exFns = true ∧ histOk exFns exOps = true ∧
    (run exFns St.init exOps).map (·.res) =
      [.ret 0 true, .ret 0 false, .binding { params := [1, 1], rest := [], extra := [] }, .ret 1 true, .unit,
       .ret 0 false, .unit, .ret 2 true] := by
  decide

/-- `histOk` is strictly weaker than `sigsOk`: a `*args` + `**kwargs` function called with ordinary values, and a
    positional-only signature without `**kwargs` -/
example :
    sigsOk (fnsOf pairSig) = false ∧ histOk (fnsOf pairSig) [.call (spOf [1, 2] [(6, 1)]), .dirty (spOf [1] [])] = true ∧
    sigsOk (fnsOf { poSig with varkw := false }) = true := by
  decide

/-- the former stale-completion history: the completion of the old task 0 leaves task 1 registered, the last call
    gets task 1, and the observer accepts -/
example :
    (run cexFns St.init cexOps).map (·.res) = [.ret 0 true, .unit, .ret 1 true, .unit, .ret 1 false] ∧
    spec cexFns (run cexFns St.init cexOps) = true := by
  decide

/-- the observer is not trivially true: it rejects that history if the last call gets a third task -/
example :
    spec cexFns [{ op := .call cexCall, res := .ret 0 true, size := 1 }, { op := .dirty cexCall, res := .unit, size := 0 },
      { op := .call cexCall, res := .ret 1 true, size := 1 }, { op := .complete 0 (.val 0), res := .unit, size := 0 },
      { op := .call cexCall, res := .ret 2 true, size := 1 }] = false := by
  decide

/-- the observer is not trivially true: it rejects a history in which the second caller gets its own task -/
example :
    spec cexFns [{ op := .call cexCall, res := .ret 0 true, size := 1 }, { op := .call cexCall, res := .ret 1 true, size := 1 }] = false := by
  decide

/-! ### the wrong observations listed by the independent audit (B3) are rejected -/

def thC' (th : Nat) : Spell := { fn := 0, recv := .none, args := [1], kw := [], th := th }
/-- `f()`: does not bind (p0 missing), the keygetter raises -/
def badDirty : Spell := { fn := 0, recv := .none, args := [], kw := [], th := 0 }
/-- `f(1, 2)`: does not bind (too many), but the keygetter answers `(1, 2)` and dirty() returns normally -/
def oddDirty : Spell := { fn := 0, recv := .none, args := [1, 2], kw := [], th := 0 }

/-- after a dirty() with arguments that do not bind and that RAISED, the observer goes on judging: the second caller
    still has to get task 0 (this history was accepted before: the observer had given up for good) -/
example :
    specClause cexFns [{ op := .call cexCall, res := .ret 0 true, size := 1 }, { op := .dirty badDirty, res := .typeError, size := 1 },
      { op := .call cexCall, res := .ret 1 true, size := 1 }] = "shared@call" ∧
    (run cexFns St.init [.call cexCall, .dirty badDirty, .call cexCall]).map (·.res) = [.ret 0 true, .typeError, .ret 0 false] ∧
    spec cexFns (run cexFns St.init [.call cexCall, .dirty badDirty, .call cexCall]) = true := by
  decide

/-- after a dirty() with arguments that do not bind and that did NOT raise, the next call may get task 0 or a new
    task - and from then on everything is determined again: a third task is rejected in both continuations -/
example :
    spec cexFns [{ op := .call cexCall, res := .ret 0 true, size := 1 }, { op := .dirty oddDirty, res := .unit, size := 1 },
      { op := .call cexCall, res := .ret 0 false, size := 1 }] = true ∧
    spec cexFns [{ op := .call cexCall, res := .ret 0 true, size := 1 }, { op := .dirty oddDirty, res := .unit, size := 1 },
      { op := .call cexCall, res := .ret 1 true, size := 1 }] = true ∧
    specClause cexFns [{ op := .call cexCall, res := .ret 0 true, size := 1 }, { op := .dirty oddDirty, res := .unit, size := 1 },
      { op := .call cexCall, res := .ret 0 false, size := 1 }, { op := .call cexCall, res := .ret 1 true, size := 2 }] = "shared@call" ∧
    specClause cexFns [{ op := .call cexCall, res := .ret 0 true, size := 1 }, { op := .dirty oddDirty, res := .unit, size := 1 },
      { op := .call cexCall, res := .ret 1 true, size := 1 }, { op := .call cexCall, res := .ret 2 true, size := 2 }] = "shared@call" ∧
    specClause cexFns [{ op := .call cexCall, res := .ret 0 true, size := 1 }, { op := .dirty oddDirty, res := .unit, size := 1 },
      { op := .call cexCall, res := .ret 1 true, size := 1 }, { op := .call cexCall, res := .ret 0 false, size := 2 }] = "shared@call" ∧
    -- calls of ANOTHER thread are not affected by it at all
    specClause cexFns [{ op := .call (thC' 1), res := .ret 0 true, size := 1 }, { op := .dirty oddDirty, res := .unit, size := 1 },
      { op := .call (thC' 1), res := .ret 1 true, size := 2 }] = "shared@call" := by
  decide

/-- the body of one task started twice is rejected; the model answers the second start `bad` -/
example :
    specClause cexFns [{ op := .call cexCall, res := .ret 0 true, size := 1 },
      { op := .start 0, res := .binding { params := [1], rest := [], extra := [] }, size := 1 },
      { op := .start 0, res := .binding { params := [1], rest := [], extra := [] }, size := 1 }] = "started-twice@start" ∧
    (run cexFns St.init [.call cexCall, .start 0, .start 0]).map (·.res) =
      [.ret 0 true, .binding { params := [1], rest := [], extra := [] }, .bad] ∧
    bodyStarts 0 (run cexFns St.init [.call cexCall, .start 0, .start 0, .suspend 0, .start 0]) = 1 := by
  decide

/-- further wrong observations the former observer accepted: a call from inside the running body answered with the
    task of ANOTHER function; anything at all for an unknown function / task; a second completion; `suspend` /
    `complete` answered with something else than `unit`; a well-formed call that raises inside the running body -/
example :
    specClause (cexFns ++ cexFns) [{ op := .call cexCall, res := .ret 0 true, size := 1 },
      { op := .call { cexCall with fn := 1 }, res := .ret 1 true, size := 2 },
      { op := .start 0, res := .binding { params := [1], rest := [], extra := [] }, size := 2 },
      { op := .call cexCall, res := .ret 1 false, size := 2 }] = "shared@call" ∧
    specClause cexFns [{ op := .call { cexCall with fn := 5 }, res := .ret 3 false, size := 1 }] = "unknown-function@call" ∧
    specClause cexFns [{ op := .start 7, res := .binding { params := [1], rest := [], extra := [] }, size := 0 }] = "unknown-task@start" ∧
    specClause cexFns [{ op := .call cexCall, res := .ret 0 true, size := 1 }, { op := .complete 0 (.val 0), res := .unit, size := 0 },
      { op := .complete 0 (.val 1), res := .unit, size := 0 }] = "completed-twice@complete" ∧
    specClause cexFns [{ op := .call cexCall, res := .ret 0 true, size := 1 },
      { op := .start 0, res := .binding { params := [1], rest := [], extra := [] }, size := 1 }, { op := .suspend 0, res := .bad, size := 1 }]
      = "schedule-result@suspend" ∧
    specClause cexFns [{ op := .call cexCall, res := .ret 0 true, size := 1 },
      { op := .start 0, res := .binding { params := [1], rest := [], extra := [] }, size := 1 },
      { op := .call cexCall, res := .typeError, size := 1 }] = "valid-call-raised@call" := by
  decide

/-- `len(DeduplicateDecorator.tasks)` is judged too: one call cannot add more than one entry, a call answered with an
    existing task adds none, a completion does not add any, scheduling leaves the size alone -/
example :
    specClause cexFns [{ op := .call cexCall, res := .ret 0 true, size := 12345 }] = "size@call" ∧
    specClause cexFns [{ op := .call cexCall, res := .ret 0 true, size := 1 }, { op := .call cexCall, res := .ret 0 false, size := 0 }]
      = "size@call" ∧
    specClause cexFns [{ op := .call cexCall, res := .ret 0 true, size := 1 }, { op := .complete 0 (.val 0), res := .unit, size := 2 }]
      = "size@complete" ∧
    specClause cexFns [{ op := .call cexCall, res := .ret 0 true, size := 1 },
      { op := .start 0, res := .binding { params := [1], rest := [], extra := [] }, size := 0 }] = "size@start" := by
  decide

/-- the three conflations carry their own clause names (stable signatures), and a failure on such a signature that
    is NOT a conflation keeps its own name: `g(1)` twice on `def g(p0, /, **extra)` with a second task is "shared" -/
example :
    specClause (fnsOf cexSig) (run (fnsOf cexSig) St.init [.call (spOf [1, 2] []), .call (spOf [1] [(1, 2)])]) = "varargs-kwonly@call" ∧
    specClause (fnsOf poSig) (run (fnsOf poSig) St.init [.call (spOf [1] [(0, 2)]), .call (spOf [1] [])]) = "posonly-varkw@call" ∧
    specClause (fnsOf pairSig) (run (fnsOf pairSig) St.init [.call (spOf [pairTok 6 1] []), .call (spOf [] [(6, 1)])])
      = "varargs-varkw-pair@call" ∧
    specClause (fnsOf poSig) [{ op := .call (spOf [1] []), res := .ret 0 true, size := 1 },
      { op := .call (spOf [1] []), res := .ret 1 true, size := 1 }] = "shared@call" ∧
    specClause (fnsOf pairSig) [{ op := .call (spOf [1] []), res := .ret 0 true, size := 1 },
      { op := .call (spOf [1] []), res := .ret 1 true, size := 1 }] = "shared@call" := by
  decide

/-- threads and fan-out: thread 1 leaves key (1) in flight and ends; a later thread 4 (a different token) gets its own
    task; three more keys go in flight; thread 4 asks again and shares its own task 1 -/
def thC (th v : Nat) : Spell := { fn := 0, recv := .none, args := [v], kw := [], th := th }
def thOps : List Op := [.call (thC 1 1), .threadEnd 1, .call (thC 4 1), .call (thC 4 2), .call (thC 4 3), .call (thC 0 1),
  .call (thC 4 1)]

example :
    (run cexFns St.init thOps).map (·.res) =
      [.ret 0 true, .unit, .ret 1 true, .ret 2 true, .ret 3 true, .ret 4 true, .ret 1 false] ∧
    spec cexFns (run cexFns St.init thOps) = true ∧
    avoids cexFns { tup := [.v 1], th := 1, fn := 0 } (finalState cexFns St.init [.call (thC 1 1)]) (thOps.drop 1) = true := by
  decide

/-- the observer rejects the history in which the later thread 4 is handed the task of the finished thread 1 -/
example :
    spec cexFns [{ op := .call (thC 1 1), res := .ret 0 true, size := 1 }, { op := .threadEnd 1, res := .unit, size := 1 },
      { op := .call (thC 4 1), res := .ret 0 false, size := 1 }] = false := by
  decide

/-- the hypotheses of the period theorems are satisfiable by a history that is NOT `avoids` (it calls the key itself,
    runs and suspends its task, dirties and completes other keys): `calm` holds, `avoids` does not, and the call
    after it is answered with task 0 -/
def calmOps : List Op := [.call (thC 0 1), .start 0, .call (thC 0 1), .suspend 0, .call (thC 0 2), .dirty (thC 0 2),
  .call (thC 0 2), .complete 2 (.val 0), .threadEnd 3, .call (thC 0 1)]

example :
    mget (finalState cexFns St.init [.call (thC 0 1)]).table { tup := [.v 1], th := 0, fn := 0 } = some 0 ∧
    calm cexFns { tup := [.v 1], th := 0, fn := 0 } 0 calmOps = true ∧
    avoids cexFns { tup := [.v 1], th := 0, fn := 0 } (finalState cexFns St.init [.call (thC 0 1)]) calmOps = false ∧
    callKey cexFns (thC 0 1) = some { tup := [.v 1], th := 0, fn := 0 } ∧
    (run cexFns (finalState cexFns St.init [.call (thC 0 1)]) calmOps).map (·.res) =
      [.ret 0 false, .binding { params := [1], rest := [], extra := [] }, .ret 1 true, .unit, .ret 2 true, .unit,
       .ret 3 true, .unit, .unit, .ret 0 false] := by
  decide

/-- `C12_rerun_after_complete`, `C12_rerun_after_dirty`, `C12_running_escape_private`, `C12_completion_keeps_newer`,
    `C12_instances_disjoint` instantiated (their hypotheses are satisfiable) -/
example := C12_rerun_after_complete cexFns [.call cexCall] cexCall cexFns[0] [.v 1] 0 (.err 3) { params := [1], rest := [], extra := [] }
  (by decide) (by decide) (by decide) (by decide)
example := C12_rerun_after_dirty cexFns (finalState cexFns St.init [.call cexCall]) cexCall cexCall cexFns[0] [.v 1]
  { params := [1], rest := [], extra := [] } (by decide) (by decide) (by decide) rfl rfl (by decide)
example := C12_running_escape_private cexFns (finalState cexFns St.init [.call cexCall, .start 0]) cexCall cexFns[0] [.v 1] 0
  { key := { tup := [.v 1], th := 0, fn := 0 }, b := { params := [1], rest := [], extra := [] }, reg := true, started := true,
    running := true, out := none }
  { params := [1], rest := [], extra := [] } (by decide) (by decide) (by decide) (by decide) (by decide) (by decide)
example := C12_completion_keeps_newer cexFns (finalState cexFns St.init [.call cexCall, .dirty cexCall, .call cexCall]) 0 1
  { key := { tup := [.v 1], th := 0, fn := 0 }, b := { params := [1], rest := [], extra := [] }, reg := true, started := false,
    running := false, out := none } (.val 0) (by decide) (by decide) (by decide)
def mD : FnDecl := { kind := .method, sig := { pos := [(0, none), (1, none)], kwonly := [], varargs := false, varkw := false } }
example := C12_instances_disjoint mD { fn := 0, recv := .inst 100, args := [1], kw := [], th := 0 }
  { fn := 0, recv := .inst 101, args := [1], kw := [], th := 0 } 100 101
  [.v 100, .v 1] [.v 101, .v 1] rfl rfl rfl (by decide) (by decide) (by decide)
example : (step cexFns (finalState cexFns St.init [.call cexCall]) (.call cexCall)).2 = .ret 0 false := by decide

/-! ## feature interactions: events of other features, and one decorator object applied to several functions -/

def isForeign : Op → Bool
  | .outside _ | .threadEnd _ | .start _ | .resume _ _ | .suspend _ => true
  | _ => false

/-- **an in-flight call survives everything that is not its own end**: after ANY number of events of other features
    (`outside`: asyncio-mode use, option switches, mock patches, copies, garbage collections), thread ends and scheduling
    steps of any task, a call with the key of the in-flight, non-running task `t0` is still answered with `t0` and creates
    nothing -/
theorem C12_inflight_survives_outside (fns : List FnDecl) (s : St) (c : Spell) (d : FnDecl) (tup : List KeyElem)
    (t0 : Nat) (ops : List Op)
    (hd : fns[c.fn]? = some d) (hk : d.sig.key (effArgs d c) c.kw = .ok tup)
    (hm : mget s.table { tup := tup, th := c.th, fn := c.fn } = some t0)
    (hf : ops.all isForeign = true) :
    mget (finalState fns s ops).table { tup := tup, th := c.th, fn := c.fn } = some t0 ∧
    ∀ task, (finalState fns s ops).tasks[t0]? = some task → task.running = false →
      step fns (finalState fns s ops) (.call c) = (finalState fns s ops, .ret t0 false) := by
  have hcalm : calm fns { tup := tup, th := c.th, fn := c.fn } t0 ops = true := by
    simp only [calm, List.all_eq_true] at hf ⊢
    intro op hop
    have := hf op hop
    cases op <;> simp_all [isForeign, calmOp]
  have hkeep := calm_keeps fns _ t0 ops s hm hcalm
  refine ⟨hkeep, ?_⟩
  intro task ht hr
  simp [step, hd, hk, hkeep, ht, hr]

/-- (BY CONSTRUCTION of `DecoObj.apply`, which returns the object it was given and `.ofSig s`: this theorem and the
    next say that the MODEL's decoration phase does not leak; that the CODE's does not is observed by the harness -
    `kg` probes: the keygetter each real decorated function carries is applied to probe arguments and compared with the
    keygetter the model's decoration phase gives that function, `KgProbe.agrees`; seed C12-8 fails there.)
    One decorator object, several functions (tools.py:420-431): however many functions the objects made by
    `deduplicate()` / `deduplicate(keygetter=None)` are applied to, in whatever order and grouping, every application
    hands `DeduplicateDecorator` the keygetter derived from the signature of the function BEING decorated, and the
    objects are unchanged afterwards (nothing leaks from one application to the next) -/
theorem C12_keygetter_per_function (objs : List DecoObj) (apps : List (Nat × Sig))
    (hdef : allDefault objs = true) (hi : ∀ a ∈ apps, a.1 < objs.length) :
    decorateAll objs apps = (objs, apps.map fun a => some (.ofSig a.2)) := by
  induction apps with
  | nil => rfl
  | cons a r ih =>
    obtain ⟨i, sg⟩ := a
    have hlt : i < objs.length := hi (i, sg) (by simp)
    have ho : objs[i]? = some objs[i] := List.getElem?_eq_getElem hlt
    have hcap : (objs[i]).captured = none := by
      simp only [allDefault, List.all_eq_true] at hdef
      have := hdef objs[i] (List.getElem_mem hlt)
      simpa [Option.isNone_iff_eq_none] using this
    have hset : setObj objs i objs[i] = objs := by simp [setObj]
    have ih' := ih (fun a ha => hi a (by simp [ha]))
    simp only [decorateAll, ho, DecoObj.apply, hcap, hset, ih', List.map_cons]

/-- (BY CONSTRUCTION, see above) the model agrees with itself: with default objects the keygetters of the decoration phase are the `Sig.key` of
    each function's own signature, which is what `step` uses (`keyFnsAgree`, evaluated by the driver on every case) -/
theorem C12_decoration_agrees_with_step (objs : List DecoObj) (fns : List FnDecl) (grp : List Nat)
    (hdef : allDefault objs = true) (hlen : grp.length = fns.length) (hi : ∀ g ∈ grp, g < objs.length) :
    keyFnsAgree fns (decorateAll objs (grp.zip (fns.map (·.sig)))).2 = true := by
  have h := C12_keygetter_per_function objs (grp.zip (fns.map (·.sig))) hdef
    (fun a ha => hi a.1 (List.of_mem_zip ha).1)
  rw [h]
  simp only [keyFnsAgree, beq_iff_eq]
  have : (grp.zip (fns.map (·.sig))).map (fun a => a.2) = fns.map (·.sig) := by
    rw [← List.unzip_snd, List.unzip_zip_right] <;> simp [hlen]
  calc (grp.zip (fns.map (·.sig))).map (fun a => some (KeyFn.ofSig a.2))
      = ((grp.zip (fns.map (·.sig))).map (fun a => a.2)).map (fun sg => some (KeyFn.ofSig sg)) := by simp
    _ = fns.map fun d => some (KeyFn.ofSig d.sig) := by rw [this]; simp

/-- contrast (NOT the code): a decorator whose application ASSIGNS the default it derived to the captured cell
    (`nonlocal keygetter`) - the first function it decorates fixes the keygetter of all later ones -/
def DecoObj.applySticky (o : DecoObj) (s : Sig) : DecoObj × KeyFn :=
  match o.captured with
  | some g => (o, g)
  | none => ({ captured := some (.ofSig s) }, .ofSig s)

def decorateAllSticky (objs : List DecoObj) : List (Nat × Sig) → List DecoObj × List (Option KeyFn)
  | [] => (objs, [])
  | (i, s) :: r =>
    match objs[i]? with
    | none => let (objs', ks) := decorateAllSticky objs r; (objs', none :: ks)
    | some o =>
      let (o', k) := o.applySticky s
      let (objs', ks) := decorateAllSticky (setObj objs i o') r
      (objs', some k :: ks)

def sgA : Sig := { pos := [(0, none), (1, some 0)], kwonly := [], varargs := false, varkw := false }
def sgB : Sig := { pos := [(2, none), (3, some 1), (4, some 2)], kwonly := [], varargs := false, varkw := false }

/-- non-vacuity: one object on two functions gives two different keygetters; two objects in any grouping likewise; the
    sticky variant does not (and its keygetter conflates `g("s", 0)` with `g("s")`, page default 1, as in seed C12-8) -/
example :
    (decorateAll [{ captured := none }] [(0, sgA), (0, sgB)]).2 = [some (.ofSig sgA), some (.ofSig sgB)] ∧
    (decorateAll [{ captured := none }, { captured := none }] [(1, sgB), (0, sgA), (1, sgA)]).2
      = [some (.ofSig sgB), some (.ofSig sgA), some (.ofSig sgA)] ∧
    keyFnsAgree [{ kind := .func, sig := sgA }, { kind := .func, sig := sgB }]
      (decorateAll [{ captured := none }] [(0, sgA), (0, sgB)]).2 = true ∧
    (decorateAllSticky [{ captured := none }] [(0, sgA), (0, sgB)]).2 = [some (.ofSig sgA), some (.ofSig sgA)] ∧
    keyFnsAgree [{ kind := .func, sig := sgA }, { kind := .func, sig := sgB }]
      (decorateAllSticky [{ captured := none }] [(0, sgA), (0, sgB)]).2 = false ∧
    sgA.key [7, 0] [] = sgA.key [7] [] ∧ sgB.key [7, 0] [] ≠ sgB.key [7] [] := by
  decide

/-- non-vacuity of `C12_inflight_survives_outside`: key (1) goes in flight, its body runs and suspends, the function is
    used in asyncio mode, an option is switched, a thread ends - the next call is answered with task 0; and the observer
    rejects an `outside` event that changes the table size -/
def outOps : List Op := [.start 0, .outside 1, .suspend 0, .outside 2, .threadEnd 3, .outside 5]

example :
    outOps.all isForeign = true ∧
    (run cexFns St.init (.call (thC 0 1) :: outOps ++ [.call (thC 0 1)])).map (·.res) =
      [.ret 0 true, .binding { params := [1], rest := [], extra := [] }, .unit, .unit, .unit, .unit, .unit, .ret 0 false] ∧
    spec cexFns (run cexFns St.init (.call (thC 0 1) :: outOps ++ [.call (thC 0 1)])) = true ∧
    specClause cexFns [{ op := .call (thC 0 1), res := .ret 0 true, size := 1 }, { op := .outside 1, res := .unit, size := 2 }]
      = "size@outside" ∧
    specClause cexFns [{ op := .call (thC 0 1), res := .ret 0 true, size := 1 }, { op := .outside 1, res := .unit, size := 0 }]
      = "size@outside" ∧
    specClause cexFns [{ op := .call (thC 0 1), res := .ret 0 true, size := 1 }, { op := .outside 1, res := .unit, size := 1 },
      { op := .call (thC 0 1), res := .ret 1 true, size := 1 }] = "shared@call" := by
  decide


/-! ### the wrong observations listed by the SECOND independent audit (F4 / N11) are rejected -/

def B1 : Binding := { params := [1], rest := [], extra := [] }

/-- (a) "all callers receive the same value or error": a reader that receives an error after the body returned a
    value, two readers that receive different values, a reader that receives something before the completion - all
    rejected; the model's own run (value and failure) is accepted -/
example :
    specClause cexFns [{ op := .call cexCall, res := .ret 0 true, size := 1 }, { op := .complete 0 (.val 0), res := .unit, size := 0 },
      { op := .await 0, res := .got (some (.err 77)), size := 0 }] = "received@await" ∧
    specClause cexFns [{ op := .call cexCall, res := .ret 0 true, size := 1 }, { op := .complete 0 (.val 0), res := .unit, size := 0 },
      { op := .await 0, res := .got (some (.val 0)), size := 0 }, { op := .await 0, res := .got (some (.val 1)), size := 0 }] = "received@await" ∧
    specClause cexFns [{ op := .call cexCall, res := .ret 0 true, size := 1 }, { op := .await 0, res := .got (some (.val 0)), size := 1 }]
      = "received@await" ∧
    (run cexFns St.init [.call cexCall, .await 0, .complete 0 (.err 3), .await 0, .call cexCall, .await 0]).map (·.res) =
      [.ret 0 true, .got none, .unit, .got (some (.err 3)), .ret 1 true, .got (some (.err 3))] ∧
    spec cexFns (run cexFns St.init [.call cexCall, .await 0, .complete 0 (.err 3), .await 0, .call cexCall, .await 0]) = true := by
  decide

/-- (b) `len(tasks)` is exact wherever the observer knows the entry: a stored creation that does not grow the table, a
    dirty() of one key that empties the whole table, a dirty() of a call with nothing in flight that removes an entry,
    a private task that grows the table, a completion that leaves its dead entry behind (with and without a later
    call) - all rejected -/
example :
    specClause cexFns [{ op := .call cexCall, res := .ret 0 true, size := 0 }] = "size@call" ∧
    specClause cexFns [{ op := .call (thC 0 1), res := .ret 0 true, size := 1 }, { op := .call (thC 0 2), res := .ret 1 true, size := 2 },
      { op := .dirty (thC 0 1), res := .unit, size := 0 }] = "size@dirty" ∧
    specClause cexFns [{ op := .call (thC 0 1), res := .ret 0 true, size := 1 }, { op := .dirty (thC 0 2), res := .unit, size := 0 }]
      = "size@dirty" ∧
    specClause cexFns [{ op := .call cexCall, res := .ret 0 true, size := 1 }, { op := .start 0, res := .binding B1, size := 1 },
      { op := .call cexCall, res := .ret 1 true, size := 2 }] = "size@call" ∧
    specClause cexFns [{ op := .call cexCall, res := .ret 0 true, size := 1 }, { op := .complete 0 (.val 0), res := .unit, size := 1 }]
      = "size@complete" ∧
    specClause cexFns [{ op := .call cexCall, res := .ret 0 true, size := 1 }, { op := .complete 0 (.val 0), res := .unit, size := 1 },
      { op := .call cexCall, res := .ret 0 false, size := 1 }] = "size@complete" ∧
    -- the completion of a dirtied task removes nothing
    specClause cexFns [{ op := .call cexCall, res := .ret 0 true, size := 1 }, { op := .dirty cexCall, res := .unit, size := 0 },
      { op := .call cexCall, res := .ret 1 true, size := 1 }, { op := .complete 0 (.val 0), res := .unit, size := 0 }] = "size@complete" := by
  decide

/-- (c) an ill-formed call answered with an existing task of ANOTHER key / thread is rejected; the model answers the
    ill-formed `f(1, 2)` with TypeError when nothing is stored under the key `(1, 2)` -/
example :
    specClause cexFns [{ op := .call (thC 3 9), res := .ret 0 true, size := 1 }, { op := .call oddDirty, res := .ret 0 false, size := 1 }]
      = "invalid-call-shared@call" ∧
    (run cexFns St.init [.call cexCall, .call oddDirty]).map (·.res) = [.ret 0 true, .typeError] := by
  decide

/-- (d) scheduling events of a task that never started are rejected (a dropped `start` line); the model answers `bad`.
    NOT rejected (documented in ASSUMPTIONS of checks/c12.py): a log that lost a `suspend` line - the later duplicate
    is taken for a call from inside the running body -/
example :
    specClause cexFns [{ op := .call cexCall, res := .ret 0 true, size := 1 }, { op := .resume 0 false, res := .unit, size := 1 },
      { op := .call cexCall, res := .ret 1 true, size := 1 }] = "not-started@resume" ∧
    specClause cexFns [{ op := .call cexCall, res := .ret 0 true, size := 1 }, { op := .suspend 0, res := .unit, size := 1 }]
      = "not-started@suspend" ∧
    (run cexFns St.init [.call cexCall, .resume 0 false, .call cexCall]).map (·.res) = [.ret 0 true, .bad, .ret 0 false] ∧
    specClause cexFns [{ op := .call cexCall, res := .ret 0 true, size := 1 }, { op := .start 0, res := .binding B1, size := 1 },
      { op := .call cexCall, res := .ret 1 true, size := 1 }, { op := .call cexCall, res := .ret 2 true, size := 1 }] = "ok" := by
  decide

/-- asyncio mode: an `.asynq()` answered with a task, or one that touches the table, is rejected; the model's run -
    two asyncio-mode calls of a key that is in flight - is accepted, shares nothing and the next asynq-mode call still
    gets task 0 -/
example :
    specClause cexFns [{ op := .call cexCall, res := .ret 0 true, size := 1 }, { op := .aioCall cexCall, res := .ret 0 false, size := 1 }]
      = "asyncio-mode-result@aioCall" ∧
    specClause cexFns [{ op := .call cexCall, res := .ret 0 true, size := 1 }, { op := .aioCall cexCall, res := .coro, size := 0 }]
      = "size@aioCall" ∧
    (run cexFns St.init [.call cexCall, .aioCall cexCall, .aioCall cexCall, .call cexCall]).map (·.res) =
      [.ret 0 true, .coro, .coro, .ret 0 false] ∧
    spec cexFns (run cexFns St.init [.call cexCall, .aioCall cexCall, .aioCall cexCall, .call cexCall]) = true := by
  decide

/-- `C12_same_outcome_for_all_callers` instantiated: two readers in a run -/
example := C12_same_outcome_for_all_callers cexFns [.call cexCall, .complete 0 (.err 3), .await 0, .call cexCall, .await 0]
  St.init 0 (.err 3) (.err 3) { op := .await 0, res := .got (some (.err 3)), size := 0 } { op := .await 0, res := .got (some (.err 3)), size := 1 }
  (by decide) (by decide) rfl rfl rfl rfl

/-- the per-call hypothesis at work: on the conflation-open signature `def g(p0, /, **extra)` a history WITHOUT a keyword
    named p0 satisfies `histOk`, the model's run passes `spec` (by `C12_spec_holds_partial`), and a duplicate there is
    still rejected as "shared" - the whole-signature hypothesis `Sig.flat` said nothing about this function -/
example :
    histOk (fnsOf poSig) [.call (spOf [1] [(5, 3)]), .call (spOf [1] [(5, 3)]), .dirty (spOf [1] []), .call (spOf [1] [])] = true ∧
    spec (fnsOf poSig) (run (fnsOf poSig) St.init [.call (spOf [1] [(5, 3)]), .call (spOf [1] [(5, 3)]), .dirty (spOf [1] []), .call (spOf [1] [])]) = true :=
  ⟨by decide, C12_spec_holds_partial _ _ (by decide)⟩

/-- the decoration phase is OBSERVED: probes of the real keygetters (`KgProbe`) are explained by the keygetter of the
    function's own signature and NOT by the keygetter a sticky decorator (seed C12-8) would hand to the second function:
    `g(7)` with `def g(p2, p3=1, p4=2)` has the key `(7, 1, 2)`, the first function's keygetter answers `(7, 0)` -/
example :
    ({ fn := 1, args := [7], kw := [], ans := some [7, 1, 2] } : KgProbe).agrees (.ofSig sgB) = true ∧
    ({ fn := 1, args := [7], kw := [], ans := some [7, 0] } : KgProbe).agrees (.ofSig sgB) = false ∧
    ({ fn := 1, args := [7], kw := [], ans := some [7, 0] } : KgProbe).agrees (.ofSig sgA) = true ∧
    ({ fn := 1, args := [], kw := [], ans := none } : KgProbe).agrees (.ofSig sgB) = true ∧
    ({ fn := 0, args := [], kw := [(6, 1)], ans := some [pairTok 6 1] } : KgProbe).agrees (.ofSig pairSig) = true := by
  decide

/-- necessity of `calm` (hypothesis of the period theorems): a dirty() of the key, or the completion of `t0`, ends the
    period - the entry is gone; and of "not executing" in `C12_shared_while_calm`: while the body of task 0 executes the
    call is answered with a new private task -/
example :
    calm cexFns { tup := [.v 1], th := 0, fn := 0 } 0 [.dirty cexCall] = false ∧
    mget (finalState cexFns St.init [.call cexCall, .dirty cexCall]).table { tup := [.v 1], th := 0, fn := 0 } = none ∧
    calm cexFns { tup := [.v 1], th := 0, fn := 0 } 0 [.complete 0 (.val 0)] = false ∧
    mget (finalState cexFns St.init [.call cexCall, .complete 0 (.val 0)]).table { tup := [.v 1], th := 0, fn := 0 } = none ∧
    (step cexFns (finalState cexFns St.init [.call cexCall, .start 0]) (.call cexCall)).2 = .ret 1 true := by
  decide

end AsynqModel.Dedup
