import AsynqModel.Proofs.P5Final
import AsynqModel.Proofs.P5NonAsync
/-!
# C06  An AsyncContext is active exactly while its task, or work it awaits, runs

Theorems about every reachable state of the core machine (`Reach s`).  They are consequences of the invariant
`P5.I` (Proofs/P5*.lean), which holds on ALL reachable states - also stuck ones and after the
MAX_TASK_STACK_SIZE guard has fired; so no hypothesis `s.stuck = none` / `s.guardFired = false` is needed except
where a theorem talks about what `step` does (`step` of a stuck state is the identity).

Vocabulary: `P5.ctxWord tr c : List Bool` - the resume (`true`) / pause (`false`) events of context `c` in the trace
`tr`, oldest first; `P5.alternating w` - `w` starts with a resume and no two consecutive entries are equal;
`P5.resumedD s c` - the ghost flag `resumed` of context `c` (false if `c` does not exist).
-/
namespace AsynqModel.Core
open P5

/-- **C06_flags**: the two pre-validated candidate invariants hold on every reachable state: a registered context that
    is not a NonAsyncContext is resumed iff the contexts of the task it registered with are active, and a task whose
    generator is running has its contexts active. -/
theorem C06_flags (s : State) (h : Reach s) : Inv.ctxFlags s = true ∧ Inv.runningCtxActive s = true :=
  ⟨ctxFlags_of_J (I_reach h).j, runningCtxActive_of_G (I_reach h).g⟩

/-- the same in logical form, and stronger: a registered context exists, is registered with the task that owns it,
    and (unless NonAsync) its flag equals `_contexts_active` of that task; a running task has its contexts active
    (without the escape "or is computed" of `Inv.runningCtxActive`), so has the scheduler's active task; and a task
    between the two visits of `_handle_async_task` (dependencies scheduled) has its contexts active: contexts stay
    active while the work the task awaits runs. -/
theorem C06_flags_strong (s : State) (h : Reach s) :
    (∀ t c, c ∈ (s.task t).ctxs → ∃ x : CtxSt, s.ctxs[c]? = some x ∧ x.owner = some t ∧
      (x.kind = .nonasync ∨ x.resumed = (s.task t).ctxActive)) ∧
    (∀ t old, (t, old) ∈ Inv.gensOf s.ctl → (s.task t).ctxActive = true) ∧
    (∀ a, s.active = some a → (s.task a).ctxActive = true) ∧
    (∀ t, (s.task t).depsSched = true → (s.task t).ctxActive = true) := by
  have i := I_reach h
  refine ⟨?_, fun t old hm => (i.g.gens t old hm).2.1, fun a ha => (i.g.active_mem a ha).2, i.d⟩
  intro t c hc
  obtain ⟨x, hx, hxo, hxr⟩ := i.j.reg t c hc
  exact ⟨x, hx, hxo, by simpa using hxr⟩

/-- **C06_alternate**: for every context `c` the resume/pause events in the trace strictly alternate, starting with a
    resume; the newest of them agrees with the ghost flag; each of them comes after the creation event `.ctxN c ..`;
    and before an exit event `.ctxX c` the newest of them (if any: a NonAsyncContext has none) is a pause. -/
theorem C06_alternate (s : State) (h : Reach s) (c : Nat) :
    alternating (ctxWord s.trace c) = true ∧
    (ctxWord s.trace c).getLast?.getD false = resumedD s c ∧
    (∀ post pre b, s.trace = post ++ .ctx b c :: pre → ∃ t k, Event.ctxN c t k ∈ pre) ∧
    (∀ post pre, s.trace = post ++ .ctxX c :: pre → (ctxWord pre c).getLast? ≠ some true) := by
  have j := (I_reach h).j
  refine ⟨?_, ?_, ?_, ?_⟩
  · unfold ctxWord; rw [← goodRev_eq]; exact j.good c
  · unfold ctxWord; rw [List.getLast?_reverse]; exact j.head c
  · intro post pre b htr
    have := j.after c
    rw [htr] at this
    exact afterNew_split c post pre _ this b rfl
  · intro post pre htr
    have := j.exit c
    rw [htr] at this
    unfold ctxWord; rw [List.getLast?_reverse]
    exact exitOK_split c post pre this

/-- **C06_nonasync_fails**: the step in which a blocked task is suspended (second visit of `_handle_async_task`:
    it is on top of the stack inside `_execute`, some dependency is uncomputed and the dependencies were scheduled)
    while one of its registered contexts is a NonAsyncContext completes that task, if uncomputed, with the
    AssertionError of `NonAsyncContext.pause()`, and logs the completion. -/
theorem C06_nonasync_fails (s : State) (h : Reach s) (hs : s.stuck = none) (root base t : Nat) (rest : List Ctl)
    (stk : List Nat) (hctl : s.ctl = .waitLoop root base :: rest) (hr : s.raising = none) (hst : s.stack = t :: stk)
    (hlen : s.stack.length > base) (hg : ¬ s.stack.length > s.cfg.maxStack)
    (hk : (s.fut t).kind = .task) (hc : s.computed t = false)
    (hb : (s.task t).deps.any (fun d => !s.computed d) = true) (hsched : (s.task t).depsSched = true)
    (hna : (s.task t).ctxs.any s.ctxIsNonAsync = true) :
    (step s).out t = some (.err .nonasync) ∧ ∃ tr, (step s).trace = .done t (.err .nonasync) :: tr := by
  rw [step_eq_handleTask s hs root base t rest stk hctl hr hst hlen hg hc hk]
  exact handleTask_nonasync s t (lt_of_kind_task s t hk) hb hsched ((I_reach h).d t hsched) hc hna

/-- conversely: `failSuspended _ .nonasync` is called only by `resumeContexts` / `pauseContexts`, and only for a task
    with a registered NonAsyncContext: for any other task these two functions complete no future at all -/
theorem C06_nonasync_only (s : State) (t : Nat) (hna : (s.task t).ctxs.any s.ctxIsNonAsync = false) (f : Nat) :
    (s.resumeContexts t).out f = s.out f ∧ (s.pauseContexts t).out f = s.out f :=
  ⟨resumeContexts_out s t hna f, pauseContexts_out s t hna f⟩

/-! ### non-vacuity -/

/-- a task with two nested overrides of the same variable that blocks on a batch item -/
def C06_prog : Body :=
  .withCtx (.override 1 10)
    (.withCtx (.override 1 20)
      (.item 0 5 .ok (.yld (.f (.own 0)) (.read 1 .endwith) (.raise 0)))
      (.read 1 .endwith))
    (.read 1 (.ret 7))

def C06_final : State := runFuel 200 (initState {} [(.value, C06_prog)] [])

/-- the run finishes, is not stuck, and the context events are R0 R1 P1 P0 (suspended) R0 R1 (continued) P1 P0 (exits) -/
example : C06_final.isDone = true ∧ C06_final.stuck = none ∧
    (C06_final.trace.reverse.filterMap fun e => match e with | .ctx b c => some (b, c) | _ => none) =
      [(true, 0), (true, 1), (false, 1), (false, 0), (true, 0), (true, 1), (false, 1), (false, 0)] := by decide
example : ctxWord C06_final.trace 0 = [true, false, true, false] ∧ ctxWord C06_final.trace 1 = [true, false, true, false] ∧
    Event.ctxX 0 ∈ C06_final.trace ∧ Event.ctxX 1 ∈ C06_final.trace := by decide
/-- `alternating` is not trivially true -/
example : alternating [true, false, true] = true ∧ alternating [true, true] = false ∧ alternating [false] = false ∧
    alternating [true, false, false] = false := by decide
/-- a state with running task, registered and resumed contexts (after 6 steps the task is inside both with-blocks) -/
example : let s := runFuel 6 (initState {} [(.value, C06_prog)] [])
    s.ctl = [.gen 0 none, .waitLoop 0 0] ∧ (s.task 0).ctxs = [0, 1] ∧ (s.task 0).ctxActive = true ∧
    resumedD s 0 = true ∧ resumedD s 1 = true := by decide

/-- a task that blocks inside a NonAsyncContext -/
def C06_progNA : Body :=
  .withCtx .nonasync (.item 0 5 .ok (.yld (.f (.own 0)) .endwith (.raise 3))) (.ret 7)

/-- the hypotheses of `C06_nonasync_fails` hold after 9 steps, and the next step fails the task -/
example : let s := runFuel 9 (initState {} [(.value, C06_progNA)] [])
    s.stuck = none ∧ s.ctl = [.waitLoop 0 0] ∧ s.raising = none ∧ s.stack = [0] ∧ (s.fut 0).kind = .task ∧
    s.computed 0 = false ∧ (s.task 0).deps.any (fun d => !s.computed d) = true ∧ (s.task 0).depsSched = true ∧
    (s.task 0).ctxs.any s.ctxIsNonAsync = true ∧ (step s).out 0 = some (.err .nonasync) := by decide

end AsynqModel.Core
