import AsynqModel.Lib.Debug
/-!
# C18: the hypothesis `stackSafe` of `C18_glue_refines_partial` is exactly what is needed

Checked by kernel evaluation on all small chains (a finite check - a test in the kernel, not a theorem over all
chains; kept in its own file because it evaluates about 4000 runs of the model).
-/
namespace AsynqModel.Debug

def smallAlphabet : List Level :=
  [Await.yld, Await.sync].flatMap fun a => [Handler.pass, .named, .raiseNew 1, .swallow].flatMap fun h =>
    [none, some 0].flatMap fun o => [false, true].map fun orp => ⟨a, h, o, orp⟩

def smallChains : List (List Level) :=
  smallAlphabet.map (fun x => [x]) ++ smallAlphabet.flatMap fun x => smallAlphabet.map fun y => [x, y]

set_option maxRecDepth 1000000 in
/-- for EVERY chain of depth 1 and 2 over await x {none, raise e, raise New, swallow} x own raise x orphan and every
    bottom kind, under the frame rule of the code as it is: the model's observation is the reference one IF AND ONLY IF
    `stackSafe` holds (so the hypothesis of `C18_glue_refines_partial` is not stronger than needed there, and each of
    the chains it excludes is a genuine counterexample) -/
theorem C18_stackSafe_exact_small :
    ([Bottom.none, .errFuture, .hook false 1].all fun b =>
      smallChains.all fun c => (runTop .deepest b c == refTop b c) == stackSafe b 0 c) = true := by
  decide

def rejectSmallOK (b : Bottom) (c : List Level) : Bool :=
  let m := runTopC .rejects .own b c
  let r := rejectClause .own b c m
  if m == refTop b c then r == "ok" else r == "exception-rejecting-attributes-traceback-incomplete"

set_option maxRecDepth 1000000 in
set_option maxHeartbeats 1000000 in
/-- on EVERY chain of depth 1 and 2 of the small alphabet and every bottom kind the model of the repaired code for
    rejecting exception classes deviates from the reference in nothing but the recorded incomplete traceback: the
    observer answers "ok" or the recorded name, and "ok" exactly when the observation IS the reference one (finite
    kernel check; for longer chains SPECM of the run) -/
theorem C18_reject_repaired_small :
    ([Bottom.none, .errFuture, .hook false 1].all fun b => smallChains.all fun c => rejectSmallOK b c) = true := by
  decide

end AsynqModel.Debug
