import AsynqModel.Lib.Debug
/-!
# C18: the hypothesis `stackSafe` of `C18_glue_refines_partial` is exactly what is needed

Checked by kernel evaluation on all small chains (a finite check - a test in the kernel, not a theorem over all
chains; kept in its own file because it evaluates about 4000 runs of the model).
-/
namespace AsynqModel.Debug

def smallAlphabet : List Level :=
  [Await.yld, Await.sync].flatMap fun a => [Handler.pass, .named, .raiseNew 1, .swallow].flatMap fun h =>
    [none, some 0].flatMap fun o => [false, true].map fun orp => ⟨a, h, o, orp⟩

def smallChains : List (List Level) :=
  smallAlphabet.map (fun x => [x]) ++ smallAlphabet.flatMap fun x => smallAlphabet.map fun y => [x, y]

set_option maxRecDepth 1000000 in
/-- for EVERY chain of depth 1 and 2 over await x {none, raise e, raise New, swallow} x own raise x orphan and every
    bottom kind, under the frame rule of the code as it is: the model's observation is the reference one IF AND ONLY IF
    `stackSafe` holds (so the hypothesis of `C18_glue_refines_partial` is not stronger than needed there, and each of
    the chains it excludes is a genuine counterexample) -/
theorem C18_stackSafe_exact_small :
    ([Bottom.none, .errFuture, .hook false 1].all fun b =>
      smallChains.all fun c => (runTop .deepest b c == refTop b c) == stackSafe b 0 c) = true := by
  decide

end AsynqModel.Debug
